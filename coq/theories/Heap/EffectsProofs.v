(* C07 - proofs about the effect skeletons of Heap/Effects.v.

   1. frame / closure calculus: every structural operation `step` of Forest.v whose operands lie in a
      link-closed region A writes only entries of A and keeps A link-closed (step_ok, run_ok) - for
      every operation, invalid arguments and injected hook failures (rollback paths) included;
   2. deep_copy: the copy lives on ids >= size s, is isomorphic to the source component and leaves
      every source entry as it was;
   3. the skeleton of each listed API function leaves every entry of the input heap unchanged and
      returns a node from which only fresh ids can be reached.

   Equalities of states are pointwise; no axioms. *)
From BT Require Import Base.Prelude Base.Str Heap.Forest Heap.Effects Spec.PForest.

Definition region := id -> bool.

Definition same_at (s s' : forest) (x : id) : Prop :=
  par s' x = par s x /\ kids s' x = kids s x /\ name s' x = name s x /\ sepf s' x = sepf s x.

Definition frame (A : region) (s s' : forest) : Prop :=
  size s' = size s /\ forall x, A x = false -> same_at s s' x.

Definition closed (A : region) (s : forest) : Prop :=
  forall x, A x = true ->
    (forall p, par s x = Some p -> A p = true) /\ (forall k, In k (kids s x) -> A k = true).

Lemma same_at_refl s x : same_at s s x.
Proof. unfold same_at; auto. Qed.

Lemma same_at_trans s1 s2 s3 x : same_at s1 s2 x -> same_at s2 s3 x -> same_at s1 s3 x.
Proof. unfold same_at; intros (a & b & c & d) (a' & b' & c' & d'); repeat split; congruence. Qed.

Lemma frame_refl A s : frame A s s.
Proof. split; [reflexivity | intros; apply same_at_refl]. Qed.

Lemma frame_trans A s1 s2 s3 : frame A s1 s2 -> frame A s2 s3 -> frame A s1 s3.
Proof.
  intros [e1 f1] [e2 f2]; split; [congruence|].
  intros x Hx. eapply same_at_trans; [apply f1 | apply f2]; assumption.
Qed.

Lemma upd_eq {B} (f : id -> B) k v : upd f k v k = v.
Proof. unfold upd. now rewrite Nat.eqb_refl. Qed.

Lemma upd_neq {B} (f : id -> B) k v x : x <> k -> upd f k v x = f x.
Proof. unfold upd. intros H. destruct (Nat.eqb x k) eqn:E; [apply Nat.eqb_eq in E; contradiction | reflexivity]. Qed.

(* a region-respecting state transformer: keeps the complement of A and the closure of A *)
Definition ok (A : region) (s s' : forest) : Prop := frame A s s' /\ closed A s'.

Lemma ok_refl A s : closed A s -> ok A s s.
Proof. intros H; split; [apply frame_refl | exact H]. Qed.

Lemma ok_trans A s1 s2 s3 : ok A s1 s2 -> ok A s2 s3 -> ok A s1 s3.
Proof. intros [f1 _] [f2 c2]; split; [eapply frame_trans; eauto | exact c2]. Qed.

Lemma closed_par A s x p : closed A s -> A x = true -> par s x = Some p -> A p = true.
Proof. intros Hc Ax Hp. now apply (proj1 (Hc x Ax)). Qed.

Lemma closed_kids A s x k : closed A s -> A x = true -> In k (kids s x) -> A k = true.
Proof. intros Hc Ax Hk. now apply (proj2 (Hc x Ax)). Qed.

Lemma ok_set_par A s c v :
  closed A s -> A c = true -> (forall p, v = Some p -> A p = true) -> ok A s (set_par s c v).
Proof.
  intros Hc Ac Hv. split.
  - split; [reflexivity|]. intros x Hx. unfold same_at, set_par; cbn.
    repeat split; try reflexivity. apply upd_neq. intros ->. congruence.
  - intros x Ax. unfold set_par; cbn. split.
    + intros p Hp. destruct (Nat.eq_dec x c) as [->|N].
      * rewrite upd_eq in Hp. now apply Hv.
      * rewrite upd_neq in Hp by exact N. eapply closed_par; eauto.
    + intros k Hk. eapply closed_kids; eauto.
Qed.

Lemma ok_set_kids A s p l :
  closed A s -> A p = true -> (forall k, In k l -> A k = true) -> ok A s (set_kids s p l).
Proof.
  intros Hc Ap Hl. split.
  - split; [reflexivity|]. intros x Hx. unfold same_at, set_kids; cbn.
    repeat split; try reflexivity. apply upd_neq. intros ->. congruence.
  - intros x Ax. unfold set_kids; cbn. split.
    + intros q Hq. eapply closed_par; eauto.
    + intros k Hk. destruct (Nat.eq_dec x p) as [->|N].
      * rewrite upd_eq in Hk. now apply Hl.
      * rewrite upd_neq in Hk by exact N. eapply closed_kids; eauto.
Qed.

Lemma ok_set_sep A s n v : closed A s -> A n = true -> ok A s (set_sep s n v).
Proof.
  intros Hc An. split.
  - split; [reflexivity|]. intros x Hx. unfold same_at, set_sep; cbn.
    repeat split; try reflexivity. apply upd_neq. intros ->. congruence.
  - intros x Ax. unfold set_sep; cbn. now apply Hc.
Qed.

Lemma In_remove1 x c l : In x (remove1 c l) -> In x l.
Proof.
  induction l as [|y t IH]; cbn; [tauto|].
  destruct (Nat.eqb c y); cbn; intros H; [now right|].
  destruct H as [H|H]; [now left | right; now apply IH].
Qed.

Lemma In_insert_at {B} i (c : B) l x : In x (insert_at i c l) -> x = c \/ In x l.
Proof.
  revert l; induction i as [|j IH]; intros l; cbn.
  - intros [H|H]; [left; congruence | now right].
  - destruct l as [|y t]; cbn.
    + intros [H|[]]; left; congruence.
    + intros [H|H]; [right; now left|]. destruct (IH t H) as [E|E]; [now left | right; now right].
Qed.

(* remove c from its parent's children list *)
Definition unlink (s : forest) (c : id) : forest :=
  match par s c with Some q => set_kids s q (remove1 c (kids s q)) | None => s end.

Lemma ok_unlink A s c : closed A s -> A c = true -> ok A s (unlink s c).
Proof.
  intros Hc Ac. unfold unlink. destruct (par s c) as [q|] eqn:Hp; [|now apply ok_refl].
  assert (Aq : A q = true) by (eapply closed_par; eauto).
  apply ok_set_kids; auto. intros k Hk. apply In_remove1 in Hk. eapply closed_kids; eauto.
Qed.

Lemma ok_orphan A s c : closed A s -> A c = true -> ok A s (orphan s c).
Proof.
  intros Hc Ac. unfold orphan. fold (unlink s c).
  destruct (ok_unlink A s c Hc Ac) as [F1 C1].
  eapply ok_trans; [split; eauto|]. apply ok_set_par; auto. discriminate.
Qed.

Lemma ok_fold {B} (f : forest -> B -> forest) A (P : B -> Prop) :
  (forall s b, closed A s -> P b -> ok A s (f s b)) ->
  forall l s, closed A s -> (forall b, In b l -> P b) -> ok A s (fold_left f l s).
Proof.
  intros Hf l; induction l as [|b t IH]; intros s Hc Hl; cbn.
  - now apply ok_refl.
  - assert (H1 : ok A s (f s b)) by (apply Hf; auto; apply Hl; now left).
    eapply ok_trans; [exact H1|]. apply IH; [exact (proj2 H1)|]. intros b' Hb'. apply Hl; now right.
Qed.

Lemma ok_del_children A s p : closed A s -> A p = true -> ok A s (del_children s p).
Proof.
  intros Hc Ap. unfold del_children.
  apply (ok_fold orphan A (fun c => A c = true)); auto.
  - intros s0 b H0 Hb. now apply ok_orphan.
  - intros b Hb. eapply closed_kids; eauto.
Qed.

Lemma ok_attach A s c np :
  closed A s -> A c = true -> (forall p, np = Some p -> A p = true) -> ok A s (attach s c np).
Proof.
  intros Hc Ac Hnp. unfold attach. fold (unlink s c).
  pose proof (ok_unlink A s c Hc Ac) as H1.
  assert (H2 : ok A (unlink s c) (set_par (unlink s c) c np)) by (apply ok_set_par; auto; apply H1).
  pose proof (ok_trans _ _ _ _ H1 H2) as H12.
  destruct np as [p|]; [|exact H12].
  eapply ok_trans; [exact H12|].
  assert (Ap : A p = true) by (now apply Hnp).
  apply ok_set_kids; [apply H2 | exact Ap |].
  intros k Hk. apply in_app_or in Hk. destruct Hk as [Hk|[<-|[]]]; [|exact Ac].
  eapply closed_kids; [apply H2 | exact Ap | exact Hk].
Qed.

Lemma ok_attach_rollback A s0 s c np :
  closed A s0 -> closed A s -> A c = true -> (forall p, np = Some p -> A p = true) ->
  ok A s (attach_rollback s0 s c np).
Proof.
  intros Hc0 Hc Ac Hnp. unfold attach_rollback.
  set (s3 := match np with Some p => set_kids s p (remove1 c (kids s p)) | None => s end).
  assert (H3 : ok A s s3).
  { subst s3. destruct np as [p|]; [|now apply ok_refl].
    assert (Ap : A p = true) by (now apply Hnp).
    apply ok_set_kids; auto. intros k Hk. apply In_remove1 in Hk. eapply closed_kids; eauto. }
  assert (H4 : ok A s3 (set_par s3 c (par s0 c))).
  { apply ok_set_par; [apply H3 | exact Ac |]. intros p Hp. apply (closed_par A s0 c p Hc0 Ac Hp). }
  pose proof (ok_trans _ _ _ _ H3 H4) as H34.
  destruct (par s0 c) as [q|] eqn:Hq; [|exact H34].
  eapply ok_trans; [exact H34|].
  assert (Aq : A q = true) by (exact (closed_par A s0 c q Hc0 Ac Hq)).
  apply ok_set_kids; [apply H4 | exact Aq |].
  intros k Hk. apply In_insert_at in Hk. destruct Hk as [->|Hk]; [exact Ac|].
  eapply closed_kids; [apply H4 | exact Aq | exact Hk].
Qed.

Definition arg_in (A : region) (a : arg) : bool := match a with ANode i => A i | _ => true end.

Lemma ok_set_parent A cfg ft s c a :
  closed A s -> A c = true -> arg_in A a = true -> ok A s (fst (set_parent cfg ft s c a)).
Proof.
  intros Hc Ac Ha. unfold set_parent.
  destruct a as [p| |]; cbn [fst]; try (now apply ok_refl).
  - destruct (parent_loop s c (Some p)); [now apply ok_refl|].
    destruct (fault_eqb ft PreFail); [now apply ok_refl|].
    destruct (is_node cfg && dup_name_under s c p); [now apply ok_refl|].
    assert (Hnp : forall q, Some p = Some q -> A q = true) by (intros q [= <-]; exact Ha).
    pose proof (ok_attach A s c (Some p) Hc Ac Hnp) as H1.
    destruct (fault_eqb ft PostFail); cbn [fst]; [|exact H1].
    eapply ok_trans; [exact H1|]. apply ok_attach_rollback; auto. apply H1.
  - destruct (parent_loop s c None); [now apply ok_refl|].
    destruct (fault_eqb ft PreFail); [now apply ok_refl|].
    destruct (is_node cfg && false); [now apply ok_refl|].
    assert (Hnp : forall q, @None id = Some q -> A q = true) by discriminate.
    pose proof (ok_attach A s c None Hc Ac Hnp) as H1.
    destruct (fault_eqb ft PostFail); cbn [fst]; [|exact H1].
    eapply ok_trans; [exact H1|]. apply ok_attach_rollback; auto. apply H1.
Qed.

Lemma ok_steal A p s x : closed A s -> A p = true -> A x = true -> ok A s (steal p s x).
Proof.
  intros Hc Ap Ax. unfold steal. fold (unlink s x).
  pose proof (ok_unlink A s x Hc Ax) as H1.
  eapply ok_trans; [exact H1|]. apply ok_set_par; [apply H1 | exact Ax |].
  intros q [= <-]; exact Ap.
Qed.

Lemma ok_assign_children A s p news :
  closed A s -> A p = true -> (forall x, In x news -> A x = true) -> ok A s (assign_children s p news).
Proof.
  intros Hc Ap Hn. unfold assign_children.
  pose proof (ok_del_children A s p Hc Ap) as H1.
  assert (H2 : ok A (del_children s p) (set_kids (del_children s p) p news))
    by (apply ok_set_kids; auto; apply H1).
  eapply ok_trans; [exact H1|]. eapply ok_trans; [exact H2|].
  apply (ok_fold (steal p) A (fun x => A x = true)); [| apply H2 | exact Hn].
  intros s0 b H0 Hb. now apply ok_steal.
Qed.

Lemma In_ins_by_idx e x l : In x (ins_by_idx e l) -> x = e \/ In x l.
Proof.
  induction l as [|h t IH]; cbn.
  - intros [H|[]]; left; congruence.
  - destruct (Nat.leb (fst (snd e)) (fst (snd h))); cbn.
    + intros [H|H]; [left; congruence | now right].
    + intros [H|H]; [right; now left|]. destruct (IH H) as [E|E]; [now left | right; now right].
Qed.

Lemma In_sort_by_idx x l : In x (sort_by_idx l) -> In x l.
Proof.
  unfold sort_by_idx. induction l as [|h t IH]; cbn; [tauto|].
  intros H. apply In_ins_by_idx in H. destruct H as [->|H]; [now left | right; now apply IH].
Qed.

Lemma In_donors s news e :
  In e (donors s news) -> In (fst e) news /\ par s (fst e) = Some (snd (snd e)).
Proof.
  unfold donors. intros H. apply in_flat_map in H. destruct H as (x & Hx & He).
  destruct (par s x) as [q|] eqn:Hq; [|destruct He].
  destruct He as [<-|[]]. cbn. auto.
Qed.

Lemma ok_give_back A s e :
  closed A s -> A (fst e) = true -> A (snd (snd e)) = true -> ok A s (give_back s e).
Proof.
  destruct e as [x [i q]]; cbn [fst snd]. intros Hc Ax Aq. unfold give_back.
  assert (H1 : ok A s (set_par s x (Some q))) by (apply ok_set_par; auto; intros p [= <-]; exact Aq).
  eapply ok_trans; [exact H1|]. apply ok_set_kids; [apply H1 | exact Aq |].
  intros k Hk. apply In_insert_at in Hk. destruct Hk as [->|Hk]; [exact Ax|].
  eapply closed_kids; [apply H1 | exact Aq | exact Hk].
Qed.

Lemma ok_children_rollback A s0 s p news :
  closed A s0 -> closed A s -> A p = true -> (forall x, In x news -> A x = true) ->
  ok A s (children_rollback s0 s p news).
Proof.
  intros Hc0 Hc Ap Hn. unfold children_rollback.
  set (s1 := fold_left give_back (sort_by_idx (donors s0 news)) s).
  assert (H1 : ok A s s1).
  { subst s1. apply (ok_fold give_back A (fun e => A (fst e) = true /\ A (snd (snd e)) = true)); auto.
    - intros st e Hst [Ha Hb]. now apply ok_give_back.
    - intros e He. apply In_sort_by_idx in He. apply In_donors in He. destruct He as [He1 He2].
      split; [now apply Hn|]. eapply closed_par; [exact Hc0 | apply Hn; exact He1 | exact He2]. }
  set (s2 := fold_left (fun st x => match par s0 x with None => set_par st x None | Some _ => st end) news s1).
  assert (H2 : ok A s1 s2).
  { subst s2. apply (ok_fold _ A (fun x => A x = true)); [| apply H1 | exact Hn].
    intros st x Hst Ax. destruct (par s0 x); [now apply ok_refl|]. apply ok_set_par; auto. discriminate. }
  assert (Hk0 : forall k, In k (kids s0 p) -> A k = true) by (intros k Hk; exact (closed_kids A s0 p k Hc0 Ap Hk)).
  assert (H3 : ok A s2 (set_kids s2 p (kids s0 p))) by (apply ok_set_kids; auto; apply H2).
  eapply ok_trans; [exact H1|]. eapply ok_trans; [exact H2|]. eapply ok_trans; [exact H3|].
  apply (ok_fold _ A (fun x => A x = true)); [| apply H3 | exact Hk0].
  intros st x Hst Ax. apply ok_set_par; auto. intros q [= <-]; exact Ap.
Qed.

Lemma In_ids_of A args x : forallb (arg_in A) args = true -> In x (ids_of args) -> A x = true.
Proof.
  induction args as [|a t IH]; cbn; [tauto|].
  intros H. apply andb_true_iff in H. destruct H as [Ha Ht].
  destruct a as [i| |]; cbn; intros Hx; try (now apply IH).
  destruct Hx as [<-|Hx]; [exact Ha | now apply IH].
Qed.

Lemma ok_set_children A cfg ft s p cont args :
  closed A s -> A p = true -> forallb (arg_in A) args = true ->
  ok A s (fst (set_children cfg ft s p cont args)).
Proof.
  intros Hc Ap Ha. unfold set_children.
  destruct (match cont with COther => Some TypeError | _ => check_children s p args [] end);
    cbn [fst]; [now apply ok_refl|].
  destruct (fault_eqb ft PreFail); cbn [fst]; [now apply ok_refl|].
  destruct (is_node cfg && dup_names s (ids_of args)); cbn [fst]; [now apply ok_refl|].
  assert (Hn : forall x, In x (ids_of args) -> A x = true) by (intros x; now apply In_ids_of).
  pose proof (ok_assign_children A s p (ids_of args) Hc Ap Hn) as H1.
  destruct (fault_eqb ft PostFail); cbn [fst]; [|exact H1].
  eapply ok_trans; [exact H1|]. apply ok_children_rollback; auto. apply H1.
Qed.

Lemma In_ins_key key y l x : In x (ins_key key y l) -> x = y \/ In x l.
Proof.
  induction l as [|h t IH]; cbn.
  - intros [H|[]]; left; congruence.
  - destruct (Nat.leb (key y) (key h)); cbn.
    + intros [H|H]; [left; congruence | now right].
    + intros [H|H]; [right; now left|]. destruct (IH H) as [E|E]; [now left | right; now right].
Qed.

Lemma In_stable_sort key l x : In x (stable_sort key l) -> In x l.
Proof.
  unfold stable_sort. induction l as [|h t IH]; cbn; [tauto|].
  intros H. apply In_ins_key in H. destruct H as [->|H]; [now left | right; now apply IH].
Qed.

Lemma In_py_sort key r l x : In x (py_sort key r l) -> In x l.
Proof.
  unfold py_sort. destruct r; intros H.
  - apply in_rev in H. apply In_stable_sort in H. now apply in_rev in H.
  - now apply In_stable_sort in H.
Qed.

Lemma ok_extend_loop A cfg p : A p = true ->
  forall cs s fts, closed A s -> forallb A cs = true -> ok A s (fst (extend_loop cfg s p cs fts)).
Proof.
  intros Ap cs; induction cs as [|c t IH]; intros s fts Hc Hcs; cbn [extend_loop fst].
  - now apply ok_refl.
  - cbn in Hcs. apply andb_true_iff in Hcs. destruct Hcs as [Ac Ht].
    pose proof (ok_set_parent A cfg (hd NoFault fts) s c (ANode p) Hc Ac Ap) as H1.
    destruct (set_parent cfg (hd NoFault fts) s c (ANode p)) as [s' o] eqn:E. cbn [fst] in H1.
    destruct o; cbn [fst]; [|exact H1].
    eapply ok_trans; [exact H1|]. apply IH; [apply H1 | exact Ht].
Qed.

Lemma root_of_closed A s : closed A s -> forall fuel n, A n = true -> A (root_of s fuel n) = true.
Proof.
  intros Hc fuel; induction fuel as [|f IH]; intros n An; cbn; [exact An|].
  destruct (par s n) as [p|] eqn:Hp; [|exact An]. apply IH. eapply closed_par; eauto.
Qed.

Definition op_in (A : region) (o : op) : bool :=
  match o with
  | SetParent c a _ => A c && arg_in A a
  | SetChildren p _ args _ => A p && forallb (arg_in A) args
  | DelChildren p => A p
  | Append p c _ | RShift p c _ | LShift c p _ => A p && A c
  | Extend p cs _ => A p && forallb A cs
  | DelItem p _ _ => A p
  | Sort p _ _ => A p
  | SetSep n _ => A n
  end.

Theorem step_ok A cfg s o : closed A s -> op_in A o = true -> ok A s (fst (step cfg s o)).
Proof.
  intros Hc Ho. unfold step.
  destruct (negb (op_in_range s o)); cbn [fst]; [now apply ok_refl|].
  destruct o as [c a ft|p cont args ft|p|p c ft|p cs fts|p c ft|c p ft|p nm ft|p keys r|n v];
    cbn [op_in] in Ho; try (apply andb_true_iff in Ho; destruct Ho as [H1 H2]).
  - now apply ok_set_parent.
  - now apply ok_set_children.
  - cbn [fst]. now apply ok_del_children.
  - now apply ok_set_parent.
  - now apply ok_extend_loop.
  - now apply ok_set_parent.
  - now apply ok_set_parent.
  - destruct (negb (is_node cfg)); cbn [fst]; [now apply ok_refl|].
    destruct (filter (fun k => str_eqb (name s k) nm) (kids s p)) as [|c [|c' t]] eqn:E;
      cbn [fst]; try (now apply ok_refl).
    apply ok_set_parent; auto.
    assert (Hin : In c (filter (fun k => str_eqb (name s k) nm) (kids s p))) by (rewrite E; now left).
    apply filter_In in Hin. eapply closed_kids; [exact Hc | exact Ho | apply Hin].
  - destruct (sort_raises keys (kids s p)); cbn [fst]; [now apply ok_refl|].
    apply ok_set_kids; auto. intros k Hk. apply In_py_sort in Hk. eapply closed_kids; eauto.
  - destruct (negb (is_node cfg)); cbn [fst]; [now apply ok_refl|].
    apply ok_set_sep; auto. unfold root. now apply root_of_closed.
Qed.

Theorem run_ok A cfg ops : forall s, closed A s -> forallb (op_in A) ops = true -> ok A s (run cfg s ops).
Proof.
  unfold run. induction ops as [|o t IH]; intros s Hc Ho; cbn [fold_left].
  - now apply ok_refl.
  - cbn in Ho. apply andb_true_iff in Ho. destruct Ho as [H1 H2].
    pose proof (step_ok A cfg s o Hc H1) as S1.
    eapply ok_trans; [exact S1|]. apply IH; [apply S1 | exact H2].
Qed.

Definition ge (n : nat) : region := fun k => Nat.leb n k.

Lemma ge_true n k : ge n k = true <-> n <= k.
Proof. unfold ge. apply Nat.leb_le. Qed.
Lemma ge_false n k : ge n k = false <-> k < n.
Proof. unfold ge. apply Nat.leb_gt. Qed.

(* ---------------------------------------------------------------------------------------- *)
(* list facts *)

Lemma nth_error_index_of x l : In x l -> nth_error l (index_of x l) = Some x.
Proof.
  induction l as [|y t IH]; cbn; [tauto|].
  intros H. destruct (Nat.eqb x y) eqn:E.
  - apply Nat.eqb_eq in E. now subst.
  - cbn. apply IH. destruct H as [H|H]; [|exact H]. subst. rewrite Nat.eqb_refl in E. discriminate.
Qed.

Lemma index_of_lt x l : In x l -> index_of x l < length l.
Proof.
  induction l as [|y t IH]; cbn; [tauto|].
  intros H. destruct (Nat.eqb x y) eqn:E; [lia|].
  assert (In x t). { destruct H as [H|H]; [|exact H]. subst. rewrite Nat.eqb_refl in E. discriminate. }
  specialize (IH H0). lia.
Qed.

Lemma index_of_inj x y l : In x l -> index_of x l = index_of y l -> x = y.
Proof.
  induction l as [|z t IH]; cbn; [tauto|].
  intros H. destruct (Nat.eqb x z) eqn:E; destruct (Nat.eqb y z) eqn:E'; intros Hi; try discriminate.
  - apply Nat.eqb_eq in E, E'. congruence.
  - apply IH; [|lia]. destruct H as [H|H]; [|exact H]. subst. rewrite Nat.eqb_refl in E. discriminate.
Qed.

(* ---------------------------------------------------------------------------------------- *)
(* the component and the copy *)

Lemma in_comp s r x : In x (comp s r) <-> x < size s /\ root s x = root s r.
Proof.
  unfold comp. rewrite filter_In, in_seq, Nat.eqb_eq. split; intros [H1 H2]; split; auto; lia.
Qed.

Lemma comp_self s r : r < size s -> In r (comp s r).
Proof. intros H. apply in_comp. auto. Qed.

Lemma phi_ge s r x : size s <= phi s r x.
Proof. unfold phi. lia. Qed.

Lemma phi_lt s r x : In x (comp s r) -> phi s r x < size (deep_copy_f s r).
Proof. intros H. unfold phi, deep_copy_f; cbn. apply index_of_lt in H. lia. Qed.

Lemma phi_inj s r x y : In x (comp s r) -> phi s r x = phi s r y -> x = y.
Proof. unfold phi. intros H E. eapply index_of_inj; [exact H | lia]. Qed.

Lemma dc_size s r : size (deep_copy_f s r) = size s + length (comp s r).
Proof. reflexivity. Qed.

Lemma dc_below s r x : x < size s -> same_at s (deep_copy_f s r) x.
Proof.
  intros H. apply Nat.ltb_lt in H. unfold same_at, deep_copy_f; cbn [par kids name sepf]. rewrite H. auto.
Qed.

Lemma dc_iso s r x :
  In x (comp s r) ->
  let s' := deep_copy_f s r in
  par s' (phi s r x) = option_map (phi s r) (par s x)
  /\ kids s' (phi s r x) = map (phi s r) (kids s x)
  /\ name s' (phi s r x) = name s x
  /\ sepf s' (phi s r x) = sepf s x.
Proof.
  intros H. cbn zeta. unfold deep_copy_f; cbn [par kids name sepf].
  assert (L : Nat.ltb (phi s r x) (size s) = false) by (apply Nat.ltb_ge; apply phi_ge).
  rewrite L.
  assert (N : nth_error (comp s r) (phi s r x - size s) = Some x).
  { unfold phi. replace (size s + index_of x (comp s r) - size s) with (index_of x (comp s r)) by lia.
    now apply nth_error_index_of. }
  rewrite N. auto.
Qed.

(* every link of a copied node leads to an id >= size s *)
Lemma dc_links_fresh s r k :
  size s <= k ->
  (forall p, par (deep_copy_f s r) k = Some p -> size s <= p)
  /\ (forall c, In c (kids (deep_copy_f s r) k) -> size s <= c).
Proof.
  intros H. assert (L : Nat.ltb k (size s) = false) by (now apply Nat.ltb_ge).
  unfold deep_copy_f; cbn [par kids name sepf]. rewrite L.
  destruct (nth_error (comp s r) (k - size s)) as [x|]; split.
  - intros p Hp. destruct (par s x); cbn in Hp; [|discriminate]. injection Hp as <-. apply phi_ge.
  - intros c Hc. apply in_map_iff in Hc. destruct Hc as (y & <- & _). apply phi_ge.
  - discriminate.
  - intros c [].
Qed.

Lemma dc_closed n s r :
  n <= size s ->
  (forall x, x < size s -> ge n x = true ->
     (forall p, par s x = Some p -> ge n p = true) /\ (forall k, In k (kids s x) -> ge n k = true)) ->
  closed (ge n) (deep_copy_f s r).
Proof.
  intros Hn Hl x Ax. destruct (Nat.lt_ge_cases x (size s)) as [L|G].
  - destruct (dc_below s r x L) as (e1 & e2 & _). rewrite e1, e2. now apply Hl.
  - destruct (dc_links_fresh s r x G) as [P K]. split.
    + intros p Hp. apply ge_true. specialize (P p Hp). lia.
    + intros c Hc. apply ge_true. specialize (K c Hc). lia.
Qed.

Lemma dc_closed_first s r : closed (ge (size s)) (deep_copy_f s r).
Proof.
  apply dc_closed; [lia|]. intros x L G. apply ge_true in G. lia.
Qed.

(* ---------------------------------------------------------------------------------------- *)
(* closure of the component under the links of a well-formed state *)

Lemma root_stable s : forall f c g, reaches_root s f c = true -> f <= g -> root_of s g c = root_of s f c.
Proof.
  induction f as [|f IH]; intros c g R L.
  - cbn in R. destruct (par s c) eqn:Hp; [discriminate|].
    destruct g; cbn; rewrite ?Hp; reflexivity.
  - cbn in R. destruct g as [|g]; [lia|]. cbn. destruct (par s c) as [p|] eqn:Hp; [|reflexivity].
    apply IH; [exact R | lia].
Qed.

Lemma oid_eqb_eq a b : PForest.oid_eqb a b = true -> a = b.
Proof.
  unfold PForest.oid_eqb, opt_eqb. destruct a, b; try discriminate; auto.
  intros H. apply Nat.eqb_eq in H. now subst.
Qed.

Lemma wf_child s : wf_b s = true -> forall p c, p < size s -> In c (kids s p) -> c < size s /\ par s c = Some p.
Proof.
  unfold wf_b. intros W p c Hp Hc. apply andb_true_iff in W. destruct W as [W1 _].
  rewrite forallb_forall in W1. specialize (W1 p). unfold ids in W1. rewrite in_seq in W1.
  assert (H : 0 <= p < 0 + size s) by lia. specialize (W1 H).
  apply andb_true_iff in W1. destruct W1 as [_ W1]. rewrite forallb_forall in W1.
  specialize (W1 c Hc). apply andb_true_iff in W1. destruct W1 as [a b].
  apply Nat.ltb_lt in a. apply oid_eqb_eq in b. auto.
Qed.

Lemma wf_parent s : wf_b s = true -> forall c p, c < size s -> par s c = Some p ->
  p < size s /\ reaches_root s (size s) c = true.
Proof.
  unfold wf_b. intros W c p Hc Hp. apply andb_true_iff in W. destruct W as [_ W2].
  rewrite forallb_forall in W2. specialize (W2 c). unfold ids in W2. rewrite in_seq in W2.
  assert (H : 0 <= c < 0 + size s) by lia. specialize (W2 H). rewrite Hp in W2.
  apply andb_true_iff in W2. destruct W2 as [a b]. apply andb_true_iff in a. destruct a as [a _].
  apply Nat.ltb_lt in a. auto.
Qed.

Lemma root_par s c p : wf_b s = true -> c < size s -> par s c = Some p -> root s c = root s p.
Proof.
  intros W Hc Hp. destruct (wf_parent s W c p Hc Hp) as [_ R]. unfold root.
  destruct (size s) as [|n] eqn:En; [lia|]. cbn in R. rewrite Hp in R.
  transitivity (root_of s n p); [cbn [root_of]; rewrite Hp; reflexivity|].
  symmetry. apply root_stable; [exact R | lia].
Qed.

Lemma comp_par_closed s r x p : wf_b s = true -> In x (comp s r) -> par s x = Some p -> In p (comp s r).
Proof.
  intros W H Hp. apply in_comp in H. destruct H as [L E]. apply in_comp.
  destruct (wf_parent s W x p L Hp) as [Lp _]. split; [exact Lp|].
  rewrite <- E. symmetry. now apply root_par.
Qed.

Lemma comp_kids_closed s r x k : wf_b s = true -> In x (comp s r) -> In k (kids s x) -> In k (comp s r).
Proof.
  intros W H Hk. apply in_comp in H. destruct H as [L E]. apply in_comp.
  destruct (wf_child s W x k L Hk) as [Lk Pk]. split; [exact Lk|].
  rewrite <- E. now apply root_par.
Qed.

(* ---------------------------------------------------------------------------------------- *)
(* independence of two regions *)

Lemma closed_same B s s' :
  closed B s -> (forall x, B x = true -> same_at s s' x) -> closed B s'.
Proof.
  intros Hc Hs x Bx. destruct (Hs x Bx) as (e1 & e2 & _). rewrite e1, e2. now apply Hc.
Qed.

Theorem independence_step A B cfg s o :
  (forall x, A x = true -> B x = false) -> closed A s -> op_in A o = true ->
  (forall x, B x = true -> same_at s (fst (step cfg s o)) x)
  /\ closed A (fst (step cfg s o))
  /\ (closed B s -> closed B (fst (step cfg s o))).
Proof.
  intros D Hc Ho. destruct (step_ok A cfg s o Hc Ho) as [[_ F] C].
  assert (S : forall x, B x = true -> same_at s (fst (step cfg s o)) x).
  { intros x Bx. apply F. destruct (A x) eqn:Ax; [|reflexivity]. rewrite (D x Ax) in Bx. discriminate. }
  split; [exact S|]. split; [exact C|]. intros HB. eapply closed_same; eauto.
Qed.

Theorem independence_run A B cfg ops s :
  (forall x, A x = true -> B x = false) -> closed A s -> forallb (op_in A) ops = true ->
  (forall x, B x = true -> same_at s (run cfg s ops) x) /\ closed A (run cfg s ops).
Proof.
  intros D Hc Ho. destruct (run_ok A cfg ops s Hc Ho) as [[_ F] C]. split; [|exact C].
  intros x Bx. apply F. destruct (A x) eqn:Ax; [|reflexivity]. rewrite (D x Ax) in Bx. discriminate.
Qed.

(* ---------------------------------------------------------------------------------------- *)
(* the invariant of every skeleton: nothing below n changes, everything allocated since points
   only to ids >= n *)

Definition unchanged_below (n : nat) (h0 h : eheap) : Prop :=
  forall x, x < n -> same_at (fr h0) (fr h) x /\ att h x = att h0 x /\ kl h x = kl h0 x.

Definition Inv (n : nat) (h0 h : eheap) : Prop :=
  n <= size (fr h) /\ unchanged_below n h0 h /\ closed (ge n) (fr h).

Definition clean (s : forest) : Prop := forall k, size s <= k -> par s k = None /\ kids s k = [].

Lemma unchanged_refl n h : unchanged_below n h h.
Proof. intros x _. split; [apply same_at_refl | auto]. Qed.

Lemma Inv_copy_first h r : Inv (size (fr h)) h (deep_copy h r).
Proof.
  split; [cbn; lia|]. split.
  - intros x L. split; [now apply dc_below|]. unfold deep_copy; cbn [att kl]. apply Nat.ltb_lt in L. rewrite L. auto.
  - cbn [deep_copy fr]. apply dc_closed_first.
Qed.

Lemma Inv_copy n h0 h r : Inv n h0 h -> Inv n h0 (deep_copy h r).
Proof.
  intros (L & U & C). split; [cbn; lia|]. split.
  - intros x Lx. destruct (U x Lx) as (a & b & c).
    assert (Lx' : x < size (fr h)) by lia.
    split; [eapply same_at_trans; [exact a | now apply dc_below]|].
    unfold deep_copy; cbn [att kl]. apply Nat.ltb_lt in Lx'. rewrite Lx'. auto.
  - cbn [deep_copy fr]. apply dc_closed; [exact L|]. intros x _ Ax. now apply C.
Qed.

Lemma Inv_with_fr n h0 h s' : Inv n h0 h -> ok (ge n) (fr h) s' -> Inv n h0 (with_fr h s').
Proof.
  intros (L & U & C) [[E F] C']. split; [cbn; lia|]. split; [|exact C'].
  intros x Lx. destruct (U x Lx) as (a & b & c). cbn. split; [|auto].
  eapply same_at_trans; [exact a|]. apply F. now apply ge_false.
Qed.

Lemma Inv_run n h0 h cfg ops :
  Inv n h0 h -> forallb (op_in (ge n)) ops = true -> Inv n h0 (with_fr h (run cfg (fr h) ops)).
Proof. intros I Ho. apply Inv_with_fr; [exact I|]. apply run_ok; [apply I | exact Ho]. Qed.

Lemma Inv_set_parent n h0 h cfg ft c a :
  Inv n h0 h -> ge n c = true -> arg_in (ge n) a = true ->
  Inv n h0 (with_fr h (fst (set_parent cfg ft (fr h) c a))).
Proof. intros I Hc Ha. apply Inv_with_fr; [exact I|]. apply ok_set_parent; auto. apply I. Qed.

Lemma Inv_alloc n h0 h nm sp a :
  Inv n h0 h -> Inv n h0 (fst (alloc h nm sp a)) /\ snd (alloc h nm sp a) = size (fr h).
Proof.
  intros (L & U & C). split; [|reflexivity]. unfold alloc; cbn [fst]. split; [cbn; lia|]. split.
  - intros x Lx. destruct (U x Lx) as (s1 & b & c). assert (N : x <> size (fr h)) by lia.
    cbn [fr att kl]. rewrite !upd_neq by exact N. split; [|auto].
    eapply same_at_trans; [exact s1|]. unfold same_at, alloc_f; cbn [par kids name sepf].
    rewrite !upd_neq by exact N. auto.
  - cbn [fr]. intros x Ax. unfold alloc_f; cbn [par kids].
    destruct (Nat.eq_dec x (size (fr h))) as [->|N].
    + rewrite !upd_eq. split; [discriminate | intros k []].
    + rewrite !upd_neq by exact N. now apply C.
Qed.

Lemma clean_closed s : clean s -> closed (ge (size s)) s.
Proof.
  intros Hc x Ax. apply ge_true in Ax. destruct (Hc x Ax) as [a b]. rewrite a, b.
  split; [discriminate | intros k []].
Qed.

Lemma Inv_start h : clean (fr h) -> Inv (size (fr h)) h h.
Proof. intros Hc. split; [lia|]. split; [apply unchanged_refl | now apply clean_closed]. Qed.

(* ---------------------------------------------------------------------------------------- *)
(* operands read from a closed region stay inside it *)

Lemma anc_closed A s : closed A s -> forall fuel x y, A x = true -> In y (anc s fuel x) -> A y = true.
Proof.
  intros Hc fuel; induction fuel as [|f IH]; intros x y Ax Hy; cbn in Hy; [destruct Hy|].
  destruct (par s x) as [p|] eqn:Hp; [|destruct Hy].
  assert (Ap : A p = true) by (eapply closed_par; eauto).
  destruct Hy as [<-|Hy]; [exact Ap | eapply IH; eauto].
Qed.

Lemma level_closed A s : closed A s -> forall d l, (forall x, In x l -> A x = true) ->
  forall y, In y (level s d l) -> A y = true.
Proof.
  intros Hc d; induction d as [|d IH]; intros l Hl y Hy; [destruct Hy|].
  cbn [level] in Hy. destruct d as [|d']; [now apply Hl|].
  apply IH in Hy; [exact Hy|].
  intros x Hx. apply in_flat_map in Hx. destruct Hx as (z & Hz & Hx). eapply closed_kids; eauto.
Qed.

Lemma forallb_map_op A (f : id -> op) l :
  (forall x, In x l -> op_in A (f x) = true) -> forallb (op_in A) (map f l) = true.
Proof. intros H. apply forallb_forall. intros o Ho. apply in_map_iff in Ho. destruct Ho as (x & <- & Hx). now apply H. Qed.

Lemma cut_ops_in A s t d : closed A s -> A t = true -> forallb (op_in A) (cut_ops s t d) = true.
Proof.
  intros Hc At. unfold cut_ops. destruct d as [|d]; [reflexivity|].
  apply forallb_map_op. intros x Hx. cbn. eapply level_closed; [exact Hc | | exact Hx].
  intros z [<-|[]]; exact At.
Qed.

Lemma prune_ops_in A s ts exact :
  closed A s -> (forall t, In t ts -> A t = true) -> forallb (op_in A) (prune_ops s ts exact) = true.
Proof.
  intros Hc Ht. unfold prune_ops.
  set (anc := flat_map (ancestors s) ts ++ (if exact then ts else [])).
  assert (Ha : forall a, In a anc -> A a = true).
  { intros a Hin. subst anc. apply in_app_or in Hin. destruct Hin as [Hin|Hin].
    - apply in_flat_map in Hin. destruct Hin as (t & Hin & Hanc). unfold ancestors in Hanc.
      eapply anc_closed; [exact Hc | apply Ht; exact Hin | exact Hanc].
    - destruct exact; [now apply Ht | destruct Hin]. }
  apply forallb_forall. intros o Ho. apply in_flat_map in Ho. destruct Ho as (a & Hin & Ho).
  apply in_map_iff in Ho. destruct Ho as (k & <- & Hk). apply filter_In in Hk. destruct Hk as [Hk _].
  cbn. rewrite andb_true_r. eapply closed_kids; [exact Hc | apply Ha; exact Hin | exact Hk].
Qed.

(* ---------------------------------------------------------------------------------------- *)
(* skeletons *)

Definition fresh_result (n : nat) (h' : eheap) (r : id) : Prop := n <= r /\ closed (ge n) (fr h').

Lemma Inv_fresh n h0 h r : Inv n h0 h -> n <= r -> unchanged_below n h0 h /\ fresh_result n h r.
Proof. intros (L & U & C) Hr. split; [exact U | split; [exact Hr | exact C]]. Qed.

Theorem sk_export_spec h start : unchanged_below (size (fr h)) h (sk_export h start).
Proof. apply (Inv_copy_first h start). Qed.

Theorem sk_copy_spec h start :
  let '(h', r) := sk_copy h start in
  unchanged_below (size (fr h)) h h' /\ fresh_result (size (fr h)) h' r.
Proof. cbn. apply Inv_fresh; [apply Inv_copy_first | apply phi_ge]. Qed.

Theorem sk_shallow_spec h x :
  unchanged_below (size (fr h)) h (fst (sk_shallow h x)) /\ size (fr h) <= snd (sk_shallow h x).
Proof.
  split; [|cbn; lia]. intros y Ly. assert (N : y <> size (fr h)) by lia.
  unfold sk_shallow, shallow_copy; cbn [fst fr att kl]. rewrite !upd_neq by exact N. split; [|auto].
  unfold same_at, shallow_copy_f; cbn [par kids name sepf]. rewrite !upd_neq by exact N. auto.
Qed.

Lemma clone_rec_inv cfg n h0 : forall fuel h newp oldp,
  Inv n h0 h -> n <= newp -> Inv n h0 (clone_rec cfg fuel h newp oldp).
Proof.
  induction fuel as [|f IH]; intros h newp oldp I Hp; cbn [clone_rec]; [exact I|].
  generalize (kids (fr h) oldp) as l. intros l. revert h I.
  induction l as [|ch t IHl]; intros h I; cbn [fold_left]; [exact I|].
  apply IHl.
  destruct (Inv_alloc n h0 h (name (fr h) ch) [47%N] (att h ch) I) as [I1 E1].
  destruct (alloc h (name (fr h) ch) [47%N] (att h ch)) as [st1 c'] eqn:E. cbn [fst snd] in I1, E1.
  assert (Hc' : n <= c') by (rewrite E1; apply I).
  apply IH; [|exact Hc'].
  apply Inv_set_parent; [exact I1 | now apply ge_true | cbn; now apply ge_true].
Qed.

Theorem sk_clone_spec cfg h start :
  clean (fr h) ->
  let '(h', r) := sk_clone cfg h start in
  unchanged_below (size (fr h)) h h' /\ fresh_result (size (fr h)) h' r.
Proof.
  intros Hc. unfold sk_clone.
  destruct (Inv_alloc _ h h (name (fr h) (root (fr h) start)) [47%N] (att h (root (fr h) start)) (Inv_start h Hc))
    as [I1 E1].
  destruct (alloc h (name (fr h) (root (fr h) start)) [47%N] (att h (root (fr h) start))) as [h1 r'] eqn:E.
  cbn [fst snd] in I1, E1.
  apply Inv_fresh; [|lia]. apply clone_rec_inv; [exact I1 | lia].
Qed.

Theorem sk_get_subtree_spec cfg h start found md :
  let '(h', r) := sk_get_subtree cfg h start found md in
  unchanged_below (size (fr h)) h h' /\ fresh_result (size (fr h)) h' r.
Proof.
  unfold sk_get_subtree.
  set (n := size (fr h)). set (h1 := deep_copy h start). set (t := phi (fr h) start found).
  assert (I1 : Inv n h h1) by apply Inv_copy_first.
  assert (Ht : ge n t = true) by (apply ge_true; apply phi_ge).
  set (ops := match par (fr h1) t with None => [] | Some _ => [detach t] end).
  assert (Ho : forallb (op_in (ge n)) ops = true).
  { subst ops. destruct (par (fr h1) t); [|reflexivity]. cbn. now rewrite Ht. }
  pose proof (Inv_run n h h1 cfg ops I1 Ho) as I2.
  destruct md as [|md].
  - apply Inv_fresh; [exact I2 | now apply ge_true].
  - set (s2 := run cfg (fr h1) ops) in *.
    set (h3 := deep_copy (with_fr h1 s2) t).
    assert (I3 : Inv n h h3) by (now apply Inv_copy).
    assert (Ht' : n <= phi s2 t t).
    { pose proof (phi_ge s2 t t). destruct I2 as [L _]. cbn in L. lia. }
    apply Inv_fresh; [|exact Ht'].
    apply Inv_run; [exact I3|]. apply cut_ops_in; [apply I3 | now apply ge_true].
Qed.

Theorem sk_prune_spec cfg h start targets exact md :
  let '(h', r) := sk_prune cfg h start targets exact md in
  unchanged_below (size (fr h)) h h' /\ fresh_result (size (fr h)) h' r.
Proof.
  unfold sk_prune.
  set (n := size (fr h)). set (h1 := deep_copy h start).
  set (tc := phi (fr h) start start). set (ts := map (phi (fr h) start) targets).
  assert (I1 : Inv n h h1) by apply Inv_copy_first.
  assert (Hts : forall t, In t ts -> ge n t = true).
  { intros t Ht. subst ts. apply in_map_iff in Ht. destruct Ht as (y & <- & _). apply ge_true. apply phi_ge. }
  assert (Htc : ge n tc = true) by (apply ge_true; apply phi_ge).
  pose proof (Inv_run n h h1 cfg (prune_ops (fr h1) ts exact) I1
                (prune_ops_in (ge n) (fr h1) ts exact (proj2 (proj2 I1)) Hts)) as I2.
  set (s2 := run cfg (fr h1) (prune_ops (fr h1) ts exact)) in *.
  pose proof (Inv_run n h (with_fr h1 s2) cfg (cut_ops s2 tc md) I2
                (cut_ops_in (ge n) s2 tc md (proj2 (proj2 I2)) Htc)) as I3.
  apply Inv_fresh; [exact I3 | now apply ge_true].
Qed.

Lemma build_inv cfg n h0 base : n <= base -> forall shape h, Inv n h0 h -> Inv n h0 (build cfg h base shape).
Proof.
  intros Hb shape; induction shape as [|[p nm] t IH]; intros h I; cbn [build]; [exact I|].
  destruct (Inv_alloc n h0 h nm [47%N] [] I) as [I1 E1].
  destruct (alloc h nm [47%N] []) as [h1 k] eqn:E. cbn [fst snd] in I1, E1.
  apply IH. destruct p as [j|].
  - apply Inv_set_parent; [exact I1 | |].
    + apply ge_true. rewrite E1. apply I.
    + cbn. apply ge_true. lia.
  - replace (with_fr h1 (fr h1)) with h1 by (destruct h1; reflexivity). exact I1.
Qed.

(* get_tree_diff writes the separator field of other_tree's root and nothing else of the inputs *)
Definition same_but_sep (h0 h : eheap) (x : id) : Prop :=
  par (fr h) x = par (fr h0) x /\ kids (fr h) x = kids (fr h0) x /\ name (fr h) x = name (fr h0) x
  /\ att h x = att h0 x /\ kl h x = kl h0 x.

Theorem sk_diff_spec cfg h t1 t2 shape :
  clean (fr h) ->
  let '(h', r) := sk_diff cfg h t1 t2 shape in
  (forall x, x < size (fr h) -> same_but_sep h h' x) /\ fresh_result (size (fr h)) h' r.
Proof.
  intros Hc. unfold sk_diff.
  set (h0 := with_fr h (set_sep (fr h) (root (fr h) t2) (sep (fr h) t1))).
  set (n := size (fr h)).
  assert (I0 : Inv n h0 h0).
  { apply (Inv_start h0). intros k Hk. subst h0; cbn in *. now apply Hc. }
  pose proof (Inv_copy n h0 _ t1 I0) as I1.
  pose proof (Inv_copy n h0 _ t2 I1) as I2.
  set (h2 := deep_copy (deep_copy h0 t1) t2) in *.
  assert (Hb : n <= size (fr h2)) by apply I2.
  pose proof (build_inv cfg n h0 (size (fr h2)) Hb shape h2 I2) as I3.
  split; [|split; [exact Hb | apply I3]].
  intros x Lx. destruct I3 as (_ & U & _). destruct (U x Lx) as ((a & b & c & _) & d & e).
  unfold same_but_sep. subst h0; cbn in *. repeat split; assumption.
Qed.

(* copy-before-attach: everything outside the destination region T stays as it was, whatever the
   later writes are, as long as their operands are in the copy or in the destination *)
Definition respects (T : region) (ops : forest -> id -> list op) : Prop :=
  forall (A : region) s c, (forall x, T x = true -> A x = true) -> closed A s -> A c = true ->
    forallb (op_in A) (ops s c) = true.

Theorem sk_copy_then_spec cfg (T : region) h from_ ops :
  closed T (fr h) -> respects T ops ->
  let '(h', r) := sk_copy_then cfg h from_ ops in
  (forall x, x < size (fr h) -> T x = false ->
     same_at (fr h) (fr h') x /\ att h' x = att h x /\ kl h' x = kl h x)
  /\ size (fr h) <= r.
Proof.
  intros HT Hops. unfold sk_copy_then. split; [|apply phi_ge].
  set (n := size (fr h)). set (h1 := deep_copy h from_). set (c := phi (fr h) from_ from_).
  set (A := fun x => T x || ge n x).
  assert (CA : closed A (fr h1)).
  { intros x Ax. destruct (Nat.lt_ge_cases x n) as [L|G].
    - assert (Tx : T x = true).
      { unfold A in Ax. apply orb_true_iff in Ax. destruct Ax as [Ax|Ax]; [exact Ax|]. apply ge_true in Ax. lia. }
      destruct (dc_below (fr h) from_ x L) as (e1 & e2 & _). subst h1; cbn [deep_copy fr]. rewrite e1, e2.
      split; [intros p Hp | intros k Hk]; unfold A; apply orb_true_iff; left.
      + eapply closed_par; eauto.
      + eapply closed_kids; eauto.
    - destruct (dc_links_fresh (fr h) from_ x G) as [P K]. subst h1; cbn [deep_copy fr].
      split; [intros p Hp | intros k Hk]; unfold A; apply orb_true_iff; right; apply ge_true.
      + apply (P p Hp).
      + apply (K k Hk). }
  assert (Ac : A c = true).
  { unfold A. replace (ge n c) with true by (symmetry; apply ge_true; apply phi_ge). apply orb_true_r. }
  assert (Ho : forallb (op_in A) (ops (fr h1) c) = true).
  { apply Hops; auto. intros x Tx. unfold A. now rewrite Tx. }
  destruct (run_ok A cfg _ (fr h1) CA Ho) as [[_ F] _].
  intros x Lx Tx. assert (Ax : A x = false).
  { unfold A. rewrite Tx. cbn. now apply ge_false. }
  cbn [fst with_fr fr att kl]. split.
  - eapply same_at_trans; [apply (dc_below (fr h) from_ x Lx) | apply (F x Ax)].
  - subst h1; unfold deep_copy; cbn [att kl]. apply Nat.ltb_lt in Lx. fold n. rewrite Lx. auto.
Qed.

Lemma In_skipn {B} n (l : list B) x : In x (skipn n l) -> In x l.
Proof.
  revert l; induction n as [|n IH]; intros l H; [exact H|].
  destruct l as [|y t]; [destruct H|]. right. now apply IH.
Qed.

Lemma reach_closed A s : closed A s -> forall fuel x y, A x = true -> In y (reach fuel s x) -> A y = true.
Proof.
  intros Hc fuel; induction fuel as [|f IH]; intros x y Ax Hy; cbn in Hy.
  - destruct Hy as [<-|[]]; exact Ax.
  - destruct Hy as [<-|Hy]; [exact Ax|]. apply in_flat_map in Hy. destruct Hy as (k & Hk & Hy).
    eapply IH; [|exact Hy]. eapply closed_kids; eauto.
Qed.

Lemma copy_ops_respects (T : region) to_ mc ml dc : T to_ = true -> respects T (copy_ops to_ mc ml dc).
Proof.
  intros Hto A s c HTA Hc Ac. assert (Ato : A to_ = true) by (now apply HTA).
  unfold copy_ops. destruct mc; [|destruct ml].
  - rewrite forallb_app. apply andb_true_iff. split; [|cbn; now rewrite Ac].
    apply forallb_forall. intros o Ho. apply in_flat_map in Ho. destruct Ho as (k & Hk & Ho).
    assert (Ak : A k = true) by (exact (closed_kids A s c k Hc Ac Hk)).
    apply in_app_or in Ho. destruct Ho as [Ho|[<-|[]]].
    + destruct dc; [|destruct Ho]. destruct Ho as [<-|[]]. exact Ak.
    + cbn. now rewrite Ak, Ato.
  - apply forallb_map_op. intros k Hk. unfold leaves in Hk. apply filter_In in Hk. destruct Hk as [Hk _].
    cbn. rewrite Ato, andb_true_r. exact (reach_closed A s Hc _ c k Ac Hk).
  - rewrite forallb_app. apply andb_true_iff. split; [destruct dc; cbn; now rewrite ?Ac|].
    cbn. now rewrite Ac, Ato.
Qed.

Lemma replace_ops_respects (T : region) to_ dc : T to_ = true -> respects T (replace_ops to_ dc).
Proof.
  intros Hto A s c HTA Hc Ac. assert (Ato : A to_ = true) by (now apply HTA).
  unfold replace_ops. destruct (par s to_) as [p|] eqn:Hp; [|reflexivity].
  assert (Ap : A p = true) by (exact (closed_par A s to_ p Hc Ato Hp)).
  rewrite forallb_app. apply andb_true_iff. split; [destruct dc; cbn; now rewrite ?Ac|].
  apply forallb_forall. intros o Ho. apply in_flat_map in Ho. destruct Ho as (k & Hk & Ho).
  apply In_skipn in Hk. assert (Ak : A k = true) by (exact (closed_kids A s p k Hc Ap Hk)).
  destruct (Nat.eqb k to_); destruct Ho as [<-|[<-|[]]]; cbn; now rewrite ?Ato, ?Ac, ?Ap, ?Ak.
Qed.

Theorem sk_copy_nodes_spec cfg (T : region) h from_ to_ mc ml dc :
  closed T (fr h) -> T to_ = true ->
  let '(h', r) := sk_copy_nodes cfg h from_ to_ mc ml dc in
  (forall x, x < size (fr h) -> T x = false ->
     same_at (fr h) (fr h') x /\ att h' x = att h x /\ kl h' x = kl h x)
  /\ size (fr h) <= r.
Proof. intros HT Hto. apply sk_copy_then_spec; [exact HT | now apply copy_ops_respects]. Qed.

Theorem sk_copy_replace_spec cfg (T : region) h from_ to_ dc :
  closed T (fr h) -> T to_ = true ->
  let '(h', r) := sk_copy_replace cfg h from_ to_ dc in
  (forall x, x < size (fr h) -> T x = false ->
     same_at (fr h) (fr h') x /\ att h' x = att h x /\ kl h' x = kl h x)
  /\ size (fr h) <= r.
Proof. intros HT Hto. apply sk_copy_then_spec; [exact HT | now apply replace_ops_respects]. Qed.

(* the exact write set of `c.parent = p`: c, c's old parent, p *)
Lemma attach_writes s c np x :
  x <> c -> par s c <> Some x -> np <> Some x -> same_at s (attach s c np) x.
Proof.
  intros N1 N2 N3. unfold attach, same_at.
  assert (K1 : forall f, kids (match par s c with Some q => set_kids s q (f q) | None => s end) x = kids s x).
  { intros f. destruct (par s c) as [q|]; [|reflexivity]. cbn. apply upd_neq. intros ->. now apply N2. }
  destruct (par s c) as [q|] eqn:Hq; destruct np as [p|]; cbn;
    rewrite ?upd_neq; auto; try (intros ->; congruence).
Qed.

(* copy_nodes inside one tree: apart from the destination node, which gains a fresh child, every
   existing node is as before *)
Theorem sk_copy_attach_same_tree cfg h from_ to_ :
  let h' := fst (sk_copy_attach cfg h from_ to_) in
  forall x, x < size (fr h) -> x <> to_ -> same_at (fr h) (fr h') x /\ att h' x = att h x /\ kl h' x = kl h x.
Proof.
  cbn zeta. intros x Lx Nx. unfold sk_copy_attach, sk_copy_nodes, sk_copy_then, copy_ops, attach_to.
  cbn [fst with_fr fr att kl app].
  set (h1 := deep_copy h from_). set (c := phi (fr h) from_ from_). split.
  - eapply same_at_trans; [apply (dc_below (fr h) from_ x Lx)|].
    unfold run; cbn [fold_left]. unfold step.
    destruct (negb (op_in_range (fr h1) (SetParent c (ANode to_) NoFault))); cbn [fst]; [apply same_at_refl|].
    unfold set_parent.
    destruct (parent_loop (fr h1) c (Some to_)); cbn [fst]; [apply same_at_refl|].
    cbn [fault_eqb]. destruct (is_node cfg && dup_name_under (fr h1) c to_); cbn [fst]; [apply same_at_refl|].
    apply attach_writes.
    + pose proof (phi_ge (fr h) from_ from_). fold c in H. lia.
    + intros Hp. destruct (dc_links_fresh (fr h) from_ c (phi_ge _ _ _)) as [P _].
      subst h1; cbn [deep_copy fr] in Hp. specialize (P x Hp). lia.
    + intros [= ->]. now apply Nx.
  - subst h1; unfold deep_copy; cbn [att kl]. apply Nat.ltb_lt in Lx. rewrite Lx. auto.
Qed.

(* ---------------------------------------------------------------------------------------- *)
(* the statements Props/C07.v exports *)

(* each primitive writes only the entry it names *)
Theorem frame_primitives s c v p l :
  (forall x, x <> c -> par (set_par s c v) x = par s x)
  /\ (forall x, kids (set_par s c v) x = kids s x /\ name (set_par s c v) x = name s x)
  /\ (forall x, x <> p -> kids (set_kids s p l) x = kids s x)
  /\ (forall x, par (set_kids s p l) x = par s x /\ name (set_kids s p l) x = name s x)
  /\ par (set_par s c v) c = v /\ kids (set_kids s p l) p = l
  /\ size (set_par s c v) = size s /\ size (set_kids s p l) = size s.
Proof.
  unfold set_par, set_kids; cbn. repeat split; try (intros x N; now apply upd_neq); apply upd_eq.
Qed.

Theorem copy_fresh_equal s r :
  let s' := deep_copy_f s r in
  (* fresh *)
  (forall x, In x (comp s r) -> size s <= phi s r x < size s')
  (* isomorphic to the source component *)
  /\ (forall x y, In x (comp s r) -> phi s r x = phi s r y -> x = y)
  /\ (forall x, In x (comp s r) ->
        par s' (phi s r x) = option_map (phi s r) (par s x)
        /\ kids s' (phi s r x) = map (phi s r) (kids s x)
        /\ name s' (phi s r x) = name s x /\ sepf s' (phi s r x) = sepf s x)
  (* no link of the copy leads back *)
  /\ closed (ge (size s)) s'
  (* the source is untouched *)
  /\ (forall x, x < size s -> same_at s s' x).
Proof.
  cbn zeta. split; [intros x H; split; [apply phi_ge | now apply phi_lt]|].
  split; [intros x y; apply phi_inj|]. split; [intros x H; now apply dc_iso|].
  split; [apply dc_closed_first | intros x; apply dc_below].
Qed.

(* on a well-formed state the component is closed under parent and children, so the copy has no
   dangling link: it is a complete tree of its own *)
Theorem copy_complete s r :
  wf_b s = true -> r < size s ->
  In r (comp s r)
  /\ forall x, In x (comp s r) ->
       (forall p, par s x = Some p -> In p (comp s r)) /\ (forall k, In k (kids s x) -> In k (comp s r)).
Proof.
  intros W L. split; [now apply comp_self|]. intros x H. split.
  - intros p Hp. eapply comp_par_closed; eauto.
  - intros k Hk. eapply comp_kids_closed; eauto.
Qed.

Theorem fresh_result_reach n h r :
  fresh_result n h r ->
  forall fuel y, In y (reach fuel (fr h) r) \/ In y (ancestors (fr h) r) -> n <= y.
Proof.
  intros [Hr Hc] fuel y [Hy|Hy]; apply ge_true.
  - eapply reach_closed; [exact Hc | apply ge_true; exact Hr | exact Hy].
  - unfold ancestors in Hy. eapply anc_closed; [exact Hc | apply ge_true; exact Hr | exact Hy].
Qed.

(* ---------------------------------------------------------------------------------------- *)
(* the two halves of every skeleton specification, stated with projections *)

Ltac split_spec H := match type of H with
  | (let '(_, _) := ?t in _) => destruct t as [h' r]; cbn [fst snd] end.

Theorem copy_input_unchanged h start : unchanged_below (size (fr h)) h (fst (sk_copy h start)).
Proof. pose proof (sk_copy_spec h start) as H. split_spec H. exact (proj1 H). Qed.
Theorem copy_result_fresh h start :
  fresh_result (size (fr h)) (fst (sk_copy h start)) (snd (sk_copy h start)).
Proof. pose proof (sk_copy_spec h start) as H. split_spec H. exact (proj2 H). Qed.

Theorem clone_input_unchanged cfg h start :
  clean (fr h) -> unchanged_below (size (fr h)) h (fst (sk_clone cfg h start)).
Proof. intros C. pose proof (sk_clone_spec cfg h start C) as H. split_spec H. exact (proj1 H). Qed.
Theorem clone_result_fresh cfg h start :
  clean (fr h) -> fresh_result (size (fr h)) (fst (sk_clone cfg h start)) (snd (sk_clone cfg h start)).
Proof. intros C. pose proof (sk_clone_spec cfg h start C) as H. split_spec H. exact (proj2 H). Qed.

Theorem get_subtree_input_unchanged cfg h start found md :
  unchanged_below (size (fr h)) h (fst (sk_get_subtree cfg h start found md)).
Proof. pose proof (sk_get_subtree_spec cfg h start found md) as H. split_spec H. exact (proj1 H). Qed.
Theorem get_subtree_result_fresh cfg h start found md :
  fresh_result (size (fr h)) (fst (sk_get_subtree cfg h start found md)) (snd (sk_get_subtree cfg h start found md)).
Proof. pose proof (sk_get_subtree_spec cfg h start found md) as H. split_spec H. exact (proj2 H). Qed.

Theorem prune_input_unchanged cfg h start ts ex md :
  unchanged_below (size (fr h)) h (fst (sk_prune cfg h start ts ex md)).
Proof. pose proof (sk_prune_spec cfg h start ts ex md) as H. split_spec H. exact (proj1 H). Qed.
Theorem prune_result_fresh cfg h start ts ex md :
  fresh_result (size (fr h)) (fst (sk_prune cfg h start ts ex md)) (snd (sk_prune cfg h start ts ex md)).
Proof. pose proof (sk_prune_spec cfg h start ts ex md) as H. split_spec H. exact (proj2 H). Qed.

Theorem diff_input_unchanged cfg h t1 t2 shape :
  clean (fr h) -> forall x, x < size (fr h) -> same_but_sep h (fst (sk_diff cfg h t1 t2 shape)) x.
Proof. intros C. pose proof (sk_diff_spec cfg h t1 t2 shape C) as H. split_spec H. exact (proj1 H). Qed.
Theorem diff_result_fresh cfg h t1 t2 shape :
  clean (fr h) ->
  fresh_result (size (fr h)) (fst (sk_diff cfg h t1 t2 shape)) (snd (sk_diff cfg h t1 t2 shape)).
Proof. intros C. pose proof (sk_diff_spec cfg h t1 t2 shape C) as H. split_spec H. exact (proj2 H). Qed.

Theorem copy_nodes_source_unchanged cfg (T : region) h from_ to_ mc ml dc :
  closed T (fr h) -> T to_ = true ->
  forall x, x < size (fr h) -> T x = false ->
    let h' := fst (sk_copy_nodes cfg h from_ to_ mc ml dc) in
    same_at (fr h) (fr h') x /\ att h' x = att h x /\ kl h' x = kl h x.
Proof.
  intros HT Hto. pose proof (sk_copy_nodes_spec cfg T h from_ to_ mc ml dc HT Hto) as H.
  split_spec H. exact (proj1 H).
Qed.
Theorem copy_nodes_result_fresh cfg h from_ to_ mc ml dc :
  size (fr h) <= snd (sk_copy_nodes cfg h from_ to_ mc ml dc).
Proof. cbn. apply phi_ge. Qed.

Theorem copy_replace_source_unchanged cfg (T : region) h from_ to_ dc :
  closed T (fr h) -> T to_ = true ->
  forall x, x < size (fr h) -> T x = false ->
    let h' := fst (sk_copy_replace cfg h from_ to_ dc) in
    same_at (fr h) (fr h') x /\ att h' x = att h x /\ kl h' x = kl h x.
Proof.
  intros HT Hto. pose proof (sk_copy_replace_spec cfg T h from_ to_ dc HT Hto) as H.
  split_spec H. exact (proj1 H).
Qed.
Theorem copy_replace_result_fresh cfg h from_ to_ dc :
  size (fr h) <= snd (sk_copy_replace cfg h from_ to_ dc).
Proof. cbn. apply phi_ge. Qed.

(* deep_copy hands out fresh addresses for the children lists and the mutable attribute values *)
Theorem copy_addresses_fresh h r x :
  In x (comp (fr h) r) ->
  let h' := deep_copy h r in
  let k := phi (fr h) r x in
  (kl h x <> 0 -> vsz h <= kl h' k)
  /\ forall a, In a (att h' k) -> snd a = 0 \/ vsz h <= snd a.
Proof.
  intros H. cbn zeta. unfold deep_copy; cbn [att kl].
  assert (L : Nat.ltb (phi (fr h) r x) (size (fr h)) = false) by (apply Nat.ltb_ge; apply phi_ge).
  rewrite L.
  assert (N : nth_error (comp (fr h) r) (phi (fr h) r x - size (fr h)) = Some x).
  { unfold phi. replace (size (fr h) + index_of x (comp (fr h) r) - size (fr h))
      with (index_of x (comp (fr h) r)) by lia. now apply nth_error_index_of. }
  rewrite N. split.
  - intros Hk. unfold fresh_addr. destruct (Nat.eqb (kl h x) 0) eqn:E; [apply Nat.eqb_eq in E; contradiction | lia].
  - intros a Ha. apply in_map_iff in Ha. destruct Ha as ([[k c] ad] & <- & _). cbn.
    unfold fresh_addr. destruct (Nat.eqb ad 0); [now left | right; lia].
Qed.

(* ---------------------------------------------------------------------------------------- *)
(* bridge to the predicates that the check evaluates on the implementation's observations
   (Spec/PC07.v): what the skeleton theorems conclude is exactly what sig_eqb / disjoint_ids test
   on the model's own state *)
From BT Require Import Spec.PC07 Corr.EffectsCorr.

Lemma str_eqb_refl a : str_eqb a a = true.
Proof. induction a as [|x t IH]; cbn; [reflexivity|]. now rewrite N.eqb_refl, IH. Qed.

Lemma list_eqb_refl {B} (e : B -> B -> bool) : (forall x, e x x = true) -> forall l, list_eqb e l l = true.
Proof. intros H l; induction l as [|x t IH]; cbn; [reflexivity|]. now rewrite H, IH. Qed.

Lemma oid_eqb_refl a : PC07.oid_eqb a a = true.
Proof. destruct a; cbn; [apply Nat.eqb_refl | reflexivity]. Qed.

Lemma attr_eqb_refl a : attr_eqb a a = true.
Proof. destruct a as [[k c] ad]; cbn. now rewrite !Nat.eqb_refl. Qed.

Lemma entry_eqb_refl e : entry_eqb e e = true.
Proof.
  unfold entry_eqb. rewrite (list_eqb_refl _ Nat.eqb_refl). unfold kids_eqb, attrs_eqb.
  rewrite (list_eqb_refl _ oid_eqb_refl), str_eqb_refl, (list_eqb_refl _ attr_eqb_refl).
  rewrite Nat.eqb_refl, andb_true_r.
  destruct (e_priv e) as [[p l]|]; cbn; [|reflexivity].
  rewrite (list_eqb_refl _ Nat.eqb_refl). apply (list_eqb_refl _ oid_eqb_refl).
Qed.

Lemma sig_eqb_refl s : sig_eqb s s = true.
Proof.
  unfold sig_eqb. rewrite (list_eqb_refl _ Nat.eqb_refl), (list_eqb_refl _ entry_eqb_refl). reflexivity.
Qed.

Lemma flat_map_ext_in {B C} (f g : B -> list C) l : (forall x, In x l -> f x = g x) -> flat_map f l = flat_map g l.
Proof.
  induction l as [|x t IH]; intros H; cbn; [reflexivity|].
  rewrite (H x (or_introl eq_refl)), IH; [reflexivity|]. intros y Hy. apply H. now right.
Qed.

Lemma walk_ext n s s' :
  (forall x, x < n -> kids s' x = kids s x) -> (forall x, x < n -> forall k, In k (kids s x) -> k < n) ->
  forall fuel x, x < n -> walk fuel s' x = walk fuel s x.
Proof.
  intros Hk Hr fuel; induction fuel as [|f IH]; intros x Lx; cbn; [reflexivity|].
  rewrite (Hk x Lx). f_equal. apply flat_map_ext_in. intros k Hin. apply IH. eapply Hr; eauto.
Qed.

(* a skeleton that leaves everything below n unchanged passes the "input unchanged" test *)
Theorem unchanged_observable n h h' :
  unchanged_below n h h' ->
  (forall x, x < n -> forall k, In k (kids (fr h) x) -> k < n) ->
  sig_eqb (observe n h) (observe n h') = true.
Proof.
  intros U R.
  assert (Eq : observe n h' = observe n h).
  { unfold observe. f_equal.
    - destruct n as [|n]; [reflexivity|]. apply walk_ext with (n := S n); [| exact R | lia].
      intros x Lx. destruct (U x Lx) as ((_ & e & _) & _). exact e.
    - apply map_ext_in. intros x Hx. apply in_seq in Hx.
      destruct (U x) as ((e1 & e2 & e3 & _) & e4 & _); [lia|]. now rewrite e1, e2, e3, e4. }
  rewrite Eq. apply sig_eqb_refl.
Qed.

Lemma rt_ids_reach h : forall fuel x y, In y (rt_ids (heap_rt fuel h x)) -> In y (reach fuel (fr h) x).
Proof.
  induction fuel as [|f IH]; intros x y Hy; cbn in *.
  - exact Hy.
  - destruct Hy as [Hy|Hy]; [now left|]. right.
    apply in_flat_map in Hy. destruct Hy as (o & Ho & Hy). apply in_map_iff in Ho.
    destruct Ho as (k & <- & Hk). apply in_flat_map. exists k. split; [exact Hk | now apply IH].
Qed.

Lemma memb_In x l : memb x l = true -> In x l.
Proof.
  unfold memb. intros H. apply existsb_exists in H. destruct H as (y & Hy & E).
  apply Nat.eqb_eq in E. now subst.
Qed.

(* a fresh result passes the "no node object of the input in the returned tree" test, from whichever
   node of it the tree is viewed *)
Theorem fresh_observable n h r :
  fresh_result n h r ->
  forall fuel, disjoint_ids (seq 0 n) (r :: ancestors (fr h) r ++ rt_ids (heap_rt fuel h r)) = true.
Proof.
  intros F fuel. unfold disjoint_ids. apply forallb_forall. intros x Hx. apply in_seq in Hx.
  destruct (memb x (r :: ancestors (fr h) r ++ rt_ids (heap_rt fuel h r))) eqn:M; [|reflexivity].
  apply memb_In in M. exfalso.
  assert (n <= x); [|lia].
  destruct M as [<-|M]; [apply F|]. apply in_app_or in M.
  apply (fresh_result_reach n h r F fuel x). destruct M as [M|M]; [now right | left; now apply rt_ids_reach].
Qed.

(* ---------------------------------------------------------------------------------------- *)
(* DAGNode: the same calculus on the DAG heap of Heap/Dag.v (names used qualified) *)
From BT Require Heap.Dag.

Definition dsame_at (s s' : Dag.dag) (x : id) : Prop :=
  Dag.parents s' x = Dag.parents s x /\ Dag.children s' x = Dag.children s x /\ Dag.dname s' x = Dag.dname s x.

Definition dframe (A : region) (s s' : Dag.dag) : Prop :=
  Dag.dsize s' = Dag.dsize s /\ forall x, A x = false -> dsame_at s s' x.

Definition dclosed (A : region) (s : Dag.dag) : Prop :=
  forall x, A x = true ->
    (forall p, In p (Dag.parents s x) -> A p = true) /\ (forall k, In k (Dag.children s x) -> A k = true).

Definition dok (A : region) (s s' : Dag.dag) : Prop := dframe A s s' /\ dclosed A s'.

Lemma dsame_at_refl s x : dsame_at s s x.
Proof. unfold dsame_at; auto. Qed.
Lemma dsame_at_trans s1 s2 s3 x : dsame_at s1 s2 x -> dsame_at s2 s3 x -> dsame_at s1 s3 x.
Proof. unfold dsame_at; intros (a & b & c) (a' & b' & c'); repeat split; congruence. Qed.

Lemma dok_refl A s : dclosed A s -> dok A s s.
Proof. intros H. split; [split; [reflexivity | intros; apply dsame_at_refl] | exact H]. Qed.

Lemma dok_trans A s1 s2 s3 : dok A s1 s2 -> dok A s2 s3 -> dok A s1 s3.
Proof.
  intros [[e1 f1] _] [[e2 f2] c2]. split; [|exact c2]. split; [congruence|].
  intros x Hx. eapply dsame_at_trans; [apply f1 | apply f2]; assumption.
Qed.

Lemma dok_add_edge A s p c : dclosed A s -> A p = true -> A c = true -> dok A s (Dag.add_edge s p c).
Proof.
  intros Hc Ap Ac. unfold Dag.add_edge. destruct (memb p (Dag.parents s c)); [now apply dok_refl|].
  split.
  - split; [reflexivity|]. intros x Hx. unfold dsame_at; cbn.
    rewrite !upd_neq; auto; intros ->; congruence.
  - intros x Ax. cbn. split.
    + intros q Hq. destruct (Nat.eq_dec x c) as [->|N].
      * rewrite upd_eq in Hq. apply in_app_or in Hq. destruct Hq as [Hq|[<-|[]]]; [|exact Ap].
        now apply (proj1 (Hc c Ac)).
      * rewrite upd_neq in Hq by exact N. now apply (proj1 (Hc x Ax)).
    + intros k Hk. destruct (Nat.eq_dec x p) as [->|N].
      * rewrite upd_eq in Hk. apply in_app_or in Hk. destruct Hk as [Hk|[<-|[]]]; [|exact Ac].
        now apply (proj2 (Hc p Ap)).
      * rewrite upd_neq in Hk by exact N. now apply (proj2 (Hc x Ax)).
Qed.

Lemma dok_del_edge A s p c : dclosed A s -> A p = true -> A c = true -> dok A s (Dag.del_edge s p c).
Proof.
  intros Hc Ap Ac. unfold Dag.del_edge. split.
  - split; [reflexivity|]. intros x Hx. unfold dsame_at; cbn.
    rewrite !upd_neq; auto; intros ->; congruence.
  - intros x Ax. cbn. split.
    + intros q Hq. destruct (Nat.eq_dec x c) as [->|N].
      * rewrite upd_eq in Hq. apply In_remove1 in Hq. now apply (proj1 (Hc c Ac)).
      * rewrite upd_neq in Hq by exact N. now apply (proj1 (Hc x Ax)).
    + intros k Hk. destruct (Nat.eq_dec x p) as [->|N].
      * rewrite upd_eq in Hk. apply In_remove1 in Hk. now apply (proj2 (Hc p Ap)).
      * rewrite upd_neq in Hk by exact N. now apply (proj2 (Hc x Ax)).
Qed.

Lemma dok_fold {B} (f : Dag.dag -> B -> Dag.dag) A (P : B -> Prop) :
  (forall s b, dclosed A s -> P b -> dok A s (f s b)) ->
  forall l s, dclosed A s -> (forall b, In b l -> P b) -> dok A s (fold_left f l s).
Proof.
  intros Hf l; induction l as [|b t IH]; intros s Hc Hl; cbn.
  - now apply dok_refl.
  - assert (H1 : dok A s (f s b)) by (apply Hf; auto; apply Hl; now left).
    eapply dok_trans; [exact H1|]. apply IH; [exact (proj2 H1)|]. intros b' Hb'. apply Hl; now right.
Qed.

Definition darg_in (A : region) (a : Dag.darg) : bool := match a with Dag.DNode i => A i | _ => true end.

Lemma In_dids_of A args x : forallb (darg_in A) args = true -> In x (Dag.ids_of args) -> A x = true.
Proof.
  induction args as [|a t IH]; cbn; [tauto|].
  intros H. apply andb_true_iff in H. destruct H as [Ha Ht].
  destruct a as [i| |]; cbn; intros Hx; try (now apply IH).
  destruct Hx as [<-|Hx]; [exact Ha | now apply IH].
Qed.

Lemma dok_set_parents A cfg ft s c cont args :
  dclosed A s -> A c = true -> forallb (darg_in A) args = true ->
  dok A s (fst (Dag.set_parents cfg ft s c cont args)).
Proof.
  intros Hc Ac Ha. unfold Dag.set_parents.
  destruct (Dag.check_parents s c cont args); cbn [fst]; [now apply dok_refl|].
  destruct (Dag.dfault_eqb ft Dag.DPreFail); cbn [fst]; [now apply dok_refl|].
  assert (Hn : forall x, In x (Dag.ids_of args) -> A x = true) by (intros x; now apply In_dids_of).
  assert (H1 : dok A s (Dag.assign_parents s c (Dag.ids_of args))).
  { unfold Dag.assign_parents. apply (dok_fold _ A (fun p => A p = true)); auto.
    intros st p Hst Ap. now apply dok_add_edge. }
  destruct (Dag.dfault_eqb ft Dag.DPostFail); cbn [fst]; [|exact H1].
  eapply dok_trans; [exact H1|]. unfold Dag.parents_rollback.
  apply (dok_fold _ A (fun p => A p = true)); [| apply H1 | exact Hn].
  intros st p Hst Ap. destruct (memb p (Dag.parents s c)); [now apply dok_refl | now apply dok_del_edge].
Qed.

Lemma dok_set_children A cfg ft s p cont args :
  dclosed A s -> A p = true -> forallb (darg_in A) args = true ->
  dok A s (fst (Dag.set_children cfg ft s p cont args)).
Proof.
  intros Hc Ap Ha. unfold Dag.set_children.
  destruct (Dag.materialise cont); cbn [fst]; [now apply dok_refl|].
  destruct (Dag.check_children_loop s p args []); cbn [fst]; [now apply dok_refl|].
  destruct (Dag.dfault_eqb ft Dag.DPreFail); cbn [fst]; [now apply dok_refl|].
  assert (Hn : forall x, In x (Dag.ids_of args) -> A x = true) by (intros x; now apply In_dids_of).
  assert (H1 : dok A s (Dag.assign_children s p (Dag.ids_of args))).
  { unfold Dag.assign_children. apply (dok_fold _ A (fun x => A x = true)); auto.
    intros st x Hst Ax. now apply dok_add_edge. }
  destruct (Dag.dfault_eqb ft Dag.DPostFail); cbn [fst]; [|exact H1].
  eapply dok_trans; [exact H1|]. unfold Dag.children_rollback.
  apply (dok_fold _ A (fun x => A x = true)); [| apply H1 | exact Hn].
  intros st x Hst Ax. destruct (memb x (Dag.children s p)); [now apply dok_refl | now apply dok_del_edge].
Qed.

(* DNew allocates: it is not an operation *on* a region *)
Definition dop_in (A : region) (o : Dag.dop) : bool :=
  match o with
  | Dag.SetParents c _ args _ | Dag.SetKids c _ args _ => A c && forallb (darg_in A) args
  | Dag.DelKids p | Dag.DelKid p _ => A p
  | Dag.DRShift p c _ | Dag.DLShift c p _ => A p && A c
  | Dag.DNew _ _ _ _ _ => false
  end.

Theorem dstep_ok A cfg s o : dclosed A s -> dop_in A o = true -> dok A s (fst (Dag.dstep cfg s o)).
Proof.
  intros Hc Ho. unfold Dag.dstep.
  destruct (negb (Dag.dop_in_range s o)); cbn [fst]; [now apply dok_refl|].
  destruct o as [c cont args ft|p cont args ft|p|p nm|p c ft|c p ft|nm pa ca ftp ftc];
    cbn [dop_in] in Ho; try discriminate; try (apply andb_true_iff in Ho; destruct Ho as [H1 H2]).
  - now apply dok_set_parents.
  - now apply dok_set_children.
  - cbn [fst]. unfold Dag.del_children. apply (dok_fold _ A (fun c => A c = true)); auto.
    + intros st c Hst Ac. now apply dok_del_edge.
    + intros c Hin. now apply (proj2 (Hc p Ho)).
  - unfold Dag.del_item.
    destruct (filter (fun k => str_eqb (Dag.dname s k) nm) (Dag.children s p)) as [|c [|c' t]] eqn:E;
      cbn [fst]; try (now apply dok_refl).
    apply dok_del_edge; auto.
    assert (Hin : In c (filter (fun k => str_eqb (Dag.dname s k) nm) (Dag.children s p))) by (rewrite E; now left).
    apply filter_In in Hin. now apply (proj2 (Hc p Ho)).
  - apply dok_set_parents; auto. cbn. now rewrite H1.
  - apply dok_set_parents; auto. cbn. now rewrite H1.
Qed.

Theorem dag_independence A B cfg s o :
  (forall x, A x = true -> B x = false) -> dclosed A s -> dop_in A o = true ->
  (forall x, B x = true -> dsame_at s (fst (Dag.dstep cfg s o)) x) /\ dclosed A (fst (Dag.dstep cfg s o)).
Proof.
  intros D Hc Ho. destruct (dstep_ok A cfg s o Hc Ho) as [[_ F] C]. split; [|exact C].
  intros x Bx. apply F. destruct (A x) eqn:Ax; [|reflexivity]. rewrite (D x Ax) in Bx. discriminate.
Qed.

(* the DAG copy *)
Lemma dphi_ge s r x : Dag.dsize s <= dphi s r x.
Proof. unfold dphi. lia. Qed.

Lemma ddc_below s r x : x < Dag.dsize s -> dsame_at s (ddeep_copy s r) x.
Proof.
  intros H. apply Nat.ltb_lt in H. unfold dsame_at, ddeep_copy; cbn [Dag.parents Dag.children Dag.dname].
  rewrite H. auto.
Qed.

Lemma ddc_links_fresh s r k :
  Dag.dsize s <= k ->
  (forall p, In p (Dag.parents (ddeep_copy s r) k) -> Dag.dsize s <= p)
  /\ (forall c, In c (Dag.children (ddeep_copy s r) k) -> Dag.dsize s <= c).
Proof.
  intros H. assert (L : Nat.ltb k (Dag.dsize s) = false) by (now apply Nat.ltb_ge).
  unfold ddeep_copy; cbn [Dag.parents Dag.children]. rewrite L.
  destruct (nth_error (dcomp s r) (k - Dag.dsize s)) as [x|]; split; try (intros c []).
  - intros p Hp. apply in_map_iff in Hp. destruct Hp as (y & <- & _). apply dphi_ge.
  - intros c Hc. apply in_map_iff in Hc. destruct Hc as (y & <- & _). apply dphi_ge.
Qed.

Theorem dag_copy_fresh_equal s r :
  let s' := ddeep_copy s r in
  (forall x, In x (dcomp s r) -> Dag.dsize s <= dphi s r x < Dag.dsize s')
  /\ (forall x y, In x (dcomp s r) -> dphi s r x = dphi s r y -> x = y)
  /\ (forall x, In x (dcomp s r) ->
        Dag.parents s' (dphi s r x) = map (dphi s r) (Dag.parents s x)
        /\ Dag.children s' (dphi s r x) = map (dphi s r) (Dag.children s x)
        /\ Dag.dname s' (dphi s r x) = Dag.dname s x)
  /\ dclosed (ge (Dag.dsize s)) s'
  /\ (forall x, x < Dag.dsize s -> dsame_at s s' x).
Proof.
  cbn zeta. split; [|split; [|split; [|split]]].
  - intros x H. split; [apply dphi_ge|]. unfold dphi, ddeep_copy; cbn. apply index_of_lt in H. lia.
  - intros x y H E. unfold dphi in E. eapply index_of_inj; [exact H | lia].
  - intros x H. unfold ddeep_copy; cbn [Dag.parents Dag.children Dag.dname].
    assert (L : Nat.ltb (dphi s r x) (Dag.dsize s) = false) by (apply Nat.ltb_ge; apply dphi_ge).
    rewrite L.
    assert (N : nth_error (dcomp s r) (dphi s r x - Dag.dsize s) = Some x).
    { unfold dphi. replace (Dag.dsize s + index_of x (dcomp s r) - Dag.dsize s) with (index_of x (dcomp s r)) by lia.
      now apply nth_error_index_of. }
    rewrite N. auto.
  - intros x Ax. apply ge_true in Ax. destruct (ddc_links_fresh s r x Ax) as [P K].
    split; [intros p Hp | intros k Hk]; apply ge_true; auto.
  - intros x. apply ddc_below.
Qed.

Theorem dag_copy_input_unchanged s start x :
  x < Dag.dsize s -> dsame_at s (fst (dsk_copy s start)) x.
Proof. apply ddc_below. Qed.

Theorem dag_copy_result_fresh s start :
  Dag.dsize s <= snd (dsk_copy s start) /\ dclosed (ge (Dag.dsize s)) (fst (dsk_copy s start)).
Proof. split; [apply dphi_ge | apply (dag_copy_fresh_equal s start)]. Qed.

Theorem dag_export_input_unchanged s start x : x < Dag.dsize s -> dsame_at s (dsk_export s start) x.
Proof. apply ddc_below. Qed.

Theorem dag_shallow_input_unchanged s x y :
  y < Dag.dsize s -> dsame_at s (fst (dshallow_copy s x)) y.
Proof.
  intros L. assert (N : y <> Dag.dsize s) by lia. unfold dshallow_copy, dsame_at; cbn.
  rewrite !upd_neq by exact N. auto.
Qed.

(* ======================================================================================== *)
(* REFINEMENT: through the abstraction of Heap/Abs.v the heap skeletons compute the trees of the
   rose-tree algorithms (Algo/Helper.v, Algo/Export.v).  The other engines' files are used
   qualified and read-only. *)
From BT Require Base.Rose Heap.ForestWF Heap.ForestOps Heap.ForestStep Heap.ForestRefl Heap.Abs
     Algo.Helper Algo.HelperProofs Algo.Export.
(* ---------------------------------------------------------------------------------------- *)
(* refinement: the heap skeletons compute, through the abstraction of Heap/Abs.v, the trees of the
   rose-tree algorithms *)

Fixpoint relabel (g : id -> id) (t : Rose.tree) : Rose.tree :=
  match t with Rose.T tg n a ks => Rose.T (option_map g tg) n a (map (relabel g) ks) end.

(* key and content of an attribute (the address is identity, not value) *)
Definition akc (a : attr) : nat * nat := let '(k, c, _) := a in (k, c).

(* Abs.tree_of with the public attributes, decoded by an arbitrary `dec` *)
Fixpoint etree_of (dec : list (nat * nat) -> Rose.attrs) (h : eheap) (fuel : nat) (x : id) : Rose.tree :=
  match fuel with
  | 0 => Rose.T (Some x) (name (fr h) x) (dec (map akc (att h x))) []
  | S f => Rose.T (Some x) (name (fr h) x) (dec (map akc (att h x))) (map (etree_of dec h f) (kids (fr h) x))
  end.
Definition esubtree dec (h : eheap) (x : id) : Rose.tree := etree_of dec h (S (size (fr h))) x.

Fixpoint deco (dec : list (nat * nat) -> Rose.attrs) (h : eheap) (t : Rose.tree) : Rose.tree :=
  match t with
  | Rose.T (Some y) n _ ks => Rose.T (Some y) n (dec (map akc (att h y))) (map (deco dec h) ks)
  | Rose.T None n a ks => Rose.T None n a (map (deco dec h) ks)
  end.

Lemma etree_deco dec h : forall f x, etree_of dec h f x = deco dec h (Abs.tree_of (fr h) f x).
Proof.
  induction f as [|f IH]; intros x; cbn; [reflexivity|].
  f_equal. rewrite map_map. apply map_ext. exact IH.
Qed.

Lemma etree_nil h f x : etree_of (fun _ => []) h f x = Abs.tree_of (fr h) f x.
Proof. revert x; induction f as [|f IH]; intros x; cbn; [reflexivity|]. f_equal. apply map_ext. exact IH. Qed.

Lemma etree_any_fuel dec h x f :
  ForestWF.WF (fr h) -> size (fr h) <= f -> etree_of dec h (S f) x = esubtree dec h x.
Proof.
  intros W L. unfold esubtree. rewrite !etree_deco. f_equal.
  rewrite (Abs.tree_of_any_fuel (fr h) x f W L). reflexivity.
Qed.

(* --- closure of the component under WF --- *)
Lemma comp_kids_closed_WF s r x k :
  ForestWF.WF s -> In x (comp s r) -> In k (kids s x) -> In k (comp s r).
Proof. intros W. apply comp_kids_closed. now apply ForestRefl.WF_wf_b. Qed.
Lemma comp_par_closed_WF s r x p :
  ForestWF.WF s -> In x (comp s r) -> par s x = Some p -> In p (comp s r).
Proof. intros W. apply comp_par_closed. now apply ForestRefl.WF_wf_b. Qed.

Lemma att_copy h r x : In x (comp (fr h) r) ->
  map akc (att (deep_copy h r) (phi (fr h) r x)) = map akc (att h x).
Proof.
  intros H. unfold deep_copy; cbn [att].
  assert (L : Nat.ltb (phi (fr h) r x) (size (fr h)) = false) by (apply Nat.ltb_ge; apply phi_ge).
  rewrite L.
  assert (N : nth_error (comp (fr h) r) (phi (fr h) r x - size (fr h)) = Some x).
  { unfold phi. replace (size (fr h) + index_of x (comp (fr h) r) - size (fr h))
      with (index_of x (comp (fr h) r)) by lia. now apply nth_error_index_of. }
  rewrite N, map_map. apply map_ext. intros [[k c] a]. reflexivity.
Qed.

Lemma etree_copy dec h r : ForestWF.WF (fr h) ->
  forall f x, In x (comp (fr h) r) ->
    etree_of dec (deep_copy h r) f (phi (fr h) r x) = relabel (phi (fr h) r) (etree_of dec h f x).
Proof.
  intros W f; induction f as [|f IH]; intros x Hx;
    destruct (dc_iso (fr h) r x Hx) as (_ & Hk & Hn & _); cbn [deep_copy fr] in *.
  - cbn [etree_of relabel]. change (fr (deep_copy h r)) with (deep_copy_f (fr h) r).
    rewrite Hn, (att_copy h r x Hx). reflexivity.
  - cbn [etree_of relabel]. change (fr (deep_copy h r)) with (deep_copy_f (fr h) r).
    rewrite Hn, Hk, (att_copy h r x Hx). cbn [option_map].
    f_equal. rewrite !map_map. apply map_ext_in. intros k Hin. apply IH.
    eapply comp_kids_closed_WF; eauto.
Qed.

(* (1) node.copy(): the copy of x abstracts to the source tree of x with fresh tags *)
Theorem copy_refines dec h r x :
  ForestWF.WF (fr h) -> In x (comp (fr h) r) ->
  esubtree dec (deep_copy h r) (phi (fr h) r x) = relabel (phi (fr h) r) (esubtree dec h x).
Proof.
  intros W Hx. unfold esubtree at 1. rewrite (etree_copy dec h r W _ x Hx). f_equal.
  apply etree_any_fuel; [exact W|]. cbn. lia.
Qed.

Lemma copy_tree_relabel g t : Helper.copy_tree (relabel g t) = Helper.copy_tree t.
Proof.
  induction t as [tg n a ks IH] using Rose.tree_ind'. cbn. f_equal. rewrite map_map.
  apply map_ext_in. intros k Hk. rewrite Forall_forall in IH. now apply IH.
Qed.

Lemma comp_nodup s r : NoDup (comp s r).
Proof. unfold comp. apply NoDup_filter. apply seq_NoDup. Qed.

Lemma index_of_nth_error l : NoDup l -> forall i y, nth_error l i = Some y -> index_of y l = i.
Proof.
  induction l as [|z t IH]; intros Hnd i y H; [destruct i; discriminate|].
  inversion Hnd as [|? ? Hz Ht]; subst. destruct i as [|i]; cbn in *.
  - injection H as ->. now rewrite Nat.eqb_refl.
  - destruct (Nat.eqb y z) eqn:E.
    + apply Nat.eqb_eq in E. subst. exfalso. apply Hz. eapply nth_error_In; eauto.
    + f_equal. now apply IH.
Qed.

Lemma src_phi s r x : In x (comp s r) -> nth_error (comp s r) (phi s r x - size s) = Some x.
Proof.
  intros H. unfold phi. replace (size s + index_of x (comp s r) - size s) with (index_of x (comp s r)) by lia.
  now apply nth_error_index_of.
Qed.

(* an allocated id of the copy is the copy of a member of the component *)
Lemma src_inv s r k y : size s <= k -> nth_error (comp s r) (k - size s) = Some y ->
  In y (comp s r) /\ k = phi s r y.
Proof.
  intros L H. split; [eapply nth_error_In; eauto|].
  unfold phi. rewrite (index_of_nth_error _ (comp_nodup s r) _ _ H). lia.
Qed.

Lemma dc_high s r k : size s <= k ->
  (exists y, In y (comp s r) /\ k = phi s r y)
  \/ (par (deep_copy_f s r) k = None /\ kids (deep_copy_f s r) k = []).
Proof.
  intros L. destruct (nth_error (comp s r) (k - size s)) as [y|] eqn:E.
  - left. exists y. now apply src_inv.
  - right. assert (Lt : Nat.ltb k (size s) = false) by (now apply Nat.ltb_ge).
    unfold deep_copy_f; cbn [par kids]. rewrite Lt, E. auto.
Qed.

Lemma NoDup_map_inj_in {A B} (f : A -> B) l :
  NoDup l -> (forall a b, In a l -> In b l -> f a = f b -> a = b) -> NoDup (map f l).
Proof.
  induction l as [|x t IH]; intros Hnd Hinj; cbn; [constructor|].
  inversion Hnd as [|? ? Hx Ht]; subst. constructor.
  - intros Hin. apply in_map_iff in Hin. destruct Hin as (y & Hy & Hyt).
    apply Hx. rewrite (Hinj x y); auto; [now left | now right].
  - apply IH; auto. intros a b Ha Hb. apply Hinj; now right.
Qed.

Theorem copy_WF s r : ForestWF.WF s -> ForestWF.WF (deep_copy_f s r).
Proof.
  intros W. set (s' := deep_copy_f s r). set (n := size s).
  assert (Below : forall x, x < n -> par s' x = par s x /\ kids s' x = kids s x).
  { intros x L. destruct (dc_below s r x L) as (a & b & _). auto. }
  assert (Iso : forall y, In y (comp s r) ->
            par s' (phi s r y) = option_map (phi s r) (par s y) /\ kids s' (phi s r y) = map (phi s r) (kids s y)).
  { intros y Hy. destruct (dc_iso s r y Hy) as (a & b & _). auto. }
  assert (Bnd : forall c p, par s c = Some p -> c < n /\ p < n) by (apply (ForestWF.wf_bound s W)).
  assert (Lnk : forall p c, In c (kids s p) <-> par s c = Some p) by (apply (ForestWF.wf_link s W)).
  assert (KidLt : forall p c, In c (kids s p) -> c < n) by (intros p c H; apply Lnk in H; apply (Bnd c p H)).
  split.
  - (* link *)
    intros p c. destruct (Nat.lt_ge_cases p n) as [Lp|Gp].
    + destruct (Below p Lp) as [_ Kp]. rewrite Kp. split.
      * intros Hc. destruct (Below c (KidLt p c Hc)) as [Pc _]. rewrite Pc. now apply Lnk.
      * intros Hp. destruct (Nat.lt_ge_cases c n) as [Lc|Gc].
        -- destruct (Below c Lc) as [Pc _]. rewrite Pc in Hp. now apply Lnk.
        -- destruct (dc_links_fresh s r c Gc) as [Pf _]. specialize (Pf p Hp). unfold n in *. lia.
    + split.
      * intros Hc. destruct (dc_high s r p Gp) as [(x & Hx & ->)|[_ K0]]; [|fold s' in K0; rewrite K0 in Hc; destruct Hc].
        destruct (Iso x Hx) as [_ Kx]. rewrite Kx in Hc. apply in_map_iff in Hc. destruct Hc as (y & <- & Hy).
        assert (Hyc : In y (comp s r)) by (eapply comp_kids_closed_WF; eauto).
        destruct (Iso y Hyc) as [Py _]. rewrite Py. apply Lnk in Hy. rewrite Hy. reflexivity.
      * intros Hp. destruct (Nat.lt_ge_cases c n) as [Lc|Gc].
        -- destruct (Below c Lc) as [Pc _]. rewrite Pc in Hp. destruct (Bnd c p Hp). unfold n in *. lia.
        -- destruct (dc_high s r c Gc) as [(y & Hy & ->)|[P0 _]]; [|fold s' in P0; congruence].
           destruct (Iso y Hy) as [Py _]. rewrite Py in Hp.
           destruct (par s y) as [x'|] eqn:Hpy; [|discriminate]. cbn in Hp. injection Hp as <-.
           assert (Hx' : In x' (comp s r)) by (eapply comp_par_closed_WF; eauto).
           destruct (Iso x' Hx') as [_ Kx']. rewrite Kx'. apply in_map. now apply Lnk.
  - (* nodup *)
    intros p. destruct (Nat.lt_ge_cases p n) as [Lp|Gp].
    + destruct (Below p Lp) as [_ Kp]. rewrite Kp. apply (ForestWF.wf_nodup s W).
    + destruct (dc_high s r p Gp) as [(x & Hx & ->)|[_ K0]]; [|fold s' in K0; rewrite K0; constructor].
      destruct (Iso x Hx) as [_ Kx]. rewrite Kx. apply NoDup_map_inj_in; [apply (ForestWF.wf_nodup s W)|].
      intros a b Ha Hb E. eapply phi_inj; [|exact E]. eapply comp_kids_closed_WF; eauto.
  - (* bound *)
    intros c p Hp. destruct (Nat.lt_ge_cases c n) as [Lc|Gc].
    + destruct (Below c Lc) as [Pc _]. rewrite Pc in Hp. destruct (Bnd c p Hp). subst s'; cbn. fold n. lia.
    + destruct (dc_high s r c Gc) as [(y & Hy & ->)|[P0 _]]; [|fold s' in P0; congruence].
      destruct (Iso y Hy) as [Py _]. rewrite Py in Hp.
      destruct (par s y) as [x'|] eqn:Hpy; [|discriminate]. cbn in Hp. injection Hp as <-.
      assert (Hx' : In x' (comp s r)) by (eapply comp_par_closed_WF; eauto).
      split; apply phi_lt; assumption.
  - (* acyclic *)
    destruct (ForestWF.wf_acyc s W) as [rk Hrk].
    exists (fun k => if Nat.ltb k n then rk k else
                     match nth_error (comp s r) (k - n) with Some y => rk y | None => 0 end).
    intros c p Hp. destruct (Nat.lt_ge_cases c n) as [Lc|Gc].
    + destruct (Below c Lc) as [Pc _]. rewrite Pc in Hp. destruct (Bnd c p Hp) as [_ Lp].
      apply Nat.ltb_lt in Lc, Lp. rewrite Lc, Lp. now apply Hrk.
    + destruct (dc_high s r c Gc) as [(y & Hy & ->)|[P0 _]]; [|fold s' in P0; congruence].
      destruct (Iso y Hy) as [Py _]. rewrite Py in Hp.
      destruct (par s y) as [x'|] eqn:Hpy; [|discriminate]. cbn in Hp. injection Hp as <-.
      assert (Hx' : In x' (comp s r)) by (eapply comp_par_closed_WF; eauto).
      assert (L1 : Nat.ltb (phi s r x') n = false) by (apply Nat.ltb_ge; apply phi_ge).
      assert (L2 : Nat.ltb (phi s r y) n = false) by (apply Nat.ltb_ge; apply phi_ge).
      rewrite L1, L2. unfold n. rewrite (src_phi s r x' Hx'), (src_phi s r y Hy). now apply Hrk.
Qed.

(* the tree below x depends only on the entries of the nodes in it *)
Lemma tags_child s f x k y :
  In k (kids s x) -> In (Some y) (Abs.tags (Abs.tree_of s f k)) -> In (Some y) (Abs.tags (Abs.tree_of s (S f) x)).
Proof.
  intros Hk Hy. unfold Abs.tags in *. cbn [Abs.tree_of Rose.pre map]. right.
  apply in_map_iff in Hy. destruct Hy as (t & Et & Ht). apply in_map_iff. exists t. split; [exact Et|].
  apply in_flat_map. exists (Abs.tree_of s f k). split; [now apply in_map | exact Ht].
Qed.

Lemma etree_ext dec hA hB : forall f x,
  (forall y, In (Some y) (Abs.tags (Abs.tree_of (fr hA) f x)) ->
     kids (fr hB) y = kids (fr hA) y /\ name (fr hB) y = name (fr hA) y /\ att hB y = att hA y) ->
  etree_of dec hB f x = etree_of dec hA f x.
Proof.
  induction f as [|f IH]; intros x H.
  - destruct (H x) as (_ & n & a); [cbn; now left|]. cbn. now rewrite n, a.
  - destruct (H x) as (k & n & a); [cbn; now left|]. cbn. rewrite k, n, a. f_equal.
    apply map_ext_in. intros c Hc. apply IH. intros y Hy. apply H. eapply tags_child; eauto.
Qed.

Lemma run_size cfg ops s : size (run cfg s ops) = size s.
Proof.
  assert (C : closed (fun _ => true) s) by (intros x _; split; auto).
  assert (O : forallb (op_in (fun _ => true)) ops = true).
  { apply forallb_forall. intros o _. destruct o as [c [i| |] ft|p cont args ft|p|p c ft|p cs fts|p c ft|c p ft|p nm ft|p keys r|n v];
      cbn; auto; try (apply forallb_forall; intros a _; now destruct a); apply forallb_forall; auto. }
  destruct (run_ok _ cfg ops s C O) as [[E _] _]. exact E.
Qed.

(* detaching t does not change the tree below t *)
Lemma detach_subtree dec cfg h t :
  ForestWF.WF (fr h) ->
  esubtree dec (with_fr h (run cfg (fr h) (match par (fr h) t with None => [] | Some _ => [detach t] end))) t
  = esubtree dec h t.
Proof.
  intros W. destruct (par (fr h) t) as [q|] eqn:Hq; [|destruct h; reflexivity].
  unfold esubtree. cbn [with_fr fr]. rewrite run_size.
  apply etree_ext. cbn [with_fr fr att]. intros y Hy.
  split; [|split; [|reflexivity]].
  - (* kids *)
    unfold run; cbn [fold_left]. unfold step.
    destruct (negb (op_in_range (fr h) (detach t))); cbn [fst]; [reflexivity|].
    unfold detach. destruct (ForestOps.set_parent_cases cfg NoFault (fr h) t ANone) as [(_ & E & _)|[(_ & E)|(_ & F & _)]];
      [|rewrite E; reflexivity|discriminate].
    rewrite E. cbn [ForestOps.np_of]. rewrite (ForestWF.attach_kids (fr h) t None y W). cbn. rewrite app_nil_r.
    apply ForestWF.remove1_notin. intros Hin. apply (ForestWF.wf_link (fr h) W) in Hin.
    (* then y = q, the parent of t; but q is not in the tree below t *)
    assert (y = q) by congruence. subst y.
    apply (Abs.subtree_members (fr h) t q W) in Hy. destruct Hy as [E1|E1].
    + destruct (ForestOps.child_not_above (fr h) t q W Hq) as [N _]. congruence.
    + apply (ForestWF.WF_not_own_ancestor (fr h) t W).
      rewrite (ForestWF.WF_ancestors_unfold (fr h) t q W Hq). now right.
  - (* names are never written by a structural operation *)
    unfold run; cbn [fold_left]. unfold step.
    destruct (negb (op_in_range (fr h) (detach t))); cbn [fst]; [reflexivity|].
    unfold detach. destruct (ForestOps.set_parent_cases cfg NoFault (fr h) t ANone) as [(_ & E & _)|[(_ & E)|(_ & F & _)]];
      [|rewrite E; reflexivity|discriminate].
    rewrite E. unfold attach. cbn. rewrite Hq. reflexivity.
Qed.

(* --- levels of the heap --- *)
Lemma level_succ s j l : level s (S (S j)) l = level s (S j) (flat_map (kids s) l).
Proof. reflexivity. Qed.

Lemma level_step s : forall j l y c, In y (level s (S j) l) -> In c (kids s y) -> In c (level s (S (S j)) l).
Proof.
  induction j as [|j IH]; intros l y c Hy Hc.
  - cbn in *. apply in_flat_map. eauto.
  - rewrite level_succ in Hy. rewrite level_succ. eapply IH; eauto.
Qed.

Lemma level_depth s : ForestWF.WF s -> forall j l y, In y (level s (S j) l) ->
  exists x0, In x0 l /\ depth s y = depth s x0 + j.
Proof.
  intros W j; induction j as [|j IH]; intros l y Hy.
  - cbn in Hy. exists y. split; [exact Hy | lia].
  - rewrite level_succ in Hy. destruct (IH _ _ Hy) as (c & Hc & E).
    apply in_flat_map in Hc. destruct Hc as (x0 & Hx0 & Hk). exists x0. split; [exact Hx0|].
    apply (ForestWF.wf_link s W) in Hk. rewrite E, (Abs.depth_child s c x0 W Hk). lia.
Qed.

Lemma name_orphan s c x : name (orphan s c) x = name s x.
Proof. unfold orphan. destruct (par s c); reflexivity. Qed.

Lemma name_del_children s p x : name (del_children s p) x = name s x.
Proof.
  unfold del_children. generalize (kids s p) as l. intros l. revert s.
  induction l as [|c t IH]; intros s; cbn; [reflexivity|]. rewrite IH. apply name_orphan.
Qed.

(* after `del node.children` for every node of the list: those nodes have no children, every other
   node has the children it had; names are untouched; the state is still well-formed *)
Lemma del_list_spec cfg : forall l s, ForestWF.WF s ->
  let s' := run cfg s (map DelChildren l) in
  ForestWF.WF s'
  /\ (forall y, kids s' y = if memb y l then [] else kids s y)
  /\ (forall y, name s' y = name s y).
Proof.
  induction l as [|p t IH]; intros s W; cbn zeta.
  - split; [exact W|]. split; reflexivity.
  - unfold run. cbn [map fold_left]. fold (run cfg (fst (step cfg s (DelChildren p))) (map DelChildren t)).
    set (s1 := fst (step cfg s (DelChildren p))).
    assert (H1 : ForestWF.WF s1 /\ (forall y, kids s1 y = if Nat.eqb y p then [] else kids s y)
                 /\ (forall y, name s1 y = name s y)).
    { subst s1. unfold step. destruct (negb (op_in_range s (DelChildren p))) eqn:R; cbn [fst].
      - split; [exact W|]. split; [|reflexivity]. intros y. destruct (Nat.eqb_spec y p) as [->|]; [|reflexivity].
        apply Abs.kids_nil_outside; [exact W|]. cbn in R. unfold in_range in R.
        apply Bool.negb_true_iff, Nat.ltb_ge in R. exact R.
      - destruct (ForestOps.del_children_spec s p W) as (W1 & _ & _ & K1 & K2). split; [exact W1|]. split.
        + intros y. destruct (Nat.eqb_spec y p) as [->|N]; [exact K1 | now apply K2].
        + intros y. apply name_del_children. }
    destruct H1 as (W1 & K1 & N1). destruct (IH s1 W1) as (W2 & K2 & N2). split; [exact W2|]. split.
    + intros y. rewrite K2, K1. cbn [memb existsb].
      destruct (Nat.eqb y p); cbn; [now destruct (memb y t) | reflexivity].
    + intros y. now rewrite N2, N1.
Qed.

Lemma In_memb x l : In x l -> memb x l = true.
Proof. intros H. unfold memb. apply existsb_exists. exists x. split; [exact H | apply Nat.eqb_refl]. Qed.

(* (the depth cut) deleting the children of the nodes of level k+1 below x leaves, below x, the tree cut
   after k levels - HelperProofs.cut, which is what Helper.depth_cut computes (del_level_cut) *)
Theorem cut_refines dec cfg h x k :
  ForestWF.WF (fr h) ->
  let s' := run cfg (fr h) (cut_ops (fr h) x (S k)) in
  ForestWF.WF s' /\ size s' = size (fr h)
  /\ esubtree dec (with_fr h s') x = HelperProofs.cut k (esubtree dec h x).
Proof.
  intros W. cbn zeta. unfold cut_ops. set (L := level (fr h) (S k) [x]).
  destruct (del_list_spec cfg L (fr h) W) as (W' & K' & N').
  set (s' := run cfg (fr h) (map DelChildren L)) in *.
  assert (Sz : size s' = size (fr h)) by (apply run_size).
  split; [exact W'|]. split; [exact Sz|].
  unfold esubtree. cbn [with_fr fr]. rewrite Sz.
  generalize (S (size (fr h))) as f.
  (* nodes m levels above the cut level *)
  assert (Q : forall m, m <= k -> forall y, In y (level (fr h) (S (k - m)) [x]) ->
              forall f, etree_of dec (with_fr h s') f y = HelperProofs.cut m (etree_of dec h f y)).
  { induction m as [|m IH]; intros Lm y Hy f.
    - replace (k - 0) with k in Hy by lia.
      assert (Ky : kids s' y = []) by (rewrite K', (In_memb y L Hy); reflexivity).
      destruct f; cbn [etree_of with_fr fr att HelperProofs.cut]; rewrite ?Ky, N'; reflexivity.
    - assert (Ky : kids s' y = kids (fr h) y).
      { rewrite K'. destruct (memb y L) eqn:M; [|reflexivity]. exfalso.
        apply memb_In in M. destruct (level_depth (fr h) W _ _ _ M) as (x1 & [<-|[]] & E1).
        destruct (level_depth (fr h) W _ _ _ Hy) as (x2 & [<-|[]] & E2). lia. }
      destruct f; cbn [etree_of with_fr fr att HelperProofs.cut]; rewrite ?Ky, N'; [reflexivity|].
      f_equal. rewrite map_map. apply map_ext_in. intros c Hc. apply IH; [lia|].
      replace (S (k - m)) with (S (S (k - S m))) by lia. eapply level_step; eauto. }
  intros f. apply (Q k (le_n k) x). replace (k - k) with 0 by lia. cbn. now left.
Qed.

Lemma copy_tree_cut : forall t k, Helper.copy_tree (HelperProofs.cut k t) = HelperProofs.cut k (Helper.copy_tree t).
Proof.
  induction t as [tg n a ks IH] using Rose.tree_ind'. intros k. destruct k as [|k]; cbn; [reflexivity|].
  f_equal. rewrite !map_map. apply map_ext_in. intros c Hc. rewrite Forall_forall in IH. now apply IH.
Qed.

Lemma depth_cut_cut k t : Helper.depth_cut (S k) t = HelperProofs.cut k t.
Proof. exact (HelperProofs.del_level_cut k t). Qed.

Lemma phi_in_range s r x : In x (comp s r) -> phi s r x < size (deep_copy_f s r).
Proof. apply phi_lt. Qed.

(* (2a) get_subtree: the returned node abstracts to Helper's result for the located subtree *)
Theorem get_subtree_refines dec cfg h start found md :
  ForestWF.WF (fr h) -> In found (comp (fr h) start) ->
  let '(h', r') := sk_get_subtree cfg h start found md in
  Helper.copy_tree (esubtree dec h' r')
  = Helper.depth_cut md (Helper.copy_tree (esubtree dec h found)).
Proof.
  intros W Hf. unfold sk_get_subtree.
  set (h1 := deep_copy h start). set (t := phi (fr h) start found).
  assert (W1 : ForestWF.WF (fr h1)) by (apply copy_WF; exact W).
  assert (E1 : esubtree dec h1 t = relabel (phi (fr h) start) (esubtree dec h found)) by (now apply copy_refines).
  pose proof (detach_subtree dec cfg h1 t W1) as D.
  set (ops := match par (fr h1) t with None => [] | Some _ => [detach t] end) in *.
  destruct md as [|k].
  - cbn [Helper.depth_cut]. rewrite D, E1. apply copy_tree_relabel.
  - set (s2 := run cfg (fr h1) ops) in *. set (h2 := with_fr h1 s2) in *.
    assert (W2 : ForestWF.WF (fr h2)) by (cbn; apply ForestStep.run_WF; exact W1).
    assert (Ht : In t (comp (fr h2) t)).
    { apply comp_self. cbn. unfold s2. rewrite run_size. now apply phi_lt. }
    pose proof (copy_refines dec h2 t t W2 Ht) as E3.
    set (h3 := deep_copy h2 t) in *. cbn [with_fr fr] in E3 |- *.
    assert (W3 : ForestWF.WF (fr h3)) by (apply copy_WF; exact W2).
    destruct (cut_refines dec cfg h3 (phi s2 t t) k W3) as (_ & _ & C).
    cbn zeta in C. change (fr h2) with s2 in E3. rewrite C, E3, D, E1.
    rewrite copy_tree_cut, !copy_tree_relabel. symmetry. apply depth_cut_cut.
Qed.

(* (2b) prune_tree(max_depth = k+1) without paths *)
Theorem prune_depth_refines dec cfg h start exact k :
  ForestWF.WF (fr h) -> start < size (fr h) ->
  let '(h', r') := sk_prune cfg h start [] exact (S k) in
  Helper.copy_tree (esubtree dec h' r')
  = Helper.depth_cut (S k) (Helper.copy_tree (esubtree dec h start)).
Proof.
  intros W L. unfold sk_prune.
  set (h1 := deep_copy h start). set (tc := phi (fr h) start start).
  assert (W1 : ForestWF.WF (fr h1)) by (apply copy_WF; exact W).
  assert (E1 : esubtree dec h1 tc = relabel (phi (fr h) start) (esubtree dec h start))
    by (apply copy_refines; [exact W | now apply comp_self]).
  assert (P0 : prune_ops (fr h1) (map (phi (fr h) start) []) exact = []) by (unfold prune_ops; destruct exact; reflexivity).
  rewrite P0. change (run cfg (fr h1) []) with (fr h1).
  destruct (cut_refines dec cfg h1 tc k W1) as (_ & _ & C). cbn zeta in C. rewrite C, E1.
  rewrite copy_tree_cut, copy_tree_relabel. symmetry. apply depth_cut_cut.
Qed.

(* what Helper.get_subtree_at returns, in terms of the position it locates *)
Definition helper_located (tsep : str) (T : Rose.tree) (st : Rose.pos) (path : str) : res Rose.pos :=
  if Helper.is_nil path then Ret st else
  match Helper.find_path_at false tsep (Helper.copy_tree T) st path with
  | Raise e => Raise e
  | Ret None => Raise ValueError
  | Ret (Some p) => Ret p
  end.

Lemma subtree_at_copy : forall q t,
  Rose.subtree_at (Helper.copy_tree t) q = option_map Helper.copy_tree (Rose.subtree_at t q).
Proof.
  induction q as [|i q IH]; intros [tg n a ks]; [reflexivity|].
  cbn [Helper.copy_tree Rose.subtree_at Rose.tkids]. rewrite nth_error_map.
  destruct (nth_error ks i) as [c|]; cbn; [apply IH | reflexivity].
Qed.

Lemma copy_tree_idem t : Helper.copy_tree (Helper.copy_tree t) = Helper.copy_tree t.
Proof.
  induction t as [tg n a ks IH] using Rose.tree_ind'. cbn. f_equal. rewrite map_map.
  apply map_ext_in. intros c Hc. rewrite Forall_forall in IH. now apply IH.
Qed.

(* the two models side by side: when `found` is the node at the position the algorithm locates, the
   heap skeleton returns (modulo object identities) exactly the tree Algo/Helper.v computes *)
Theorem get_subtree_agrees dec cfg h start found md tsep T st path q res :
  ForestWF.WF (fr h) -> In found (comp (fr h) start) ->
  helper_located tsep T st path = Ret q ->
  Rose.subtree_at T q = Some (esubtree dec h found) ->
  Helper.get_subtree_at false tsep T st path md = Ret res ->
  Helper.copy_tree (esubtree dec (fst (sk_get_subtree cfg h start found md))
                             (snd (sk_get_subtree cfg h start found md))) = res.
Proof.
  intros W Hf Hq Hs Hr.
  pose proof (get_subtree_refines dec cfg h start found md W Hf) as R.
  destruct (sk_get_subtree cfg h start found md) as [h' r']. cbn [fst snd]. rewrite R.
  unfold Helper.get_subtree_at in Hr. destruct (Helper.is_nil tsep); [discriminate|].
  unfold helper_located in Hq.
  assert (Hloc : (if Helper.is_nil path then Ret st else
                  match Helper.find_path_at false tsep (Helper.copy_tree T) st path with
                  | Raise e => Raise e | Ret None => Raise ValueError | Ret (Some p) => Ret p end) = Ret q)
    by exact Hq.
  rewrite Hloc in Hr. rewrite subtree_at_copy, Hs in Hr. cbn [option_map] in Hr.
  destruct md as [|k]; cbn [Nat.eqb] in Hr; [injection Hr as <-; reflexivity|].
  rewrite copy_tree_idem in Hr. injection Hr as <-. reflexivity.
Qed.

(* (3) tree_to_dict: the exporter reads a copy; what it computes is a function of the abstraction
   alone, and it is the same on the copy as on the original *)
Lemma tname_relabel g t : Rose.tname (relabel g t) = Rose.tname t.
Proof. destruct t; reflexivity. Qed.
Lemma tattrs_relabel g t : Rose.tattrs (relabel g t) = Rose.tattrs t.
Proof. destruct t; reflexivity. Qed.
Lemma is_leaf_relabel g t : Rose.is_leaf (relabel g t) = Rose.is_leaf t.
Proof. destruct t as [tg n a [|k ks]]; reflexivity. Qed.

Lemma dict_child_relabel o a g t : Export.dict_child o a (relabel g t) = Export.dict_child o a t.
Proof.
  unfold Export.dict_child, Export.attr_items, Export.describe, Export.get_attr.
  now rewrite tname_relabel, tattrs_relabel.
Qed.

Lemma walk_relabel {X} (emit : list str -> Rose.tree -> X) o g :
  (forall a t, emit a (relabel g t) = emit a t) ->
  forall t anc, Export.walk emit o anc (relabel g t) = Export.walk emit o anc t.
Proof.
  intros He. induction t as [tg n a ks IH] using Rose.tree_ind'. intros anc.
  change (relabel g (Rose.T tg n a ks)) with (Rose.T (option_map g tg) n a (map (relabel g) ks)).
  cbn [Export.walk]. f_equal.
  - change (Rose.T (option_map g tg) n a (map (relabel g) ks)) with (relabel g (Rose.T tg n a ks)).
    unfold Export.gates. rewrite is_leaf_relabel, He. reflexivity.
  - rewrite flat_map_concat_map, map_map, <- flat_map_concat_map.
    apply flat_map_ext_in. intros c Hc. rewrite Forall_forall in IH. now apply IH.
Qed.

Lemma locate_relabel g : forall p t anc,
  Export.locate anc (relabel g t) p
  = option_map (fun at_ : list str * Rose.tree => (fst at_, relabel g (snd at_))) (Export.locate anc t p).
Proof.
  induction p as [|i p IH]; intros [tg n a ks] anc; [reflexivity|].
  cbn [relabel Export.locate Rose.tkids Rose.tname]. rewrite nth_error_map.
  destruct (nth_error ks i) as [c|]; cbn [option_map]; [apply IH | reflexivity].
Qed.

Lemma tree_to_dict_relabel g t sep p o :
  Export.tree_to_dict (relabel g t) sep p o = Export.tree_to_dict t sep p o.
Proof.
  unfold Export.tree_to_dict. rewrite locate_relabel.
  destruct (Export.locate [] t p) as [[anc t']|]; cbn [option_map fst snd]; [|reflexivity].
  f_equal. f_equal. apply walk_relabel. intros a u. now rewrite tname_relabel, dict_child_relabel.
Qed.

Theorem export_refines dec h start x :
  ForestWF.WF (fr h) -> In x (comp (fr h) start) ->
  let h' := sk_export h start in
  unchanged_below (size (fr h)) h h'
  /\ forall sep p o,
       Export.tree_to_dict (esubtree dec h' (phi (fr h) start x)) sep p o
       = Export.tree_to_dict (esubtree dec h x) sep p o.
Proof.
  intros W Hx. cbn zeta. split; [apply sk_export_spec|]. intros sep p o.
  unfold sk_export. rewrite (copy_refines dec h start x W Hx). apply tree_to_dict_relabel.
Qed.

(* (4) the mutating counterpart, shift_nodes for one pair (`from_node.parent = to_node` without the
   copy): here the input IS changed, and exactly in these entries: the parent field of the moved node,
   the children list of its old parent and the children list of the new parent *)
Theorem shift_writes cfg h from_ to_ :
  ForestWF.WF (fr h) ->
  let s := fr h in
  let s' := fr (sk_move cfg h from_ to_) in
  (forall x, x <> from_ -> par s' x = par s x)
  /\ (forall q, par s from_ <> Some q -> q <> to_ -> kids s' q = kids s q)
  /\ (forall x, name s' x = name s x)
  /\ (s' = s
      \/ (par s' from_ = Some to_
          /\ (forall q, kids s' q = remove1 from_ (kids s q) ++ (if Nat.eqb q to_ then [from_] else [])))).
Proof.
  intros W. cbn zeta. unfold sk_move; cbn [with_fr fr]. unfold run; cbn [fold_left]. unfold step.
  destruct (negb (op_in_range (fr h) (SetParent from_ (ANode to_) NoFault))); cbn [fst].
  { repeat split; auto. }
  destruct (ForestOps.set_parent_cases cfg NoFault (fr h) from_ (ANode to_)) as [(_ & E & _)|[(_ & E)|(_ & F & _)]];
    [|rewrite E; repeat split; auto|discriminate].
  rewrite E. cbn [ForestOps.np_of].
  assert (K : forall q, kids (attach (fr h) from_ (Some to_)) q
                        = remove1 from_ (kids (fr h) q) ++ (if Nat.eqb q to_ then [from_] else [])).
  { intros q. rewrite (ForestWF.attach_kids (fr h) from_ (Some to_) q W). f_equal.
    unfold ForestWF.is_parent. rewrite Nat.eqb_sym. reflexivity. }
  split; [|split; [|split]].
  - intros x N. rewrite ForestWF.attach_par. destruct (Nat.eqb_spec x from_); [contradiction|reflexivity].
  - intros q N1 N2. rewrite K. destruct (Nat.eqb_spec q to_); [contradiction|]. rewrite app_nil_r.
    apply ForestWF.remove1_notin. intros Hin. apply (ForestWF.wf_link (fr h) W) in Hin. contradiction.
  - intros x. unfold attach. destruct (par (fr h) from_); reflexivity.
  - right. split; [|exact K]. rewrite ForestWF.attach_par, Nat.eqb_refl. reflexivity.
Qed.

