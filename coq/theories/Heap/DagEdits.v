(* DAG operations as graph edits.
   Heap/Dag.v models the structural entry points of DAGNode as statement sequences on the parents /
   children lists, Heap/DagProofs.v proves their effect on these lists, Heap/DagAbs.v reads a heap
   state as a pure graph `dabs s` (Algo/DagAlgo.v) whose edge relation `Edge` / reachability `Reach`
   (Spec/PC16.v) are the vocabulary of the DAG algorithms.  This file states the effect of every
   operation in that vocabulary: an operation of the API is an edit of the edge SET of `dabs s`.

     (1) assignments (parents setter, children setter, >>, <<, constructor) only add edges;
     (2) an accepted assignment adds exactly the requested edges (`asks`), an accepted deletion
         removes exactly the named edges (`removes`); both in one formula: `step_edges_exact`;
     (3) Reach grows under assignments, shrinks under deletions, and stays irreflexive;
         an accepted request never points from a node to one of its ancestors;
     (4) a refused / failing call leaves Edge and Reach as they were (constructor: nothing, or
         exactly the accepted parents assignment);
     (5) histories: an edge of the graph after `ops` was there at the start and never deleted, or
         was requested by an assignment of `ops` and not deleted since (`survives`) -- and conversely.

   Both models define `dag`, `dsize`, `parents`, `children`: heap names are written `Dag.x`. *)
From BT Require Import Base.Prelude Base.Str Base.Rose Heap.Dag Spec.PC10 Heap.DagProofs
     Algo.DagAlgo Spec.PC16 Algo.DagAlgoProofs Heap.DagAbs.

(* ------------------------------------------------------------------------------------------- *)
(** * Preliminaries *)

Lemma dabs_Edge_W : forall s a b, DWF s -> (Edge (dabs s) a b <-> In a (Dag.parents s b)).
Proof. intros s a b [L _]. apply dabs_Edge. exact L. Qed.

Lemma Edge_dec : forall g a b, {Edge g a b} + {~ Edge g a b}.
Proof. intros g a b. unfold Edge. apply in_dec. exact Nat.eq_dec. Qed.

Lemma Reach_mono : forall g h, (forall a b, Edge g a b -> Edge h a b) ->
  forall a b, Reach g a b -> Reach h a b.
Proof.
  intros g h H a b R. induction R as [a b He|a c b He _ IH].
  - apply Reach1. apply H. exact He.
  - eapply ReachS; [apply H; exact He|exact IH].
Qed.

Lemma Reach_ext : forall g h, (forall a b, Edge g a b <-> Edge h a b) ->
  forall a b, Reach g a b <-> Reach h a b.
Proof.
  intros g h H a b. split; apply Reach_mono; intros x y He; apply (H x y); exact He.
Qed.

Lemma dstep_DWF_eq : forall cfg s o s' out, DWF s -> dstep cfg s o = (s', out) -> DWF s'.
Proof. intros cfg s o s' out W E. pose proof (dstep_DWF cfg s o W) as H. rewrite E in H. exact H. Qed.

Lemma drun_app : forall cfg s l1 l2, drun cfg s (l1 ++ l2) = drun cfg (drun cfg s l1) l2.
Proof. intros cfg s l1 l2. unfold drun. apply fold_left_app. Qed.

Lemma drun_cons : forall cfg s o t, drun cfg s (o :: t) = drun cfg (fst (dstep cfg s o)) t.
Proof. reflexivity. Qed.

Lemma drun_snoc : forall cfg s l o, drun cfg s (l ++ [o]) = fst (dstep cfg (drun cfg s l) o).
Proof. intros cfg s l o. rewrite drun_app. reflexivity. Qed.

(* ------------------------------------------------------------------------------------------- *)
(** * (1) assignments only add edges -- whatever the outcome (accepted, refused, failing hook) *)

Theorem edges_only_added : forall cfg s o, DWF s -> is_assignment o = true ->
  forall a b, Edge (dabs s) a b -> Edge (dabs (fst (dstep cfg s o))) a b.
Proof.
  intros cfg s o W Ha a b H. pose proof (dstep_DWF cfg s o W) as W'.
  apply (dabs_Edge_W _ a b W'). apply only_adds_parents; [exact W|exact Ha|].
  apply (dabs_Edge_W s a b W). exact H.
Qed.

(* ------------------------------------------------------------------------------------------- *)
(** * (2) the exact edge set after an accepted operation *)

(* `asks s o a b` (DagProofs.v): the edge a -> b is requested by the assignment o in state s *)
Theorem assignment_edges_exact : forall cfg s o s', DWF s -> is_assignment o = true ->
  dstep cfg s o = (s', Ok) ->
  forall a b, Edge (dabs s') a b <-> Edge (dabs s) a b \/ asks s o a b.
Proof.
  intros cfg s o s' W Ha E a b. pose proof (dstep_DWF_eq cfg s o s' Ok W E) as W'.
  rewrite (dabs_Edge_W s' a b W'), (dabs_Edge_W s a b W).
  exact (assignment_effect cfg s o s' W Ha E a b).
Qed.

(* c.parents = ps *)
Corollary set_parents_edges_exact : forall cfg s c cont args ft s', DWF s ->
  dstep cfg s (SetParents c cont args ft) = (s', Ok) ->
  forall a b, Edge (dabs s') a b <-> Edge (dabs s) a b \/ (b = c /\ In a (ids_of args)).
Proof.
  intros cfg s c cont args ft s' W E.
  exact (assignment_edges_exact cfg s (SetParents c cont args ft) s' W eq_refl E).
Qed.

(* p.children = cs *)
Corollary set_children_edges_exact : forall cfg s p cont args ft s', DWF s ->
  dstep cfg s (SetKids p cont args ft) = (s', Ok) ->
  forall a b, Edge (dabs s') a b <-> Edge (dabs s) a b \/ (a = p /\ In b (ids_of args)).
Proof.
  intros cfg s p cont args ft s' W E.
  exact (assignment_edges_exact cfg s (SetKids p cont args ft) s' W eq_refl E).
Qed.

(* p >> c *)
Corollary rshift_edges_exact : forall cfg s p c ft s', DWF s ->
  dstep cfg s (DRShift p c ft) = (s', Ok) ->
  forall a b, Edge (dabs s') a b <-> Edge (dabs s) a b \/ (a = p /\ b = c).
Proof.
  intros cfg s p c ft s' W E a b.
  rewrite (assignment_edges_exact cfg s (DRShift p c ft) s' W eq_refl E a b). cbn [asks]. tauto.
Qed.

(* c << p *)
Corollary lshift_edges_exact : forall cfg s c p ft s', DWF s ->
  dstep cfg s (DLShift c p ft) = (s', Ok) ->
  forall a b, Edge (dabs s') a b <-> Edge (dabs s) a b \/ (a = p /\ b = c).
Proof.
  intros cfg s c p ft s' W E a b.
  rewrite (assignment_edges_exact cfg s (DLShift c p ft) s' W eq_refl E a b). cbn [asks]. tauto.
Qed.

(* DAGNode(nm, parents=pa, children=ca): the fresh object is the node `Dag.dsize s` *)
Corollary construct_edges_exact : forall cfg s nm pa ca ftp ftc s', DWF s ->
  dstep cfg s (DNew nm pa ca ftp ftc) = (s', Ok) ->
  forall a b, Edge (dabs s') a b <->
    Edge (dabs s) a b \/ (b = Dag.dsize s /\ In a (ids_of (carg_args pa)))
                      \/ (a = Dag.dsize s /\ In b (ids_of (carg_args ca))).
Proof.
  intros cfg s nm pa ca ftp ftc s' W E.
  exact (assignment_edges_exact cfg s (DNew nm pa ca ftp ftc) s' W eq_refl E).
Qed.

(* the edges a deletion names: `del p.children` every edge that starts in p, `del p[nm]` the edges
   from p to a child called nm *)
Definition removes (s : Dag.dag) (o : dop) (a b : id) : Prop :=
  match o with
  | DelKids p => a = p
  | DelKid p nm => a = p /\ Dag.dname s b = nm
  | _ => False
  end.

Lemma removes_is_deletion : forall s o a b, removes s o a b -> is_assignment o = false.
Proof. intros s o a b H. destruct o; cbn [removes] in H; try contradiction; reflexivity. Qed.

Lemma asks_is_assignment : forall s o a b, asks s o a b -> is_assignment o = true.
Proof. intros s o a b H. destruct o; cbn [asks] in H; try contradiction; reflexivity. Qed.

(* del p.children *)
Theorem del_children_edges_exact : forall cfg s p s', DWF s ->
  dstep cfg s (DelKids p) = (s', Ok) ->
  forall a b, Edge (dabs s') a b <-> Edge (dabs s) a b /\ a <> p.
Proof.
  intros cfg s p s' W E a b. pose proof (dstep_DWF_eq cfg s _ s' Ok W E) as W'.
  rewrite (dabs_Edge_W s' a b W'), (dabs_Edge_W s a b W).
  unfold dstep in E. destruct (negb (dop_in_range s (DelKids p))); [discriminate|].
  injection E as <-. apply del_children_effect. exact W.
Qed.

(* del p[nm]: accepted iff at most one child of p is called nm; that edge (if any) disappears *)
Theorem del_item_edges_exact : forall cfg s p nm s', DWF s ->
  dstep cfg s (DelKid p nm) = (s', Ok) ->
  forall a b, Edge (dabs s') a b <-> Edge (dabs s) a b /\ ~ (a = p /\ Dag.dname s b = nm).
Proof.
  intros cfg s p nm s' W E a b. pose proof (dstep_DWF_eq cfg s _ s' Ok W E) as W'.
  rewrite (dabs_Edge_W s' a b W'), (dabs_Edge_W s a b W).
  unfold dstep in E. destruct (negb (dop_in_range s (DelKid p nm))); [discriminate|].
  pose proof (del_item_effect s p nm W) as D. destruct W as [L R].
  assert (InF : forall x, In x (filter (fun k => str_eqb (Dag.dname s k) nm) (Dag.children s p))
                          <-> In p (Dag.parents s x) /\ Dag.dname s x = nm).
  { intros x. rewrite filter_In, str_eqb_eq, (l_sym s L p x). tauto. }
  destruct (filter (fun k => str_eqb (Dag.dname s k) nm) (Dag.children s p)) as [|k [|k' t]].
  - rewrite D in E. injection E as <-. split; [|tauto]. intros H. split; [exact H|].
    intros [Ha Hn]. subst a. apply (InF b). split; assumption.
  - destruct D as [_ [_ D]]. rewrite E in D. cbn [fst] in D. rewrite (D a b).
    split; intros [H1 H2]; (split; [exact H1|]).
    + intros [Ha Hn]. subst a. apply H2. split; [reflexivity|].
      assert (Hb : In b [k]) by (apply (InF b); split; assumption).
      destruct Hb as [Hb|[]]. symmetry. exact Hb.
    + intros [Ha Hb]. subst a b. apply H2. split; [reflexivity|].
      apply (InF k). left. reflexivity.
  - rewrite D in E. discriminate.
Qed.

(* both deletions *)
Theorem deletion_edges_exact : forall cfg s o s', DWF s -> is_assignment o = false ->
  dstep cfg s o = (s', Ok) ->
  forall a b, Edge (dabs s') a b <-> Edge (dabs s) a b /\ ~ removes s o a b.
Proof.
  intros cfg s o s' W Hd E a b.
  destruct o as [c cont args ft | p cont args ft | p | p nm | p c ft | c p ft | nm pa ca ftp ftc];
    try discriminate; cbn [removes].
  - exact (del_children_edges_exact cfg s p s' W E a b).
  - exact (del_item_edges_exact cfg s p nm s' W E a b).
Qed.

(* every accepted operation, one formula: old edges minus the named ones, plus the requested ones *)
Theorem step_edges_exact : forall cfg s o s', DWF s -> dstep cfg s o = (s', Ok) ->
  forall a b, Edge (dabs s') a b <-> (Edge (dabs s) a b /\ ~ removes s o a b) \/ asks s o a b.
Proof.
  intros cfg s o s' W E a b. destruct (is_assignment o) eqn:Ha.
  - rewrite (assignment_edges_exact cfg s o s' W Ha E a b). split.
    + intros [H|H]; [left|right; exact H]. split; [exact H|]. intro R.
      apply removes_is_deletion in R. congruence.
    + intros [[H _]|H]; [left|right]; exact H.
  - rewrite (deletion_edges_exact cfg s o s' W Ha E a b). split.
    + intros H. left. exact H.
    + intros [H|H]; [exact H|]. apply asks_is_assignment in H. congruence.
Qed.

(* ------------------------------------------------------------------------------------------- *)
(** * (4) refused / failing operations (placed before (3): used there) *)

(* everything but the constructor: Edge is unchanged *)
Theorem refused_keeps_edges : forall cfg s o, DWF s -> is_new o = false ->
  snd (dstep cfg s o) <> Ok ->
  forall a b, Edge (dabs (fst (dstep cfg s o))) a b <-> Edge (dabs s) a b.
Proof.
  intros cfg s o W Hn Herr a b. pose proof (dstep_DWF cfg s o W) as W'.
  rewrite (dabs_Edge_W _ a b W'), (dabs_Edge_W s a b W).
  apply same_state_parents. apply dag_atomic; assumption.
Qed.

Theorem refused_keeps_reach : forall cfg s o, DWF s -> is_new o = false ->
  snd (dstep cfg s o) <> Ok ->
  forall a b, Reach (dabs (fst (dstep cfg s o))) a b <-> Reach (dabs s) a b.
Proof.
  intros cfg s o W Hn Herr. apply Reach_ext. apply refused_keeps_edges; assumption.
Qed.

(* the constructor is two assignments: when it raises, either no edge was added, or exactly the
   edges of the accepted `parents=` argument are in place (the `children=` argument was refused) *)
Theorem refused_constructor_edges : forall cfg s nm pa ca ftp ftc, DWF s ->
  snd (dstep cfg s (DNew nm pa ca ftp ftc)) <> Ok ->
  (forall a b, Edge (dabs (fst (dstep cfg s (DNew nm pa ca ftp ftc)))) a b <-> Edge (dabs s) a b)
  \/ (snd (set_parents cfg ftp (alloc s nm) (Dag.dsize s) (carg_cont pa) (carg_args pa)) = Ok
      /\ forall a b, Edge (dabs (fst (dstep cfg s (DNew nm pa ca ftp ftc)))) a b <->
                     Edge (dabs s) a b \/ (b = Dag.dsize s /\ In a (ids_of (carg_args pa)))).
Proof.
  intros cfg s nm pa ca ftp ftc W Herr.
  pose proof (dstep_DWF cfg s (DNew nm pa ca ftp ftc) W) as W'.
  destruct (dop_in_range s (DNew nm pa ca ftp ftc)) eqn:Hr.
  - destruct (dag_new_atomic cfg s nm pa ca ftp ftc W Hr Herr) as [A|[s2 [E2 A]]].
    + left. intros a b. rewrite (dabs_Edge_W _ a b W'), (dabs_Edge_W s a b W).
      rewrite (same_state_parents _ _ a b A). apply alloc_parents_In. exact W.
    + right. split; [rewrite E2; reflexivity|]. intros a b.
      rewrite (dabs_Edge_W _ a b W'), (dabs_Edge_W s a b W).
      rewrite (same_state_parents _ _ a b A).
      rewrite (set_parents_effect _ _ _ _ _ _ _ E2 a b).
      rewrite (alloc_parents_In s nm a b W). tauto.
  - left. intros a b. unfold dstep. rewrite Hr. cbn [negb fst]. tauto.
Qed.

(* ------------------------------------------------------------------------------------------- *)
(** * (3) reachability *)

Theorem reach_monotone : forall cfg s o, DWF s -> is_assignment o = true ->
  forall a b, Reach (dabs s) a b -> Reach (dabs (fst (dstep cfg s o))) a b.
Proof.
  intros cfg s o W Ha. apply Reach_mono. apply edges_only_added; assumption.
Qed.

(* the graph after any operation -- accepted or not -- has no cycle *)
Theorem step_acyclic : forall cfg s o, DWF s ->
  forall y, ~ Reach (dabs (fst (dstep cfg s o))) y y.
Proof. intros cfg s o W. apply dabs_Acyclic. apply dstep_DWF. exact W. Qed.

(* deletions only remove edges, whatever the outcome *)
Theorem deletion_only_removes : forall cfg s o, DWF s -> is_assignment o = false ->
  forall a b, Edge (dabs (fst (dstep cfg s o))) a b -> Edge (dabs s) a b.
Proof.
  intros cfg s o W Hd a b H. destruct (dstep cfg s o) as [s' out] eqn:E. cbn [fst] in H.
  destruct out as [|e].
  - apply (deletion_edges_exact cfg s o s' W Hd E a b) in H. tauto.
  - assert (Hn : is_new o = false) by (destruct o; try discriminate; reflexivity).
    pose proof (refused_keeps_edges cfg s o W Hn) as K. rewrite E in K. cbn [fst snd] in K.
    apply K; [discriminate|exact H].
Qed.

Theorem reach_antitone_deletion : forall cfg s o, DWF s -> is_assignment o = false ->
  forall a b, Reach (dabs (fst (dstep cfg s o))) a b -> Reach (dabs s) a b.
Proof.
  intros cfg s o W Hd. apply Reach_mono. apply deletion_only_removes; assumption.
Qed.

(* hence: an accepted request a -> b never closes a cycle -- b was neither a nor an ancestor of a *)
Theorem accepted_request_no_back_path : forall cfg s o s', DWF s ->
  dstep cfg s o = (s', Ok) ->
  forall a b, asks s o a b -> a <> b /\ ~ Reach (dabs s) b a.
Proof.
  intros cfg s o s' W E a b Hq.
  pose proof (asks_is_assignment s o a b Hq) as Ha.
  assert (He : Edge (dabs s') a b).
  { apply (assignment_edges_exact cfg s o s' W Ha E a b). right. exact Hq. }
  pose proof (step_acyclic cfg s o W) as Ac. rewrite E in Ac. cbn [fst] in Ac.
  split.
  - intros Hab. subst b. apply (Ac a). apply Reach1. exact He.
  - intros Hr. apply (Ac a). eapply ReachS; [exact He|].
    pose proof (reach_monotone cfg s o W Ha b a Hr) as Hr'. rewrite E in Hr'. exact Hr'.
Qed.

(* ------------------------------------------------------------------------------------------- *)
(** * (5) histories *)

(* one step, edge present before: it stays unless an accepted deletion names it *)
Lemma edge_kept : forall cfg s o a b, DWF s -> Edge (dabs s) a b ->
  ~ (snd (dstep cfg s o) = Ok /\ removes s o a b) ->
  Edge (dabs (fst (dstep cfg s o))) a b.
Proof.
  intros cfg s o a b W He Hk. destruct (is_assignment o) eqn:Ha.
  - apply edges_only_added; assumption.
  - destruct (dstep cfg s o) as [s' out] eqn:E. cbn [fst snd] in *. destruct out as [|e].
    + apply (deletion_edges_exact cfg s o s' W Ha E a b). split; [exact He|].
      intro R. apply Hk. split; [reflexivity|exact R].
    + assert (Hn : is_new o = false) by (destruct o; try discriminate; reflexivity).
      pose proof (refused_keeps_edges cfg s o W Hn) as K. rewrite E in K. cbn [fst snd] in K.
      apply K; [discriminate|exact He].
Qed.

(* ... and conversely an accepted deletion that names it removes it *)
Lemma edge_removed : forall cfg s o a b, DWF s ->
  snd (dstep cfg s o) = Ok -> removes s o a b -> ~ Edge (dabs (fst (dstep cfg s o))) a b.
Proof.
  intros cfg s o a b W Hok R H. destruct (dstep cfg s o) as [s' out] eqn:E. cbn [fst snd] in *.
  subst out. apply (deletion_edges_exact cfg s o s' W (removes_is_deletion s o a b R) E a b) in H.
  tauto.
Qed.

(* one step, edge absent before and present after: the operation is an assignment that asked for
   it, and was accepted (a constructor call may have raised after its `parents=` part) *)
Lemma edge_new : forall cfg s o a b, DWF s -> ~ Edge (dabs s) a b ->
  Edge (dabs (fst (dstep cfg s o))) a b ->
  is_assignment o = true /\ asks s o a b /\ (is_new o = false -> snd (dstep cfg s o) = Ok).
Proof.
  intros cfg s o a b W Hno He. destruct (snd (dstep cfg s o)) as [|e] eqn:Eo.
  - destruct (dstep cfg s o) as [s' out] eqn:E. cbn [fst snd] in *. subst out.
    apply (step_edges_exact cfg s o s' W E a b) in He. destruct He as [[He _]|Hq]; [contradiction|].
    split; [exact (asks_is_assignment s o a b Hq)|]. split; [exact Hq|reflexivity].
  - destruct (is_new o) eqn:Hn.
    + destruct o as [ | | | | | | nm pa ca ftp ftc]; try discriminate.
      destruct (refused_constructor_edges cfg s nm pa ca ftp ftc W) as [K|[_ K]].
      * rewrite Eo. discriminate.
      * apply (K a b) in He. contradiction.
      * apply (K a b) in He. destruct He as [He|Hq]; [contradiction|].
        split; [reflexivity|]. split; [left; exact Hq|discriminate].
    + exfalso. apply Hno. apply (refused_keeps_edges cfg s o W Hn); [rewrite Eo; discriminate|exact He].
Qed.

(* `survives cfg s post a b`: running post from s, no accepted deletion names the edge a -> b *)
Fixpoint survives (cfg : dconfig) (s : Dag.dag) (post : list dop) (a b : id) : Prop :=
  match post with
  | [] => True
  | d :: t => ~ (snd (dstep cfg s d) = Ok /\ removes s d a b)
              /\ survives cfg (fst (dstep cfg s d)) t a b
  end.

Lemma survives_snoc : forall cfg post s o a b,
  survives cfg s (post ++ [o]) a b <->
  survives cfg s post a b
  /\ ~ (snd (dstep cfg (drun cfg s post) o) = Ok /\ removes (drun cfg s post) o a b).
Proof.
  intros cfg post. induction post as [|d t IH]; intros s o a b; cbn [app survives].
  - change (drun cfg s []) with s. tauto.
  - rewrite IH. rewrite drun_cons. tauto.
Qed.

(* an edge that is present and survives is present at the end *)
Lemma survives_Edge : forall cfg post s a b, DWF s ->
  Edge (dabs s) a b -> survives cfg s post a b -> Edge (dabs (drun cfg s post)) a b.
Proof.
  intros cfg post. induction post as [|d t IH]; intros s a b W He Hs.
  - exact He.
  - rewrite drun_cons. destruct Hs as [Hk Hs]. apply IH.
    + apply dstep_DWF. exact W.
    + apply edge_kept; assumption.
    + exact Hs.
Qed.

(* and an edge that is present at the end of a run it does not survive ... cannot have been present
   all along: stated positively below (history_edges_requested) *)

(** every edge of the graph after `ops` was present at the start and survived all of ops, or was
    added by an assignment of ops that asked for it and has survived since *)
Theorem history_edges_requested : forall cfg ops s0 a b, DWF s0 ->
  Edge (dabs (drun cfg s0 ops)) a b ->
  (Edge (dabs s0) a b /\ survives cfg s0 ops a b)
  \/ exists pre o post, ops = pre ++ o :: post
       /\ is_assignment o = true
       /\ asks (drun cfg s0 pre) o a b
       /\ ~ Edge (dabs (drun cfg s0 pre)) a b
       /\ Edge (dabs (fst (dstep cfg (drun cfg s0 pre) o))) a b
       /\ (is_new o = false -> snd (dstep cfg (drun cfg s0 pre) o) = Ok)
       /\ survives cfg (fst (dstep cfg (drun cfg s0 pre) o)) post a b.
Proof.
  intros cfg ops. induction ops as [|o ops' IH] using rev_ind; intros s0 a b W He.
  - left. split; [exact He|exact I].
  - rewrite drun_snoc in He.
    assert (Wp : DWF (drun cfg s0 ops')) by (apply drun_DWF; exact W).
    destruct (Edge_dec (dabs (drun cfg s0 ops')) a b) as [Hp|Hp].
    + (* present before the last operation: the last operation did not delete it *)
      assert (Hk : ~ (snd (dstep cfg (drun cfg s0 ops') o) = Ok /\ removes (drun cfg s0 ops') o a b)).
      { intros [Hok R]. exact (edge_removed cfg _ o a b Wp Hok R He). }
      destruct (IH s0 a b W Hp) as [[H0 Hs]|[pre [o1 [post [Eq [Ha [Hq [Hno [Hyes [Hacc Hs]]]]]]]]]].
      * left. split; [exact H0|]. apply survives_snoc. split; assumption.
      * right. exists pre, o1, (post ++ [o]). split; [rewrite Eq, <- app_assoc; reflexivity|].
        split; [exact Ha|]. split; [exact Hq|]. split; [exact Hno|]. split; [exact Hyes|].
        split; [exact Hacc|]. apply survives_snoc. split; [exact Hs|].
        assert (Er : drun cfg (fst (dstep cfg (drun cfg s0 pre) o1)) post = drun cfg s0 ops').
        { rewrite Eq. rewrite drun_app, drun_cons. reflexivity. }
        rewrite Er. exact Hk.
    + (* absent before: the last operation added it *)
      destruct (edge_new cfg _ o a b Wp Hp He) as [Ha [Hq Hacc]].
      right. exists ops', o, []. split; [reflexivity|]. split; [exact Ha|]. split; [exact Hq|].
      split; [exact Hp|]. split; [exact He|]. split; [exact Hacc|exact I].
Qed.

(** conversely: an edge requested by an accepted assignment and not deleted since is in the graph *)
Theorem requested_edge_present : forall cfg s0 pre o post a b, DWF s0 ->
  snd (dstep cfg (drun cfg s0 pre) o) = Ok ->
  asks (drun cfg s0 pre) o a b ->
  survives cfg (fst (dstep cfg (drun cfg s0 pre) o)) post a b ->
  Edge (dabs (drun cfg s0 (pre ++ o :: post))) a b.
Proof.
  intros cfg s0 pre o post a b W Hok Hq Hs.
  assert (Wp : DWF (drun cfg s0 pre)) by (apply drun_DWF; exact W).
  rewrite drun_app, drun_cons. apply survives_Edge.
  - apply dstep_DWF. exact Wp.
  - destruct (dstep cfg (drun cfg s0 pre) o) as [s' out] eqn:E. cbn [fst snd] in *. subst out.
    apply (assignment_edges_exact cfg _ o s' Wp (asks_is_assignment _ o a b Hq) E a b).
    right. exact Hq.
  - exact Hs.
Qed.

(* from n fresh, unlinked objects: the first alternative disappears *)
Lemma dinit_no_edge : forall n names a b, ~ Edge (dabs (dinit n names)) a b.
Proof.
  intros n names a b H. apply (dabs_Edge_W _ a b (DWF_init n names)) in H. exact H.
Qed.

Theorem reachable_edges_requested : forall cfg n names ops a b,
  Edge (dabs (drun cfg (dinit n names) ops)) a b ->
  exists pre o post, ops = pre ++ o :: post
    /\ is_assignment o = true
    /\ asks (drun cfg (dinit n names) pre) o a b
    /\ (is_new o = false -> snd (dstep cfg (drun cfg (dinit n names) pre) o) = Ok)
    /\ survives cfg (fst (dstep cfg (drun cfg (dinit n names) pre) o)) post a b.
Proof.
  intros cfg n names ops a b He.
  destruct (history_edges_requested cfg ops (dinit n names) a b (DWF_init n names) He)
    as [[H0 _]|[pre [o [post [Eq [Ha [Hq [_ [_ [Hacc Hs]]]]]]]]]].
  - exfalso. exact (dinit_no_edge n names a b H0).
  - exists pre, o, post. repeat split; assumption.
Qed.

(* reachability along a history of assignments only grows *)
Theorem reach_monotone_run : forall cfg ops s, DWF s ->
  forallb is_assignment ops = true ->
  forall a b, Reach (dabs s) a b -> Reach (dabs (drun cfg s ops)) a b.
Proof.
  intros cfg ops. induction ops as [|o t IH]; intros s W Hall a b Hr.
  - exact Hr.
  - cbn [forallb] in Hall. apply andb_true_iff in Hall. destruct Hall as [Ha Ht].
    rewrite drun_cons. apply IH; [apply dstep_DWF; exact W|exact Ht|].
    apply reach_monotone; assumption.
Qed.
