(* Heap model of bigtree/node/basenode.py + node.py: the parent/children links of BaseNode / Node
   objects and every structural entry point, transliterated statement by statement (the except
   branches included).  The state can represent ill-formed link structures, so "the forest
   invariant is preserved" is a statement about these statement sequences.

   Faithfulness domain: states satisfying WF (ForestWF.v).  On ill-formed states CPython would
   raise from list.remove / list.index or loop for ever in `ancestors`; the model is total there
   and makes no claim (every theorem assumes WF, and WF is proved of every reachable state). *)
From BT Require Import Base.Prelude Base.Str.

Record forest := mk {
  size : nat;                  (* ids < size are the live node objects                         *)
  par  : id -> option id;      (* _BaseNode__parent                                            *)
  kids : id -> list id;        (* _BaseNode__children, in order                                *)
  name : id -> str;            (* Node.name (ignored for BaseNode)                             *)
  sepf : id -> str             (* Node._sep                                                    *)
}.

Definition set_par (s : forest) (c : id) (v : option id) : forest :=
  mk (size s) (upd (par s) c v) (kids s) (name s) (sepf s).
Definition set_kids (s : forest) (p : id) (l : list id) : forest :=
  mk (size s) (par s) (upd (kids s) p l) (name s) (sepf s).
Definition set_sep (s : forest) (n : id) (v : str) : forest :=
  mk (size s) (par s) (kids s) (name s) (upd (sepf s) n v).

Definition init (n : nat) (names : id -> str) (seps : id -> str) : forest :=
  mk n (fun _ => None) (fun _ => []) names seps.

(* basenode.py `ancestors` (while node is not None: yield node; node = node.parent) *)
Fixpoint anc (s : forest) (fuel : nat) (c : id) : list id :=
  match fuel with
  | 0 => []
  | S f => match par s c with None => [] | Some p => p :: anc s f p end
  end.
Definition ancestors (s : forest) (c : id) : list id := anc s (size s) c.

Record config := { assertions : bool;   (* bigtree.globals.ASSERTIONS                       *)
                   is_node : bool }.    (* Node (duplicate-name hooks) rather than BaseNode  *)

Inductive arg := ANode (i : id) | ANone | AJunk.      (* AJunk: a Python object that is no node *)
Inductive fault := NoFault | PreFail | PostFail.      (* user hook that raises                  *)
Inductive container := CList | CTuple | CSet | COther.

Definition fault_eqb (a b : fault) : bool :=
  match a, b with NoFault, NoFault | PreFail, PreFail | PostFail, PostFail => true | _, _ => false end.

(* ------------------------------------------------------------------------------------------ *)
(* parent setter, basenode.py:187-231 + node.py:159-174 *)

Definition dup_name_under (s : forest) (c p : id) : bool :=
  existsb (fun k => str_eqb (name s k) (name s c) && negb (Nat.eqb k c)) (kids s p).

Definition parent_loop (s : forest) (c : id) (np : option id) : bool :=
  match np with
  | None => false
  | Some p => Nat.eqb p c || memb c (ancestors s p)
  end.

(* the try-block of the parent setter up to (excluding) the post hook *)
Definition attach (s : forest) (c : id) (np : option id) : forest :=
  let s1 := match par s c with
            | Some q => set_kids s q (remove1 c (kids s q))
            | None => s end in
  let s2 := set_par s1 c np in
  match np with
  | Some p => set_kids s2 p (kids s2 p ++ [c])
  | None => s2
  end.

(* the except-block of the parent setter *)
Definition attach_rollback (s0 s : forest) (c : id) (np : option id) : forest :=
  let s3 := match np with
            | Some p => set_kids s p (remove1 c (kids s p))
            | None => s end in
  let s4 := set_par s3 c (par s0 c) in
  match par s0 c with
  | Some q => set_kids s4 q (insert_at (index_of c (kids s0 q)) c (kids s4 q))
  | None => s4
  end.

Definition set_parent (cfg : config) (ft : fault) (s : forest) (c : id) (a : arg)
  : forest * outcome :=
  match a with
  | AJunk => (s, Err (if assertions cfg then TypeError else Unmodelled))
  | _ =>
    let np := match a with ANode p => Some p | _ => None end in
    if parent_loop s c np then (s, Err (if assertions cfg then LoopError else Unmodelled)) else
    if fault_eqb ft PreFail then (s, Err HookRaw) else
    if is_node cfg && match np with Some p => dup_name_under s c p | None => false end
    then (s, Err TreeError) else
    let s' := attach s c np in
    if fault_eqb ft PostFail then (attach_rollback s s' c np, Err TreeError)
    else (s', Ok)
  end.

(* ------------------------------------------------------------------------------------------ *)
(* children deleter, basenode.py:384-389 *)

Definition orphan (s : forest) (c : id) : forest :=
  let s1 := match par s c with
            | Some q => set_kids s q (remove1 c (kids s q))
            | None => s end in
  set_par s1 c None.

Definition del_children (s : forest) (p : id) : forest :=
  fold_left orphan (kids s p) s.

(* ------------------------------------------------------------------------------------------ *)
(* children setter, basenode.py:334-382 + node.py:184-202 *)

Fixpoint check_children (s : forest) (p : id) (args : list arg) (seen : list id) : option exn :=
  match args with
  | [] => None
  | AJunk :: _ | ANone :: _ => Some TypeError
  | ANode x :: t =>
      if Nat.eqb x p then Some LoopError else
      if memb x (ancestors s p) then Some LoopError else
      if memb x seen then Some TreeError else
      check_children s p t (x :: seen)
  end.

Fixpoint ids_of (args : list arg) : list id :=
  match args with
  | [] => []
  | ANode x :: t => x :: ids_of t
  | _ :: t => ids_of t
  end.

Fixpoint dup_names (s : forest) (l : list id) : bool :=
  match l with
  | [] => false
  | x :: t => existsb (fun y => str_eqb (name s x) (name s y)) t || dup_names s t
  end.

(* for new_child in new_children: if new_child.parent: parent.__children.remove(new_child);
   new_child.__parent = self *)
Definition steal (p : id) (s : forest) (x : id) : forest :=
  let s1 := match par s x with
            | Some q => set_kids s q (remove1 x (kids s q))
            | None => s end in
  set_par s1 x (Some p).

(* current_new_children: (child, (index in its parent's list, parent)) read before any change *)
Definition donors (s : forest) (news : list id) : list (id * (nat * id)) :=
  flat_map (fun x => match par s x with
                     | Some q => [(x, (index_of x (kids s q), q))]
                     | None => [] end) news.

(* stable insertion sort by old index: `sorted(..., key=lambda item: item[1][0])` *)
Fixpoint ins_by_idx (e : id * (nat * id)) (l : list (id * (nat * id))) :=
  match l with
  | [] => [e]
  | h :: t => if Nat.leb (fst (snd e)) (fst (snd h)) then e :: h :: t else h :: ins_by_idx e t
  end.
Definition sort_by_idx (l : list (id * (nat * id))) := fold_right ins_by_idx [] l.
(* fold_right inserts the last element first; an earlier element is put in front of the equal
   elements already present, so equal keys keep their order (stability). *)

Definition give_back (s : forest) (e : id * (nat * id)) : forest :=
  let '(x, (i, q)) := e in
  let s1 := set_par s x (Some q) in
  set_kids s1 q (insert_at i x (kids s1 q)).

Definition children_rollback (s0 s : forest) (p : id) (news : list id) : forest :=
  let s1 := fold_left give_back (sort_by_idx (donors s0 news)) s in
  let s2 := fold_left (fun st x => match par s0 x with None => set_par st x None | Some _ => st end)
                      news s1 in
  let s3 := set_kids s2 p (kids s0 p) in
  fold_left (fun st x => set_par st x (Some p)) (kids s0 p) s3.

Definition assign_children (s : forest) (p : id) (news : list id) : forest :=
  let s1 := del_children s p in
  let s2 := set_kids s1 p news in
  fold_left (steal p) news s2.

Definition set_children (cfg : config) (ft : fault) (s : forest) (p : id)
           (cont : container) (args : list arg) : forest * outcome :=
  match (match cont with COther => Some TypeError | _ => check_children s p args [] end) with
  | Some e => (s, Err (if assertions cfg then e else Unmodelled))
  | None =>
    let news := ids_of args in
    if fault_eqb ft PreFail then (s, Err HookRaw) else
    if is_node cfg && dup_names s news then (s, Err TreeError) else
    let s' := assign_children s p news in
    if fault_eqb ft PostFail then (children_rollback s s' p news, Err TreeError)
    else (s', Ok)
  end.

(* ------------------------------------------------------------------------------------------ *)
(* sort(key=..., reverse=...), basenode.py:767-787: stable; reverse keeps equal elements in
   their original order (CPython reverses, sorts, reverses) *)

Fixpoint ins_key (key : id -> nat) (x : id) (l : list id) : list id :=
  match l with
  | [] => [x]
  | h :: t => if Nat.leb (key x) (key h) then x :: h :: t else h :: ins_key key x t
  end.
Definition stable_sort (key : id -> nat) (l : list id) : list id := fold_right (ins_key key) [] l.
Definition py_sort (key : id -> nat) (reverse : bool) (l : list id) : list id :=
  if reverse then rev (stable_sort key (rev l)) else stable_sort key l.

(* sort keys: a table node -> key; None stands for a key that cannot be compared (Python: None next to ints).
   list.sort compares every element of a list of two or more with some other element, so it raises TypeError
   iff such a key is present; BaseNode.sort sorts a copy and rebinds, so the children stay as they were *)
Definition key_of (keys : list (option nat)) (x : id) : nat :=
  match nth x keys (Some 0) with Some k => k | None => 0 end.
Definition sort_raises (keys : list (option nat)) (l : list id) : bool :=
  Nat.leb 2 (length l)
  && existsb (fun x => match nth x keys (Some 0) with None => true | Some _ => false end) l.

(* ------------------------------------------------------------------------------------------ *)
(* operations *)

Inductive op :=
| SetParent (c : id) (a : arg) (ft : fault)           (* c.parent = a                         *)
| SetChildren (p : id) (cont : container) (args : list arg) (ft : fault)   (* p.children = ... *)
| DelChildren (p : id)                                (* del p.children                       *)
| Append (p : id) (c : id) (ft : fault)               (* p.append(c)                          *)
| Extend (p : id) (cs : list id) (fts : list fault)   (* p.extend(cs): one setter call each    *)
| RShift (p : id) (c : id) (ft : fault)               (* p >> c                               *)
| LShift (c : id) (p : id) (ft : fault)               (* c << p                               *)
| DelItem (p : id) (nm : str) (ft : fault)            (* del p[nm]   (Node only)              *)
| Sort (p : id) (keys : list (option nat)) (reverse : bool)   (* p.sort(key=table, reverse=...); a None key is incomparable *)
| SetSep (n : id) (v : str).                          (* n.sep = v   (Node only)              *)

Fixpoint extend_loop (cfg : config) (s : forest) (p : id) (cs : list id) (fts : list fault)
  : forest * outcome :=
  match cs with
  | [] => (s, Ok)
  | c :: t =>
      let ft := hd NoFault fts in
      match set_parent cfg ft s c (ANode p) with
      | (s', Ok) => extend_loop cfg s' p t (tl fts)
      | r => r
      end
  end.

(* root: walk parents (fuel = size) *)
Fixpoint root_of (s : forest) (fuel : nat) (n : id) : id :=
  match fuel with
  | 0 => n
  | S f => match par s n with None => n | Some p => root_of s f p end
  end.
Definition root (s : forest) (n : id) : id := root_of s (size s) n.

Definition in_range (s : forest) (n : id) : bool := Nat.ltb n (size s).
Definition arg_in_range (s : forest) (a : arg) : bool :=
  match a with ANode i => in_range s i | _ => true end.

Definition op_in_range (s : forest) (o : op) : bool :=
  match o with
  | SetParent c a _ => in_range s c && arg_in_range s a
  | SetChildren p _ args _ => in_range s p && forallb (arg_in_range s) args
  | DelChildren p => in_range s p
  | Append p c _ | RShift p c _ | LShift c p _ => in_range s p && in_range s c
  | Extend p cs _ => in_range s p && forallb (in_range s) cs
  | DelItem p _ _ => in_range s p
  | Sort p _ _ => in_range s p
  | SetSep n _ => in_range s n
  end.

Definition step (cfg : config) (s : forest) (o : op) : forest * outcome :=
  if negb (op_in_range s o) then (s, Err Unmodelled) else
  match o with
  | SetParent c a ft => set_parent cfg ft s c a
  | SetChildren p cont args ft => set_children cfg ft s p cont args
  | DelChildren p => (del_children s p, Ok)
  | Append p c ft | RShift p c ft | LShift c p ft => set_parent cfg ft s c (ANode p)
  | Extend p cs fts => extend_loop cfg s p cs fts
  | DelItem p nm ft =>
      if negb (is_node cfg) then (s, Err Unmodelled) else
      match filter (fun k => str_eqb (name s k) nm) (kids s p) with
      | [] => (s, Ok)
      | [c] => set_parent cfg ft s c ANone
      | _ => (s, Err SearchError)
      end
  | Sort p keys rev =>
      if sort_raises keys (kids s p) then (s, Err TypeError)
      else (set_kids s p (py_sort (key_of keys) rev (kids s p)), Ok)
  | SetSep n v =>
      if negb (is_node cfg) then (s, Err Unmodelled) else (set_sep s (root s n) v, Ok)
  end.

Definition run (cfg : config) (s : forest) (ops : list op) : forest :=
  fold_left (fun st o => fst (step cfg st o)) ops s.

(* the whole trace: state and outcome after every operation *)
Fixpoint trace (cfg : config) (s : forest) (ops : list op) : list (forest * outcome) :=
  match ops with
  | [] => []
  | o :: t => let r := step cfg s o in r :: trace cfg (fst r) t
  end.

(* ------------------------------------------------------------------------------------------ *)
(* Node's derived string properties, node.py:83-121 *)

Fixpoint sep_of (s : forest) (fuel : nat) (n : id) : str :=
  match fuel with
  | 0 => sepf s n
  | S f => match par s n with None => sepf s n | Some p => sep_of s f p end
  end.
Definition sep (s : forest) (n : id) : str := sep_of s (size s) n.

Definition depth (s : forest) (n : id) : nat := S (length (ancestors s n)).

(* ancestors = [self] + list(self.ancestors); sep = ancestors[-1].sep;
   sep + sep.join(name for node in reversed(ancestors)) *)
Definition path_name (s : forest) (n : id) : str :=
  let chain := n :: ancestors s n in
  let sp := sepf s (last chain n) in
  sp ++ join sp (map (name s) (rev chain)).
