(* Heap model of bigtree/node/binarynode.py: the parent link and the slot list of BinaryNode
   objects and every structural entry point, transliterated statement by statement (the except
   branches included).  `bkids` is a *list* of slots (not a pair) so that a corrupted slot list
   (fewer / more than two slots, a child in two slots) is representable and "every node has exactly a
   left and a right slot" is a statement about these statement sequences.

   BinaryNode derives from Node but overrides both the `parent` and the `children` property and calls
   `self.__pre_assign_*` / `self.__post_assign_*`, which inside `class BinaryNode` are the name-mangled
   `_BinaryNode__...` methods: Node's duplicate-name hooks (`_BaseNode__pre_assign_*`, node.py:159-202)
   are never called, so sibling names play no role here and names are not part of the state.

   Faithfulness domain: states satisfying BWF (BinaryProofs.v).  On ill-formed states CPython would
   raise from list.index / None.__children or loop for ever in `ancestors`; the model is total there
   and makes no claim (every theorem assumes BWF, and BWF is proved of every reachable state).

   The vocabulary `arg`, `fault`, `container`, `config` (the ASSERTIONS switch; `is_node` is ignored
   here) and `py_sort` is the one of Heap/Forest.v. *)
From BT Require Import Base.Prelude Heap.Forest.

Record bheap := bmk {
  bsize : nat;                        (* ids < bsize are the live node objects                  *)
  bpar  : id -> option id;            (* _BinaryNode__parent                                   *)
  bkids : id -> list (option id)      (* _BinaryNode__children: [left, right], None = empty    *)
}.

Definition bset_par (s : bheap) (c : id) (v : option id) : bheap :=
  bmk (bsize s) (upd (bpar s) c v) (bkids s).
Definition bset_kids (s : bheap) (p : id) (l : list (option id)) : bheap :=
  bmk (bsize s) (bpar s) (upd (bkids s) p l).

(* binarynode.py:78-79  self.__parent = None; self.__children = [None, None] *)
Definition binit (n : nat) : bheap := bmk n (fun _ => None) (fun _ => [None; None]).

(* ------------------------------------------------------------------------------------------ *)
(* Python list primitives on slot lists *)

(* l[i]  (None stands for both an empty slot and, past the end, for IndexError; the getters below
   use nth_error where the difference matters) *)
Definition slot (l : list (option id)) (i : nat) : option id := nth i l None.

(* l[i] = v  (IndexError past the end: the model leaves l alone) *)
Fixpoint set_nth {A} (i : nat) (v : A) (l : list A) {struct l} : list A :=
  match l, i with
  | [], _ => []
  | _ :: t, 0 => v :: t
  | h :: t, S j => h :: set_nth j v t
  end.

(* l.index(node): first position holding that node (length l when absent; Python: ValueError) *)
Fixpoint slot_index (x : id) (l : list (option id)) : nat :=
  match l with
  | [] => 0
  | Some y :: t => if Nat.eqb x y then 0 else S (slot_index x t)
  | None :: t => S (slot_index x t)
  end.

(* node in l *)
Definition slot_mem (x : id) (l : list (option id)) : bool :=
  existsb (fun o => match o with Some y => Nat.eqb x y | None => false end) l.

(* index of the first empty slot:  for idx, child in enumerate(l): if not child and not inserted *)
Fixpoint first_empty (l : list (option id)) : option nat :=
  match l with
  | [] => None
  | None :: _ => Some 0
  | Some _ :: t => match first_empty t with Some i => Some (S i) | None => None end
  end.

(* [child for child in l if child] *)
Fixpoint somes (l : list (option id)) : list id :=
  match l with
  | [] => []
  | Some x :: t => x :: somes t
  | None :: t => somes t
  end.

(* idx = q.__children.index(x); q.__children[idx] = None *)
Definition clear_slot (x : id) (l : list (option id)) : list (option id) :=
  set_nth (slot_index x l) None l.

(* node.left / node.right, binarynode.py:105-112, 123-130: self.__children[0] / [1];
   None = IndexError, Some None = empty slot *)
Definition left_of (s : bheap) (p : id) : option (option id) := nth_error (bkids s p) 0.
Definition right_of (s : bheap) (p : id) : option (option id) := nth_error (bkids s p) 1.

(* basenode.py:411-421 `ancestors` (node = self.parent; while node is not None: yield node; node = node.parent) *)
Fixpoint banc (s : bheap) (fuel : nat) (c : id) : list id :=
  match fuel with
  | 0 => []
  | S f => match bpar s c with None => [] | Some p => p :: banc s f p end
  end.
Definition bancestors (s : bheap) (c : id) : list id := banc s (bsize s) c.

(* ------------------------------------------------------------------------------------------ *)
(* parent setter, binarynode.py:162-215 *)

(* _BaseNode__check_parent_loop, basenode.py:158-176 (called at binarynode.py:171) *)
Definition bparent_loop (s : bheap) (c : id) (np : option id) : bool :=
  match np with
  | None => false
  | Some p => Nat.eqb p c || memb c (bancestors s p)
  end.

(* 181-186: `if not any(child is self for child in current_parent.children): raise CorruptedTreeError`
   (raised inside the try, hence rolled back and wrapped) *)
Definition bcorrupted (s : bheap) (c : id) : bool :=
  match bpar s c with
  | Some q => negb (slot_mem c (bkids s q))
  | None => false
  end.

(* 187: current_child_idx *)
Definition bcur_idx (s : bheap) (c : id) : option nat :=
  match bpar s c with
  | Some q => Some (slot_index c (bkids s q))
  | None => None
  end.

(* 187-188: current_parent.__children[current_child_idx] = None *)
Definition bdetach (s : bheap) (c : id) : bheap :=
  match bpar s c with
  | Some q => bset_kids s q (clear_slot c (bkids s q))
  | None => s
  end.

(* 191-197: self.__parent = new_parent; put self into the first empty slot of new_parent *)
Definition battach (s : bheap) (c : id) (np : option id) : bheap :=
  let s2 := bset_par s c np in
  match np with
  | None => s2
  | Some p => match first_empty (bkids s2 p) with
              | Some i => bset_kids s2 p (set_nth i (Some c) (bkids s2 p))
              | None => s2
              end
  end.

(* 198-201: `if not inserted: raise TreeError("... already has 2 children")`, evaluated on the state
   in which self has already left its old slot *)
Definition bfull (s : bheap) (np : option id) : bool :=
  match np with
  | None => false
  | Some p => match first_empty (bkids s p) with Some _ => false | None => true end
  end.

(* the except block, 205-215; `idx` is current_child_idx at the time of the raise *)
Definition bparent_rollback (s : bheap) (c : id) (cur np : option id) (idx : option nat) : bheap :=
  let s1 := match np with
            | Some p => if slot_mem c (bkids s p)
                        then bset_kids s p (clear_slot c (bkids s p)) else s
            | None => s
            end in
  let s2 := bset_par s1 c cur in
  match idx, cur with
  | Some i, Some q => bset_kids s2 q (set_nth i (Some c) (bkids s2 q))
  | _, _ => s2
  end.

Definition bset_parent (cfg : config) (ft : fault) (s : bheap) (c : id) (a : arg)
  : bheap * outcome :=
  match a with
  | AJunk => (s, Err (if assertions cfg then TypeError else Unmodelled))              (* 170 *)
  | _ =>
    let np := match a with ANode p => Some p | _ => None end in
    if bparent_loop s c np
    then (s, Err (if assertions cfg then LoopError else Unmodelled)) else             (* 171 *)
    if fault_eqb ft PreFail then (s, Err HookRaw) else                                (* 177 *)
    let cur := bpar s c in                                                            (* 173 *)
    if bcorrupted s c then (bparent_rollback s c cur np None, Err TreeError) else     (* 181-186 *)
    let idx := bcur_idx s c in
    let s1 := bdetach s c in                                                          (* 187-188 *)
    let s2 := battach s1 c np in                                                      (* 191-197 *)
    if bfull s1 np then (bparent_rollback s2 c cur np idx, Err TreeError) else        (* 198-201 *)
    if fault_eqb ft PostFail then (bparent_rollback s2 c cur np idx, Err TreeError)   (* 203 *)
    else (s2, Ok)
  end.

(* ------------------------------------------------------------------------------------------ *)
(* children deleter, binarynode.py:352-359 (after fix F2):
   for child in self.children: if child is not None:
       idx = child.parent.__children.index(child); child.parent.__children[idx] = None
       child.__parent = None *)

Definition borphan (s : bheap) (o : option id) : bheap :=
  match o with
  | Some c => bset_par (bdetach s c) c None
  | None => s
  end.

Definition bdel_children (s : bheap) (p : id) : bheap :=
  fold_left borphan (bkids s p) s.

(* ------------------------------------------------------------------------------------------ *)
(* children setter, binarynode.py:294-350 *)

(* __check_children_loop, 252-283: None is skipped (it is neither self nor an ancestor) *)
Fixpoint bcheck_children (s : bheap) (p : id) (args : list arg) (seen : list id) : option exn :=
  match args with
  | [] => None
  | AJunk :: _ => Some TypeError
  | ANone :: t => bcheck_children s p t seen
  | ANode x :: t =>
      if Nat.eqb x p then Some LoopError else
      if memb x (bancestors s p) then Some LoopError else
      if memb x seen then Some TreeError else
      bcheck_children s p t (x :: seen)
  end.

Definition slot_of_arg (a : arg) : option id :=
  match a with ANode x => Some x | _ => None end.
Definition arg_of_slot (o : option id) : arg :=
  match o with Some x => ANode x | None => ANone end.

(* 329-334: if new_child is not None: if new_child.parent: clear its slot there;
   new_child.__parent = self *)
Definition bsteal (p : id) (s : bheap) (o : option id) : bheap :=
  match o with
  | Some x => bset_par (bdetach s x) x (Some p)
  | None => s
  end.

(* 325-334 *)
Definition bassign_children (s : bheap) (p : id) (news : list (option id)) : bheap :=
  let s1 := bdel_children s p in
  let s2 := bset_kids s1 p news in
  fold_left (bsteal p) news s2.

(* 306-313 current_new_children: child -> (index in its parent's slot list, parent), read before
   any change *)
Definition bdonors (s : bheap) (news : list (option id)) : list (id * (nat * id)) :=
  flat_map (fun o => match o with
                     | Some x => match bpar s x with
                                 | Some q => [(x, (slot_index x (bkids s q), q))]
                                 | None => []
                                 end
                     | None => []
                     end) news.

(* 338-341: child.__parent = parent; parent.__children[child_idx] = child *)
Definition bgive_back (s : bheap) (e : id * (nat * id)) : bheap :=
  let '(x, (i, q)) := e in
  let s1 := bset_par s x (Some q) in
  bset_kids s1 q (set_nth i (Some x) (bkids s1 q)).

(* the except block, 336-350 *)
Definition bchildren_rollback (s0 s : bheap) (p : id) (news : list (option id)) : bheap :=
  let s1 := fold_left bgive_back (bdonors s0 news) s in
  let s2 := fold_left (fun st o => match o with                                  (* 342-343 *)
                                   | Some x => match bpar s0 x with
                                               | None => bset_par st x None
                                               | Some _ => st
                                               end
                                   | None => st
                                   end) news s1 in
  let s3 := bset_kids s2 p (bkids s0 p) in                                       (* 346 *)
  fold_left (fun st o => match o with                                            (* 347-349 *)
                         | Some c => bset_par st c (Some p)
                         | None => st
                         end) (bkids s0 p) s3.

Definition bset_children (cfg : config) (ft : fault) (s : bheap) (p : id)
           (cont : container) (args : list arg) : bheap * outcome :=
  match cont with
  | COther => (s, Err TypeError)        (* 301 _BaseNode__check_children_type: NOT under ASSERTIONS *)
  | _ =>
    let args' := match args with [] => [ANone; ANone] | _ => args end in          (* 246-247 *)
    if negb (Nat.eqb (length args') 2) then (s, Err ValueError) else              (* 248-249 *)
    match cont, args with
    | CSet, _ :: _ => (s, Err Unmodelled)   (* a 2-element set: iteration order is hash order *)
    | _, _ =>
      match bcheck_children s p args' [] with                                     (* 303-304 *)
      | Some e => (s, Err (if assertions cfg then e else Unmodelled))
      | None =>
        let news := map slot_of_arg args' in
        if fault_eqb ft PreFail then (s, Err HookRaw) else                        (* 322 *)
        let s' := bassign_children s p news in                                    (* 325-334 *)
        if fault_eqb ft PostFail then (bchildren_rollback s s' p news, Err TreeError)   (* 335 *)
        else (s', Ok)
      end
    end
  end.

(* ------------------------------------------------------------------------------------------ *)
(* left / right setters, binarynode.py:114-121, 132-139:
   self.children = [left_child, self.right]  /  [self.left, right_child] *)

Definition bset_left (cfg : config) (ft : fault) (s : bheap) (p : id) (a : arg) : bheap * outcome :=
  match right_of s p with
  | None => (s, Err IndexError)
  | Some r => bset_children cfg ft s p CList [a; arg_of_slot r]
  end.

Definition bset_right (cfg : config) (ft : fault) (s : bheap) (p : id) (a : arg) : bheap * outcome :=
  match left_of s p with
  | None => (s, Err IndexError)
  | Some l => bset_children cfg ft s p CList [arg_of_slot l; a]
  end.

(* ------------------------------------------------------------------------------------------ *)
(* sort, binarynode.py:388-409: children = [child for child in self.children if child];
   if len(children) == 2: children.sort(key=, reverse=); self.__children = children *)

Definition bsort (s : bheap) (p : id) (key : id -> nat) (reverse : bool) : bheap :=
  let ch := somes (bkids s p) in
  if Nat.eqb (length ch) 2 then bset_kids s p (map Some (py_sort key reverse ch)) else s.

(* ------------------------------------------------------------------------------------------ *)
(* constructor, binarynode.py:63-103: a fresh object (id = bsize), then `self.parent = parent`,
   then `self.children = children`; two setter calls, each with its own hooks *)

Definition arg_truthy (a : arg) : bool := match a with ANone => false | _ => true end.
(* `left != children[0]` on nodes / None / fresh non-node objects: identity *)
Definition arg_neq (a b : arg) : bool :=
  match a, b with
  | ANode x, ANode y => negb (Nat.eqb x y)
  | ANone, ANone => false
  | _, _ => true
  end.

Definition balloc (s : bheap) : bheap :=
  bmk (S (bsize s)) (upd (bpar s) (bsize s) None) (upd (bkids s) (bsize s) [None; None]).

Definition bnew (cfg : config) (s : bheap) (l r par : arg) (ch : list arg) (fp fc : fault)
  : bheap * outcome :=
  let x := bsize s in
  let s0 := balloc s in                                                           (* 78-79 *)
  let bad :=                                                                      (* 80-94 *)
    match ch with
    | [] => false
    | _ => negb (Nat.eqb (length ch) 2)
           || (arg_truthy l && arg_neq l (nth 0 ch ANone))
           || (arg_truthy r && arg_neq r (nth 1 ch ANone))
    end in
  if bad then (s0, Err ValueError) else
  let children := match ch with [] => [l; r] | _ => ch end in                     (* 95-96 *)
  match bset_parent cfg fp s0 x par with                                          (* 97 *)
  | (s1, Ok) => bset_children cfg fc s1 x CList children                          (* 98 *)
  | r => r
  end.

(* ------------------------------------------------------------------------------------------ *)
(* operations *)

Inductive bop :=
| BSetParent (c : id) (a : arg) (ft : fault)                 (* c.parent = a   (also p.append(c), p >> c, c << p: basenode.py:715-721, 813-827) *)
| BSetChildren (p : id) (cont : container) (args : list arg) (ft : fault)   (* p.children = ...   *)
| BSetLeft (p : id) (a : arg) (ft : fault)                   (* p.left = a                         *)
| BSetRight (p : id) (a : arg) (ft : fault)                  (* p.right = a                        *)
| BDelChildren (p : id)                                      (* del p.children                     *)
| BSort (p : id) (keys : list nat) (reverse : bool)          (* p.sort(key=table, reverse=...)     *)
| BExtend (p : id) (cs : list id) (fts : list fault)         (* p.extend(cs): one parent setter call each, basenode.py:723-730 *)
| BNew (l r par : arg) (ch : list arg) (fp fc : fault).      (* BinaryNode(left=, right=, parent=, children=) *)

Fixpoint bextend_loop (cfg : config) (s : bheap) (p : id) (cs : list id) (fts : list fault)
  : bheap * outcome :=
  match cs with
  | [] => (s, Ok)
  | c :: t =>
      match bset_parent cfg (hd NoFault fts) s c (ANode p) with
      | (s', Ok) => bextend_loop cfg s' p t (tl fts)
      | r => r
      end
  end.

Definition bin_range (s : bheap) (n : id) : bool := Nat.ltb n (bsize s).
Definition barg_in_range (s : bheap) (a : arg) : bool :=
  match a with ANode i => bin_range s i | _ => true end.

Definition bop_in_range (s : bheap) (o : bop) : bool :=
  match o with
  | BSetParent c a _ => bin_range s c && barg_in_range s a
  | BSetChildren p _ args _ => bin_range s p && forallb (barg_in_range s) args
  | BSetLeft p a _ | BSetRight p a _ => bin_range s p && barg_in_range s a
  | BDelChildren p => bin_range s p
  | BSort p _ _ => bin_range s p
  | BExtend p cs _ => bin_range s p && forallb (bin_range s) cs
  | BNew l r par ch _ _ =>
      barg_in_range s l && barg_in_range s r && barg_in_range s par && forallb (barg_in_range s) ch
  end.

Definition bstep (cfg : config) (s : bheap) (o : bop) : bheap * outcome :=
  if negb (bop_in_range s o) then (s, Err Unmodelled) else
  match o with
  | BSetParent c a ft => bset_parent cfg ft s c a
  | BSetChildren p cont args ft => bset_children cfg ft s p cont args
  | BSetLeft p a ft => bset_left cfg ft s p a
  | BSetRight p a ft => bset_right cfg ft s p a
  | BDelChildren p => (bdel_children s p, Ok)
  | BSort p keys rev => (bsort s p (fun x => nth x keys 0) rev, Ok)
  | BExtend p cs fts => bextend_loop cfg s p cs fts
  | BNew l r par ch fp fc => bnew cfg s l r par ch fp fc
  end.

Definition brun (cfg : config) (s : bheap) (ops : list bop) : bheap :=
  fold_left (fun st o => fst (bstep cfg st o)) ops s.

(* the whole trace: state and outcome after every operation *)
Fixpoint btrace (cfg : config) (s : bheap) (ops : list bop) : list (bheap * outcome) :=
  match ops with
  | [] => []
  | o :: t => let r := bstep cfg s o in r :: btrace cfg (fst r) t
  end.
