(* C07, fourth round: copy_nodes over its WHOLE option space (merge_children, merge_leaves, delete_children:
   all eight combinations, modify.py:1204-1224 with copy=True) never changes a tree of the input that does not
   contain the destination - whatever the outcome of each single parent assignment.

   1. fresh_op n to_ o: o is one of the writes copy_ops emits - `del k.children`, `k.parent = None`,
      `k.parent = to_` with k at or above the watermark n;
   2. fresh_ops_keep_tree: ANY history of such writes (accepted or refused, in any order, any length) leaves the
      rose tree below r unchanged provided that tree lies below the watermark and does not contain to_, on any
      well-formed state in which nodes above the watermark have their parent above the watermark or at to_;
   3. copy_ops_fresh: every write of copy_ops to_ mc ml dc on the state after the deep copy is such a write;
   4. copy_nodes_all_source_kept / _from_kept: the consequence for sk_copy_nodes with all three flags free. *)
From BT Require Import Base.Prelude Base.Str Heap.Forest Heap.Effects Heap.EffectsProofs Heap.C07More2 Heap.C07More3.
From BT Require Base.Rose Heap.ForestWF Heap.ForestOps Heap.ForestStep Heap.Abs Heap.AbsSurgery.

Definition fresh_op (n to_ : id) (o : op) : Prop :=
  exists k, n <= k /\ (o = DelChildren k \/ o = detach k \/ o = attach_to to_ k).

(* the invariant: well-formed, fresh nodes hang below fresh nodes or below to_, the watched tree is T0 *)
Definition inv4 (n to_ r : id) (T0 : Rose.tree) (s : forest) : Prop :=
  ForestWF.WF s
  /\ (forall k q, n <= k -> par s k = Some q -> n <= q \/ q = to_)
  /\ Abs.subtree s r = T0.

Lemma fresh_step_keeps cfg n to_ r T0 s o :
  (forall y, In (Some y) (Abs.tags T0) -> y < n) -> ~ In (Some to_) (Abs.tags T0) ->
  inv4 n to_ r T0 s -> fresh_op n to_ o -> inv4 n to_ r T0 (fst (step cfg s o)).
Proof.
  intros Lo Nt (W & Pf & E) (k & Gk & Ho).
  assert (Wn : ForestWF.WF (fst (step cfg s o))) by (now apply ForestStep.step_WF).
  split; [exact Wn|]. clear Wn.
  unfold step. destruct (op_in_range s o) eqn:R; cbn [negb]; [|cbn [fst]; split; assumption].
  assert (Nk : ~ In (Some k) (Abs.tags (Abs.subtree s r))).
  { rewrite E. intros Hin. apply Lo in Hin. lia. }
  assert (SP : forall a, (a = ANone \/ a = ANode to_) -> in_range s k && arg_in_range s a = true ->
     let s' := fst (set_parent cfg NoFault s k a) in
     (forall k0 q, n <= k0 -> par s' k0 = Some q -> n <= q \/ q = to_) /\ Abs.subtree s' r = T0).
  { intros a Ha Ra. cbn zeta. apply andb_true_iff in Ra as [R1 R2]. apply Nat.ltb_lt in R1.
    destruct (set_parent cfg NoFault s k a) as [s' oc] eqn:Es. cbn [fst].
    pose proof (ForestOps.set_parent_cases cfg NoFault s k a) as Cs. cbv zeta in Cs. rewrite Es in Cs.
    cbn [fst snd] in Cs. destruct Cs as [(O & F & _)|[(_ & F)|(_ & F & _)]].
    - subst oc. split.
      + intros k0 q G0 Hp. rewrite F, ForestWF.attach_par in Hp.
        destruct (Nat.eqb k0 k); [|now apply (Pf k0 q)].
        destruct Ha as [-> | ->]; cbn [ForestOps.np_of] in Hp; [discriminate|]. injection Hp as <-. now right.
      + destruct (AbsSurgery.set_parent_is_surgery cfg NoFault s k a s' W R1) as (_ & _ & H3).
        * intros p ->. cbn [arg_in_range] in R2. apply Nat.ltb_lt. exact R2.
        * exact Es.
        * rewrite <- E. apply H3.
          -- intros q Hq Hin. rewrite E in Hin. pose proof (Lo q Hin) as Lq.
             destruct (Pf k q Gk Hq) as [G | ->]; [lia | now apply Nt].
          -- intros p Hp Hin. destruct Ha as [-> | ->]; cbn [ForestOps.np_of] in Hp; [discriminate|].
             injection Hp as <-. rewrite E in Hin. now apply Nt.
    - subst s'. split; assumption.
    - discriminate. }
  destruct Ho as [-> | [-> | ->]].
  - (* del k.children *)
    cbn [fst]. destruct (ForestOps.del_children_spec s k W) as (_ & _ & Hp & _).
    destruct (AbsSurgery.del_children_is_tree_cut s k W) as (_ & Fr). split.
    + intros k0 q G0 H. rewrite Hp in H. destruct (memb k0 (kids s k)); [discriminate | now apply (Pf k0 q)].
    + rewrite <- E. now apply Fr.
  - unfold detach in *. cbn [op_in_range] in R. apply (SP ANone); [now left | exact R].
  - unfold attach_to in *. cbn [op_in_range] in R. apply (SP (ANode to_)); [now right | exact R].
Qed.

Theorem fresh_ops_keep_tree cfg n to_ r ops : forall s,
  ForestWF.WF s ->
  (forall k q, n <= k -> par s k = Some q -> n <= q \/ q = to_) ->
  (forall y, In (Some y) (Abs.tags (Abs.subtree s r)) -> y < n) ->
  ~ In (Some to_) (Abs.tags (Abs.subtree s r)) ->
  Forall (fresh_op n to_) ops ->
  Abs.subtree (run cfg s ops) r = Abs.subtree s r.
Proof.
  intros s W Pf Lo Nt F.
  assert (G : forall ops0 s0, Forall (fresh_op n to_) ops0 -> inv4 n to_ r (Abs.subtree s r) s0 ->
             inv4 n to_ r (Abs.subtree s r) (run cfg s0 ops0)).
  { unfold run. induction ops0 as [|o ops0 IH]; intros s0 F0 I0; cbn [fold_left]; [exact I0|].
    inversion F0 as [|? ? Fo Fr]; subst. apply IH; [exact Fr|].
    now apply (fresh_step_keeps cfg n to_ r (Abs.subtree s r) s0 o Lo Nt). }
  apply (G ops s F). split; [exact W|]. split; [exact Pf | reflexivity].
Qed.

(* descendants-or-self stay inside a link-closed region *)
Lemma reach_closed (A : region) s : closed A s -> forall f x y, A x = true -> In y (reach f s x) -> A y = true.
Proof.
  intros C f; induction f as [|f IH]; intros x y Ax H; cbn [reach] in H.
  - destruct H as [<-|[]]. exact Ax.
  - destruct H as [<-|H]; [exact Ax|]. apply in_flat_map in H. destruct H as (k & Hk & H).
    apply (IH k y); [|exact H]. now apply (closed_kids A s x k).
Qed.

Lemma copy_ops_fresh n to_ mc ml dc s c :
  closed (ge n) s -> n <= c -> Forall (fresh_op n to_) (copy_ops to_ mc ml dc s c).
Proof.
  intros C Gc. apply ge_true in Gc. apply Forall_forall. intros o Ho. unfold copy_ops in Ho.
  destruct mc.
  - apply in_app_or in Ho. destruct Ho as [Ho|[<-|[]]].
    + apply in_flat_map in Ho. destruct Ho as (k & Hk & Ho).
      assert (Gk : n <= k) by (apply ge_true; now apply (closed_kids (ge n) s c k)).
      exists k. split; [exact Gk|]. apply in_app_or in Ho. destruct Ho as [Ho|[<-|[]]].
      * destruct dc; [destruct Ho as [<-|[]]; now left | destruct Ho].
      * right; now right.
    + exists c. split; [now apply ge_true|]. right; now left.
  - destruct ml.
    + apply in_map_iff in Ho. destruct Ho as (k & <- & Hk). unfold leaves in Hk. apply filter_In in Hk as [Hk _].
      exists k. split; [|right; now right]. apply ge_true. now apply (reach_closed (ge n) s C (size s) c k).
    + exists c. split; [now apply ge_true|]. apply in_app_or in Ho. destruct Ho as [Ho|[<-|[]]].
      * destruct dc; [destruct Ho as [<-|[]]; now left | destruct Ho].
      * right; now right.
Qed.

(* copy_nodes, every option combination: an old tree that does not contain the destination is exactly as
   before; no range condition on to_ (an out-of-range destination makes every write a no-op of the model) *)
Theorem copy_nodes_all_source_kept cfg h from_ to_ mc ml dc r :
  ForestWF.WF (fr h) -> r < size (fr h) ->
  ~ In (Some to_) (Abs.tags (Abs.subtree (fr h) r)) ->
  Abs.subtree (fr (fst (sk_copy_nodes cfg h from_ to_ mc ml dc))) r = Abs.subtree (fr h) r.
Proof.
  intros W Lr Hn.
  unfold sk_copy_nodes, sk_copy_then. cbn [fst snd with_fr fr].
  set (s1 := deep_copy_f (fr h) from_). set (c := phi (fr h) from_ from_).
  change (fr (deep_copy h from_)) with s1.
  assert (W1 : ForestWF.WF s1) by (apply copy_WF; exact W).
  assert (Low : Abs.subtree s1 r = Abs.subtree (fr h) r) by (now apply copy_keeps_low_subtrees).
  assert (C1 : closed (ge (size (fr h))) s1) by apply dc_closed_first.
  rewrite <- Low.
  apply (fresh_ops_keep_tree cfg (size (fr h)) to_ r).
  - exact W1.
  - intros k q Gk Hp. left. apply ge_true. apply ge_true in Gk. now apply (proj1 (C1 k Gk) q).
  - intros y Hin. rewrite Low in Hin. apply lt_r_true.
    apply (tags_closed (lt_r (size (fr h))) (fr h) (WF_closed_lt (fr h) W) (S (size (fr h))) r y);
      [now apply lt_r_true | exact Hin].
  - now rewrite Low.
  - apply copy_ops_fresh; [exact C1 | apply phi_ge].
Qed.

Theorem copy_nodes_all_from_kept cfg h from_ to_ mc ml dc :
  ForestWF.WF (fr h) -> from_ < size (fr h) ->
  to_ <> from_ -> ~ In from_ (ancestors (fr h) to_) ->
  Abs.subtree (fr (fst (sk_copy_nodes cfg h from_ to_ mc ml dc))) from_ = Abs.subtree (fr h) from_.
Proof.
  intros W Lf Ne Na. apply copy_nodes_all_source_kept; try assumption.
  intros Hin. apply (Abs.subtree_members (fr h) from_ to_ W) in Hin. destruct Hin as [E|A]; [now apply Ne | now apply Na].
Qed.
