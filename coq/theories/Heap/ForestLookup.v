(* C03: looking a node's path name up from any node of its tree returns that very node; paths of
   different nodes of a tree differ.  Guard sep_safe: the tree's separator is one character that
   occurs in no name of the tree, and names are non-empty (Node refuses empty names). *)
From BT Require Import Base.Prelude Base.Str Heap.Forest Heap.ForestWF Heap.ForestOps Heap.ForestStep
     Heap.ForestPath Heap.ForestNames Algo.SearchProofs Base.StrSep.

Section OneCharSep.
Variable c : N.

Definition good (x : str) : Prop := x <> [] /\ cfree c x.

Lemma rstrip_keep pre x : good x -> rstrip (pre ++ x) [c] = pre ++ x.
Proof.
  intros [Hne Hc]. unfold rstrip. rewrite rev_app_distr.
  destruct (rev x) as [|y r] eqn:E.
  - apply (f_equal (@rev _)) in E. rewrite rev_involutive in E. contradiction.
  - cbn [app]. rewrite lstrip_cons.
    assert (Hy : y <> c).
    { intros ->. apply Hc. apply in_rev. rewrite E. left. reflexivity. }
    apply N.eqb_neq in Hy. rewrite Hy. change (y :: r ++ rev pre) with ((y :: r) ++ rev pre).
    rewrite <- E, <- rev_app_distr. apply rev_involutive.
Qed.

Lemma rstrip_join : forall L pre, L <> [] -> Forall good L -> rstrip (pre ++ join [c] L) [c] = pre ++ join [c] L.
Proof.
  induction L as [|x L IH]; intros pre Hne Hall; [congruence|].
  inversion Hall as [|? ? Hx HL]; subst. destruct L as [|y L].
  - cbn [join]. apply rstrip_keep. exact Hx.
  - rewrite join_cons. rewrite !app_assoc. apply IH; [discriminate|exact HL].
Qed.

Lemma lstrip_join L : L <> [] -> Forall good L -> lstrip ([c] ++ join [c] L) [c] = join [c] L.
Proof.
  intros Hne Hall. cbn [app]. rewrite lstrip_cons, N.eqb_refl.
  destruct L as [|x L]; [congruence|]. inversion Hall as [|? ? [Hx1 Hx2] HL]; subst.
  destruct x as [|a x]; [congruence|].
  assert (Ha : a <> c) by (intros ->; apply Hx2; left; reflexivity).
  destruct L; cbn [join app]; rewrite lstrip_cons; apply N.eqb_neq in Ha; rewrite Ha; reflexivity.
Qed.

Lemma path_list_roundtrip L : L <> [] -> Forall good L ->
  split (lstrip (rstrip ([c] ++ join [c] L) [c]) [c]) [c] = L.
Proof.
  intros Hne Hall. rewrite rstrip_join by assumption. rewrite lstrip_join by assumption.
  apply split_join; [exact Hne|]. rewrite Forall_forall in *. intros x Hx. apply (Hall x Hx).
Qed.
End OneCharSep.

(* the guard of the lookup theorems *)
Definition sep_safe (s : forest) (r0 : id) (c : N) : Prop :=
  sepf s r0 = [c] /\ forall x, root s x = r0 -> good c (name s x).

Lemma route_same_root s : WF s -> forall l n x, ancestors s n = l -> In x (route s n) -> root s x = root s n.
Proof.
  intros W. induction l as [|p l IH]; intros n x El Hx.
  - assert (E : par s n = None).
    { destruct (par s n) as [q|] eqn:E; [|reflexivity]. rewrite (WF_ancestors_unfold s n q W E) in El. discriminate. }
    rewrite (route_root s n E) in Hx. destruct Hx as [<-|[]]. reflexivity.
  - assert (E : par s n = Some p).
    { destruct (par s n) as [q|] eqn:E.
      - rewrite (WF_ancestors_unfold s n q W E) in El. congruence.
      - unfold ancestors in El. destruct (size s); cbn [anc] in El; rewrite ?E in El; discriminate. }
    assert (El' : ancestors s p = l) by (rewrite (WF_ancestors_unfold s n p W E) in El; congruence).
    rewrite (route_parent s n p W E) in Hx. apply in_app_or in Hx as [Hx|[<-|[]]]; [|reflexivity].
    rewrite (root_parent s n p W E). apply (IH p x El' Hx).
Qed.

Lemma route_head s n : WF s -> hd n (route s n) = root s n.
Proof.
  intros W. destruct (root_spec s n W) as [E _]. rewrite E. unfold route.
  generalize (ancestors s n) as l. intros l. cbn [rev].
  destruct (rev l) as [|y r] eqn:Er.
  - apply (f_equal (@rev _)) in Er. rewrite rev_involutive in Er. subst l. reflexivity.
  - cbn [app hd]. apply (f_equal (@rev _)) in Er. rewrite rev_involutive in Er. subst l.
    cbn [rev]. rewrite last_last. reflexivity.
Qed.

Theorem lookup_roundtrip s m n c :
  WF s -> SU s -> root s m = root s n -> sep_safe s (root s n) c ->
  find_full_path s m (path_name s n) = Ret (Some n).
Proof.
  intros W H Hroot [Hsep Hgood].
  unfold find_full_path, path_list.
  rewrite (sep_spec s m W), Hroot, Hsep.
  rewrite (path_name_spec s n W), (sep_spec s n W), Hsep.
  assert (Hne : map (name s) (route s n) <> []).
  { unfold route. intros E. apply (f_equal (@length _)) in E. rewrite map_length, rev_length in E. discriminate. }
  assert (Hall : Forall (good c) (map (name s) (route s n))).
  { rewrite Forall_forall. intros y Hy. apply in_map_iff in Hy as [x [<- Hx]].
    apply Hgood. apply (route_same_root s W (ancestors s n) n x eq_refl Hx). }
  rewrite (path_list_roundtrip c _ Hne Hall).
  assert (Hhd : hd [] (map (name s) (route s n)) = name s (root s n)).
  { rewrite <- (route_head s n W). destruct (route s n) as [|r0 rt]; [cbn in Hne; congruence|reflexivity]. }
  rewrite Hhd, str_eqb_refl. cbn [negb].
  replace (tl (map (name s) (route s n))) with (map (name s) (tl (route s n)) ++ [])
    by (rewrite app_nil_r; destruct (route s n); reflexivity).
  rewrite (descend_route s W H (ancestors s n) n [] eq_refl). reflexivity.
Qed.

(* path names identify nodes *)
Theorem paths_distinct s n1 n2 c :
  WF s -> SU s -> root s n1 = root s n2 -> sep_safe s (root s n2) c ->
  path_name s n1 = path_name s n2 -> n1 = n2.
Proof.
  intros W H Hroot Hsafe E.
  assert (Hsafe1 : sep_safe s (root s n1) c) by (rewrite Hroot; exact Hsafe).
  pose proof (lookup_roundtrip s n1 n1 c W H eq_refl Hsafe1) as L1.
  pose proof (lookup_roundtrip s n1 n2 c W H Hroot Hsafe) as L2.
  rewrite E in L1. rewrite L1 in L2. congruence.
Qed.

(* The same two theorems for a separator of ANY positive length none of whose characters occurs in a
   name of the tree (sfree); names are non-empty.  One-character sep_safe is the special case. *)
Definition sep_safe_multi (s : forest) (r0 : id) : Prop :=
  sepf s r0 <> [] /\ forall x, root s x = r0 -> sgood (sepf s r0) (name s x).

Lemma sep_safe_is_multi s r0 c : sep_safe s r0 c -> sep_safe_multi s r0.
Proof.
  intros [E H]. split; [rewrite E; discriminate|].
  intros x Hx. destruct (H x Hx) as [Hne Hc]. rewrite E. split; [exact Hne|].
  apply sfree_one. exact Hc.
Qed.

Theorem lookup_roundtrip_multi s m n :
  WF s -> SU s -> root s m = root s n -> sep_safe_multi s (root s n) ->
  find_full_path s m (path_name s n) = Ret (Some n).
Proof.
  intros W H Hroot [Hsep Hgood].
  unfold find_full_path, path_list.
  rewrite (sep_spec s m W), Hroot.
  rewrite (path_name_spec s n W), (sep_spec s n W).
  assert (Hne : map (name s) (route s n) <> []).
  { unfold route. intros E. apply (f_equal (@length _)) in E. rewrite map_length, rev_length in E. discriminate. }
  assert (Hall : Forall (sgood (sepf s (root s n))) (map (name s) (route s n))).
  { rewrite Forall_forall. intros y Hy. apply in_map_iff in Hy as [x [<- Hx]].
    apply Hgood. apply (route_same_root s W (ancestors s n) n x eq_refl Hx). }
  rewrite (path_list_roundtrip_multi _ _ Hsep Hne Hall).
  assert (Hhd : hd [] (map (name s) (route s n)) = name s (root s n)).
  { rewrite <- (route_head s n W). destruct (route s n) as [|r0 rt]; [cbn in Hne; congruence|reflexivity]. }
  rewrite Hhd, str_eqb_refl. cbn [negb].
  replace (tl (map (name s) (route s n))) with (map (name s) (tl (route s n)) ++ [])
    by (rewrite app_nil_r; destruct (route s n); reflexivity).
  rewrite (descend_route s W H (ancestors s n) n [] eq_refl). reflexivity.
Qed.

Theorem paths_distinct_multi s n1 n2 :
  WF s -> SU s -> root s n1 = root s n2 -> sep_safe_multi s (root s n2) ->
  path_name s n1 = path_name s n2 -> n1 = n2.
Proof.
  intros W H Hroot Hsafe E.
  assert (Hsafe1 : sep_safe_multi s (root s n1)) by (rewrite Hroot; exact Hsafe).
  pose proof (lookup_roundtrip_multi s n1 n1 W H eq_refl Hsafe1) as L1.
  pose proof (lookup_roundtrip_multi s n1 n2 W H Hroot Hsafe) as L2.
  rewrite E in L1. rewrite L1 in L2. congruence.
Qed.

(* assigning the separator from any node changes it for exactly the nodes of that tree *)
Lemma set_sep_WF s r v : WF s -> WF (set_sep s r v).
Proof. intros [Hl Hn Hb Ha]. constructor; assumption. Qed.

Lemma root_of_par_ext s t : (forall x, par t x = par s x) -> forall f m, root_of t f m = root_of s f m.
Proof.
  intros H. induction f as [|f IH]; intros m; cbn [root_of]; [reflexivity|].
  rewrite H. destruct (par s m); [apply IH|reflexivity].
Qed.

Theorem set_sep_spec s n v m : WF s ->
  let s' := set_sep s (root s n) v in
  sep s' m = if Nat.eqb (root s m) (root s n) then v else sep s m.
Proof.
  intros W s'. rewrite (sep_spec s' m (set_sep_WF s _ v W)), (sep_spec s m W).
  assert (Hr : root s' m = root s m) by (unfold root; apply root_of_par_ext; reflexivity).
  rewrite Hr. unfold s'. cbn [sepf set_sep]. unfold upd. reflexivity.
Qed.

(* the separator is the root's for every node; it follows the tree when a subtree is detached *)
Theorem sep_is_roots s n : WF s -> sep s n = sepf s (root s n) /\ par s (root s n) = None.
Proof. intros W. split; [apply sep_spec; exact W|apply root_spec; exact W]. Qed.
