(* C03: names, paths and lookups on the Node heap model. *)
From Coq Require Import Sorting.Permutation.
From BT Require Import Base.Prelude Base.Str Heap.Forest Heap.ForestWF Heap.ForestOps Heap.ForestRollback
     Heap.ForestStep Heap.ForestPath.

(* ---------------- names never change ---------------- *)
Definition names_eq (s t : forest) : Prop := forall x, name s x = name t x.

Lemma fold_names_eq {A} (f : forest -> A -> forest) (l : list A) :
  (forall st a, names_eq (f st a) st) -> forall s, names_eq (fold_left f l s) s.
Proof.
  intros Hf. induction l as [|a l IH]; intros s x; cbn [fold_left]; [reflexivity|].
  rewrite IH. apply Hf.
Qed.

Lemma attach_names s c np : names_eq (attach s c np) s.
Proof. intros x. apply attach_name. Qed.

Lemma attach_rollback_names s0 s c np : names_eq (attach_rollback s0 s c np) s.
Proof. intros x. unfold attach_rollback. destruct np, (par s0 c); reflexivity. Qed.

Lemma set_parent_names cfg ft s c a : names_eq (fst (set_parent cfg ft s c a)) s.
Proof.
  intros x. destruct (set_parent_cases cfg ft s c a) as [[_ [-> _]]|[[_ ->]|[_ [_ [_ [_ ->]]]]]].
  - apply attach_name.
  - reflexivity.
  - rewrite attach_rollback_names. apply attach_name.
Qed.

Lemma assign_children_names s p news : names_eq (assign_children s p news) s.
Proof.
  intros x. unfold assign_children.
  rewrite (fold_names_eq (steal p) news); [|intros st a y; unfold steal; destruct (par st a); reflexivity].
  cbn [name set_kids]. unfold del_children.
  rewrite (fold_names_eq orphan); [reflexivity|intros st a y; unfold orphan; destruct (par st a); reflexivity].
Qed.

Lemma children_rollback_names s0 s p news : names_eq (children_rollback s0 s p news) s.
Proof.
  intros x. unfold children_rollback.
  rewrite (fold_names_eq (fun st y => set_par st y (Some p))); [|intros; intro; reflexivity].
  cbn [name set_kids].
  rewrite (fold_names_eq (fun st y => match par s0 y with None => set_par st y None | Some _ => st end));
    [|intros st a y; destruct (par s0 a); reflexivity].
  rewrite (fold_names_eq give_back); [reflexivity|intros st [a [i q]] y; reflexivity].
Qed.

Lemma set_children_names cfg ft s p cont args : names_eq (fst (set_children cfg ft s p cont args)) s.
Proof.
  intros x. destruct (set_children_cases cfg ft s p cont args) as [[_ [-> _]]|[[_ ->]|[_ [_ [_ ->]]]]].
  - apply assign_children_names.
  - reflexivity.
  - rewrite children_rollback_names. apply assign_children_names.
Qed.

Lemma extend_names cfg p : forall cs fts s, names_eq (fst (extend_loop cfg s p cs fts)) s.
Proof.
  induction cs as [|c cs IH]; intros fts s x; cbn [extend_loop]; [reflexivity|].
  pose proof (set_parent_names cfg (hd NoFault fts) s c (ANode p) x) as H.
  destruct (set_parent cfg (hd NoFault fts) s c (ANode p)) as [s1 [|e]]; cbn [fst] in *; [|exact H].
  rewrite IH. exact H.
Qed.

Theorem step_names cfg s o : names_eq (fst (step cfg s o)) s.
Proof.
  intros x. unfold step. destruct (op_in_range s o); cbn [negb]; [|reflexivity].
  destruct o; try apply set_parent_names.
  - apply set_children_names.
  - cbn [fst]. unfold del_children.
    apply (fold_names_eq orphan). intros st a y. unfold orphan. destruct (par st a); reflexivity.
  - apply extend_names.
  - destruct (is_node cfg); cbn [negb]; [|reflexivity].
    destruct (filter (fun k => str_eqb (name s k) nm) (kids s p)) as [|c [|c' l]]; try reflexivity.
    apply set_parent_names.
  - destruct (sort_raises keys (kids s p)); reflexivity.
  - destruct (is_node cfg); reflexivity.
Qed.

(* ---------------- sibling names are unique: an invariant of every Node history ---------------- *)
Definition SU (s : forest) : Prop := forall p, NoDup (map (name s) (kids s p)).

Lemma NoDup_map_filter {A B} (f : A -> B) (g : A -> bool) l : NoDup (map f l) -> NoDup (map f (filter g l)).
Proof.
  induction l as [|y t IH]; cbn [filter map]; intros H; [constructor|].
  inversion H as [|? ? Hy Ht]; subst. destruct (g y); cbn [map]; [|apply IH; exact Ht].
  constructor; [|apply IH; exact Ht]. intros Hin. apply Hy.
  apply in_map_iff in Hin as [z [E Hz]]. apply filter_In in Hz as [Hz _]. rewrite <- E. apply in_map. exact Hz.
Qed.

Lemma dup_names_false s l : dup_names s l = false -> NoDup (map (name s) l).
Proof.
  induction l as [|x t IH]; cbn [dup_names map]; intros H; [constructor|].
  apply orb_false_iff in H as [H1 H2]. constructor; [|apply IH; exact H2].
  intros Hin. apply in_map_iff in Hin as [y [E Hy]].
  assert (Hex : existsb (fun y0 => str_eqb (name s x) (name s y0)) t = true).
  { apply existsb_exists. exists y. split; [exact Hy|]. rewrite E. apply str_eqb_refl. }
  congruence.
Qed.

Lemma SU_same s t : same s t -> names_eq t s -> SU s -> SU t.
Proof.
  intros [_ He] Hn H p. destruct (He p) as [_ <-].
  rewrite (map_ext (name t) (name s)) by exact Hn. apply H.
Qed.

Lemma attach_SU s c np :
  WF s -> SU s -> (forall p, np = Some p -> dup_name_under s c p = false) -> SU (attach s c np).
Proof.
  intros W H Hd q. rewrite attach_kids by exact W.
  rewrite (map_ext (name (attach s c np)) (name s)) by (intros; apply attach_name).
  rewrite remove1_filter by apply W. rewrite map_app.
  destruct (is_parent np q) eqn:E; [|rewrite app_nil_r; apply NoDup_map_filter, H].
  destruct np as [p|]; [|discriminate]. cbn [is_parent] in E. apply Nat.eqb_eq in E. subst q.
  specialize (Hd p eq_refl). cbn [map].
  set (l := filter (fun y => negb (Nat.eqb y c)) (kids s p)).
  assert (Hnd : NoDup (map (name s) l)) by apply NoDup_map_filter, H.
  assert (Hall : forall y, In y l -> name s y <> name s c).
  { intros y Hy E. apply filter_In in Hy as [Hy1 Hy2]. unfold dup_name_under in Hd.
    assert (Hex : existsb (fun k => str_eqb (name s k) (name s c) && negb (Nat.eqb k c)) (kids s p) = true).
    { apply existsb_exists. exists y. split; [exact Hy1|]. rewrite E, str_eqb_refl, Hy2. reflexivity. }
    congruence. }
  clearbody l. induction l as [|y l IH]; cbn [map app]; [constructor; [tauto|constructor]|].
  inversion Hnd as [|? ? Hy Hl]; subst. constructor.
  - rewrite in_app_iff. intros [Hin|[E|[]]]; [contradiction|]. apply (Hall y); [left; reflexivity|symmetry; exact E].
  - apply IH; [exact Hl|intros z Hz; apply Hall; right; exact Hz].
Qed.

Lemma set_parent_SU cfg ft s c a :
  is_node cfg = true -> WF s -> SU s -> SU (fst (set_parent cfg ft s c a)).
Proof.
  intros Hn W H. pose proof (set_parent_atomic cfg ft s c a W) as Hat.
  pose proof (set_parent_names cfg ft s c a) as Hnm.
  unfold set_parent in *. rewrite Hn in *. destruct a as [p| |]; [| |exact H].
  - destruct (parent_loop s c (Some p)); [exact H|].
    destruct (fault_eqb ft PreFail); [exact H|]. cbn [andb] in *.
    destruct (dup_name_under s c p) eqn:D; [exact H|].
    destruct (fault_eqb ft PostFail); cbn [fst snd] in *.
    + apply (SU_same s); [apply same_sym, Hat; discriminate|exact Hnm|exact H].
    + apply attach_SU; [exact W|exact H|intros q [= <-]; exact D].
  - cbn [parent_loop] in *. destruct (fault_eqb ft PreFail); [exact H|]. cbn [andb] in *.
    destruct (fault_eqb ft PostFail); cbn [fst snd] in *.
    + apply (SU_same s); [apply same_sym, Hat; discriminate|exact Hnm|exact H].
    + apply attach_SU; [exact W|exact H|intros q [=]].
Qed.

Lemma orphans_SU p l s :
  WF s -> SU s -> NoDup l -> (forall x, In x l -> par s x = Some p) -> SU (fold_left orphan l s).
Proof.
  intros W H Hnd Hp q. destruct (orphans_spec p l s W Hnd Hp) as [_ [_ [_ [Hk [Hnm _]]]]].
  rewrite Hk. rewrite (map_ext _ (name s)) by exact Hnm.
  destruct (Nat.eqb q p); [apply NoDup_map_filter, H|apply H].
Qed.

Lemma set_children_SU cfg ft s p cont args :
  is_node cfg = true -> WF s -> p < size s -> forallb (arg_in_range s) args = true ->
  SU s -> SU (fst (set_children cfg ft s p cont args)).
Proof.
  intros Hn W Hp Hr H. pose proof (set_children_atomic cfg ft s p cont args W Hp Hr) as Hat.
  pose proof (set_children_names cfg ft s p cont args) as Hnm.
  unfold set_children in *. fold (children_checked s p cont args) in *. rewrite Hn in *.
  destruct (children_checked s p cont args) eqn:Hc; [exact H|].
  destruct (fault_eqb ft PreFail); [exact H|]. cbn [andb] in *.
  destruct (dup_names s (ids_of args)) eqn:D; [exact H|].
  destruct (fault_eqb ft PostFail); cbn [fst snd] in *.
  - apply (SU_same s); [apply same_sym, Hat; discriminate|exact Hnm|exact H].
  - intros q.
    destruct (assign_children_spec s p (ids_of args) W Hp (checked_valid s p cont args Hc Hr)) as [_ [_ [_ [Hkp Hkq]]]].
    rewrite (map_ext _ (name s)) by apply assign_children_names.
    destruct (Nat.eq_dec q p) as [->|Hq].
    + rewrite Hkp. apply dup_names_false. exact D.
    + rewrite Hkq by exact Hq. apply NoDup_map_filter, H.
Qed.

Lemma extend_SU cfg p : forall cs fts s,
  is_node cfg = true -> WF s -> p < size s -> forallb (in_range s) cs = true -> SU s ->
  SU (fst (extend_loop cfg s p cs fts)).
Proof.
  induction cs as [|c cs IH]; intros fts s Hn W Hp Hr H; cbn [extend_loop]; [exact H|].
  cbn [forallb] in Hr. apply andb_true_iff in Hr as [Hc Hr]. apply Nat.ltb_lt in Hc.
  pose proof (set_parent_WF cfg (hd NoFault fts) s c (ANode p) W Hc) as W1.
  pose proof (set_parent_SU cfg (hd NoFault fts) s c (ANode p) Hn W H) as H1.
  assert (Hsz : size (fst (set_parent cfg (hd NoFault fts) s c (ANode p))) = size s).
  { destruct (set_parent_cases cfg (hd NoFault fts) s c (ANode p)) as [[_ [-> _]]|[[_ ->]|[_ [_ [_ [_ ->]]]]]];
      [apply attach_size|reflexivity|].
    unfold attach_rollback. destruct (np_of (ANode p)), (par s c); cbn [size set_kids set_par]; apply attach_size. }
  destruct (set_parent cfg (hd NoFault fts) s c (ANode p)) as [s1 [|e]]; cbn [fst] in *; [|exact H1].
  apply IH; [exact Hn|apply W1; intros q [= <-]; exact Hp|rewrite Hsz; exact Hp| |exact H1].
  rewrite <- Hr. clear - Hsz. induction cs as [|x cs IHcs]; cbn [forallb]; [reflexivity|].
  rewrite IHcs. unfold in_range. rewrite Hsz. reflexivity.
Qed.

Theorem step_SU cfg s o : is_node cfg = true -> WF s -> SU s -> SU (fst (step cfg s o)).
Proof.
  intros Hn W H. unfold step. destruct (op_in_range s o) eqn:R; cbn [negb]; [|exact H].
  destruct o; cbn [op_in_range] in R; try (apply set_parent_SU; assumption).
  - apply andb_true_iff in R as [R1 R2]. apply Nat.ltb_lt in R1. apply set_children_SU; assumption.
  - cbn [fst]. apply (orphans_SU p); [exact W|exact H|apply W|intros x Hx; apply W; exact Hx].
  - apply andb_true_iff in R as [R1 R2]. apply Nat.ltb_lt in R1. apply extend_SU; assumption.
  - rewrite Hn. cbn [negb].
    destruct (filter (fun k => str_eqb (name s k) nm) (kids s p)) as [|c [|c' l]]; try exact H.
    apply set_parent_SU; assumption.
  - destruct (sort_raises keys (kids s p)); cbn [fst]; [exact H|].
    intros q. cbn [kids name set_kids]. destruct (Nat.eq_dec q p) as [->|Hq].
    + rewrite upd_same. apply (Permutation_NoDup (l := map (name s) (kids s p))); [|apply H].
      apply Permutation_map, Permutation_sym, py_sort_perm.
    + rewrite upd_other by exact Hq. apply H.
  - rewrite Hn. cbn [negb fst]. exact H.
Qed.

Theorem run_WF_SU cfg ops : is_node cfg = true -> forall s, WF s -> SU s ->
  WF (run cfg s ops) /\ SU (run cfg s ops).
Proof.
  intros Hn. unfold run. induction ops as [|o ops IH]; intros s W H; cbn [fold_left]; [split; assumption|].
  apply IH; [apply step_WF; exact W|apply step_SU; assumption].
Qed.

Lemma SU_init n names seps : SU (init n names seps).
Proof. intros p. cbn. constructor. Qed.

(* an attachment that would give two siblings the same name is refused, nothing changes *)
Theorem dup_refused cfg ft s c p :
  is_node cfg = true -> ft <> PreFail -> parent_loop s c (Some p) = false ->
  dup_name_under s c p = true ->
  set_parent cfg ft s c (ANode p) = (s, Err TreeError).
Proof.
  intros Hn Hft L D. unfold set_parent. rewrite L, Hn, D.
  destruct ft; cbn [fault_eqb andb]; try reflexivity. contradiction.
Qed.

(* ---------------- root, sep, depth ---------------- *)
Lemma root_of_last s : forall f n,
  (length (anc s f n) < f \/ par s n = None) -> root_of s f n = last (anc s f n) n.
Proof.
  induction f as [|f IH]; intros n H.
  - destruct H as [H|H]; [cbn in H; lia|reflexivity].
  - cbn [root_of anc] in *. destruct (par s n) as [p|] eqn:E; [|reflexivity].
    destruct H as [H|H]; [|discriminate]. cbn [length] in H.
    rewrite last_cons_default. apply IH. left. lia.
Qed.

Lemma sep_of_root s : forall f n,
  (length (anc s f n) < f \/ par s n = None) -> sep_of s f n = sepf s (root_of s f n).
Proof.
  induction f as [|f IH]; intros n H.
  - reflexivity.
  - cbn [root_of sep_of anc] in *. destruct (par s n) as [p|] eqn:E; [|reflexivity].
    destruct H as [H|H]; [|discriminate]. cbn [length] in H. apply IH. left. lia.
Qed.

Lemma WF_fuel s n : WF s -> length (anc s (size s) n) < size s \/ par s n = None.
Proof.
  intros [_ _ Hb [r Hr]]. destruct (par s n) eqn:E; [left|right; reflexivity].
  apply (anc_len_lt s r Hr Hb); [lia|congruence].
Qed.

Theorem root_spec s n : WF s -> root s n = last (ancestors s n) n /\ par s (root s n) = None.
Proof.
  intros W. assert (E : root s n = last (ancestors s n) n) by (apply root_of_last, WF_fuel; exact W).
  split; [exact E|]. rewrite E. destruct W as [_ _ Hb [r Hr]]. exact (ancestors_reach_root s r Hr Hb n).
Qed.

Theorem sep_spec s n : WF s -> sep s n = sepf s (root s n).
Proof. intros W. apply sep_of_root, WF_fuel; exact W. Qed.

Theorem path_name_spec s n : WF s ->
  path_name s n = sep s n ++ join (sep s n) (map (name s) (route s n)).
Proof.
  intros W. unfold path_name, route. rewrite (sep_spec s n W).
  destruct (root_spec s n W) as [E _]. rewrite E. rewrite last_cons_default. reflexivity.
Qed.

Theorem depth_spec s n : depth s n = length (route s n).
Proof. unfold depth, route. rewrite rev_length. reflexivity. Qed.

Lemma root_parent s n p : WF s -> par s n = Some p -> root s n = root s p.
Proof.
  intros W E. destruct (root_spec s n W) as [E1 _]. destruct (root_spec s p W) as [E2 _].
  rewrite E1, E2, (WF_ancestors_unfold s n p W E). apply last_cons_default.
Qed.

Lemma route_parent s n p : WF s -> par s n = Some p -> route s n = route s p ++ [n].
Proof.
  intros W E. unfold route. rewrite (WF_ancestors_unfold s n p W E). reflexivity.
Qed.

Lemma route_root s n : par s n = None -> route s n = [n].
Proof.
  intros E. unfold route, ancestors. destruct (size s); cbn [anc]; rewrite ?E; reflexivity.
Qed.

Lemma root_root s n : par s n = None -> root s n = n.
Proof. intros E. unfold root. destruct (size s); cbn [root_of]; rewrite ?E; reflexivity. Qed.

(* ---------------- descending along the route finds the node ---------------- *)
Lemma filter_unique {A B} (f : A -> B) (eqb : B -> B -> bool)
      (Heq : forall a b, eqb a b = true <-> a = b) l x :
  NoDup (map f l) -> In x l -> filter (fun k => eqb (f k) (f x)) l = [x].
Proof.
  induction l as [|y l IH]; cbn [map filter]; intros Hnd Hin; [contradiction|].
  inversion Hnd as [|? ? Hy Hl]; subst. destruct Hin as [->|Hin].
  - assert (E : eqb (f x) (f x) = true) by (apply Heq; reflexivity). rewrite E. f_equal.
    clear IH E Hnd Hl. revert Hy. induction l as [|z l IHl]; cbn [filter map]; intros Hy; [reflexivity|].
    destruct (eqb (f z) (f x)) eqn:Ez.
    + apply Heq in Ez. exfalso. apply Hy. left. exact Ez.
    + apply IHl. intros H. apply Hy. right. exact H.
  - destruct (eqb (f y) (f x)) eqn:Ey.
    + apply Heq in Ey. exfalso. apply Hy. rewrite Ey. apply in_map. exact Hin.
    + apply IH; assumption.
Qed.

Lemma descend_route s : WF s -> SU s -> forall l n tailnames,
  ancestors s n = l ->
  descend s (root s n) (map (name s) (tl (route s n)) ++ tailnames) = descend s n tailnames.
Proof.
  intros W H. induction l as [|p l IH]; intros n tailnames El.
  - assert (E : par s n = None).
    { destruct (par s n) as [q|] eqn:E; [|reflexivity]. rewrite (WF_ancestors_unfold s n q W E) in El. discriminate. }
    rewrite (route_root s n E), (root_root s n E). reflexivity.
  - assert (E : par s n = Some p).
    { destruct (par s n) as [q|] eqn:E.
      - rewrite (WF_ancestors_unfold s n q W E) in El. congruence.
      - unfold ancestors in El. destruct (size s); cbn [anc] in El; rewrite ?E in El; discriminate. }
    assert (El' : ancestors s p = l) by (rewrite (WF_ancestors_unfold s n p W E) in El; congruence).
    rewrite (root_parent s n p W E), (route_parent s n p W E).
    assert (Hne : route s p <> []) by (unfold route; intros Hr; apply (f_equal (@length _)) in Hr; rewrite rev_length in Hr; discriminate).
    destruct (route s p) as [|r0 rt] eqn:Er; [congruence|]. cbn [tl app]. rewrite map_app, <- app_assoc. cbn [map app].
    replace rt with (tl (route s p)) by (rewrite Er; reflexivity).
    rewrite (IH p (name s n :: tailnames) El'). cbn [descend]. unfold children_named.
    rewrite (filter_unique (name s) str_eqb str_eqb_eq (kids s p) n (H p)); [reflexivity|].
    apply (wf_link s W). exact E.
Qed.
