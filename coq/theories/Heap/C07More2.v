(* C07, second round: further refinement theorems for the effect skeletons of Heap/Effects.v.

   1. Rose-level independence: a later history of structural operations inside one link-closed region
      leaves the ROSE TREE (Heap/Abs.v, with the public attributes: esubtree) below every node of a
      disjoint link-closed region unchanged.  Instantiated for the result of every copying skeleton in
      both directions: mutating the result does not show in the rose trees of the input, mutating the
      input does not show in the rose tree of the result.
   2. prune_tree with prune paths: the skeleton sk_prune computes, through the abstraction, the tag-level
      pruning `ptags`, and `ptags` is Algo/Helper.v's `prune_paths_at` (filter_tree on positions) whenever
      the target positions address the target nodes (node_at: the position / id correspondence).
   3. tree_to_dataframe / tree_to_polars / tree_to_nested_dict are functions of the abstraction alone.
   4. clone_tree: the recursively allocated clone abstracts to the rose tree of the whole input tree.
   5. DAGNode.copy() and DAG independence on the pure graph `dabs s`.
   6. corollaries (copy_two_sided, prune without paths with tags).
   7. copy_nodes (plain case) is a graft of a fresh copy, nothing is cut.
   No axioms. *)
From BT Require Import Base.Prelude Base.Str Heap.Forest Heap.Effects Heap.EffectsProofs.
From BT Require Base.Rose Heap.ForestWF Heap.ForestOps Heap.ForestStep Heap.ForestRefl Heap.Abs Heap.AbsSurgery
     Algo.Helper Algo.HelperProofs.

(* ========================================================================================== *)
(* 1. rose-level independence *)

Lemma tags_tree_of_S s f x y :
  In (Some y) (Abs.tags (Abs.tree_of s (S f) x)) ->
  y = x \/ exists k, In k (kids s x) /\ In (Some y) (Abs.tags (Abs.tree_of s f k)).
Proof.
  unfold Abs.tags. cbn [Abs.tree_of Rose.pre map]. intros [E|H]; [left; cbn in E; congruence|right].
  apply in_map_iff in H. destruct H as (u & Eu & Hu). apply in_flat_map in Hu. destruct Hu as (t & Ht & Hu).
  apply in_map_iff in Ht. destruct Ht as (k & <- & Hk). exists k. split; [exact Hk|].
  apply in_map_iff. exists u. split; assumption.
Qed.

Lemma tags_tree_of_0 s x y : In (Some y) (Abs.tags (Abs.tree_of s 0 x)) -> y = x.
Proof. unfold Abs.tags. cbn. intros [E|[]]. congruence. Qed.

(* every node of the tree below a node of a link-closed region lies in the region *)
Lemma tags_closed (B : region) s : closed B s -> forall f x y, B x = true ->
  In (Some y) (Abs.tags (Abs.tree_of s f x)) -> B y = true.
Proof.
  intros C f; induction f as [|f IH]; intros x y Bx H.
  - apply tags_tree_of_0 in H. now subst.
  - apply tags_tree_of_S in H. destruct H as [->|(k & Hk & H)]; [exact Bx|].
    eapply IH; [|exact H]. eapply closed_kids; eauto.
Qed.

Definition agree_on (B : region) (h h' : eheap) : Prop :=
  forall y, B y = true ->
    kids (fr h') y = kids (fr h) y /\ name (fr h') y = name (fr h) y /\ att h' y = att h y.

(* two heaps that agree on a link-closed region have the same rose trees below its nodes *)
Lemma etree_frame dec (B : region) h h' :
  closed B (fr h) -> agree_on B h h' -> forall f x, B x = true -> etree_of dec h' f x = etree_of dec h f x.
Proof.
  intros C Ag f x Bx. apply etree_ext. intros y Hy. apply Ag. eapply tags_closed; eauto.
Qed.

Lemma disjoint_compl (A B : region) :
  (forall y, A y = true -> B y = false) -> forall y, B y = true -> A y = false.
Proof. intros D y By. destruct (A y) eqn:Ay; [|reflexivity]. rewrite (D y Ay) in By. discriminate. Qed.

(* the rose-level form of C07_independence_history *)
Theorem rose_independence_run dec (A B : region) cfg ops h x :
  (forall y, A y = true -> B y = false) -> closed A (fr h) -> closed B (fr h) ->
  forallb (op_in A) ops = true -> B x = true ->
  esubtree dec (with_fr h (run cfg (fr h) ops)) x = esubtree dec h x.
Proof.
  intros D CA CB Ho Bx. unfold esubtree. cbn [with_fr fr]. rewrite run_size.
  apply (etree_frame dec B h); [exact CB| |exact Bx].
  intros y By. destruct (run_ok A cfg ops (fr h) CA Ho) as [[_ F] _].
  destruct (F y (disjoint_compl A B D y By)) as (_ & e2 & e3 & _). cbn [with_fr fr att]. auto.
Qed.

Theorem rose_independence_step dec (A B : region) cfg o h x :
  (forall y, A y = true -> B y = false) -> closed A (fr h) -> closed B (fr h) ->
  op_in A o = true -> B x = true ->
  esubtree dec (with_fr h (fst (step cfg (fr h) o))) x = esubtree dec h x.
Proof.
  intros D CA CB Ho Bx.
  apply (rose_independence_run dec A B cfg [o] h x D CA CB); [cbn; now rewrite Ho | exact Bx].
Qed.

(* ---- the two sides of a call that returned a fresh result ---- *)
Definition lt_r (n : nat) : region := fun k => Nat.ltb k n.

Lemma lt_r_true n k : lt_r n k = true <-> k < n.
Proof. unfold lt_r. apply Nat.ltb_lt. Qed.

Lemma lt_ge_disjoint n y : lt_r n y = true -> ge n y = false.
Proof. intros H. apply lt_r_true in H. now apply ge_false. Qed.
Lemma ge_lt_disjoint n y : ge n y = true -> lt_r n y = false.
Proof. intros H. apply ge_true in H. unfold lt_r. apply Nat.ltb_ge. exact H. Qed.

(* what a copying call leaves behind: the heap grew, the links / names / attributes of the old nodes are
   as before, and the new part is link-closed *)
Definition result_of (h0 h' : eheap) : Prop :=
  size (fr h0) <= size (fr h')
  /\ (forall x, x < size (fr h0) ->
        par (fr h') x = par (fr h0) x /\ kids (fr h') x = kids (fr h0) x
        /\ name (fr h') x = name (fr h0) x /\ att h' x = att h0 x)
  /\ closed (ge (size (fr h0))) (fr h').

Lemma Inv_result_of h0 h' : Inv (size (fr h0)) h0 h' -> result_of h0 h'.
Proof.
  intros (L & U & C). split; [exact L|]. split; [|exact C].
  intros x Lx. destruct (U x Lx) as ((a & b & c & _) & d & _). auto.
Qed.

Lemma WF_closed_lt s : ForestWF.WF s -> closed (lt_r (size s)) s.
Proof.
  intros W x _. split.
  - intros p Hp. apply lt_r_true. apply (ForestWF.wf_bound s W x p Hp).
  - intros k Hk. apply (ForestWF.wf_link s W) in Hk. apply lt_r_true. apply (ForestWF.wf_bound s W k x Hk).
Qed.

Lemma result_closed_lt h0 h' :
  ForestWF.WF (fr h0) -> result_of h0 h' -> closed (lt_r (size (fr h0))) (fr h').
Proof.
  intros W (_ & U & _) x Bx. apply lt_r_true in Bx. destruct (U x Bx) as (a & b & _). rewrite a, b.
  apply (WF_closed_lt (fr h0) W x). now apply lt_r_true.
Qed.

(* (a) any later history on the RESULT side leaves the rose tree below every input node as it was
   before the call *)
Theorem result_mutation_invisible dec cfg h0 h' ops x :
  ForestWF.WF (fr h0) -> result_of h0 h' ->
  forallb (op_in (ge (size (fr h0)))) ops = true -> x < size (fr h0) ->
  esubtree dec (with_fr h' (run cfg (fr h') ops)) x = esubtree dec h0 x.
Proof.
  intros W R Ho Lx. pose proof (result_closed_lt h0 h' W R) as CL. destruct R as (Sz & U & CG).
  assert (Bx : lt_r (size (fr h0)) x = true) by (now apply lt_r_true).
  rewrite (rose_independence_run dec (ge (size (fr h0))) (lt_r (size (fr h0))) cfg ops h' x
             (ge_lt_disjoint _) CG CL Ho Bx).
  unfold esubtree at 1.
  rewrite (etree_frame dec (lt_r (size (fr h0))) h0 h' (WF_closed_lt _ W)); [| |exact Bx].
  - apply etree_any_fuel; [exact W | exact Sz].
  - intros y By. apply lt_r_true in By. destruct (U y By) as (_ & b & c & d). auto.
Qed.

(* (b) any later history on the INPUT side leaves the rose tree below every node of the result as the
   call returned it *)
Theorem input_mutation_invisible dec cfg h0 h' ops y :
  ForestWF.WF (fr h0) -> result_of h0 h' ->
  forallb (op_in (lt_r (size (fr h0)))) ops = true -> size (fr h0) <= y ->
  esubtree dec (with_fr h' (run cfg (fr h') ops)) y = esubtree dec h' y.
Proof.
  intros W R Ho Ly. pose proof (result_closed_lt h0 h' W R) as CL. destruct R as (Sz & U & CG).
  apply (rose_independence_run dec (lt_r (size (fr h0))) (ge (size (fr h0))) cfg ops h' y
           (lt_ge_disjoint _) CL CG Ho). now apply ge_true.
Qed.

(* ---- every copying skeleton returns such a heap ---- *)
Lemma copy_result_of h start : result_of h (fst (sk_copy h start)).
Proof. apply Inv_result_of. apply Inv_copy_first. Qed.

Lemma export_result_of h start : result_of h (sk_export h start).
Proof. apply Inv_result_of. apply Inv_copy_first. Qed.

Lemma get_subtree_result_of cfg h start found md : result_of h (fst (sk_get_subtree cfg h start found md)).
Proof.
  apply Inv_result_of. unfold sk_get_subtree.
  set (n := size (fr h)). set (h1 := deep_copy h start). set (t := phi (fr h) start found).
  assert (I1 : Inv n h h1) by apply Inv_copy_first.
  assert (Ht : ge n t = true) by (apply ge_true; apply phi_ge).
  set (ops := match par (fr h1) t with None => [] | Some _ => [detach t] end).
  assert (Ho : forallb (op_in (ge n)) ops = true).
  { subst ops. destruct (par (fr h1) t); [|reflexivity]. cbn. now rewrite Ht. }
  pose proof (Inv_run n h h1 cfg ops I1 Ho) as I2.
  destruct md as [|md]; [exact I2|]. cbn [fst].
  set (s2 := run cfg (fr h1) ops) in *.
  set (h3 := deep_copy (with_fr h1 s2) t).
  assert (I3 : Inv n h h3) by (now apply Inv_copy).
  apply Inv_run; [exact I3|]. apply cut_ops_in; [apply I3|].
  apply ge_true. pose proof (phi_ge s2 t t). destruct I2 as [L _]. cbn in L. fold n. lia.
Qed.

Lemma prune_result_of cfg h start targets exact md : result_of h (fst (sk_prune cfg h start targets exact md)).
Proof.
  apply Inv_result_of. unfold sk_prune. cbn [fst].
  set (n := size (fr h)). set (h1 := deep_copy h start).
  set (tc := phi (fr h) start start). set (ts := map (phi (fr h) start) targets).
  assert (I1 : Inv n h h1) by apply Inv_copy_first.
  assert (Hts : forall t, In t ts -> ge n t = true).
  { intros t Ht. subst ts. apply in_map_iff in Ht. destruct Ht as (y & <- & _). apply ge_true. apply phi_ge. }
  assert (Htc : ge n tc = true) by (apply ge_true; apply phi_ge).
  pose proof (Inv_run n h h1 cfg (prune_ops (fr h1) ts exact) I1
                (prune_ops_in (ge n) (fr h1) ts exact (proj2 (proj2 I1)) Hts)) as I2.
  set (s2 := run cfg (fr h1) (prune_ops (fr h1) ts exact)) in *.
  exact (Inv_run n h (with_fr h1 s2) cfg (cut_ops s2 tc md) I2
           (cut_ops_in (ge n) s2 tc md (proj2 (proj2 I2)) Htc)).
Qed.

Lemma clone_result_of cfg h start : clean (fr h) -> result_of h (fst (sk_clone cfg h start)).
Proof.
  intros Hc. apply Inv_result_of. unfold sk_clone.
  destruct (Inv_alloc _ h h (name (fr h) (root (fr h) start)) [47%N] (att h (root (fr h) start)) (Inv_start h Hc))
    as [I1 E1].
  destruct (alloc h (name (fr h) (root (fr h) start)) [47%N] (att h (root (fr h) start))) as [h1 r'] eqn:E.
  cbn [fst snd] in I1, E1 |- *. apply clone_rec_inv; [exact I1 | lia].
Qed.

Lemma diff_result_of cfg h t1 t2 shape : clean (fr h) -> result_of h (fst (sk_diff cfg h t1 t2 shape)).
Proof.
  intros Hc. unfold sk_diff. cbn [fst].
  set (h0 := with_fr h (set_sep (fr h) (root (fr h) t2) (sep (fr h) t1))).
  set (n := size (fr h)).
  assert (I0 : Inv n h0 h0).
  { apply (Inv_start h0). intros k Hk. subst h0; cbn in *. now apply Hc. }
  pose proof (Inv_copy n h0 _ t1 I0) as I1.
  pose proof (Inv_copy n h0 _ t2 I1) as I2.
  set (h2 := deep_copy (deep_copy h0 t1) t2) in *.
  assert (Hb : n <= size (fr h2)) by apply I2.
  pose proof (build_inv cfg n h0 (size (fr h2)) Hb shape h2 I2) as I3.
  destruct I3 as (L & U & C). split; [exact L|]. split; [|exact C].
  intros x Lx. destruct (U x Lx) as ((a & b & c & _) & d & _). subst h0; cbn in *. auto.
Qed.

(* ========================================================================================== *)
(* 2. prune_tree with prune paths *)

(* ---- 2a. the heap side: what the detaches of prune_ops leave ---- *)

Lemma detach_set_parent cfg s k : set_parent cfg NoFault s k ANone = (attach s k None, Ok).
Proof. unfold set_parent. cbn. rewrite andb_false_r. reflexivity. Qed.

Lemma filter_true {B} (l : list B) : filter (fun _ => true) l = l.
Proof. induction l as [|y t IH]; cbn; [reflexivity | now rewrite IH]. Qed.

Lemma detach_one_spec cfg s k : ForestWF.WF s ->
  let s1 := fst (step cfg s (detach k)) in
  ForestWF.WF s1 /\ size s1 = size s
  /\ (forall y, kids s1 y = filter (fun c => negb (Nat.eqb c k)) (kids s y))
  /\ (forall y, name s1 y = name s y).
Proof.
  intros W. cbn zeta. unfold step, detach. cbn [op_in_range arg_in_range]. rewrite andb_true_r.
  destruct (in_range s k) eqn:R; cbn [negb fst].
  - rewrite detach_set_parent. cbn [fst]. apply Nat.ltb_lt in R.
    split; [apply ForestWF.attach_WF; [exact W | exact R | discriminate]|].
    split; [apply ForestWF.attach_size|]. split; [|intros y; apply ForestWF.attach_name].
    intros y. rewrite (ForestWF.attach_kids s k None y W). cbn [ForestWF.is_parent]. rewrite app_nil_r.
    apply ForestOps.remove1_filter. apply (ForestWF.wf_nodup s W).
  - split; [exact W|]. split; [reflexivity|]. split; [|reflexivity].
    intros y. symmetry. apply ForestOps.filter_neq_notin. intros Hin.
    apply (ForestWF.wf_link s W) in Hin. apply (ForestWF.wf_bound s W) in Hin.
    unfold in_range in R. apply Nat.ltb_ge in R. lia.
Qed.

Lemma detach_list_spec cfg : forall l s, ForestWF.WF s ->
  let s' := run cfg s (map detach l) in
  ForestWF.WF s' /\ size s' = size s
  /\ (forall y, kids s' y = filter (fun c => negb (memb c l)) (kids s y))
  /\ (forall y, name s' y = name s y).
Proof.
  induction l as [|k t IH]; intros s W; cbn zeta.
  - cbn. split; [exact W|]. split; [reflexivity|]. split; [|reflexivity]. intros y. symmetry. apply filter_true.
  - unfold run. cbn [map fold_left]. fold (run cfg (fst (step cfg s (detach k))) (map detach t)).
    destruct (detach_one_spec cfg s k W) as (W1 & S1 & K1 & N1).
    destruct (IH _ W1) as (W2 & S2 & K2 & N2).
    split; [exact W2|]. split; [congruence|]. split.
    + intros y. rewrite K2, K1, ForestOps.filter_filter. apply filter_ext. intros c.
      cbn [memb existsb]. now rewrite Bool.negb_orb.
    + intros y. now rewrite N2, N1.
Qed.

Lemma flat_map_map_out {B C D} (f : C -> D) (g : B -> list C) l :
  flat_map (fun a => map f (g a)) l = map f (flat_map g l).
Proof. induction l as [|a t IH]; cbn; [reflexivity|]. now rewrite map_app, IH. Qed.

(* the nodes prune_tree cuts loose *)
Definition cut_loose (s : forest) (W ts : list id) : list id :=
  flat_map (fun a => filter (fun k => negb (memb k W) && negb (memb k ts)) (kids s a)) W.

Definition walk_ids (s : forest) (ts : list id) (exact : bool) : list id :=
  flat_map (ancestors s) ts ++ (if exact then ts else []).

Lemma prune_ops_detaches s ts exact :
  prune_ops s ts exact = map detach (cut_loose s (walk_ids s ts exact) ts).
Proof. unfold prune_ops, cut_loose, walk_ids. apply flat_map_map_out. Qed.

Definition keepk (W ts : list id) (y k : id) : bool := negb (memb y W) || memb k W || memb k ts.

Lemma cut_loose_child s W ts y k : ForestWF.WF s -> In k (kids s y) ->
  negb (memb k (cut_loose s W ts)) = keepk W ts y k.
Proof.
  intros Wf Hk. unfold keepk.
  destruct (memb k (cut_loose s W ts)) eqn:M; cbn [negb].
  - apply ForestWF.memb_In in M. unfold cut_loose in M. apply in_flat_map in M. destruct M as (a & Ha & Hf).
    apply filter_In in Hf. destruct Hf as [Hka Hc].
    apply (ForestWF.wf_link s Wf) in Hka, Hk. assert (a = y) by congruence. subst a.
    apply ForestWF.memb_In in Ha. rewrite Ha. cbn [negb orb].
    apply andb_true_iff in Hc. destruct Hc as [c1 c2].
    apply Bool.negb_true_iff in c1, c2. now rewrite c1, c2.
  - destruct (memb y W) eqn:My; cbn [negb orb]; [|reflexivity].
    destruct (memb k W) eqn:Mk; cbn [orb]; [reflexivity|].
    destruct (memb k ts) eqn:Mt; [reflexivity|]. exfalso.
    apply ForestWF.memb_false in M. apply M. unfold cut_loose. apply in_flat_map. exists y.
    split; [now apply ForestWF.memb_In|]. apply filter_In. split; [exact Hk|]. now rewrite Mk, Mt.
Qed.

(* the state after the detaches of prune_tree: a node of the walk set keeps the children that are in the walk
   set or targets, every other node keeps all its children *)
Lemma prune_run_spec cfg s ts exact : ForestWF.WF s ->
  let W := walk_ids s ts exact in
  let s' := run cfg s (prune_ops s ts exact) in
  ForestWF.WF s' /\ size s' = size s
  /\ (forall y, kids s' y = filter (keepk W ts y) (kids s y))
  /\ (forall y, name s' y = name s y).
Proof.
  intros Wf. cbn zeta. rewrite prune_ops_detaches.
  destruct (detach_list_spec cfg (cut_loose s (walk_ids s ts exact) ts) s Wf) as (W' & S' & K' & N').
  split; [exact W'|]. split; [exact S'|]. split; [|exact N'].
  intros y. rewrite K'. apply HelperProofs.filter_ext_in'. intros k Hk. now apply cut_loose_child.
Qed.

(* ---- the tag-level pruning of a rose tree ---- *)
Definition keepo (W ts : list id) (g gk : option id) : bool :=
  match g, gk with Some y, Some k => keepk W ts y k | _, _ => true end.

Fixpoint ptags (W ts : list id) (t : Rose.tree) : Rose.tree :=
  match t with
  | Rose.T g n a ks =>
      Rose.T g n a (filter (fun k => keepo W ts g (Rose.ttag k)) (map (ptags W ts) ks))
  end.

Lemma ptags_tag W ts t : Rose.ttag (ptags W ts t) = Rose.ttag t.
Proof. destruct t; reflexivity. Qed.

Lemma etree_tag dec h f x : Rose.ttag (etree_of dec h f x) = Some x.
Proof. destruct f; reflexivity. Qed.

Lemma etree_pruned dec W ts hA hB :
  (forall y, kids (fr hB) y = filter (keepk W ts y) (kids (fr hA) y)) ->
  (forall y, name (fr hB) y = name (fr hA) y) -> (forall y, att hB y = att hA y) ->
  forall f x, etree_of dec hB f x = ptags W ts (etree_of dec hA f x).
Proof.
  intros K N A f; induction f as [|f IH]; intros x; cbn [etree_of ptags map filter]; rewrite N, A; [reflexivity|].
  f_equal. rewrite K, map_map, HelperProofs.filter_map_comm.
  rewrite (filter_ext (fun k => keepo W ts (Some x) (Rose.ttag (ptags W ts (etree_of dec hA f k)))) (keepk W ts x)).
  - apply map_ext. exact IH.
  - intros k. rewrite ptags_tag, etree_tag. reflexivity.
Qed.

(* ---- the copy has the ancestors of the original, renamed ---- *)
Lemma anc_none s c : par s c = None -> ancestors s c = [].
Proof. intros E. unfold ancestors. destruct (size s); cbn [anc]; rewrite ?E; reflexivity. Qed.

Lemma ancestors_cons_inv s y p l : ForestWF.WF s -> ancestors s y = p :: l -> par s y = Some p /\ l = ancestors s p.
Proof.
  intros W E. destruct (par s y) as [q|] eqn:Hq.
  - rewrite (ForestWF.WF_ancestors_unfold s y q W Hq) in E. injection E as -> <-. auto.
  - rewrite (anc_none s y Hq) in E. discriminate.
Qed.

Lemma ancestors_nil_inv s y : ForestWF.WF s -> ancestors s y = [] -> par s y = None.
Proof.
  intros W E. destruct (par s y) as [q|] eqn:Hq; [|reflexivity].
  rewrite (ForestWF.WF_ancestors_unfold s y q W Hq) in E. discriminate.
Qed.

Lemma anc_copy s r : ForestWF.WF s -> forall t, In t (comp s r) ->
  ancestors (deep_copy_f s r) (phi s r t) = map (phi s r) (ancestors s t).
Proof.
  intros W t. pose proof (copy_WF s r W) as W1.
  remember (ancestors s t) as l eqn:El. revert t El.
  induction l as [|p l IH]; intros t El Ht; symmetry in El.
  - apply (ancestors_nil_inv s t W) in El. apply anc_none.
    destruct (dc_iso s r t Ht) as (e & _). rewrite e, El. reflexivity.
  - destruct (ancestors_cons_inv s t p l W El) as [Hp El'].
    assert (Hpc : In p (comp s r)) by (eapply comp_par_closed_WF; eauto).
    destruct (dc_iso s r t Ht) as (e & _).
    rewrite (ForestWF.WF_ancestors_unfold _ (phi s r t) (phi s r p) W1) by (rewrite e, Hp; reflexivity).
    cbn [map]. f_equal. apply IH; assumption.
Qed.

Lemma walk_ids_copy s r ts exact : ForestWF.WF s -> (forall t, In t ts -> In t (comp s r)) ->
  walk_ids (deep_copy_f s r) (map (phi s r) ts) exact = map (phi s r) (walk_ids s ts exact).
Proof.
  intros W H. unfold walk_ids. rewrite map_app. f_equal; [|destruct exact; reflexivity].
  induction ts as [|t ts IH]; [reflexivity|]. cbn [map flat_map]. rewrite map_app. f_equal.
  - apply anc_copy; [exact W|]. apply H. now left.
  - apply IH. intros u Hu. apply H. now right.
Qed.

Lemma memb_phi s r y l : In y (comp s r) -> memb (phi s r y) (map (phi s r) l) = memb y l.
Proof.
  intros Hy. destruct (memb y l) eqn:M.
  - apply ForestWF.memb_In. apply in_map. now apply ForestWF.memb_In.
  - apply ForestWF.memb_false. intros Hin. apply in_map_iff in Hin. destruct Hin as (z & E & Hz).
    symmetry in E. apply (phi_inj s r y z Hy) in E. subst z.
    apply ForestWF.memb_false in M. contradiction.
Qed.

(* ---- pruning commutes with a renaming that is injective on the tags of the tree ---- *)
Lemma ptags_relabel g W1 ts1 W0 ts0 : forall t,
  (forall y, In (Some y) (Abs.tags t) -> memb (g y) W1 = memb y W0 /\ memb (g y) ts1 = memb y ts0) ->
  ptags W1 ts1 (relabel g t) = relabel g (ptags W0 ts0 t).
Proof.
  induction t as [tg n a ks IH] using Rose.tree_ind'. intros Hm.
  cbn [relabel ptags]. f_equal.
  rewrite Forall_forall in IH.
  assert (E1 : map (ptags W1 ts1) (map (relabel g) ks) = map (relabel g) (map (ptags W0 ts0) ks)).
  { rewrite !map_map. apply map_ext_in. intros k Hk. apply IH; [exact Hk|].
    intros y Hy. apply Hm. eapply AbsSurgery.tags_kid_incl; eauto. }
  rewrite E1, HelperProofs.filter_map_comm. f_equal.
  apply HelperProofs.filter_ext_in'. intros k' Hk'. apply in_map_iff in Hk'. destruct Hk' as (k & <- & Hk).
  assert (Tg : Rose.ttag (relabel g (ptags W0 ts0 k)) = option_map g (Rose.ttag k)).
  { rewrite <- (ptags_tag W0 ts0 k). destruct (ptags W0 ts0 k). reflexivity. }
  rewrite Tg, ptags_tag.
  destruct tg as [y|]; [|reflexivity]. destruct (Rose.ttag k) as [c|] eqn:Ec; [|reflexivity].
  cbn [option_map keepo]. unfold keepk.
  destruct (Hm y) as [a1 _]; [unfold Abs.tags; cbn; now left|].
  destruct (Hm c) as [b1 b2].
  { apply (AbsSurgery.tags_kid_incl (Some y) n a ks k (Some c) Hk). rewrite <- Ec. apply AbsSurgery.tags_root. }
  now rewrite a1, b1, b2.
Qed.

Lemma relabel_cut g : forall t k, relabel g (HelperProofs.cut k t) = HelperProofs.cut k (relabel g t).
Proof.
  induction t as [tg n a ks IH] using Rose.tree_ind'. intros k. destruct k as [|k]; cbn; [reflexivity|].
  f_equal. rewrite !map_map. apply map_ext_in. intros c Hc. rewrite Forall_forall in IH. now apply IH.
Qed.

Lemma relabel_depth_cut g md t : relabel g (Helper.depth_cut md t) = Helper.depth_cut md (relabel g t).
Proof. destruct md as [|k]; [reflexivity|]. rewrite !depth_cut_cut. apply relabel_cut. Qed.

(* the tags of the tree below a node of the component are in the component *)
Lemma etags_S dec h f x y :
  In (Some y) (Abs.tags (etree_of dec h (S f) x)) ->
  y = x \/ exists k, In k (kids (fr h) x) /\ In (Some y) (Abs.tags (etree_of dec h f k)).
Proof.
  unfold Abs.tags. cbn [etree_of Rose.pre map]. intros [E|H]; [left; cbn [Rose.ttag] in E; now inversion E|right].
  apply in_map_iff in H. destruct H as (u & Eu & Hu). apply in_flat_map in Hu. destruct Hu as (t & Ht & Hu).
  apply in_map_iff in Ht. destruct Ht as (k & <- & Hk). exists k. split; [exact Hk|].
  apply in_map_iff. exists u. split; assumption.
Qed.

Lemma etags_in_comp dec h r : ForestWF.WF (fr h) -> forall f x y, In x (comp (fr h) r) ->
  In (Some y) (Abs.tags (etree_of dec h f x)) -> In y (comp (fr h) r).
Proof.
  intros W f; induction f as [|f IH]; intros x y Hx H.
  - unfold Abs.tags in H. cbn in H. destruct H as [E|[]]. inversion E; subst; exact Hx.
  - apply etags_S in H. destruct H as [->|(k & Hk & H)]; [exact Hx|].
    eapply IH; [|exact H]. eapply comp_kids_closed_WF; eauto.
Qed.

(* (2) prune_tree with prune paths (and, optionally, a depth limit): the returned node abstracts to the
   tag-level pruning of the start node's tree, cut at the depth limit, with fresh tags *)
Theorem prune_paths_refines dec cfg h start targets exact md :
  ForestWF.WF (fr h) -> start < size (fr h) -> (forall t, In t targets -> In t (comp (fr h) start)) ->
  let '(h', r') := sk_prune cfg h start targets exact md in
  esubtree dec h' r'
  = relabel (phi (fr h) start)
      (Helper.depth_cut md (ptags (walk_ids (fr h) targets exact) targets (esubtree dec h start))).
Proof.
  intros W L Ht. unfold sk_prune.
  set (h1 := deep_copy h start). set (tc := phi (fr h) start start).
  set (ts1 := map (phi (fr h) start) targets).
  assert (W1 : ForestWF.WF (fr h1)) by (apply copy_WF; exact W).
  assert (Hs : In start (comp (fr h) start)) by (now apply comp_self).
  assert (E1 : esubtree dec h1 tc = relabel (phi (fr h) start) (esubtree dec h start))
    by (apply copy_refines; assumption).
  destruct (prune_run_spec cfg (fr h1) ts1 exact W1) as (W2 & S2 & K2 & N2).
  set (s2 := run cfg (fr h1) (prune_ops (fr h1) ts1 exact)) in *.
  set (h2 := with_fr h1 s2).
  assert (E2 : esubtree dec h2 tc
               = relabel (phi (fr h) start) (ptags (walk_ids (fr h) targets exact) targets (esubtree dec h start))).
  { unfold esubtree at 1. cbn [h2 with_fr fr]. rewrite S2.
    rewrite (etree_pruned dec (walk_ids (fr h1) ts1 exact) ts1 h1 h2 K2 N2 (fun _ => eq_refl)).
    fold (esubtree dec h1 tc). rewrite E1. apply ptags_relabel.
    intros y Hy. assert (Hyc : In y (comp (fr h) start)) by (eapply etags_in_comp; eauto).
    unfold ts1. cbn [h1 deep_copy fr]. rewrite (walk_ids_copy (fr h) start targets exact W Ht).
    split; apply memb_phi; exact Hyc. }
  destruct md as [|k].
  - cbn [cut_ops Helper.depth_cut]. change (run cfg s2 []) with s2. exact E2.
  - destruct (cut_refines dec cfg h2 tc k W2) as (_ & _ & C). cbn zeta in C.
    change (with_fr h2 (run cfg (fr h2) (cut_ops (fr h2) tc (S k))))
      with (with_fr h1 (run cfg s2 (cut_ops s2 tc (S k)))) in C.
    rewrite C, E2, relabel_depth_cut, depth_cut_cut. reflexivity.
Qed.

(* ---- 2b. positions: Algo/Helper.v addresses nodes by their child-index route from the root ---- *)

(* the node reached from x by the route q *)
Fixpoint node_at (s : forest) (x : id) (q : Rose.pos) : option id :=
  match q with
  | [] => Some x
  | i :: q' => match nth_error (kids s x) i with Some k => node_at s k q' | None => None end
  end.

Lemma esubtree_unfold dec h x : ForestWF.WF (fr h) ->
  esubtree dec h x
  = Rose.T (Some x) (name (fr h) x) (dec (map akc (att h x))) (map (esubtree dec h) (kids (fr h) x)).
Proof.
  intros W. unfold esubtree at 1. cbn [etree_of]. f_equal. apply map_ext. intros k.
  unfold esubtree. rewrite !etree_deco. f_equal. symmetry. apply Abs.tree_of_fuel; [exact W | lia].
Qed.

Lemma subtree_at_esubtree dec h : ForestWF.WF (fr h) -> forall q x,
  Rose.subtree_at (esubtree dec h x) q = option_map (esubtree dec h) (node_at (fr h) x q).
Proof.
  intros W q; induction q as [|i q IH]; intros x; [reflexivity|].
  rewrite (esubtree_unfold dec h x W). cbn [Rose.subtree_at Rose.tkids node_at]. rewrite nth_error_map.
  destruct (nth_error (kids (fr h) x) i) as [k|]; cbn [option_map]; [apply IH | reflexivity].
Qed.

Lemma node_at_app s : forall q1 q2 x,
  node_at s x (q1 ++ q2) = match node_at s x q1 with Some m => node_at s m q2 | None => None end.
Proof.
  induction q1 as [|i q1 IH]; intros q2 x; cbn [app node_at]; [reflexivity|].
  destruct (nth_error (kids s x) i); [apply IH | reflexivity].
Qed.

Lemma node_at_snoc s x q i y : node_at s x (q ++ [i]) = Some y ->
  exists p, node_at s x q = Some p /\ nth_error (kids s p) i = Some y.
Proof.
  rewrite node_at_app. destruct (node_at s x q) as [p|]; [|discriminate]. cbn [node_at].
  destruct (nth_error (kids s p) i) as [k|] eqn:E; [|discriminate]. intros H. inversion H; subst. eauto.
Qed.

Lemma node_at_child s x q i p y : node_at s x q = Some p -> nth_error (kids s p) i = Some y ->
  node_at s x (q ++ [i]) = Some y.
Proof. intros H1 H2. rewrite node_at_app, H1. cbn [node_at]. now rewrite H2. Qed.

Lemma snoc_neq (q : Rose.pos) i : q <> q ++ [i].
Proof. intros E. apply (f_equal (@length nat)) in E. rewrite app_length in E. cbn in E. lia. Qed.

Lemma prefix_length p q : HelperProofs.prefix p q -> length p <= length q.
Proof. intros [r ->]. rewrite app_length. lia. Qed.

(* the ancestors of the node at q are the nodes at the proper prefixes of q *)
Lemma node_at_ancestors s rt : ForestWF.WF s -> par s rt = None -> forall q y,
  node_at s rt q = Some y ->
  forall z, In z (ancestors s y) <-> exists q', HelperProofs.prefix q' q /\ q' <> q /\ node_at s rt q' = Some z.
Proof.
  intros W Hr q. induction q as [|i q IH] using rev_ind; intros y Hy z.
  - cbn in Hy. inversion Hy; subst y. rewrite (anc_none s rt Hr). split; [intros []|].
    intros (q' & [r Er] & Hn & _). symmetry in Er. apply app_eq_nil in Er. destruct Er as [-> _]. now apply Hn.
  - destruct (node_at_snoc s rt q i y Hy) as (p & Hp & Hi).
    assert (Hpar : par s y = Some p) by (apply (ForestWF.wf_link s W); eapply nth_error_In; eauto).
    rewrite (ForestWF.WF_ancestors_unfold s y p W Hpar). cbn [In]. rewrite (IH p Hp z). split.
    + intros [<-|(q' & P & N & E)].
      * exists q. split; [apply HelperProofs.prefix_app_l|]. split; [apply snoc_neq | exact Hp].
      * exists q'. split; [eapply HelperProofs.prefix_trans; [exact P | apply HelperProofs.prefix_app_l]|].
        split; [|exact E]. intros ->. apply prefix_length in P. rewrite app_length in P. cbn in P. lia.
    + intros (q' & P & N & E). apply HelperProofs.prefix_snoc in P. destruct P as [P|P]; [|contradiction].
      destruct (list_eq_dec Nat.eq_dec q' q) as [->|Nq].
      * left. congruence.
      * right. exists q'. auto.
Qed.

(* two routes to the same node are the same route *)
Lemma node_at_inj s rt : ForestWF.WF s -> par s rt = None -> forall q1 q2 y,
  node_at s rt q1 = Some y -> node_at s rt q2 = Some y -> q1 = q2.
Proof.
  intros W Hr q1. induction q1 as [|i q1 IH] using rev_ind; intros q2 y H1 H2.
  - cbn in H1. inversion H1; subst y. destruct q2 as [|j q2 _] using rev_ind; [reflexivity|].
    destruct (node_at_snoc s rt q2 j rt H2) as (p & _ & Hj).
    apply nth_error_In in Hj. apply (ForestWF.wf_link s W) in Hj. congruence.
  - destruct (node_at_snoc s rt q1 i y H1) as (p1 & Hp1 & Hi).
    assert (Hpar : par s y = Some p1) by (apply (ForestWF.wf_link s W); eapply nth_error_In; eauto).
    destruct q2 as [|j q2 _] using rev_ind.
    + cbn in H2. inversion H2; subst y. congruence.
    + destruct (node_at_snoc s rt q2 j y H2) as (p2 & Hp2 & Hj).
      assert (Hpar2 : par s y = Some p2) by (apply (ForestWF.wf_link s W); eapply nth_error_In; eauto).
      assert (p2 = p1) by congruence. subst p2.
      rewrite (IH q2 p1 Hp1 Hp2). f_equal. f_equal.
      pose proof (ForestWF.wf_nodup s W p1) as ND. rewrite NoDup_nth_error in ND. apply ND; [|congruence].
      apply nth_error_Some. congruence.
Qed.

(* the target positions address the target nodes, one by one *)
Definition addr (s : forest) (rt : id) (tp : list Rose.pos) (ts : list id) : Prop :=
  Forall2 (fun q t => node_at s rt q = Some t) tp ts.

Lemma Forall2_in_l {B C} (R : B -> C -> Prop) l1 l2 a : Forall2 R l1 l2 -> In a l1 -> exists b, In b l2 /\ R a b.
Proof.
  induction 1 as [|x y l1 l2 Hxy _ IH]; intros Hin; [destruct Hin|].
  destruct Hin as [<-|Hin]; [exists y; split; [now left | exact Hxy]|].
  destruct (IH Hin) as (b & Hb & Rb). exists b. split; [now right | exact Rb].
Qed.

Lemma Forall2_in_r {B C} (R : B -> C -> Prop) l1 l2 b : Forall2 R l1 l2 -> In b l2 -> exists a, In a l1 /\ R a b.
Proof.
  induction 1 as [|x y l1 l2 Hxy _ IH]; intros Hin; [destruct Hin|].
  destruct Hin as [<-|Hin]; [exists x; split; [now left | exact Hxy]|].
  destruct (IH Hin) as (a & Ha & Ra). exists a. split; [now right | exact Ra].
Qed.

Section Addressing.
  Variables (s : forest) (rt : id) (tp : list Rose.pos) (ts : list id).
  Hypothesis W : ForestWF.WF s.
  Hypothesis Hr : par s rt = None.
  Hypothesis Ad : addr s rt tp ts.

  Lemma addr_targets q y : node_at s rt q = Some y -> (In q tp <-> In y ts).
  Proof.
    intros Hq. split; intros Hin.
    - destruct (Forall2_in_l _ _ _ _ Ad Hin) as (t & Ht & E). cbn in E. congruence.
    - destruct (Forall2_in_r _ _ _ _ Ad Hin) as (q' & Hq' & E). cbn in E.
      now rewrite (node_at_inj s rt W Hr q q' y Hq E).
  Qed.

  Lemma addr_ancestors q y : node_at s rt q = Some y ->
    (In q (Helper.ancestors_to_prune tp) <-> In y (flat_map (ancestors s) ts)).
  Proof.
    intros Hq. rewrite HelperProofs.In_ancestors, in_flat_map. split.
    - intros (q2 & Hq2 & P & N). destruct (Forall2_in_l _ _ _ _ Ad Hq2) as (t & Ht & E). cbn in E.
      exists t. split; [exact Ht|]. apply (node_at_ancestors s rt W Hr q2 t E y). exists q. auto.
    - intros (t & Ht & Hy). destruct (Forall2_in_r _ _ _ _ Ad Ht) as (q2 & Hq2 & E). cbn in E.
      apply (node_at_ancestors s rt W Hr q2 t E y) in Hy. destruct Hy as (q' & P & N & E').
      rewrite (node_at_inj s rt W Hr q q' y Hq E'). exists q2. auto.
  Qed.

  Lemma addr_walk exact q y : node_at s rt q = Some y ->
    Helper.mem_pos q (HelperProofs.walk_set tp exact) = memb y (walk_ids s ts exact).
  Proof.
    intros Hq. apply Bool.eq_true_iff_eq.
    rewrite HelperProofs.mem_pos_In, ForestWF.memb_In, HelperProofs.In_walk.
    unfold walk_ids. rewrite in_app_iff, (addr_ancestors q y Hq), (addr_targets q y Hq).
    destruct exact; cbn [In]; intuition discriminate.
  Qed.

  Lemma addr_mem q y : node_at s rt q = Some y -> Helper.mem_pos q tp = memb y ts.
  Proof.
    intros Hq. apply Bool.eq_true_iff_eq.
    rewrite HelperProofs.mem_pos_In, ForestWF.memb_In. now apply addr_targets.
  Qed.

  (* the detach rule of Algo/Helper.v on positions = the rule on node ids *)
  Lemma alive_child exact pfx i x k :
    node_at s rt pfx = Some x -> node_at s rt (pfx ++ [i]) = Some k ->
    negb (Helper.detached tp exact (pfx ++ [i])) = keepk (walk_ids s ts exact) ts x k.
  Proof.
    intros Hx Hk.
    rewrite HelperProofs.detached_nonempty by (intros E; symmetry in E; now apply app_cons_not_nil in E).
    rewrite HelperProofs.removelast_snoc, (addr_walk exact pfx x Hx), (addr_walk exact _ k Hk), (addr_mem _ k Hk).
    unfold keepk. destruct (memb x (walk_ids s ts exact)), (memb k (walk_ids s ts exact)), (memb k ts); reflexivity.
  Qed.
End Addressing.

Lemma filter_tree_ext t : forall A B, (forall p, A p = B p) -> Helper.filter_tree A t = Helper.filter_tree B t.
Proof.
  induction t as [g n a ks IH] using Rose.tree_ind'. intros A B H. cbn [Helper.filter_tree]. f_equal. f_equal.
  apply HelperProofs.mapi_from_ext. intros j k Hk. rewrite (H [j]).
  destruct (B [j]); [|reflexivity]. f_equal. rewrite Forall_forall in IH. apply (IH k Hk). intros p. apply H.
Qed.

(* filter_tree on the positions of the copy = the tag-level pruning, below every node *)
Lemma filter_tree_is_ptags dec h rt tp ts exact :
  ForestWF.WF (fr h) -> par (fr h) rt = None -> addr (fr h) rt tp ts ->
  forall f x pfx, node_at (fr h) rt pfx = Some x ->
    Helper.filter_tree (fun p => negb (Helper.detached tp exact (pfx ++ p))) (Helper.copy_tree (etree_of dec h f x))
    = Helper.copy_tree (ptags (walk_ids (fr h) ts exact) ts (etree_of dec h f x)).
Proof.
  intros W Hr Ad. set (Wk := walk_ids (fr h) ts exact).
  induction f as [|f IH]; intros x pfx Hx; [reflexivity|].
  cbn [etree_of Helper.copy_tree Helper.filter_tree ptags]. f_equal.
  assert (Hkids : forall l i,
    (forall j k, nth_error l j = Some k -> node_at (fr h) rt (pfx ++ [i + j]) = Some k) ->
    Helper.opt_list
      (Helper.mapi_from
         (fun i0 k => if negb (Helper.detached tp exact (pfx ++ [i0]))
                      then Some (Helper.filter_tree (fun p => negb (Helper.detached tp exact (pfx ++ i0 :: p))) k)
                      else None) i (map Helper.copy_tree (map (etree_of dec h f) l)))
    = map Helper.copy_tree
        (filter (fun k => keepo Wk ts (Some x) (Rose.ttag k)) (map (ptags Wk ts) (map (etree_of dec h f) l)))).
  { induction l as [|k l IHl]; intros i Hl; [reflexivity|].
    cbn [map Helper.mapi_from filter].
    assert (Hk : node_at (fr h) rt (pfx ++ [i]) = Some k).
    { specialize (Hl 0 k eq_refl). now rewrite Nat.add_0_r in Hl. }
    rewrite (alive_child (fr h) rt tp ts W Hr Ad exact pfx i x k Hx Hk). fold Wk.
    rewrite ptags_tag, etree_tag. cbn [keepo].
    assert (Hl' : forall j k0, nth_error l j = Some k0 -> node_at (fr h) rt (pfx ++ [S i + j]) = Some k0).
    { intros j k0 Hj. specialize (Hl (S j) k0 Hj). now replace (S i + j) with (i + S j) by lia. }
    destruct (keepk Wk ts x k); cbn [Helper.opt_list map].
    - f_equal; [|apply IHl; exact Hl'].
      rewrite (filter_tree_ext _ _ (fun p => negb (Helper.detached tp exact ((pfx ++ [i]) ++ p))))
        by (intros p; now rewrite <- app_assoc).
      apply IH. exact Hk.
    - apply IHl. exact Hl'. }
  apply (Hkids (kids (fr h) x) 0). intros j k Hj. cbn [Nat.add]. eapply node_at_child; eauto.
Qed.

Lemma node_at_comp s r : ForestWF.WF s -> forall q x y, In x (comp s r) -> node_at s x q = Some y -> In y (comp s r).
Proof.
  intros W q; induction q as [|i q IH]; intros x y Hx H; cbn [node_at] in H.
  - inversion H; subst. exact Hx.
  - destruct (nth_error (kids s x) i) as [k|] eqn:E; [|discriminate].
    apply (IH k y); [|exact H]. eapply comp_kids_closed_WF; eauto. eapply nth_error_In; eauto.
Qed.

Lemma copy_tree_depth_cut md t : Helper.copy_tree (Helper.depth_cut md t) = Helper.depth_cut md (Helper.copy_tree t).
Proof. destruct md as [|k]; [reflexivity|]. rewrite !depth_cut_cut. apply copy_tree_cut. Qed.

(* (2') the two models side by side: when the target positions address the target nodes in the tree of the
   root rt and st addresses the start node, the heap skeleton returns (modulo object identities) the tree
   Algo/Helper.v computes by filter_tree on positions, followed by the depth cut *)
Theorem prune_paths_agrees dec cfg h start targets exact md rt st tp :
  ForestWF.WF (fr h) -> rt < size (fr h) -> par (fr h) rt = None ->
  node_at (fr h) rt st = Some start -> addr (fr h) rt tp targets ->
  let '(h', r') := sk_prune cfg h start targets exact md in
  Helper.copy_tree (esubtree dec h' r')
  = Helper.depth_cut md (Helper.prune_paths_at false tp exact st (Helper.copy_tree (esubtree dec h start))).
Proof.
  intros W Lr Hr Hst Ad.
  assert (Hrt : In rt (comp (fr h) rt)) by (now apply comp_self).
  assert (Hs : In start (comp (fr h) rt)) by (eapply node_at_comp; eauto).
  apply in_comp in Hs. destruct Hs as [Ls Es].
  assert (Ht : forall t, In t targets -> In t (comp (fr h) start)).
  { intros t Hin. destruct (Forall2_in_r _ _ _ _ Ad Hin) as (q & _ & E). cbn in E.
    assert (Hc : In t (comp (fr h) rt)) by (eapply node_at_comp; eauto).
    apply in_comp in Hc. destruct Hc as [Lt Et]. apply in_comp. split; [exact Lt | congruence]. }
  pose proof (prune_paths_refines dec cfg h start targets exact md W Ls Ht) as R.
  destruct (sk_prune cfg h start targets exact md) as [h' r']. rewrite R.
  rewrite copy_tree_relabel, copy_tree_depth_cut. f_equal.
  unfold Helper.prune_paths_at. symmetry. unfold esubtree.
  apply (filter_tree_is_ptags dec h rt tp targets exact W Hr Ad). exact Hst.
Qed.

(* ... and therefore exactly the tree Algo/Helper.v's prune_tree_at returns for prune paths that its own
   search resolves to these positions *)
Theorem prune_tree_agrees dec cfg h start targets exact md rt st tp tsep sep pp res :
  ForestWF.WF (fr h) -> rt < size (fr h) -> par (fr h) rt = None ->
  node_at (fr h) rt st = Some start -> addr (fr h) rt tp targets ->
  Helper.norm_paths pp <> [] ->
  Helper.locate_at false tsep sep (Helper.copy_tree (esubtree dec h rt)) st (Helper.norm_paths pp) = Ret tp ->
  Helper.prune_tree_at false tsep (esubtree dec h rt) st pp exact sep md = Ret res ->
  Helper.copy_tree (esubtree dec (fst (sk_prune cfg h start targets exact md))
                             (snd (sk_prune cfg h start targets exact md))) = res.
Proof.
  intros W Lr Hr Hst Ad Hne Hloc Hres.
  pose proof (prune_paths_agrees dec cfg h start targets exact md rt st tp W Lr Hr Hst Ad) as R.
  destruct (sk_prune cfg h start targets exact md) as [h' r']. cbn [fst snd]. rewrite R.
  unfold Helper.prune_tree_at in Hres.
  destruct (Helper.norm_paths pp) as [|p0 ps] eqn:En; [now contradiction Hne|].
  cbn [Helper.is_nil andb] in Hres.
  destruct (Helper.is_nil tsep || Helper.is_nil sep); [discriminate|].
  rewrite HelperProofs.subtree_at_copy, (subtree_at_esubtree dec h W), Hst in Hres. cbn [option_map] in Hres.
  rewrite Hloc in Hres. rewrite HelperProofs.depth_cut_x_false in Hres. now inversion Hres.
Qed.

(* ========================================================================================== *)
(* 3. the other exporters that start with tree.copy(): tree_to_dataframe / tree_to_polars /
      tree_to_nested_dict never look at identities either *)
From BT Require Algo.Export.

Lemma attr_items_relabel o g t : Export.attr_items o (relabel g t) = Export.attr_items o t.
Proof.
  unfold Export.attr_items, Export.describe, Export.get_attr. now rewrite tname_relabel, tattrs_relabel.
Qed.

Lemma frame_child_relabel o sep a g t : Export.frame_child o sep a (relabel g t) = Export.frame_child o sep a t.
Proof. unfold Export.frame_child. now rewrite tname_relabel, attr_items_relabel. Qed.

Lemma tree_to_dataframe_relabel g t sep p o :
  Export.tree_to_dataframe (relabel g t) sep p o = Export.tree_to_dataframe t sep p o.
Proof.
  unfold Export.tree_to_dataframe. rewrite locate_relabel.
  destruct (Export.locate [] t p) as [[anc t']|]; cbn [option_map fst snd]; [|reflexivity].
  f_equal. f_equal. apply walk_relabel. intros a u. apply frame_child_relabel.
Qed.

Lemma nested_go_relabel o g : forall t d, Export.nested_go o d (relabel g t) = Export.nested_go o d t.
Proof.
  induction t as [tg n a ks IH] using Rose.tree_ind'. intros d.
  change (relabel g (Rose.T tg n a ks)) with (Rose.T (option_map g tg) n a (map (relabel g) ks)).
  cbn [Export.nested_go].
  destruct (Nat.eqb (Export.o_max_depth o) 0 || Nat.leb d (Export.o_max_depth o)); [|reflexivity].
  assert (E : flat_map (Export.nested_go o (S d)) (map (relabel g) ks) = flat_map (Export.nested_go o (S d)) ks).
  { rewrite flat_map_concat_map, map_map, <- flat_map_concat_map.
    apply flat_map_ext_in. intros c Hc. rewrite Forall_forall in IH. now apply IH. }
  rewrite E. reflexivity.
Qed.

Lemma tree_to_nested_dict_relabel g t p o :
  Export.tree_to_nested_dict (relabel g t) p o = Export.tree_to_nested_dict t p o.
Proof.
  unfold Export.tree_to_nested_dict. rewrite locate_relabel.
  destruct (Export.locate [] t p) as [[anc t']|]; cbn [option_map fst snd]; [|reflexivity].
  now rewrite nested_go_relabel.
Qed.

Theorem export_all_refines dec h start x :
  ForestWF.WF (fr h) -> In x (comp (fr h) start) ->
  let h' := sk_export h start in
  let c := esubtree dec h' (phi (fr h) start x) in
  let t := esubtree dec h x in
  unchanged_below (size (fr h)) h h'
  /\ (forall sep p o, Export.tree_to_dict c sep p o = Export.tree_to_dict t sep p o)
  /\ (forall sep p o, Export.tree_to_dataframe c sep p o = Export.tree_to_dataframe t sep p o)
  /\ (forall sep p o, Export.tree_to_polars c sep p o = Export.tree_to_polars t sep p o)
  /\ (forall p o, Export.tree_to_nested_dict c p o = Export.tree_to_nested_dict t p o).
Proof.
  intros W Hx. cbn zeta. split; [apply sk_export_spec|]. unfold sk_export.
  rewrite (copy_refines dec h start x W Hx).
  split; [intros; apply tree_to_dict_relabel|]. split; [intros; apply tree_to_dataframe_relabel|].
  split; [intros; apply tree_to_dataframe_relabel | intros; apply tree_to_nested_dict_relabel].
Qed.

(* ========================================================================================== *)
(* 4. clone_tree: the recursively allocated clone abstracts to the same rose tree *)

Lemma WF_alloc s nm sp : ForestWF.WF s -> ForestWF.WF (alloc_f s nm sp).
Proof.
  intros W. pose proof W as [Hl Hn Hb [rk Hr]]. unfold alloc_f. constructor; cbn [kids par size].
  - intros p c. destruct (Nat.eq_dec p (size s)) as [->|Np].
    + rewrite upd_eq. split; [intros []|]. intros Hp. exfalso.
      destruct (Nat.eq_dec c (size s)) as [->|Nc]; [rewrite upd_eq in Hp; discriminate|].
      rewrite upd_neq in Hp by exact Nc. apply Hb in Hp. lia.
    + rewrite (upd_neq (kids s)) by exact Np. destruct (Nat.eq_dec c (size s)) as [->|Nc].
      * rewrite upd_eq. split; [|discriminate]. intros Hin. apply Hl in Hin. apply Hb in Hin. lia.
      * rewrite upd_neq by exact Nc. apply Hl.
  - intros p. destruct (Nat.eq_dec p (size s)) as [->|Np]; [rewrite upd_eq; constructor|].
    rewrite upd_neq by exact Np. apply Hn.
  - intros c p Hp. destruct (Nat.eq_dec c (size s)) as [->|Nc]; [rewrite upd_eq in Hp; discriminate|].
    rewrite upd_neq in Hp by exact Nc. apply Hb in Hp. lia.
  - exists rk. intros c p Hp. cbn [par] in Hp. destruct (Nat.eq_dec c (size s)) as [->|Nc]; [rewrite upd_eq in Hp; discriminate|].
    rewrite upd_neq in Hp by exact Nc. now apply Hr.
Qed.

Lemma anc_is_parent s : forall f c x, In x (anc s f c) -> exists y, par s y = Some x.
Proof.
  induction f as [|f IH]; intros c x H; cbn [anc] in H; [destruct H|].
  destruct (par s c) as [p|] eqn:E; [|destruct H]. destruct H as [<-|H]; [eauto | eapply IH; eauto].
Qed.

(* attaching a fresh leaf below p appends it to p's children and changes nothing else *)
Lemma attach_fresh_leaf cfg s (c p : id) :
  ForestWF.WF s -> c < size s -> par s c = None -> kids s c = [] -> p < size s -> p <> c ->
  (is_node cfg = true -> dup_name_under s c p = false) ->
  let s' := fst (set_parent cfg NoFault s c (ANode p)) in
  ForestWF.WF s' /\ size s' = size s
  /\ (forall q, kids s' q = if Nat.eqb q p then kids s p ++ [c] else kids s q)
  /\ (forall q, name s' q = name s q).
Proof.
  intros W Lc Pc Kc Lp Npc Hd. cbn zeta.
  assert (HL : parent_loop s c (Some p) = false).
  { unfold parent_loop. apply orb_false_iff. split; [now apply Nat.eqb_neq|].
    apply ForestWF.memb_false. intros Hin. unfold ancestors in Hin.
    destruct (anc_is_parent s _ _ _ Hin) as (y & Hy). apply (ForestWF.wf_link s W) in Hy. rewrite Kc in Hy. destruct Hy. }
  assert (E : set_parent cfg NoFault s c (ANode p) = (attach s c (Some p), Ok)).
  { unfold set_parent. cbv beta iota zeta. rewrite HL. cbn [fault_eqb].
    destruct (is_node cfg) eqn:En; cbn [andb]; [rewrite (Hd eq_refl)|]; reflexivity. }
  rewrite E. cbn [fst].
  split.
  { apply ForestWF.attach_WF; [exact W | exact Lc|]. intros p0 [= <-].
    destruct (ForestOps.parent_loop_false s c (Some p) HL p eq_refl) as [H1 H2]. auto. }
  split; [apply ForestWF.attach_size|]. split; [|intros q; apply ForestWF.attach_name].
  intros q. rewrite (ForestWF.attach_kids s c (Some p) q W).
  assert (Hn : ~ In c (kids s q)).
  { intros Hin. apply (ForestWF.wf_link s W) in Hin. congruence. }
  rewrite (ForestWF.remove1_notin c _ Hn). unfold ForestWF.is_parent. rewrite (Nat.eqb_sym p q).
  destruct (Nat.eqb_spec q p) as [->|]; [reflexivity | apply app_nil_r].
Qed.

Lemma tags_kclosed (P : id -> Prop) s : (forall x k, P x -> In k (kids s x) -> P k) ->
  forall f x y, P x -> In (Some y) (Abs.tags (Abs.tree_of s f x)) -> P y.
Proof.
  intros C f; induction f as [|f IH]; intros x y Px H.
  - apply tags_tree_of_0 in H. now subst.
  - apply tags_tree_of_S in H. destruct H as [->|(k & Hk & H)]; [exact Px|]. eapply IH; [|exact H]. eauto.
Qed.

(* a subtree allocated above `lo` is not affected by later allocations and by writes to older nodes *)
Lemma esubtree_frame_high dec hA hB lo k :
  ForestWF.WF (fr hA) -> size (fr hA) <= size (fr hB) -> lo <= k -> k < size (fr hA) ->
  (forall y c, lo <= y -> In c (kids (fr hA) y) -> lo <= c) ->
  (forall y, lo <= y -> y < size (fr hA) ->
     kids (fr hB) y = kids (fr hA) y /\ name (fr hB) y = name (fr hA) y /\ att hB y = att hA y) ->
  esubtree dec hB k = esubtree dec hA k.
Proof.
  intros W Sz Lk Hk Hc Hs. unfold esubtree at 1.
  rewrite <- (etree_any_fuel dec hA k (size (fr hB)) W Sz).
  apply etree_ext. intros y Hy.
  assert (P : lo <= y /\ y < size (fr hA)).
  { apply (tags_kclosed (fun y => lo <= y /\ y < size (fr hA)) (fr hA)) with (f := S (size (fr hB))) (x := k); [|auto|exact Hy].
    intros x c [L1 L2] Hin. split; [eapply Hc; eauto|].
    apply (ForestWF.wf_link _ W) in Hin. apply (ForestWF.wf_bound _ W) in Hin. lia. }
  apply Hs; apply P.
Qed.

Definition clone_step (cfg : config) (f : nat) (newp : id) (st : eheap) (ch : id) : eheap :=
  let '(st1, c') := alloc st (name (fr st) ch) [47%N] (att st ch) in
  let st2 := with_fr st1 (fst (set_parent cfg NoFault (fr st1) c' (ANode newp))) in
  clone_rec cfg f st2 c' ch.

Lemma clone_rec_S cfg f h newp oldp :
  clone_rec cfg (S f) h newp oldp = fold_left (clone_step cfg f newp) (kids (fr h) oldp) h.
Proof. reflexivity. Qed.

Lemma tname_copy_esubtree dec h x : Rose.tname (Helper.copy_tree (esubtree dec h x)) = name (fr h) x.
Proof. reflexivity. Qed.

Section Clone.
  Variables (cfg : config) (dec : list (nat * nat) -> Rose.attrs) (h0 : eheap).
  Hypothesis W0 : ForestWF.WF (fr h0).
  (* Node trees never hold two siblings of the same name (the duplicate-name hook of node.py); for BaseNode
     there is no such check and no such guard *)
  Hypothesis Hnames : is_node cfg = true -> forall p, NoDup (map (name (fr h0)) (kids (fr h0) p)).
  Let n0 := size (fr h0).

  Definition Ext (st : eheap) : Prop :=
    ForestWF.WF (fr st) /\ n0 <= size (fr st)
    /\ forall x, x < n0 -> kids (fr st) x = kids (fr h0) x /\ name (fr st) x = name (fr h0) x /\ att st x = att h0 x.

  Definition Post (st st' : eheap) (newp : id) (olds : list id) : Prop :=
    Ext st' /\ size (fr st) <= size (fr st')
    /\ (forall y, y < size (fr st) ->
          (y <> newp -> kids (fr st') y = kids (fr st) y) /\ name (fr st') y = name (fr st) y /\ att st' y = att st y)
    /\ (forall k, In k (kids (fr st') newp) -> size (fr st) <= k)
    /\ (forall y k, size (fr st) <= y -> In k (kids (fr st') y) -> size (fr st) <= k)
    /\ map Helper.copy_tree (map (esubtree dec st') (kids (fr st') newp))
       = map Helper.copy_tree (map (esubtree dec h0) olds).

  Definition CR (f : nat) : Prop := forall st newp oldp,
    Ext st -> n0 <= newp -> newp < size (fr st) -> kids (fr st) newp = [] -> oldp < n0 ->
    n0 < depth (fr h0) oldp + f ->
    Post st (clone_rec cfg f st newp oldp) newp (kids (fr h0) oldp).

  Lemma Post_start st newp : Ext st -> kids (fr st) newp = [] -> Post st st newp [].
  Proof.
    intros E K. split; [exact E|]. split; [lia|]. split; [intros y _; auto|].
    split; [rewrite K; intros k []|]. split; [|rewrite K; reflexivity].
    intros y k Ly Hk. destruct E as (W & _). rewrite (Abs.kids_nil_outside _ y W Ly) in Hk. destruct Hk.
  Qed.

  (* one child: allocate its clone, attach it, clone below it *)
  Lemma clone_step_post f st stc newp done ch :
    CR f -> Post st stc newp done -> n0 <= newp -> newp < size (fr st) -> ch < n0 ->
    n0 < depth (fr h0) ch + f ->
    (is_node cfg = true -> ~ In (name (fr h0) ch) (map (name (fr h0)) done)) ->
    Post st (clone_step cfg f newp stc ch) newp (done ++ [ch]).
  Proof.
    intros HCR (Ec & Sz & Fr & Kn & Hc & Tr) Ln Lnp Lch Hd Hnm.
    destruct Ec as (Wc & Lc & Lowc).
    set (c' := size (fr stc)).
    set (st1 := fst (alloc stc (name (fr stc) ch) [47%N] (att stc ch))).
    assert (Efr1 : fr st1 = alloc_f (fr stc) (name (fr stc) ch) [47%N]) by reflexivity.
    assert (W1 : ForestWF.WF (fr st1)) by (rewrite Efr1; now apply WF_alloc).
    assert (S1 : size (fr st1) = S c') by reflexivity.
    assert (K1 : forall q, kids (fr st1) q = if Nat.eqb q c' then [] else kids (fr stc) q).
    { intros q. rewrite Efr1. unfold alloc_f; cbn [kids]. unfold upd. reflexivity. }
    assert (N1 : forall q, name (fr st1) q = if Nat.eqb q c' then name (fr stc) ch else name (fr stc) q).
    { intros q. rewrite Efr1. unfold alloc_f; cbn [name]. unfold upd. reflexivity. }
    assert (A1 : forall q, att st1 q = if Nat.eqb q c' then att stc ch else att stc q).
    { intros q. unfold st1, alloc; cbn [fst att]. unfold upd. reflexivity. }
    assert (P1 : par (fr st1) c' = None).
    { rewrite Efr1. unfold alloc_f; cbn [par]. apply upd_eq. }
    assert (Lnpc : newp < c') by (unfold c'; lia).
    assert (Knp1 : kids (fr st1) newp = kids (fr stc) newp).
    { rewrite K1. destruct (Nat.eqb_spec newp c'); [lia | reflexivity]. }
    (* the names of the clones made so far are the names of the children done so far *)
    assert (Names : map (name (fr stc)) (kids (fr stc) newp) = map (name (fr h0)) done).
    { apply (f_equal (map Rose.tname)) in Tr. rewrite !map_map in Tr. exact Tr. }
    assert (Nch : name (fr stc) ch = name (fr h0) ch) by (apply Lowc; exact Lch).
    assert (Dup : is_node cfg = true -> dup_name_under (fr st1) c' newp = false).
    { intros In_. unfold dup_name_under. rewrite Knp1.
      destruct (existsb _ _) eqn:Ex; [|reflexivity]. exfalso.
      apply existsb_exists in Ex. destruct Ex as (k & Hk & Hb). apply andb_true_iff in Hb. destruct Hb as [Hb _].
      apply str_eqb_eq in Hb. rewrite !N1, Nat.eqb_refl in Hb.
      assert (Nk : Nat.eqb k c' = false).
      { apply Nat.eqb_neq. apply (ForestWF.wf_link _ Wc) in Hk. apply (ForestWF.wf_bound _ Wc) in Hk. unfold c'. lia. }
      rewrite Nk, Nch in Hb. apply (Hnm In_). rewrite <- Names, <- Hb. now apply in_map. }
    assert (Kc1 : kids (fr st1) c' = []) by (rewrite K1, Nat.eqb_refl; reflexivity).
    destruct (attach_fresh_leaf cfg (fr st1) c' newp W1 ltac:(lia) P1 Kc1 ltac:(lia) ltac:(lia) Dup)
      as (W2 & S2 & K2 & N2).
    set (st2 := with_fr st1 (fst (set_parent cfg NoFault (fr st1) c' (ANode newp)))) in *.
    change (fst (set_parent cfg NoFault (fr st1) c' (ANode newp))) with (fr st2) in W2, S2, K2, N2.
    assert (Est : clone_step cfg f newp stc ch = clone_rec cfg f st2 c' ch) by reflexivity.
    rewrite Est.
    assert (A2 : forall q, att st2 q = att st1 q) by reflexivity.
    assert (E2 : Ext st2).
    { split; [exact W2|]. split; [rewrite S2, S1; lia|]. intros x Lx.
      assert (Nx : Nat.eqb x c' = false) by (apply Nat.eqb_neq; unfold c'; lia).
      assert (Nxp : Nat.eqb x newp = false) by (apply Nat.eqb_neq; lia).
      rewrite K2, Nxp, K1, N2, N1, A2, A1, Nx. now apply Lowc. }
    assert (Kc2 : kids (fr st2) c' = []).
    { rewrite K2. destruct (Nat.eqb_spec c' newp); [lia|]. exact Kc1. }
    assert (Dch : n0 < depth (fr h0) ch + f) by exact Hd.
    pose proof (HCR st2 c' ch E2 ltac:(unfold c'; lia) ltac:(rewrite S2, S1; lia) Kc2 Lch Dch)
      as (E' & Sz' & Fr' & Kn' & Hc' & Tr').
    set (st' := clone_rec cfg f st2 c' ch) in *.
    assert (Sz2 : size (fr st2) = S c') by (rewrite S2; exact S1).
    assert (Knp' : kids (fr st') newp = kids (fr stc) newp ++ [c']).
    { destruct (Fr' newp ltac:(lia)) as (a & _). rewrite a by lia.
      rewrite K2, Nat.eqb_refl, Knp1. reflexivity. }
    split; [exact E'|]. split; [lia|]. split; [|split; [|split]].
    - (* frame relative to st *)
      intros y Ly. assert (Ly2 : y < size (fr st2)) by lia.
      assert (Nyc : Nat.eqb y c' = false) by (apply Nat.eqb_neq; unfold c'; lia).
      destruct (Fr' y Ly2) as (a & b & c). destruct (Fr y Ly) as (a0 & b0 & c0).
      split; [|split].
      + intros Ny. rewrite a by (unfold c'; lia). rewrite K2.
        destruct (Nat.eqb_spec y newp); [contradiction|]. rewrite K1, Nyc. now apply a0.
      + now rewrite b, N2, N1, Nyc.
      + now rewrite c, A2, A1, Nyc.
    - intros k Hk. rewrite Knp' in Hk. apply in_app_or in Hk. destruct Hk as [Hk|[<-|[]]]; [now apply Kn | unfold c'; lia].
    - intros y k Ly Hk. destruct (Nat.lt_ge_cases y (size (fr st2))) as [Ly2|Gy2].
      + destruct (Nat.eq_dec y c') as [->|Nyc].
        * apply Kn' in Hk. lia.
        * destruct (Fr' y Ly2) as (a & _). rewrite a in Hk by exact Nyc.
          rewrite K2 in Hk. destruct (Nat.eqb_spec y newp); [lia|].
          rewrite K1 in Hk. destruct (Nat.eqb_spec y c'); [contradiction|]. eapply Hc; eauto.
      + specialize (Hc' y k Gy2 Hk). lia.
    - (* the trees *)
      rewrite Knp', !map_app. f_equal.
      + (* the earlier clones are untouched *) rewrite <- Tr. clear Tr'.
        destruct E' as (W' & _).
        rewrite !map_map. apply map_ext_in. intros k Hk. f_equal.
        apply (esubtree_frame_high dec stc st' (size (fr st)) k Wc ltac:(lia) (Kn k Hk)).
        * apply (ForestWF.wf_link _ Wc) in Hk. apply (ForestWF.wf_bound _ Wc) in Hk. lia.
        * intros y c Ly Hin. eapply Hc; eauto.
        * intros y Ly Lyc. assert (Ly2 : y < size (fr st2)) by lia.
          assert (Nyc : Nat.eqb y c' = false) by (apply Nat.eqb_neq; unfold c'; lia).
          destruct (Fr' y Ly2) as (a & b & c). rewrite a by (unfold c'; lia).
          rewrite K2. destruct (Nat.eqb_spec y newp); [lia|].
          now rewrite K1, b, N2, N1, c, A2, A1, Nyc.
      + (* the new clone *)
        cbn [map]. f_equal. destruct E' as (W' & _).
        rewrite (esubtree_unfold dec st' c' W'), (esubtree_unfold dec h0 ch W0). cbn [Helper.copy_tree].
        destruct (Fr' c' ltac:(lia)) as (_ & b & c).
        rewrite b, c, N2, N1, A2, A1, Nat.eqb_refl, Tr'.
        destruct (Lowc ch Lch) as (_ & e2 & e3). now rewrite e2, e3.
  Qed.

  Lemma clone_fold_post f st newp oldp : CR f -> n0 <= newp -> newp < size (fr st) -> oldp < n0 ->
    n0 < depth (fr h0) oldp + S f ->
    forall l done stc, kids (fr h0) oldp = done ++ l -> Post st stc newp done ->
      Post st (fold_left (clone_step cfg f newp) l stc) newp (done ++ l).
  Proof.
    intros HCR Ln Lnp Lo Hd l. induction l as [|ch l IH]; intros done stc Ek P; cbn [fold_left].
    - now rewrite app_nil_r.
    - assert (Hin : In ch (kids (fr h0) oldp)) by (rewrite Ek; apply in_or_app; right; now left).
      assert (Hpar : par (fr h0) ch = Some oldp) by (now apply (ForestWF.wf_link _ W0)).
      assert (Lch : ch < n0) by (apply (ForestWF.wf_bound _ W0) in Hpar; unfold n0; lia).
      assert (Dch : n0 < depth (fr h0) ch + f) by (rewrite (Abs.depth_child _ ch oldp W0 Hpar); lia).
      assert (Hnm : is_node cfg = true -> ~ In (name (fr h0) ch) (map (name (fr h0)) done)).
      { intros In_. specialize (Hnames In_ oldp). rewrite Ek, map_app in Hnames. cbn [map] in Hnames.
        apply NoDup_remove_2 in Hnames. intros Hc. apply Hnames. apply in_or_app. now left. }
      pose proof (clone_step_post f st stc newp done ch HCR P Ln Lnp Lch Dch Hnm) as P1.
      replace (done ++ ch :: l) with ((done ++ [ch]) ++ l) by (rewrite <- app_assoc; reflexivity).
      apply IH; [rewrite <- app_assoc; exact Ek | exact P1].
  Qed.

  Lemma clone_rec_spec : forall f, CR f.
  Proof.
    induction f as [|f IH]; intros st newp oldp E Ln Lnp K Lo Hd.
    - exfalso. pose proof (Abs.depth_le_size (fr h0) oldp W0 Lo). unfold n0 in *. lia.
    - rewrite clone_rec_S. destruct E as (Wst & Lst & Low). destruct (Low oldp Lo) as (Ek & _). rewrite Ek.
      apply (clone_fold_post f st newp oldp IH Ln Lnp Lo Hd (kids (fr h0) oldp) [] st eq_refl).
      apply Post_start; [split; [exact Wst | split; [exact Lst | exact Low]] | exact K].
  Qed.
End Clone.

Lemma root_in_range s x : ForestWF.WF s -> x < size s -> root s x < size s.
Proof.
  intros W L. apply lt_r_true. unfold root. apply root_of_closed; [now apply WF_closed_lt | now apply lt_r_true].
Qed.

(* clone_tree: the clone of the tree's root abstracts, modulo object identities, to the rose tree of the
   whole input tree (names, public attributes, shape, order) *)
Theorem clone_refines dec cfg h start :
  ForestWF.WF (fr h) -> start < size (fr h) ->
  (is_node cfg = true -> forall p, NoDup (map (name (fr h)) (kids (fr h) p))) ->
  let '(h', r') := sk_clone cfg h start in
  Helper.copy_tree (esubtree dec h' r') = Helper.copy_tree (esubtree dec h (root (fr h) start)).
Proof.
  intros W L Hn. unfold sk_clone.
  set (r := root (fr h) start). assert (Lr : r < size (fr h)) by (now apply root_in_range).
  set (h1 := fst (alloc h (name (fr h) r) [47%N] (att h r))).
  change (let '(h1, r') := alloc h (name (fr h) r) [47%N] (att h r) in (clone_rec cfg (size (fr h)) h1 r' r, r'))
    with (clone_rec cfg (size (fr h)) h1 (size (fr h)) r, size (fr h)).
  set (n0 := size (fr h)).
  assert (E1 : Ext h h1).
  { split; [apply WF_alloc; exact W|]. split; [cbn; lia|]. intros x Lx.
    assert (Nx : x <> size (fr h)) by (fold n0; lia).
    unfold h1, alloc, alloc_f; cbn [fst fr kids name att]. now rewrite !upd_neq by exact Nx. }
  assert (K1 : kids (fr h1) n0 = []) by (unfold h1, alloc, alloc_f; cbn [fst fr kids]; apply upd_eq).
  assert (Dr : n0 < depth (fr h) r + n0) by (unfold depth; lia).
  destruct (clone_rec_spec cfg dec h W Hn n0 h1 n0 r E1 (le_n _) ltac:(cbn; lia) K1 Lr Dr)
    as ((W' & _) & _ & Fr & _ & _ & Tr).
  set (h' := clone_rec cfg n0 h1 n0 r) in *.
  rewrite (esubtree_unfold dec h' n0 W'), (esubtree_unfold dec h r W). cbn [Helper.copy_tree].
  destruct (Fr n0 ltac:(cbn; lia)) as (_ & b & c). rewrite b, c, Tr.
  unfold h1, alloc, alloc_f; cbn [fst fr name att]. now rewrite !upd_eq.
Qed.

(* ========================================================================================== *)
(* 5. DAGNode: the same statements on the pure graph `dabs s` of Heap/DagAbs.v, on which the DAG queries and
      exports of C16 / C17 are stated (they are functions of `dabs s` alone) *)
From BT Require Heap.Dag Heap.DagAbs Algo.DagAlgo.

(* DAGNode.copy(): the node table of the copy holds, at the fresh ids, the nodes of the connected part with
   their names and their parents / children lists renamed, in order; the old entries are untouched *)
Theorem dag_copy_refines s r :
  let s' := ddeep_copy s r in
  (forall x, In x (dcomp s r) ->
     DagAlgo.node (DagAbs.dabs s') (dphi s r x)
     = DagAlgo.DN (Dag.dname s x) [] (map (dphi s r) (Dag.parents s x)) (map (dphi s r) (Dag.children s x)))
  /\ (forall x, x < Dag.dsize s -> DagAlgo.node (DagAbs.dabs s') x = DagAlgo.node (DagAbs.dabs s) x).
Proof.
  cbn zeta. destruct (dag_copy_fresh_equal s r) as (Hr & _ & Hi & _ & Hb). cbn zeta in Hr, Hi, Hb. split.
  - intros x Hx. destruct (Hr x Hx) as [_ L]. destruct (Hi x Hx) as (a & b & c).
    rewrite (DagAbs.dabs_node _ _ L), a, b, c. reflexivity.
  - intros x L. destruct (Hb x L) as (a & b & c).
    assert (L' : x < Dag.dsize (ddeep_copy s r)) by (cbn; lia).
    rewrite (DagAbs.dabs_node _ _ L'), (DagAbs.dabs_node _ _ L), a, b, c. reflexivity.
Qed.

(* graph-level form of C07_dag_independence: an operation inside one link-closed region leaves the node
   table entries of a disjoint region as they were *)
Theorem dag_graph_independence (A B : region) cfg s o x :
  (forall y, A y = true -> B y = false) -> dclosed A s -> dop_in A o = true ->
  B x = true -> x < Dag.dsize s ->
  DagAlgo.node (DagAbs.dabs (fst (Dag.dstep cfg s o))) x = DagAlgo.node (DagAbs.dabs s) x.
Proof.
  intros D C Ho Bx L. destruct (dag_independence A B cfg s o D C Ho) as [S _].
  destruct (S x Bx) as (a & b & c).
  assert (L' : x < Dag.dsize (fst (Dag.dstep cfg s o))) by (pose proof (DagAbs.dstep_size_ge cfg s o); lia).
  rewrite (DagAbs.dabs_node _ _ L'), (DagAbs.dabs_node _ _ L), a, b, c. reflexivity.
Qed.

(* ========================================================================================== *)
(* 6. corollaries *)

(* node.copy() and later changes on either side: the original's rose trees do not see a history on the copy,
   and the copy keeps abstracting to the original's tree AS IT WAS AT THE CALL whatever is done to the original *)
Theorem copy_two_sided dec cfg h r x :
  ForestWF.WF (fr h) -> In x (comp (fr h) r) ->
  let h1 := deep_copy h r in
  (forall ops, forallb (op_in (ge (size (fr h)))) ops = true ->
     esubtree dec (with_fr h1 (run cfg (fr h1) ops)) x = esubtree dec h x)
  /\ (forall ops, forallb (op_in (lt_r (size (fr h)))) ops = true ->
        esubtree dec (with_fr h1 (run cfg (fr h1) ops)) (phi (fr h) r x)
        = relabel (phi (fr h) r) (esubtree dec h x)).
Proof.
  intros W Hx. cbn zeta. pose proof (copy_result_of h r) as R. cbn [sk_copy fst] in R. split.
  - intros ops Ho. apply (result_mutation_invisible dec cfg h _ ops x W R Ho). now apply in_comp in Hx.
  - intros ops Ho. rewrite (input_mutation_invisible dec cfg h _ ops _ W R Ho (phi_ge _ _ _)).
    now apply copy_refines.
Qed.

Lemma ptags_nil : forall t, ptags [] [] t = t.
Proof.
  induction t as [g n a ks IH] using Rose.tree_ind'. cbn [ptags]. f_equal.
  rewrite HelperProofs.filter_all.
  - rewrite <- (map_id ks) at 2. apply map_ext_in. intros k Hk. rewrite Forall_forall in IH. now apply IH.
  - intros k _. destruct g as [y|]; [|reflexivity]. destruct (Rose.ttag k); reflexivity.
Qed.

(* prune_tree by depth only / no argument at all: equality including the fresh tags (C07_prune_refines_depth
   states it modulo tags and for a positive depth) *)
Theorem prune_depth_refines_tags dec cfg h start exact md :
  ForestWF.WF (fr h) -> start < size (fr h) ->
  let '(h', r') := sk_prune cfg h start [] exact md in
  esubtree dec h' r' = relabel (phi (fr h) start) (Helper.depth_cut md (esubtree dec h start)).
Proof.
  intros W L. pose proof (prune_paths_refines dec cfg h start [] exact md W L ltac:(intros t [])) as R.
  destruct (sk_prune cfg h start [] exact md) as [h' r']. rewrite R.
  assert (E : walk_ids (fr h) [] exact = []) by (unfold walk_ids; destruct exact; reflexivity).
  now rewrite E, ptags_nil.
Qed.

(* ========================================================================================== *)
(* 7. copy_nodes (plain case) as rose-tree surgery: the rose tree below every old node is the old one with a
      fresh copy of the from-subtree grafted as the LAST child of the destination node - nothing is cut out of
      the source (shift_nodes is cut + graft: C08_move_is_tag_surgery) *)

Lemma esubtree_nil_is_subtree h x : esubtree (fun _ => []) h x = Abs.subtree (fr h) x.
Proof. unfold esubtree, Abs.subtree. apply etree_nil. Qed.

Lemma copy_keeps_low_subtrees h r x : ForestWF.WF (fr h) -> x < size (fr h) ->
  Abs.subtree (deep_copy_f (fr h) r) x = Abs.subtree (fr h) x.
Proof.
  intros W L. pose proof (copy_result_of h r) as R. cbn [sk_copy fst] in R.
  pose proof (result_mutation_invisible (fun _ => []) {| assertions := true; is_node := true |} h _ [] x W R eq_refl L) as E.
  rewrite !esubtree_nil_is_subtree in E. exact E.
Qed.

Theorem copy_attach_is_graft cfg h from_ to_ :
  ForestWF.WF (fr h) -> from_ < size (fr h) -> to_ < size (fr h) ->
  let s := fr h in
  let g := phi s from_ in
  let h' := fst (sk_copy_attach cfg h from_ to_) in
  let c := snd (sk_copy_attach cfg h from_ to_) in
  c = g from_
  /\ ((forall r, r < size s -> Abs.subtree (fr h') r = Abs.subtree s r)
      \/ ((forall r, r < size s ->
             Abs.subtree (fr h') r = AbsSurgery.graft to_ (relabel g (Abs.subtree s from_)) (Abs.subtree s r))
          /\ Abs.subtree (fr h') c = relabel g (Abs.subtree s from_))).
Proof.
  intros W Lf Lt. cbn zeta. split; [reflexivity|].
  unfold sk_copy_attach, sk_copy_nodes, sk_copy_then, copy_ops, attach_to. cbn [fst snd with_fr fr app].
  set (s1 := deep_copy_f (fr h) from_). set (c := phi (fr h) from_ from_).
  change (fr (deep_copy h from_)) with s1.
  assert (W1 : ForestWF.WF s1) by (apply copy_WF; exact W).
  assert (Hfc : In from_ (comp (fr h) from_)) by (now apply comp_self).
  assert (Lc : c < size s1) by (now apply phi_lt).
  assert (Lt1 : to_ < size s1) by (unfold s1; rewrite dc_size; lia).
  assert (Ec : Abs.subtree s1 c = relabel (phi (fr h) from_) (Abs.subtree (fr h) from_)).
  { pose proof (copy_refines (fun _ => []) h from_ from_ W Hfc) as E.
    rewrite !esubtree_nil_is_subtree in E. exact E. }
  assert (Low : forall r, r < size (fr h) -> Abs.subtree s1 r = Abs.subtree (fr h) r)
    by (intros r Lr; now apply copy_keeps_low_subtrees).
  unfold run; cbn [fold_left]. unfold step. cbn [op_in_range arg_in_range]. unfold in_range.
  apply Nat.ltb_lt in Lc, Lt1. rewrite Lc, Lt1. cbn [andb negb]. apply Nat.ltb_lt in Lc, Lt1.
  destruct (set_parent cfg NoFault s1 c (ANode to_)) as [s' o] eqn:E. cbn [fst].
  destruct o as [|e].
  - right.
    destruct (AbsSurgery.set_parent_is_surgery cfg NoFault s1 c (ANode to_) s' W1 Lc) as (H1 & H2 & _);
      [intros p [= <-]; exact Lt1 | exact E |].
    split; [|now rewrite H1].
    intros r Lr. rewrite H2.
    + cbn [ForestOps.np_of AbsSurgery.graft_opt]. rewrite Ec, AbsSurgery.cut_absent, (Low r Lr); [reflexivity|].
      (* c is not a node of the old tree below r *)
      intros Hin. rewrite (Low r Lr) in Hin.
      assert (Hc : lt_r (size (fr h)) c = true).
      { apply (tags_closed (lt_r (size (fr h))) (fr h) (WF_closed_lt (fr h) W) (S (size (fr h))) r c); [now apply lt_r_true | exact Hin]. }
      apply lt_r_true in Hc. pose proof (phi_ge (fr h) from_ from_). fold c in H. lia.
    + (* r is not a node of the copy *)
      intros Hin.
      assert (Hr : ge (size (fr h)) r = true).
      { apply (tags_closed (ge (size (fr h))) s1 (dc_closed_first (fr h) from_) (S (size s1)) c r); [|exact Hin].
        apply ge_true. apply phi_ge. }
      apply ge_true in Hr. lia.
  - left. intros r Lr.
    destruct (ForestOps.set_parent_cases cfg NoFault s1 c (ANode to_)) as [(O & _)|[(_ & F)|(_ & F & _)]].
    + rewrite E in O. discriminate.
    + rewrite E in F. cbn [fst] in F. subst s'. now apply Low.
    + discriminate.
Qed.
