(* Heap model of bigtree/node/dagnode.py: the parents / children lists of DAGNode objects and every
   structural entry point, transliterated statement by statement (the except branches included).
   The state can represent ill-formed link structures (asymmetric, duplicated, cyclic), so "the
   DAG invariant is preserved" is a statement about these statement sequences.

   Faithfulness domain: states satisfying DWF (DagProofs.v).  On ill-formed states CPython would
   raise ValueError from list.remove or recurse for ever in `ancestors`; the model is total there
   and makes no claim (every theorem assumes DWF, and DWF is proved of every reachable state).

   All names carry a `d`/`D` prefix where Heap/Forest.v defines the same notion, so that both
   files can be imported together (Props/C02.v, Props/C20.v). *)
From BT Require Import Base.Prelude.

Record dag := mkdag {
  dsize    : nat;               (* ids < dsize are the DAGNode objects created so far             *)
  parents  : id -> list id;     (* _DAGNode__parents, in order                                    *)
  children : id -> list id;     (* _DAGNode__children, in order                                   *)
  dname    : id -> str          (* DAGNode.name (used by __delitem__ only)                        *)
}.

Definition dinit (n : nat) (names : id -> str) : dag :=
  mkdag n (fun _ => []) (fun _ => []) names.

(* l.append(x) unless x is already a member (also: one step of list(dict.fromkeys(...))) *)
Definition addl (l : list id) (x : id) : list id := if memb x l then l else l ++ [x].

(* dagnode.py:224-226 and 327-329 -- the body of both assignment loops is the same pair of
   statements for the edge p -> c:
       if p not in c.__parents:  c.__parents.append(p); p.__children.append(c)
   (the children setter writes the test as `self not in new_child.__parents`).  The two appends
   touch different fields, hence one record update. *)
Definition add_edge (s : dag) (p c : id) : dag :=
  if memb p (parents s c) then s else
  mkdag (dsize s) (upd (parents s) c (parents s c ++ [p]))
        (upd (children s) p (children s p ++ [c])) (dname s).

(* c.__parents.remove(p); p.__children.remove(c)   (233-234, 335-336, 343-344, 627-628;
   list.remove = first occurrence) *)
Definition del_edge (s : dag) (p c : id) : dag :=
  mkdag (dsize s) (upd (parents s) c (remove1 p (parents s c)))
        (upd (children s) p (remove1 c (children s p))) (dname s).

(* `ancestors`, dagnode.py:365-388:
     def _recursive_parent(node): for _node in node.parents: yield from _recursive_parent(_node); yield _node
     list(dict.fromkeys(ancestors))
   recursion depth is bounded by the number of nodes on a well-formed state: fuel = dsize *)
Fixpoint anc_raw (s : dag) (fuel : nat) (n : id) : list id :=
  match fuel with
  | 0 => []
  | S f => flat_map (fun p => anc_raw s f p ++ [p]) (parents s n)
  end.
Definition dedup (l : list id) : list id := fold_left addl l [].
Definition dag_ancestors (s : dag) (n : id) : list id := dedup (anc_raw s (dsize s) n).

Record dconfig := { dassertions : bool }.       (* bigtree.globals.ASSERTIONS *)

Inductive darg := DNode (i : id) | DNone | DJunk.     (* DJunk: a Python object that is no DAGNode *)
Inductive dfault := DNoFault | DPreFail | DPostFail.  (* user hook that raises                      *)
(* what is assigned: a list, a tuple, a set (<= 1 element), a dict-values view (iterable, re-iterable,
   none of the former), a generator (one-shot iterator), an object that is not iterable *)
Inductive dcont := DList | DTuple | DSet | DView | DGen | DNonIter.

Definition dfault_eqb (a b : dfault) : bool :=
  match a, b with
  | DNoFault, DNoFault | DPreFail, DPreFail | DPostFail, DPostFail => true
  | _, _ => false
  end.

Fixpoint ids_of (args : list darg) : list id :=
  match args with
  | [] => []
  | DNode x :: t => x :: ids_of t
  | _ :: t => ids_of t
  end.

(* ------------------------------------------------------------------------------------------ *)
(* parents setter, dagnode.py:206-235, guards 152-195 *)

(* __check_parent_loop (164-195); `if new_parent.ancestors: if any(ancestor is self ...)` *)
Fixpoint check_parent_loop (s : dag) (c : id) (args : list darg) (seen : list id) : option exn :=
  match args with
  | [] => None
  | DNode p :: t =>
      if Nat.eqb p c then Some LoopError else
      if memb c (dag_ancestors s p) then Some LoopError else
      if memb p seen then Some TreeError else
      check_parent_loop s c t (p :: seen)
  | _ :: _ => Some TypeError
  end.

(* __check_parent_type (152-162): isinstance(new_parents, list) *)
Definition check_parents (s : dag) (c : id) (cont : dcont) (args : list darg) : option exn :=
  match cont with
  | DList => check_parent_loop s c args []
  | _ => Some TypeError
  end.

(* try-block 223-226 *)
Definition assign_parents (s : dag) (c : id) (news : list id) : dag :=
  fold_left (fun st p => add_edge st p c) news s.

(* except-block 231-234; s0 = the state when `current_parents` was copied (217) *)
Definition parents_rollback (s0 s : dag) (c : id) (news : list id) : dag :=
  fold_left (fun st p => if memb p (parents s0 c) then st else del_edge st p c) news s.

Definition set_parents (cfg : dconfig) (ft : dfault) (s : dag) (c : id)
           (cont : dcont) (args : list darg) : dag * outcome :=
  match check_parents s c cont args with
  | Some e => (s, Err (if dassertions cfg then e else Unmodelled))
  | None =>
    let news := ids_of args in
    if dfault_eqb ft DPreFail then (s, Err HookRaw) else       (* 220: outside the try *)
    let s' := assign_parents s c news in
    if dfault_eqb ft DPostFail then (parents_rollback s s' c news, Err TreeError)   (* 228-235 *)
    else (s', Ok)
  end.

(* ------------------------------------------------------------------------------------------ *)
(* children setter, dagnode.py:307-338, guards 255-296 *)

(* __check_children_loop (266-296) *)
Fixpoint check_children_loop (s : dag) (p : id) (args : list darg) (seen : list id) : option exn :=
  match args with
  | [] => None
  | DNode x :: t =>
      if Nat.eqb x p then Some LoopError else
      if memb x (dag_ancestors s p) then Some LoopError else
      if memb x seen then Some TreeError else
      check_children_loop s p t (x :: seen)
  | _ :: _ => Some TypeError
  end.

(* 314-316: `if ASSERTIONS: self.__check_children_type(new_children)` (isinstance Iterable, 255-264)
   followed by `new_children = list(new_children)`: an object that is not iterable raises
   TypeError from the check when the checks are on and from list() itself when they are off --
   in both cases before anything is changed.  Every iterable (a one-shot generator included) is
   materialised once here, so the loop check, the assignment loop and the rollback all see the
   same list. *)
Definition materialise (cont : dcont) : option exn :=
  match cont with DNonIter => Some TypeError | _ => None end.

(* try-block 326-329 *)
Definition assign_children (s : dag) (p : id) (news : list id) : dag :=
  fold_left (fun st x => add_edge st p x) news s.

(* except-block 333-336; s0 = the state when `current_children` was copied (320) *)
Definition children_rollback (s0 s : dag) (p : id) (news : list id) : dag :=
  fold_left (fun st x => if memb x (children s0 p) then st else del_edge st p x) news s.

Definition set_children (cfg : dconfig) (ft : dfault) (s : dag) (p : id)
           (cont : dcont) (args : list darg) : dag * outcome :=
  match materialise cont with
  | Some e => (s, Err e)                                       (* 314-316, either setting of the switch *)
  | None =>
  match check_children_loop s p args [] with                   (* 317-318 `if ASSERTIONS:` *)
  | Some e => (s, Err (if dassertions cfg then e else Unmodelled))
  | None =>
    let news := ids_of args in
    if dfault_eqb ft DPreFail then (s, Err HookRaw) else       (* 323: outside the try *)
    let s' := assign_children s p news in
    if dfault_eqb ft DPostFail then (children_rollback s s' p news, Err TreeError)   (* 330-337 *)
    else (s', Ok)
  end end.

(* ------------------------------------------------------------------------------------------ *)
(* children deleter, dagnode.py:339-344: for child in self.children (a tuple copy): remove both *)
Definition del_children (s : dag) (p : id) : dag :=
  fold_left (fun st c => del_edge st p c) (children s p) s.

(* __delitem__, dagnode.py:617-628, with search.py find_child_by_name -> find_children(max_count=1) *)
Definition del_item (s : dag) (p : id) (nm : str) : dag * outcome :=
  match filter (fun k => str_eqb (dname s k) nm) (children s p) with
  | [] => (s, Ok)
  | [c] => (del_edge s p c, Ok)
  | _ => (s, Err SearchError)
  end.

(* ------------------------------------------------------------------------------------------ *)
(* constructor, dagnode.py:105-125: the fresh object gets the next id; an omitted / None argument is
   the empty list.  When the parents assignment is accepted and the children assignment raises,
   the constructor raises and the half-built object stays linked below its parents. *)
Definition alloc (s : dag) (nm : str) : dag :=
  let x := dsize s in
  mkdag (S x) (upd (parents s) x []) (upd (children s) x []) (upd (dname s) x nm).

Definition carg := option (dcont * list darg).
Definition carg_cont (a : carg) : dcont := match a with Some (c, _) => c | None => DList end.
Definition carg_args (a : carg) : list darg := match a with Some (_, l) => l | None => [] end.

Definition construct (cfg : dconfig) (s : dag) (nm : str) (pa ca : carg) (ftp ftc : dfault)
  : dag * outcome :=
  let x := dsize s in
  match set_parents cfg ftp (alloc s nm) x (carg_cont pa) (carg_args pa) with
  | (s2, Ok) => set_children cfg ftc s2 x (carg_cont ca) (carg_args ca)
  | r => r
  end.

(* ------------------------------------------------------------------------------------------ *)
(* operations *)

Inductive dop :=
| SetParents (c : id) (cont : dcont) (args : list darg) (ft : dfault)   (* c.parents = ...        *)
| SetKids (p : id) (cont : dcont) (args : list darg) (ft : dfault)      (* p.children = ...       *)
| DelKids (p : id)                                                      (* del p.children         *)
| DelKid (p : id) (nm : str)                                            (* del p[nm]              *)
| DRShift (p c : id) (ft : dfault)                                      (* p >> c                 *)
| DLShift (c p : id) (ft : dfault)                                      (* c << p                 *)
| DNew (nm : str) (pa ca : carg) (ftp ftc : dfault).                    (* DAGNode(nm, parents=, children=) *)

Definition d_in_range (s : dag) (n : id) : bool := Nat.ltb n (dsize s).
Definition darg_in_range (s : dag) (a : darg) : bool :=
  match a with DNode i => d_in_range s i | _ => true end.

Definition dop_in_range (s : dag) (o : dop) : bool :=
  match o with
  | SetParents c _ args _ | SetKids c _ args _ => d_in_range s c && forallb (darg_in_range s) args
  | DelKids p | DelKid p _ => d_in_range s p
  | DRShift p c _ | DLShift c p _ => d_in_range s p && d_in_range s c
  | DNew _ pa ca _ _ =>
      forallb (darg_in_range s) (carg_args pa) && forallb (darg_in_range s) (carg_args ca)
  end.

Definition dstep (cfg : dconfig) (s : dag) (o : dop) : dag * outcome :=
  if negb (dop_in_range s o) then (s, Err Unmodelled) else
  match o with
  | SetParents c cont args ft => set_parents cfg ft s c cont args
  | SetKids p cont args ft => set_children cfg ft s p cont args
  | DelKids p => (del_children s p, Ok)
  | DelKid p nm => del_item s p nm
  | DRShift p c ft | DLShift c p ft => set_parents cfg ft s c DList [DNode p]   (* 643-657 *)
  | DNew nm pa ca ftp ftc => construct cfg s nm pa ca ftp ftc
  end.

(* the same call with user hooks that do not raise *)
Definition strip_faults (o : dop) : dop :=
  match o with
  | SetParents c cont args _ => SetParents c cont args DNoFault
  | SetKids p cont args _ => SetKids p cont args DNoFault
  | DRShift p c _ => DRShift p c DNoFault
  | DLShift c p _ => DLShift c p DNoFault
  | DNew nm pa ca _ _ => DNew nm pa ca DNoFault DNoFault
  | o' => o'
  end.

Definition drun (cfg : dconfig) (s : dag) (ops : list dop) : dag :=
  fold_left (fun st o => fst (dstep cfg st o)) ops s.

(* the whole trace: state and outcome after every operation *)
Fixpoint dtrace (cfg : dconfig) (s : dag) (ops : list dop) : list (dag * outcome) :=
  match ops with
  | [] => []
  | o :: t => let r := dstep cfg s o in r :: dtrace cfg (fst r) t
  end.
