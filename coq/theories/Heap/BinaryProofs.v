(* Proofs about the BinaryNode heap model (Heap/Binary.v): the two-slot invariant BWF is preserved
   by every operation (accepted, rejected or failing), the effect clauses of C11, atomicity of a
   rejected / failing assignment (C02, BinaryNode share) and irrelevance of the assertion switch for
   accepted operations (C20, BinaryNode share). *)
From BT Require Import Base.Prelude Heap.Forest Heap.Binary.

(* ========================================================================================== *)
(* 1. slot lists *)

Lemma upd_same {A} (f : id -> A) k v : upd f k v k = v.
Proof. unfold upd. rewrite Nat.eqb_refl. reflexivity. Qed.
Lemma upd_other {A} (f : id -> A) k v x : x <> k -> upd f k v x = f x.
Proof. unfold upd. intros H. destruct (Nat.eqb_spec x k); [contradiction|reflexivity]. Qed.

Lemma set_nth_length {A} (v : A) : forall l i, length (set_nth i v l) = length l.
Proof.
  induction l as [|h t IH]; intros i; [reflexivity|].
  destruct i; cbn [set_nth length]; [reflexivity|]. rewrite IH. reflexivity.
Qed.

Lemma slot_set_nth v : forall l i j,
  slot (set_nth i v l) j = if Nat.eqb j i && Nat.ltb i (length l) then v else slot l j.
Proof.
  unfold slot. induction l as [|h t IH]; intros i j.
  - cbn [set_nth length]. rewrite Bool.andb_false_r. reflexivity.
  - destruct i as [|i]; destruct j as [|j]; cbn [set_nth nth length]; try reflexivity.
    rewrite IH. change (Nat.eqb (S j) (S i)) with (Nat.eqb j i).
    change (Nat.ltb (S i) (S (length t))) with (Nat.ltb i (length t)). reflexivity.
Qed.

Lemma slot_In l i x : slot l i = Some x -> In (Some x) l.
Proof.
  unfold slot. intros H. destruct (Nat.lt_ge_cases i (length l)) as [Hlt|Hge].
  - rewrite <- H. apply nth_In. exact Hlt.
  - rewrite nth_overflow in H by exact Hge. discriminate.
Qed.

Lemma slot_lt l i x : slot l i = Some x -> i < length l.
Proof.
  unfold slot. intros H. destruct (Nat.lt_ge_cases i (length l)) as [Hlt|Hge]; [exact Hlt|].
  rewrite nth_overflow in H by exact Hge. discriminate.
Qed.

Lemma In_slot l x : In (Some x) l -> exists i, slot l i = Some x.
Proof. intros H. destruct (In_nth l (Some x) None H) as [i [_ Hi]]. exists i. exact Hi. Qed.

Lemma slot_ext l l' : length l = length l' -> (forall j, slot l j = slot l' j) -> l = l'.
Proof. intros Hl H. apply (nth_ext l l' None None Hl). intros n _. apply H. Qed.

Lemma slot_mem_In x l : slot_mem x l = true <-> In (Some x) l.
Proof.
  unfold slot_mem. rewrite existsb_exists. split.
  - intros [[y|] [Hy E]]; [|discriminate]. apply Nat.eqb_eq in E. subst. exact Hy.
  - intros H. exists (Some x). split; [exact H|apply Nat.eqb_refl].
Qed.

Lemma slot_mem_false x l : slot_mem x l = false <-> ~ In (Some x) l.
Proof.
  rewrite <- slot_mem_In. destruct (slot_mem x l); split; intros H; congruence.
Qed.

Lemma slot_index_spec x : forall l, In (Some x) l ->
  slot_index x l < length l /\ slot l (slot_index x l) = Some x.
Proof.
  unfold slot. induction l as [|h t IH]; intros H; [contradiction|].
  cbn [slot_index]. destruct h as [y|].
  - destruct (Nat.eqb_spec x y) as [->|Hne]; cbn [length nth].
    + split; [lia|reflexivity].
    + destruct H as [H|H]; [congruence|]. destruct (IH H). split; [lia|assumption].
  - destruct H as [H|H]; [discriminate|]. destruct (IH H). cbn [length nth]. split; [lia|assumption].
Qed.

Lemma slot_index_absent x : forall l, ~ In (Some x) l -> slot_index x l = length l.
Proof.
  induction l as [|h t IH]; intros H; [reflexivity|].
  cbn [slot_index length]. destruct h as [y|].
  - destruct (Nat.eqb_spec x y) as [->|Hne]; [exfalso; apply H; left; reflexivity|].
    rewrite IH; [reflexivity|]. intros Hin. apply H. right. exact Hin.
  - rewrite IH; [reflexivity|]. intros Hin. apply H. right. exact Hin.
Qed.

(* a node occupies at most one slot of the list *)
Definition once (l : list (option id)) : Prop :=
  forall i j x, slot l i = Some x -> slot l j = Some x -> i = j.

Lemma slot_index_once l i x : once l -> slot l i = Some x -> slot_index x l = i.
Proof.
  intros Ho H. destruct (slot_index_spec x l (slot_In _ _ _ H)) as [_ H2]. exact (Ho _ _ _ H2 H).
Qed.

(* emptying the slots that hold x *)
Definition rm (x : id) (o : option id) : option id :=
  match o with Some y => if Nat.eqb x y then None else Some y | None => None end.

Lemma rm_Some x o y : rm x o = Some y <-> o = Some y /\ y <> x.
Proof.
  unfold rm. destruct o as [z|]; [|split; [discriminate|intros [? _]; discriminate]].
  destruct (Nat.eqb_spec x z) as [->|Hne]; split.
  - discriminate.
  - intros [[= ->] H]. congruence.
  - intros [= ->]. split; [reflexivity|congruence].
  - intros [[= ->] _]. reflexivity.
Qed.

Lemma rm_absent x o : o <> Some x -> rm x o = o.
Proof.
  unfold rm. destruct o as [z|]; [|reflexivity]. intros H.
  destruct (Nat.eqb_spec x z) as [->|Hne]; [congruence|reflexivity].
Qed.

Lemma clear_slot_length x l : length (clear_slot x l) = length l.
Proof. apply set_nth_length. Qed.

Lemma slot_clear x l j : once l -> slot (clear_slot x l) j = rm x (slot l j).
Proof.
  intros Ho. unfold clear_slot. rewrite slot_set_nth.
  destruct (slot_mem x l) eqn:Em.
  - apply slot_mem_In in Em. destruct (slot_index_spec x l Em) as [Hlt Hs].
    apply Nat.ltb_lt in Hlt. rewrite Hlt, Bool.andb_true_r.
    destruct (Nat.eqb_spec j (slot_index x l)) as [->|Hne].
    + rewrite Hs. unfold rm. rewrite Nat.eqb_refl. reflexivity.
    + symmetry. apply rm_absent. intros H. apply Hne. exact (Ho _ _ _ H Hs).
  - apply slot_mem_false in Em. rewrite (slot_index_absent x l Em), Nat.ltb_irrefl, Bool.andb_false_r.
    symmetry. apply rm_absent. intros H. apply Em. exact (slot_In _ _ _ H).
Qed.

Lemma once_clear x l : once l -> once (clear_slot x l).
Proof.
  intros Ho i j y Hi Hj. rewrite slot_clear in Hi, Hj by exact Ho.
  apply rm_Some in Hi. apply rm_Some in Hj. exact (Ho _ _ _ (proj1 Hi) (proj1 Hj)).
Qed.

Lemma clear_absent x l : ~ In (Some x) l -> clear_slot x l = l.
Proof.
  intros H. apply slot_ext; [apply clear_slot_length|]. intros j.
  unfold clear_slot. rewrite slot_set_nth, (slot_index_absent x l H), Nat.ltb_irrefl, Bool.andb_false_r.
  reflexivity.
Qed.

Lemma first_empty_some : forall l i, first_empty l = Some i ->
  i < length l /\ slot l i = None /\ forall j, j < i -> slot l j <> None.
Proof.
  unfold slot. induction l as [|h t IH]; intros i H; [discriminate|].
  cbn [first_empty] in H. destruct h as [y|].
  - destruct (first_empty t) as [k|] eqn:E; [|discriminate]. injection H as <-.
    destruct (IH k eq_refl) as [H1 [H2 H3]]. cbn [length nth]. split; [lia|]. split; [exact H2|].
    intros [|j] Hj; cbn [nth]; [discriminate|]. apply H3. lia.
  - injection H as <-. cbn [length nth]. split; [lia|]. split; [reflexivity|]. intros j Hj. lia.
Qed.

Lemma first_empty_none : forall l, first_empty l = None -> forall j, j < length l -> slot l j <> None.
Proof.
  unfold slot. induction l as [|h t IH]; intros H j Hj; [cbn in Hj; lia|].
  cbn [first_empty] in H. destruct h as [y|]; [|discriminate].
  destruct (first_empty t) eqn:E; [discriminate|].
  destruct j as [|j]; cbn [nth]; [discriminate|]. apply IH; [reflexivity|]. cbn [length] in Hj. lia.
Qed.

Lemma len2 {A} (l : list A) : length l = 2 -> exists a b, l = [a; b].
Proof.
  destruct l as [|a [|b [|c t]]]; cbn; intros H; try discriminate. exists a, b. reflexivity.
Qed.

Lemma slot2 a b j : slot [a; b] j = match j with 0 => a | 1 => b | _ => None end.
Proof. unfold slot. destruct j as [|[|[|j]]]; reflexivity. Qed.

(* ========================================================================================== *)
(* 2. the invariant *)

Record BWF (s : bheap) : Prop := {
  bw_len   : forall p, length (bkids s p) = 2;                                  (* exactly two slots   *)
  bw_down  : forall p i c, slot (bkids s p) i = Some c -> bpar s c = Some p;    (* slot -> parent      *)
  bw_up    : forall c p, bpar s c = Some p -> exists i, slot (bkids s p) i = Some c;  (* parent -> slot *)
  bw_once  : forall p, once (bkids s p);                                        (* in one slot only    *)
  bw_bound : forall c p, bpar s c = Some p -> c < bsize s /\ p < bsize s;       (* links among live ids *)
  bw_acyc  : exists r : id -> nat, forall c p, bpar s c = Some p -> r p < r c   (* ghost rank           *)
}.

(* pointwise equality of states (no functional extensionality) *)
Definition beq (s t : bheap) : Prop :=
  bsize s = bsize t /\ (forall x, bpar s x = bpar t x) /\ (forall x, bkids s x = bkids t x).

Lemma beq_refl s : beq s s.
Proof. repeat split. Qed.
Lemma beq_sym s t : beq s t -> beq t s.
Proof. intros [H1 [H2 H3]]. repeat split; intros; symmetry; auto. Qed.
Lemma beq_trans s t u : beq s t -> beq t u -> beq s u.
Proof.
  intros [H1 [H2 H3]] [G1 [G2 G3]]. split; [congruence|].
  split; intros x; [rewrite H2; apply G2|rewrite H3; apply G3].
Qed.

Lemma BWF_beq s t : BWF s -> beq s t -> BWF t.
Proof.
  intros [Hl Hd Hu Ho Hb [r Hr]] [E1 [E2 E3]]. constructor.
  - intros p. rewrite <- E3. apply Hl.
  - intros p i c. rewrite <- E3, <- E2. apply Hd.
  - intros c p. rewrite <- E2, <- E3. apply Hu.
  - intros p. rewrite <- E3. apply Ho.
  - intros c p. rewrite <- E2, <- E1. apply Hb.
  - exists r. intros c p. rewrite <- E2. apply Hr.
Qed.

Lemma memb_In x l : memb x l = true <-> In x l.
Proof.
  unfold memb. rewrite existsb_exists. split.
  - intros [y [Hy E]]. apply Nat.eqb_eq in E. subst. exact Hy.
  - intros H. exists x. split; [exact H|apply Nat.eqb_refl].
Qed.

Lemma BWF_init n : BWF (binit n).
Proof.
  constructor; cbn [binit bkids bpar bsize]; try discriminate.
  - reflexivity.
  - intros p i c. rewrite slot2. destruct i as [|[|i]]; discriminate.
  - intros p i j x. rewrite slot2. destruct i as [|[|i]]; discriminate.
  - exists (fun _ => 0). discriminate.
Qed.

(* ------------------------------------------------------------------------------------------ *)
(* the fuelled parent walk on a ranked state: fuel = bsize is never exhausted *)

Section Chain.
Variable s : bheap.
Variable r : id -> nat.
Hypothesis Hr : forall c p, bpar s c = Some p -> r p < r c.
Hypothesis Hb : forall c p, bpar s c = Some p -> c < bsize s /\ p < bsize s.

Lemma banc_rank f : forall c x, In x (banc s f c) -> r x < r c.
Proof.
  induction f as [|f IH]; cbn [banc]; intros c x Hx; [contradiction|].
  destruct (bpar s c) as [p|] eqn:E; [|contradiction].
  destruct Hx as [->|Hx]; [eauto|]. specialize (IH _ _ Hx). specialize (Hr _ _ E). lia.
Qed.

Lemma banc_nodup f : forall c, NoDup (banc s f c).
Proof.
  induction f as [|f IH]; cbn [banc]; intros c; [constructor|].
  destruct (bpar s c) as [p|] eqn:E; [|constructor].
  constructor; [|apply IH]. intros H. apply banc_rank in H. lia.
Qed.

Lemma banc_bound f : forall c x, In x (banc s f c) -> x < bsize s.
Proof.
  induction f as [|f IH]; cbn [banc]; intros c x Hx; [contradiction|].
  destruct (bpar s c) as [p|] eqn:E; [|contradiction].
  destruct Hx as [->|Hx]; [apply (Hb _ _ E)|eauto].
Qed.

Lemma banc_len_lt f c : bsize s <= f -> bpar s c <> None -> length (banc s f c) < f.
Proof.
  intros Hf Hc.
  assert (Hnd : NoDup (c :: banc s f c)).
  { constructor; [|apply banc_nodup]. intros H. apply banc_rank in H. lia. }
  assert (Hin : incl (c :: banc s f c) (seq 0 (bsize s))).
  { intros x [<-|Hx]; apply in_seq.
    - destruct (bpar s c) as [p|] eqn:E; [|congruence]. destruct (Hb _ _ E). lia.
    - apply banc_bound in Hx. lia. }
  pose proof (NoDup_incl_length Hnd Hin) as H. rewrite seq_length in H. cbn [length] in H. lia.
Qed.

Lemma banc_short_stable f : forall c, length (banc s f c) < f -> banc s (S f) c = banc s f c.
Proof.
  induction f as [|f IH]; intros c H; [cbn in H; lia|].
  cbn [banc] in *. destruct (bpar s c) as [p|]; [|reflexivity].
  cbn [length] in H. f_equal. apply IH. lia.
Qed.

Lemma banc_fix f c : bsize s <= f -> banc s (S f) c = banc s f c.
Proof.
  intros Hf. case_eq (bpar s c); [intros p E|intros E].
  - apply banc_short_stable, banc_len_lt; [assumption|congruence].
  - cbn [banc]. rewrite E. destruct f; cbn [banc]; rewrite ?E; reflexivity.
Qed.

Lemma bancestors_unfold c p : bpar s c = Some p -> bancestors s c = p :: bancestors s p.
Proof.
  intros E. unfold bancestors. rewrite <- (banc_fix (bsize s) c) by lia.
  cbn [banc]. rewrite E. reflexivity.
Qed.

Lemma bancestors_root c : bpar s c = None -> bancestors s c = [].
Proof. intros E. unfold bancestors. destruct (bsize s); cbn [banc]; rewrite ?E; reflexivity. Qed.

(* the walk from any node ends at a root within bsize steps *)
Lemma banc_len_le c : length (bancestors s c) <= bsize s.
Proof.
  case_eq (bpar s c); [intros p E|intros E].
  - assert (H := banc_len_lt (bsize s) c (le_n _)). rewrite E in H. specialize (H ltac:(discriminate)).
    unfold bancestors. lia.
  - rewrite (bancestors_root c E). cbn. lia.
Qed.
End Chain.

Lemma existsb_ext_in {A} (f g : A -> bool) l :
  (forall x, In x l -> f x = g x) -> existsb f l = existsb g l.
Proof.
  induction l as [|h t IH]; intros H; [reflexivity|]. cbn [existsb].
  rewrite (H h (or_introl eq_refl)), IH; [reflexivity|]. intros x Hx. apply H. right. exact Hx.
Qed.

(* re-ranking after the nodes `ms` (with their subtrees) have been hung below p *)
Lemma rerank s (ms : list id) p (par' : id -> option id) :
  BWF s ->
  (forall x, In x ms -> x <> p /\ ~ In x (bancestors s p)) ->
  (forall c q, par' c = Some q -> (In c ms /\ q = p) \/ (~ In c ms /\ bpar s c = Some q)) ->
  exists r', forall c q, par' c = Some q -> r' q < r' c.
Proof.
  intros [_ _ _ _ Hb [r Hr]] Hms Hpar.
  set (D := fun x => existsb (fun m => Nat.eqb x m || memb m (bancestors s x)) ms).
  exists (fun x => if D x then r x + r p + 1 else r x).
  intros c q E. destruct (Hpar c q E) as [[Hin ->]|[Hnin Eold]].
  - assert (D p = false) as ->.
    { destruct (D p) eqn:ED; [|reflexivity]. unfold D in ED. apply existsb_exists in ED.
      destruct ED as [m [Hm Hor]]. destruct (Hms m Hm) as [Hne Hna].
      apply orb_true_iff in Hor. destruct Hor as [H|H].
      - apply Nat.eqb_eq in H. congruence.
      - apply memb_In in H. contradiction. }
    assert (D c = true) as ->.
    { unfold D. apply existsb_exists. exists c. split; [exact Hin|]. rewrite Nat.eqb_refl. reflexivity. }
    lia.
  - assert (HD : D c = D q).
    { unfold D. apply existsb_ext_in. intros m Hm.
      rewrite (bancestors_unfold s r Hr Hb c q Eold).
      destruct (Nat.eqb_spec c m) as [->|Hne]; [contradiction|].
      cbn [orb memb existsb]. fold (memb m (bancestors s q)). rewrite (Nat.eqb_sym m q). reflexivity. }
    rewrite HD. specialize (Hr _ _ Eold). destruct (D q); lia.
Qed.

(* ------------------------------------------------------------------------------------------ *)
(* "relinking": node p gets the slot list `news`; the nodes named in `news` leave the slots they sat
   in; the previous children of p that are not named become roots; nothing else changes.  Every
   accepted operation of the model is an instance. *)

Definition rmset (news : list (option id)) (o : option id) : option id :=
  match o with Some y => if slot_mem y news then None else Some y | None => None end.

Lemma rmset_Some news o y : rmset news o = Some y <-> o = Some y /\ slot_mem y news = false.
Proof.
  unfold rmset. destruct o as [z|]; [|split; [discriminate|intros [? _]; discriminate]].
  destruct (slot_mem z news) eqn:E; split.
  - discriminate.
  - intros [[= ->] H]. congruence.
  - intros [= ->]. split; [reflexivity|exact E].
  - intros [[= ->] _]. reflexivity.
Qed.

Record relinked (s s' : bheap) (p : id) (news : list (option id)) : Prop := {
  rl_size : bsize s' = bsize s;
  rl_par  : forall x, bpar s' x = if slot_mem x news then Some p
                                   else if slot_mem x (bkids s p) then None else bpar s x;
  rl_kids_p : bkids s' p = news;
  rl_len  : forall q, q <> p -> length (bkids s' q) = length (bkids s q);
  rl_kids : forall q j, q <> p -> slot (bkids s' q) j = rmset news (slot (bkids s q) j)
}.

Record valid_news (s : bheap) (p : id) (news : list (option id)) : Prop := {
  vn_len : length news = 2;
  vn_once : once news;
  vn_p : p < bsize s;
  vn_in : forall x, In (Some x) news -> x < bsize s /\ x <> p /\ ~ In x (bancestors s p)
}.

Lemma somes_In x l : In x (somes l) <-> In (Some x) l.
Proof.
  induction l as [|[y|] t IH]; cbn [somes In]; [tauto| |].
  - rewrite IH. split; [intros [->|H]; auto|intros [[= ->]|H]; auto].
  - rewrite IH. split; [auto|intros [H|H]; [discriminate|exact H]].
Qed.

Theorem relink_BWF s s' p news : BWF s -> valid_news s p news -> relinked s s' p news -> BWF s'.
Proof.
  intros W [Vl Vo Vp Vin] [Rs Rp Rkp Rl Rk]. pose proof W as [Hl Hd Hu Ho Hb _].
  assert (Hnp : forall c q, q <> p -> bpar s c = Some q -> slot_mem c (bkids s p) = false).
  { intros c q Hq E. apply slot_mem_false. intros Hin. apply In_slot in Hin. destruct Hin as [i Hi].
    apply Hd in Hi. congruence. }
  constructor.
  - intros q. destruct (Nat.eq_dec q p) as [->|Hq]; [rewrite Rkp; exact Vl|rewrite Rl by exact Hq; apply Hl].
  - intros q j c H. destruct (Nat.eq_dec q p) as [->|Hq].
    + rewrite Rkp in H. apply slot_In, slot_mem_In in H. rewrite Rp, H. reflexivity.
    + rewrite Rk in H by exact Hq. apply rmset_Some in H. destruct H as [H Hm].
      apply Hd in H. rewrite Rp, Hm, (Hnp c q Hq H). exact H.
  - intros c q H. rewrite Rp in H. destruct (slot_mem c news) eqn:Em.
    + injection H as <-. apply slot_mem_In, In_slot in Em. rewrite Rkp. exact Em.
    + destruct (slot_mem c (bkids s p)) eqn:Ek; [discriminate|].
      assert (Hq : q <> p).
      { intros ->. apply Hu in H. destruct H as [i Hi]. apply slot_In, slot_mem_In in Hi. congruence. }
      destruct (Hu _ _ H) as [i Hi]. exists i. rewrite Rk by exact Hq. apply rmset_Some. split; assumption.
  - intros q. destruct (Nat.eq_dec q p) as [->|Hq]; [rewrite Rkp; exact Vo|].
    intros i j x Hi Hj. rewrite Rk in Hi, Hj by exact Hq. apply rmset_Some in Hi, Hj.
    exact (Ho q _ _ _ (proj1 Hi) (proj1 Hj)).
  - intros c q H. rewrite Rs. rewrite Rp in H. destruct (slot_mem c news) eqn:Em.
    + injection H as <-. apply slot_mem_In in Em. destruct (Vin c Em) as [Hc _]. split; assumption.
    + destruct (slot_mem c (bkids s p)); [discriminate|]. apply Hb. exact H.
  - apply (rerank s (somes news) p (bpar s') W).
    + intros x Hx. apply somes_In in Hx. destruct (Vin x Hx) as [_ H]. exact H.
    + intros c q H. rewrite Rp in H. destruct (slot_mem c news) eqn:Em.
      * injection H as <-. left. split; [apply somes_In, slot_mem_In; exact Em|reflexivity].
      * destruct (slot_mem c (bkids s p)); [discriminate|]. right. split; [|exact H].
        intros Hin. apply somes_In, slot_mem_In in Hin. congruence.
Qed.
