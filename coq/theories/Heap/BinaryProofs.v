(* Proofs about the BinaryNode heap model (Heap/Binary.v): the two-slot invariant BWF is preserved
   by every operation (accepted, rejected or failing), the effect clauses of C11, atomicity of a
   rejected / failing assignment (C02, BinaryNode share) and irrelevance of the assertion switch for
   accepted operations (C20, BinaryNode share). *)
From BT Require Import Base.Prelude Heap.Forest Heap.Binary.

(* ========================================================================================== *)
(* 1. slot lists *)

Lemma upd_same {A} (f : id -> A) k v : upd f k v k = v.
Proof. unfold upd. rewrite Nat.eqb_refl. reflexivity. Qed.
Lemma upd_other {A} (f : id -> A) k v x : x <> k -> upd f k v x = f x.
Proof. unfold upd. intros H. destruct (Nat.eqb_spec x k); [contradiction|reflexivity]. Qed.

Lemma set_nth_length {A} (v : A) : forall l i, length (set_nth i v l) = length l.
Proof.
  induction l as [|h t IH]; intros i; [reflexivity|].
  destruct i; cbn [set_nth length]; [reflexivity|]. rewrite IH. reflexivity.
Qed.

Lemma slot_set_nth v : forall l i j,
  slot (set_nth i v l) j = if Nat.eqb j i && Nat.ltb i (length l) then v else slot l j.
Proof.
  unfold slot. induction l as [|h t IH]; intros i j.
  - cbn [set_nth length]. rewrite Bool.andb_false_r. reflexivity.
  - destruct i as [|i]; destruct j as [|j]; cbn [set_nth nth length]; try reflexivity.
    rewrite IH. change (Nat.eqb (S j) (S i)) with (Nat.eqb j i).
    change (Nat.ltb (S i) (S (length t))) with (Nat.ltb i (length t)). reflexivity.
Qed.

Lemma slot_In l i x : slot l i = Some x -> In (Some x) l.
Proof.
  unfold slot. intros H. destruct (Nat.lt_ge_cases i (length l)) as [Hlt|Hge].
  - rewrite <- H. apply nth_In. exact Hlt.
  - rewrite nth_overflow in H by exact Hge. discriminate.
Qed.

Lemma slot_lt l i x : slot l i = Some x -> i < length l.
Proof.
  unfold slot. intros H. destruct (Nat.lt_ge_cases i (length l)) as [Hlt|Hge]; [exact Hlt|].
  rewrite nth_overflow in H by exact Hge. discriminate.
Qed.

Lemma In_slot l x : In (Some x) l -> exists i, slot l i = Some x.
Proof. intros H. destruct (In_nth l (Some x) None H) as [i [_ Hi]]. exists i. exact Hi. Qed.

Lemma slot_ext l l' : length l = length l' -> (forall j, slot l j = slot l' j) -> l = l'.
Proof. intros Hl H. apply (nth_ext l l' None None Hl). intros n _. apply H. Qed.

Lemma slot_mem_In x l : slot_mem x l = true <-> In (Some x) l.
Proof.
  unfold slot_mem. rewrite existsb_exists. split.
  - intros [[y|] [Hy E]]; [|discriminate]. apply Nat.eqb_eq in E. subst. exact Hy.
  - intros H. exists (Some x). split; [exact H|apply Nat.eqb_refl].
Qed.

Lemma slot_mem_false x l : slot_mem x l = false <-> ~ In (Some x) l.
Proof.
  rewrite <- slot_mem_In. destruct (slot_mem x l); split; intros H; congruence.
Qed.

Lemma slot_index_spec x : forall l, In (Some x) l ->
  slot_index x l < length l /\ slot l (slot_index x l) = Some x.
Proof.
  unfold slot. induction l as [|h t IH]; intros H; [contradiction|].
  cbn [slot_index]. destruct h as [y|].
  - destruct (Nat.eqb_spec x y) as [->|Hne]; cbn [length nth].
    + split; [lia|reflexivity].
    + destruct H as [H|H]; [congruence|]. destruct (IH H). split; [lia|assumption].
  - destruct H as [H|H]; [discriminate|]. destruct (IH H). cbn [length nth]. split; [lia|assumption].
Qed.

Lemma slot_index_absent x : forall l, ~ In (Some x) l -> slot_index x l = length l.
Proof.
  induction l as [|h t IH]; intros H; [reflexivity|].
  cbn [slot_index length]. destruct h as [y|].
  - destruct (Nat.eqb_spec x y) as [->|Hne]; [exfalso; apply H; left; reflexivity|].
    rewrite IH; [reflexivity|]. intros Hin. apply H. right. exact Hin.
  - rewrite IH; [reflexivity|]. intros Hin. apply H. right. exact Hin.
Qed.

(* a node occupies at most one slot of the list *)
Definition once (l : list (option id)) : Prop :=
  forall i j x, slot l i = Some x -> slot l j = Some x -> i = j.

Lemma slot_index_once l i x : once l -> slot l i = Some x -> slot_index x l = i.
Proof.
  intros Ho H. destruct (slot_index_spec x l (slot_In _ _ _ H)) as [_ H2]. exact (Ho _ _ _ H2 H).
Qed.

(* emptying the slots that hold x *)
Definition rm (x : id) (o : option id) : option id :=
  match o with Some y => if Nat.eqb x y then None else Some y | None => None end.

Lemma rm_Some x o y : rm x o = Some y <-> o = Some y /\ y <> x.
Proof.
  unfold rm. destruct o as [z|]; [|split; [discriminate|intros [? _]; discriminate]].
  destruct (Nat.eqb_spec x z) as [->|Hne]; split.
  - discriminate.
  - intros [[= ->] H]. congruence.
  - intros [= ->]. split; [reflexivity|congruence].
  - intros [[= ->] _]. reflexivity.
Qed.

Lemma rm_absent x o : o <> Some x -> rm x o = o.
Proof.
  unfold rm. destruct o as [z|]; [|reflexivity]. intros H.
  destruct (Nat.eqb_spec x z) as [->|Hne]; [congruence|reflexivity].
Qed.

Lemma clear_slot_length x l : length (clear_slot x l) = length l.
Proof. apply set_nth_length. Qed.

Lemma slot_clear x l j : once l -> slot (clear_slot x l) j = rm x (slot l j).
Proof.
  intros Ho. unfold clear_slot. rewrite slot_set_nth.
  destruct (slot_mem x l) eqn:Em.
  - apply slot_mem_In in Em. destruct (slot_index_spec x l Em) as [Hlt Hs].
    apply Nat.ltb_lt in Hlt. rewrite Hlt, Bool.andb_true_r.
    destruct (Nat.eqb_spec j (slot_index x l)) as [->|Hne].
    + rewrite Hs. unfold rm. rewrite Nat.eqb_refl. reflexivity.
    + symmetry. apply rm_absent. intros H. apply Hne. exact (Ho _ _ _ H Hs).
  - apply slot_mem_false in Em. rewrite (slot_index_absent x l Em), Nat.ltb_irrefl, Bool.andb_false_r.
    symmetry. apply rm_absent. intros H. apply Em. exact (slot_In _ _ _ H).
Qed.

Lemma once_clear x l : once l -> once (clear_slot x l).
Proof.
  intros Ho i j y Hi Hj. rewrite slot_clear in Hi, Hj by exact Ho.
  apply rm_Some in Hi. apply rm_Some in Hj. exact (Ho _ _ _ (proj1 Hi) (proj1 Hj)).
Qed.

Lemma clear_absent x l : ~ In (Some x) l -> clear_slot x l = l.
Proof.
  intros H. apply slot_ext; [apply clear_slot_length|]. intros j.
  unfold clear_slot. rewrite slot_set_nth, (slot_index_absent x l H), Nat.ltb_irrefl, Bool.andb_false_r.
  reflexivity.
Qed.

Lemma first_empty_some : forall l i, first_empty l = Some i ->
  i < length l /\ slot l i = None /\ forall j, j < i -> slot l j <> None.
Proof.
  unfold slot. induction l as [|h t IH]; intros i H; [discriminate|].
  cbn [first_empty] in H. destruct h as [y|].
  - destruct (first_empty t) as [k|] eqn:E; [|discriminate]. injection H as <-.
    destruct (IH k eq_refl) as [H1 [H2 H3]]. cbn [length nth]. split; [lia|]. split; [exact H2|].
    intros [|j] Hj; cbn [nth]; [discriminate|]. apply H3. lia.
  - injection H as <-. cbn [length nth]. split; [lia|]. split; [reflexivity|]. intros j Hj. lia.
Qed.

Lemma first_empty_none : forall l, first_empty l = None -> forall j, j < length l -> slot l j <> None.
Proof.
  unfold slot. induction l as [|h t IH]; intros H j Hj; [cbn in Hj; lia|].
  cbn [first_empty] in H. destruct h as [y|]; [|discriminate].
  destruct (first_empty t) eqn:E; [discriminate|].
  destruct j as [|j]; cbn [nth]; [discriminate|]. apply IH; [reflexivity|]. cbn [length] in Hj. lia.
Qed.

Lemma len2 {A} (l : list A) : length l = 2 -> exists a b, l = [a; b].
Proof.
  destruct l as [|a [|b [|c t]]]; cbn; intros H; try discriminate. exists a, b. reflexivity.
Qed.

Lemma slot2 a b j : slot [a; b] j = match j with 0 => a | 1 => b | _ => None end.
Proof. unfold slot. destruct j as [|[|[|j]]]; reflexivity. Qed.
