(* Proofs about the BinaryNode heap model (Heap/Binary.v): the two-slot invariant BWF is preserved
   by every operation (accepted, rejected or failing), the effect clauses of C11, atomicity of a
   rejected / failing assignment (C02, BinaryNode share) and irrelevance of the assertion switch for
   accepted operations (C20, BinaryNode share). *)
From BT Require Import Base.Prelude Heap.Forest Heap.Binary Spec.PC11.

(* ========================================================================================== *)
(* 1. slot lists *)

Lemma upd_same {A} (f : id -> A) k v : upd f k v k = v.
Proof. unfold upd. rewrite Nat.eqb_refl. reflexivity. Qed.
Lemma upd_other {A} (f : id -> A) k v x : x <> k -> upd f k v x = f x.
Proof. unfold upd. intros H. destruct (Nat.eqb_spec x k); [contradiction|reflexivity]. Qed.

Lemma set_nth_length {A} (v : A) : forall l i, length (set_nth i v l) = length l.
Proof.
  induction l as [|h t IH]; intros i; [reflexivity|].
  destruct i; cbn [set_nth length]; [reflexivity|]. rewrite IH. reflexivity.
Qed.

Lemma slot_set_nth v : forall l i j,
  slot (set_nth i v l) j = if Nat.eqb j i && Nat.ltb i (length l) then v else slot l j.
Proof.
  unfold slot. induction l as [|h t IH]; intros i j.
  - cbn [set_nth length]. rewrite Bool.andb_false_r. reflexivity.
  - destruct i as [|i]; destruct j as [|j]; cbn [set_nth nth length]; try reflexivity.
    rewrite IH. change (Nat.eqb (S j) (S i)) with (Nat.eqb j i).
    change (Nat.ltb (S i) (S (length t))) with (Nat.ltb i (length t)). reflexivity.
Qed.

Lemma slot_In l i x : slot l i = Some x -> In (Some x) l.
Proof.
  unfold slot. intros H. destruct (Nat.lt_ge_cases i (length l)) as [Hlt|Hge].
  - rewrite <- H. apply nth_In. exact Hlt.
  - rewrite nth_overflow in H by exact Hge. discriminate.
Qed.

Lemma slot_lt l i x : slot l i = Some x -> i < length l.
Proof.
  unfold slot. intros H. destruct (Nat.lt_ge_cases i (length l)) as [Hlt|Hge]; [exact Hlt|].
  rewrite nth_overflow in H by exact Hge. discriminate.
Qed.

Lemma In_slot l x : In (Some x) l -> exists i, slot l i = Some x.
Proof. intros H. destruct (In_nth l (Some x) None H) as [i [_ Hi]]. exists i. exact Hi. Qed.

Lemma slot_ext l l' : length l = length l' -> (forall j, slot l j = slot l' j) -> l = l'.
Proof. intros Hl H. apply (nth_ext l l' None None Hl). intros n _. apply H. Qed.

Lemma slot_mem_In x l : slot_mem x l = true <-> In (Some x) l.
Proof.
  unfold slot_mem. rewrite existsb_exists. split.
  - intros [[y|] [Hy E]]; [|discriminate]. apply Nat.eqb_eq in E. subst. exact Hy.
  - intros H. exists (Some x). split; [exact H|apply Nat.eqb_refl].
Qed.

Lemma slot_mem_false x l : slot_mem x l = false <-> ~ In (Some x) l.
Proof.
  rewrite <- slot_mem_In. destruct (slot_mem x l); split; intros H; congruence.
Qed.

Lemma slot_index_spec x : forall l, In (Some x) l ->
  slot_index x l < length l /\ slot l (slot_index x l) = Some x.
Proof.
  unfold slot. induction l as [|h t IH]; intros H; [contradiction|].
  cbn [slot_index]. destruct h as [y|].
  - destruct (Nat.eqb_spec x y) as [->|Hne]; cbn [length nth].
    + split; [lia|reflexivity].
    + destruct H as [H|H]; [congruence|]. destruct (IH H). split; [lia|assumption].
  - destruct H as [H|H]; [discriminate|]. destruct (IH H). cbn [length nth]. split; [lia|assumption].
Qed.

Lemma slot_index_absent x : forall l, ~ In (Some x) l -> slot_index x l = length l.
Proof.
  induction l as [|h t IH]; intros H; [reflexivity|].
  cbn [slot_index length]. destruct h as [y|].
  - destruct (Nat.eqb_spec x y) as [->|Hne]; [exfalso; apply H; left; reflexivity|].
    rewrite IH; [reflexivity|]. intros Hin. apply H. right. exact Hin.
  - rewrite IH; [reflexivity|]. intros Hin. apply H. right. exact Hin.
Qed.

(* a node occupies at most one slot of the list *)
Definition once (l : list (option id)) : Prop :=
  forall i j x, slot l i = Some x -> slot l j = Some x -> i = j.

Lemma slot_index_once l i x : once l -> slot l i = Some x -> slot_index x l = i.
Proof.
  intros Ho H. destruct (slot_index_spec x l (slot_In _ _ _ H)) as [_ H2]. exact (Ho _ _ _ H2 H).
Qed.

(* emptying the slots that hold x *)
Definition rm (x : id) (o : option id) : option id :=
  match o with Some y => if Nat.eqb x y then None else Some y | None => None end.

Lemma rm_Some x o y : rm x o = Some y <-> o = Some y /\ y <> x.
Proof.
  unfold rm. destruct o as [z|]; [|split; [discriminate|intros [? _]; discriminate]].
  destruct (Nat.eqb_spec x z) as [->|Hne]; split.
  - discriminate.
  - intros [[= ->] H]. congruence.
  - intros [= ->]. split; [reflexivity|congruence].
  - intros [[= ->] _]. reflexivity.
Qed.

Lemma rm_absent x o : o <> Some x -> rm x o = o.
Proof.
  unfold rm. destruct o as [z|]; [|reflexivity]. intros H.
  destruct (Nat.eqb_spec x z) as [->|Hne]; [congruence|reflexivity].
Qed.

Lemma clear_slot_length x l : length (clear_slot x l) = length l.
Proof. apply set_nth_length. Qed.

Lemma slot_clear x l j : once l -> slot (clear_slot x l) j = rm x (slot l j).
Proof.
  intros Ho. unfold clear_slot. rewrite slot_set_nth.
  destruct (slot_mem x l) eqn:Em.
  - apply slot_mem_In in Em. destruct (slot_index_spec x l Em) as [Hlt Hs].
    apply Nat.ltb_lt in Hlt. rewrite Hlt, Bool.andb_true_r.
    destruct (Nat.eqb_spec j (slot_index x l)) as [->|Hne].
    + rewrite Hs. unfold rm. rewrite Nat.eqb_refl. reflexivity.
    + symmetry. apply rm_absent. intros H. apply Hne. exact (Ho _ _ _ H Hs).
  - apply slot_mem_false in Em. rewrite (slot_index_absent x l Em), Nat.ltb_irrefl, Bool.andb_false_r.
    symmetry. apply rm_absent. intros H. apply Em. exact (slot_In _ _ _ H).
Qed.

Lemma once_clear x l : once l -> once (clear_slot x l).
Proof.
  intros Ho i j y Hi Hj. rewrite slot_clear in Hi, Hj by exact Ho.
  apply rm_Some in Hi. apply rm_Some in Hj. exact (Ho _ _ _ (proj1 Hi) (proj1 Hj)).
Qed.

Lemma clear_absent x l : ~ In (Some x) l -> clear_slot x l = l.
Proof.
  intros H. apply slot_ext; [apply clear_slot_length|]. intros j.
  unfold clear_slot. rewrite slot_set_nth, (slot_index_absent x l H), Nat.ltb_irrefl, Bool.andb_false_r.
  reflexivity.
Qed.

Lemma first_empty_some : forall l i, first_empty l = Some i ->
  i < length l /\ slot l i = None /\ forall j, j < i -> slot l j <> None.
Proof.
  unfold slot. induction l as [|h t IH]; intros i H; [discriminate|].
  cbn [first_empty] in H. destruct h as [y|].
  - destruct (first_empty t) as [k|] eqn:E; [|discriminate]. injection H as <-.
    destruct (IH k eq_refl) as [H1 [H2 H3]]. cbn [length nth]. split; [lia|]. split; [exact H2|].
    intros [|j] Hj; cbn [nth]; [discriminate|]. apply H3. lia.
  - injection H as <-. cbn [length nth]. split; [lia|]. split; [reflexivity|]. intros j Hj. lia.
Qed.

Lemma first_empty_none : forall l, first_empty l = None -> forall j, j < length l -> slot l j <> None.
Proof.
  unfold slot. induction l as [|h t IH]; intros H j Hj; [cbn in Hj; lia|].
  cbn [first_empty] in H. destruct h as [y|]; [|discriminate].
  destruct (first_empty t) eqn:E; [discriminate|].
  destruct j as [|j]; cbn [nth]; [discriminate|]. apply IH; [reflexivity|]. cbn [length] in Hj. lia.
Qed.

Lemma len2 {A} (l : list A) : length l = 2 -> exists a b, l = [a; b].
Proof.
  destruct l as [|a [|b [|c t]]]; cbn; intros H; try discriminate. exists a, b. reflexivity.
Qed.

Lemma slot2 a b j : slot [a; b] j = match j with 0 => a | 1 => b | _ => None end.
Proof. unfold slot. destruct j as [|[|[|j]]]; reflexivity. Qed.

(* ========================================================================================== *)
(* 2. the invariant *)

Record BWF (s : bheap) : Prop := {
  bw_len   : forall p, length (bkids s p) = 2;                                  (* exactly two slots   *)
  bw_down  : forall p i c, slot (bkids s p) i = Some c -> bpar s c = Some p;    (* slot -> parent      *)
  bw_up    : forall c p, bpar s c = Some p -> exists i, slot (bkids s p) i = Some c;  (* parent -> slot *)
  bw_once  : forall p, once (bkids s p);                                        (* in one slot only    *)
  bw_bound : forall c p, bpar s c = Some p -> c < bsize s /\ p < bsize s;       (* links among live ids *)
  bw_acyc  : exists r : id -> nat, forall c p, bpar s c = Some p -> r p < r c   (* ghost rank           *)
}.

(* pointwise equality of states (no functional extensionality) *)
Definition beq (s t : bheap) : Prop :=
  bsize s = bsize t /\ (forall x, bpar s x = bpar t x) /\ (forall x, bkids s x = bkids t x).

Lemma beq_refl s : beq s s.
Proof. repeat split. Qed.
Lemma beq_sym s t : beq s t -> beq t s.
Proof. intros [H1 [H2 H3]]. repeat split; intros; symmetry; auto. Qed.
Lemma beq_trans s t u : beq s t -> beq t u -> beq s u.
Proof.
  intros [H1 [H2 H3]] [G1 [G2 G3]]. split; [congruence|].
  split; intros x; [rewrite H2; apply G2|rewrite H3; apply G3].
Qed.

Lemma BWF_beq s t : BWF s -> beq s t -> BWF t.
Proof.
  intros [Hl Hd Hu Ho Hb [r Hr]] [E1 [E2 E3]]. constructor.
  - intros p. rewrite <- E3. apply Hl.
  - intros p i c. rewrite <- E3, <- E2. apply Hd.
  - intros c p. rewrite <- E2, <- E3. apply Hu.
  - intros p. rewrite <- E3. apply Ho.
  - intros c p. rewrite <- E2, <- E1. apply Hb.
  - exists r. intros c p. rewrite <- E2. apply Hr.
Qed.

Lemma memb_In x l : memb x l = true <-> In x l.
Proof.
  unfold memb. rewrite existsb_exists. split.
  - intros [y [Hy E]]. apply Nat.eqb_eq in E. subst. exact Hy.
  - intros H. exists x. split; [exact H|apply Nat.eqb_refl].
Qed.

Lemma BWF_init n : BWF (binit n).
Proof.
  constructor; cbn [binit bkids bpar bsize]; try discriminate.
  - reflexivity.
  - intros p i c. rewrite slot2. destruct i as [|[|i]]; discriminate.
  - intros p i j x. rewrite slot2. destruct i as [|[|i]]; discriminate.
  - exists (fun _ => 0). discriminate.
Qed.

(* ------------------------------------------------------------------------------------------ *)
(* the fuelled parent walk on a ranked state: fuel = bsize is never exhausted *)

Section Chain.
Variable s : bheap.
Variable r : id -> nat.
Hypothesis Hr : forall c p, bpar s c = Some p -> r p < r c.
Hypothesis Hb : forall c p, bpar s c = Some p -> c < bsize s /\ p < bsize s.

Lemma banc_rank f : forall c x, In x (banc s f c) -> r x < r c.
Proof.
  induction f as [|f IH]; cbn [banc]; intros c x Hx; [contradiction|].
  destruct (bpar s c) as [p|] eqn:E; [|contradiction].
  destruct Hx as [->|Hx]; [eauto|]. specialize (IH _ _ Hx). specialize (Hr _ _ E). lia.
Qed.

Lemma banc_nodup f : forall c, NoDup (banc s f c).
Proof.
  induction f as [|f IH]; cbn [banc]; intros c; [constructor|].
  destruct (bpar s c) as [p|] eqn:E; [|constructor].
  constructor; [|apply IH]. intros H. apply banc_rank in H. lia.
Qed.

Lemma banc_bound f : forall c x, In x (banc s f c) -> x < bsize s.
Proof.
  induction f as [|f IH]; cbn [banc]; intros c x Hx; [contradiction|].
  destruct (bpar s c) as [p|] eqn:E; [|contradiction].
  destruct Hx as [->|Hx]; [apply (Hb _ _ E)|eauto].
Qed.

Lemma banc_len_lt f c : bsize s <= f -> bpar s c <> None -> length (banc s f c) < f.
Proof.
  intros Hf Hc.
  assert (Hnd : NoDup (c :: banc s f c)).
  { constructor; [|apply banc_nodup]. intros H. apply banc_rank in H. lia. }
  assert (Hin : incl (c :: banc s f c) (seq 0 (bsize s))).
  { intros x [<-|Hx]; apply in_seq.
    - destruct (bpar s c) as [p|] eqn:E; [|congruence]. destruct (Hb _ _ E). lia.
    - apply banc_bound in Hx. lia. }
  pose proof (NoDup_incl_length Hnd Hin) as H. rewrite seq_length in H. cbn [length] in H. lia.
Qed.

Lemma banc_short_stable f : forall c, length (banc s f c) < f -> banc s (S f) c = banc s f c.
Proof.
  induction f as [|f IH]; intros c H; [cbn in H; lia|].
  cbn [banc] in *. destruct (bpar s c) as [p|]; [|reflexivity].
  cbn [length] in H. f_equal. apply IH. lia.
Qed.

Lemma banc_fix f c : bsize s <= f -> banc s (S f) c = banc s f c.
Proof.
  intros Hf. case_eq (bpar s c); [intros p E|intros E].
  - apply banc_short_stable, banc_len_lt; [assumption|congruence].
  - cbn [banc]. rewrite E. destruct f; cbn [banc]; rewrite ?E; reflexivity.
Qed.

Lemma bancestors_unfold c p : bpar s c = Some p -> bancestors s c = p :: bancestors s p.
Proof.
  intros E. unfold bancestors. rewrite <- (banc_fix (bsize s) c) by lia.
  cbn [banc]. rewrite E. reflexivity.
Qed.

Lemma bancestors_root c : bpar s c = None -> bancestors s c = [].
Proof. intros E. unfold bancestors. destruct (bsize s); cbn [banc]; rewrite ?E; reflexivity. Qed.

(* the walk from any node ends at a root within bsize steps *)
Lemma banc_len_le c : length (bancestors s c) <= bsize s.
Proof.
  case_eq (bpar s c); [intros p E|intros E].
  - assert (H := banc_len_lt (bsize s) c (le_n _)). rewrite E in H. specialize (H ltac:(discriminate)).
    unfold bancestors. lia.
  - rewrite (bancestors_root c E). cbn. lia.
Qed.
End Chain.

Lemma existsb_ext_in {A} (f g : A -> bool) l :
  (forall x, In x l -> f x = g x) -> existsb f l = existsb g l.
Proof.
  induction l as [|h t IH]; intros H; [reflexivity|]. cbn [existsb].
  rewrite (H h (or_introl eq_refl)), IH; [reflexivity|]. intros x Hx. apply H. right. exact Hx.
Qed.

(* re-ranking after the nodes `ms` (with their subtrees) have been hung below p *)
Lemma rerank s (ms : list id) p (par' : id -> option id) :
  BWF s ->
  (forall x, In x ms -> x <> p /\ ~ In x (bancestors s p)) ->
  (forall c q, par' c = Some q -> (In c ms /\ q = p) \/ (~ In c ms /\ bpar s c = Some q)) ->
  exists r', forall c q, par' c = Some q -> r' q < r' c.
Proof.
  intros [_ _ _ _ Hb [r Hr]] Hms Hpar.
  set (D := fun x => existsb (fun m => Nat.eqb x m || memb m (bancestors s x)) ms).
  exists (fun x => if D x then r x + r p + 1 else r x).
  intros c q E. destruct (Hpar c q E) as [[Hin ->]|[Hnin Eold]].
  - assert (D p = false) as ->.
    { destruct (D p) eqn:ED; [|reflexivity]. unfold D in ED. apply existsb_exists in ED.
      destruct ED as [m [Hm Hor]]. destruct (Hms m Hm) as [Hne Hna].
      apply orb_true_iff in Hor. destruct Hor as [H|H].
      - apply Nat.eqb_eq in H. congruence.
      - apply memb_In in H. contradiction. }
    assert (D c = true) as ->.
    { unfold D. apply existsb_exists. exists c. split; [exact Hin|]. rewrite Nat.eqb_refl. reflexivity. }
    lia.
  - assert (HD : D c = D q).
    { unfold D. apply existsb_ext_in. intros m Hm.
      rewrite (bancestors_unfold s r Hr Hb c q Eold).
      destruct (Nat.eqb_spec c m) as [->|Hne]; [contradiction|].
      cbn [orb memb existsb]. fold (memb m (bancestors s q)). rewrite (Nat.eqb_sym m q). reflexivity. }
    rewrite HD. specialize (Hr _ _ Eold). destruct (D q); lia.
Qed.

(* ------------------------------------------------------------------------------------------ *)
(* "relinking": node p gets the slot list `news`; the nodes named in `news` leave the slots they sat
   in; the previous children of p that are not named become roots; nothing else changes.  Every
   accepted operation of the model is an instance. *)

Definition rmset (news : list (option id)) (o : option id) : option id :=
  match o with Some y => if slot_mem y news then None else Some y | None => None end.

Lemma rmset_Some news o y : rmset news o = Some y <-> o = Some y /\ slot_mem y news = false.
Proof.
  unfold rmset. destruct o as [z|]; [|split; [discriminate|intros [? _]; discriminate]].
  destruct (slot_mem z news) eqn:E; split.
  - discriminate.
  - intros [[= ->] H]. congruence.
  - intros [= ->]. split; [reflexivity|exact E].
  - intros [[= ->] _]. reflexivity.
Qed.

Record relinked (s s' : bheap) (p : id) (news : list (option id)) : Prop := {
  rl_size : bsize s' = bsize s;
  rl_par  : forall x, bpar s' x = if slot_mem x news then Some p
                                   else if slot_mem x (bkids s p) then None else bpar s x;
  rl_kids_p : bkids s' p = news;
  rl_len  : forall q, q <> p -> length (bkids s' q) = length (bkids s q);
  rl_kids : forall q j, q <> p -> slot (bkids s' q) j = rmset news (slot (bkids s q) j)
}.

Record valid_news (s : bheap) (p : id) (news : list (option id)) : Prop := {
  vn_len : length news = 2;
  vn_once : once news;
  vn_p : p < bsize s;
  vn_in : forall x, In (Some x) news -> x < bsize s /\ x <> p /\ ~ In x (bancestors s p)
}.

Lemma somes_In x l : In x (somes l) <-> In (Some x) l.
Proof.
  induction l as [|[y|] t IH]; cbn [somes In]; [tauto| |].
  - rewrite IH. split; [intros [->|H]; auto|intros [[= ->]|H]; auto].
  - rewrite IH. split; [auto|intros [H|H]; [discriminate|exact H]].
Qed.

Theorem relink_BWF s s' p news : BWF s -> valid_news s p news -> relinked s s' p news -> BWF s'.
Proof.
  intros W [Vl Vo Vp Vin] [Rs Rp Rkp Rl Rk]. pose proof W as [Hl Hd Hu Ho Hb _].
  assert (Hnp : forall c q, q <> p -> bpar s c = Some q -> slot_mem c (bkids s p) = false).
  { intros c q Hq E. apply slot_mem_false. intros Hin. apply In_slot in Hin. destruct Hin as [i Hi].
    apply Hd in Hi. congruence. }
  constructor.
  - intros q. destruct (Nat.eq_dec q p) as [->|Hq]; [rewrite Rkp; exact Vl|rewrite Rl by exact Hq; apply Hl].
  - intros q j c H. destruct (Nat.eq_dec q p) as [->|Hq].
    + rewrite Rkp in H. apply slot_In, slot_mem_In in H. rewrite Rp, H. reflexivity.
    + rewrite Rk in H by exact Hq. apply rmset_Some in H. destruct H as [H Hm].
      apply Hd in H. rewrite Rp, Hm, (Hnp c q Hq H). exact H.
  - intros c q H. rewrite Rp in H. destruct (slot_mem c news) eqn:Em.
    + injection H as <-. apply slot_mem_In, In_slot in Em. rewrite Rkp. exact Em.
    + destruct (slot_mem c (bkids s p)) eqn:Ek; [discriminate|].
      assert (Hq : q <> p).
      { intros ->. apply Hu in H. destruct H as [i Hi]. apply slot_In, slot_mem_In in Hi. congruence. }
      destruct (Hu _ _ H) as [i Hi]. exists i. rewrite Rk by exact Hq. apply rmset_Some. split; assumption.
  - intros q. destruct (Nat.eq_dec q p) as [->|Hq]; [rewrite Rkp; exact Vo|].
    intros i j x Hi Hj. rewrite Rk in Hi, Hj by exact Hq. apply rmset_Some in Hi, Hj.
    exact (Ho q _ _ _ (proj1 Hi) (proj1 Hj)).
  - intros c q H. rewrite Rs. rewrite Rp in H. destruct (slot_mem c news) eqn:Em.
    + injection H as <-. apply slot_mem_In in Em. destruct (Vin c Em) as [Hc _]. split; assumption.
    + destruct (slot_mem c (bkids s p)); [discriminate|]. apply Hb. exact H.
  - apply (rerank s (somes news) p (bpar s') W).
    + intros x Hx. apply somes_In in Hx. destruct (Vin x Hx) as [_ H]. exact H.
    + intros c q H. rewrite Rp in H. destruct (slot_mem c news) eqn:Em.
      * injection H as <-. left. split; [apply somes_In, slot_mem_In; exact Em|reflexivity].
      * destruct (slot_mem c (bkids s p)); [discriminate|]. right. split; [|exact H].
        intros Hin. apply somes_In, slot_mem_In in Hin. congruence.
Qed.

(* ========================================================================================== *)
(* 3. the primitive steps on a well-formed state *)

Lemma bcorrupted_false s c : BWF s -> bcorrupted s c = false.
Proof.
  intros W. unfold bcorrupted. destruct (bpar s c) as [q|] eqn:E; [|reflexivity].
  destruct (bw_up s W _ _ E) as [i Hi]. apply slot_In, slot_mem_In in Hi. rewrite Hi. reflexivity.
Qed.

Lemma kid_not_anc s y p : BWF s -> bpar s y = Some p -> y <> p /\ ~ In y (bancestors s p).
Proof.
  intros W E. pose proof W as [_ _ _ _ Hb [r Hr]]. pose proof (Hr _ _ E) as Hlt. split.
  - intros ->. lia.
  - intros Hin. apply (banc_rank s r Hr) in Hin. lia.
Qed.

Lemma detach_par s c x : bpar (bdetach s c) x = bpar s x.
Proof. unfold bdetach. destruct (bpar s c); reflexivity. Qed.
Lemma detach_size s c : bsize (bdetach s c) = bsize s.
Proof. unfold bdetach. destruct (bpar s c); reflexivity. Qed.

Lemma detach_kids s c q : BWF s ->
  length (bkids (bdetach s c) q) = length (bkids s q)
  /\ forall j, slot (bkids (bdetach s c) q) j = rm c (slot (bkids s q) j).
Proof.
  intros W. pose proof W as [_ Hd _ Ho _ _].
  assert (Hno : bpar s c <> Some q -> forall j, rm c (slot (bkids s q) j) = slot (bkids s q) j).
  { intros Hne j. apply rm_absent. intros H. apply Hd in H. congruence. }
  unfold bdetach. destruct (bpar s c) as [q0|] eqn:E.
  - cbn [bkids bset_kids]. destruct (Nat.eq_dec q q0) as [->|Hq].
    + rewrite upd_same. split; [apply clear_slot_length|]. intros j. apply slot_clear, Ho.
    + rewrite upd_other by exact Hq. split; [reflexivity|]. intros j. symmetry. apply Hno. congruence.
  - split; [reflexivity|]. intros j. symmetry. apply Hno. discriminate.
Qed.

Lemma detach_kids_parent s c q : bpar s c = Some q -> bkids (bdetach s c) q = clear_slot c (bkids s q).
Proof. intros E. unfold bdetach. rewrite E. cbn [bkids bset_kids]. apply upd_same. Qed.

Lemma detach_kids_other s c q : BWF s -> bpar s c <> Some q -> bkids (bdetach s c) q = bkids s q.
Proof.
  intros W Hne. destruct (detach_kids s c q W) as [Hl Hs]. apply slot_ext; [exact Hl|].
  intros j. rewrite Hs. apply rm_absent. intros H. apply (bw_down s W) in H. congruence.
Qed.

(* relinking p with (some of) its own children *)
Lemma relinked_local s s' p news : BWF s ->
  (forall x, In (Some x) news -> In (Some x) (bkids s p)) ->
  bsize s' = bsize s ->
  (forall x, bpar s' x = if slot_mem x (bkids s p) && negb (slot_mem x news) then None else bpar s x) ->
  bkids s' p = news ->
  (forall q, q <> p -> bkids s' q = bkids s q) ->
  relinked s s' p news.
Proof.
  intros W Hsub Hs Hp Hk Hq. pose proof W as [_ Hd _ _ _ _]. constructor.
  - exact Hs.
  - intros x. rewrite Hp. destruct (slot_mem x news) eqn:En.
    + rewrite Bool.andb_false_r. apply slot_mem_In, Hsub, In_slot in En. destruct En as [i Hi].
      exact (Hd _ _ _ Hi).
    + rewrite Bool.andb_true_r. reflexivity.
  - exact Hk.
  - intros q Hne. rewrite Hq by exact Hne. reflexivity.
  - intros q j Hne. rewrite Hq by exact Hne. unfold rmset. destruct (slot (bkids s q) j) as [y|] eqn:E; [|reflexivity].
    destruct (slot_mem y news) eqn:En; [|reflexivity].
    apply slot_mem_In, Hsub, In_slot in En. destruct En as [i Hi]. apply Hd in Hi. apply Hd in E. congruence.
Qed.

Lemma valid_news_local s p news : BWF s -> p < bsize s -> length news = 2 -> once news ->
  (forall x, In (Some x) news -> In (Some x) (bkids s p)) -> valid_news s p news.
Proof.
  intros W Hp Hl Ho Hsub. constructor; try assumption.
  intros x Hx. apply Hsub, In_slot in Hx. destruct Hx as [i Hi]. apply (bw_down s W) in Hi.
  destruct (kid_not_anc s x p W Hi) as [H1 H2]. destruct (bw_bound s W _ _ Hi) as [H3 _]. auto.
Qed.

(* ------------------------------------------------------------------------------------------ *)
(* c.parent = None *)

Lemma once_In_clear x y l : once l -> In (Some y) (clear_slot x l) <-> In (Some y) l /\ y <> x.
Proof.
  intros Ho. split.
  - intros H. apply In_slot in H. destruct H as [i Hi]. rewrite slot_clear in Hi by exact Ho.
    apply rm_Some in Hi. destruct Hi as [Hi Hne]. split; [exact (slot_In _ _ _ Hi)|exact Hne].
  - intros [H Hne]. apply In_slot in H. destruct H as [i Hi]. apply (slot_In _ i).
    rewrite slot_clear by exact Ho. apply rm_Some. split; assumption.
Qed.

Lemma orphan_relinked s c q : BWF s -> bpar s c = Some q ->
  relinked s (bset_par (bdetach s c) c None) q (clear_slot c (bkids s q))
  /\ valid_news s q (clear_slot c (bkids s q)).
Proof.
  intros W E. pose proof W as [Hl Hd Hu Ho Hb _].
  assert (Hsub : forall x, In (Some x) (clear_slot c (bkids s q)) -> In (Some x) (bkids s q)).
  { intros x H. apply once_In_clear in H; [tauto|apply Ho]. }
  split.
  - apply relinked_local; try assumption.
    + cbn [bsize bset_par]. apply detach_size.
    + intros x. cbn [bpar bset_par]. unfold upd. rewrite detach_par.
      destruct (Nat.eqb_spec x c) as [->|Hne].
      * destruct (Hu _ _ E) as [i Hi]. apply slot_In in Hi.
        assert (H1 : slot_mem c (bkids s q) = true) by (apply slot_mem_In; exact Hi).
        assert (H2 : slot_mem c (clear_slot c (bkids s q)) = false).
        { apply slot_mem_false. intros H. apply once_In_clear in H; [tauto|apply Ho]. }
        rewrite H1, H2. reflexivity.
      * destruct (slot_mem x (bkids s q)) eqn:E1; [|reflexivity].
        assert (H2 : slot_mem x (clear_slot c (bkids s q)) = true).
        { apply slot_mem_In, once_In_clear; [apply Ho|]. split; [apply slot_mem_In; exact E1|exact Hne]. }
        rewrite H2. reflexivity.
    + cbn [bkids bset_par]. apply detach_kids_parent. exact E.
    + intros q' Hq'. cbn [bkids bset_par]. apply detach_kids_other; [exact W|congruence].
  - apply valid_news_local; try assumption.
    + apply (Hb _ _ E).
    + rewrite clear_slot_length. apply Hl.
    + apply once_clear, Ho.
Qed.

Lemma orphan_root_beq s c : bpar s c = None -> beq (bset_par (bdetach s c) c None) s.
Proof.
  intros E. unfold bdetach. rewrite E. split; [reflexivity|]. split; [|reflexivity].
  intros x. cbn [bpar bset_par]. unfold upd. destruct (Nat.eqb_spec x c) as [->|_]; congruence.
Qed.

Lemma orphan_BWF s c : BWF s -> BWF (bset_par (bdetach s c) c None).
Proof.
  intros W. destruct (bpar s c) as [q|] eqn:E.
  - destruct (orphan_relinked s c q W E) as [R V]. exact (relink_BWF _ _ _ _ W V R).
  - apply (BWF_beq s); [exact W|]. apply beq_sym, orphan_root_beq. exact E.
Qed.

(* ------------------------------------------------------------------------------------------ *)
(* c.parent = p *)

(* the slot list of p after an accepted `c.parent = p` *)
Definition sp_news (s : bheap) (c p : id) : list (option id) :=
  let l1 := bkids (bdetach s c) p in
  match first_empty l1 with Some i => set_nth i (Some c) l1 | None => l1 end.

Lemma bfull_false s p : bfull s (Some p) = false -> exists i, first_empty (bkids s p) = Some i.
Proof. unfold bfull. destruct (first_empty (bkids s p)) as [i|]; [eauto|discriminate]. Qed.

Lemma sp_news_slot s c p i : BWF s -> first_empty (bkids (bdetach s c) p) = Some i ->
  forall j, slot (sp_news s c p) j = if Nat.eqb j i then Some c else rm c (slot (bkids s p) j).
Proof.
  intros W E j. unfold sp_news. rewrite E. destruct (first_empty_some _ _ E) as [Hi _].
  rewrite slot_set_nth. apply Nat.ltb_lt in Hi. rewrite Hi, Bool.andb_true_r.
  destruct (detach_kids s c p W) as [_ Hs]. rewrite Hs. reflexivity.
Qed.

Lemma sp_news_In s c p i : BWF s -> first_empty (bkids (bdetach s c) p) = Some i ->
  forall x, In (Some x) (sp_news s c p) <-> x = c \/ (x <> c /\ In (Some x) (bkids s p)).
Proof.
  intros W E x. pose proof (sp_news_slot s c p i W E) as HS.
  destruct (first_empty_some _ _ E) as [_ [Hnone _]].
  destruct (detach_kids s c p W) as [_ Hs]. rewrite Hs in Hnone. split.
  - intros H. apply In_slot in H. destruct H as [j Hj]. rewrite HS in Hj.
    destruct (Nat.eqb_spec j i) as [Eji|Hne]; [left; congruence|].
    apply rm_Some in Hj. destruct Hj as [Hj Hx]. right. split; [exact Hx|exact (slot_In _ _ _ Hj)].
  - intros [->|[Hx H]].
    + apply (slot_In _ i). rewrite HS, Nat.eqb_refl. reflexivity.
    + apply In_slot in H. destruct H as [j Hj]. apply (slot_In _ j). rewrite HS.
      destruct (Nat.eqb_spec j i) as [Eji|Hne].
      * subst j. rewrite Hj in Hnone. assert (rm c (Some x) = Some x) by (apply rm_Some; auto). congruence.
      * rewrite Hj. apply rm_Some. auto.
Qed.

Lemma attach_state s c p i : first_empty (bkids (bdetach s c) p) = Some i ->
  battach (bdetach s c) c (Some p)
  = bset_kids (bset_par (bdetach s c) c (Some p)) p (sp_news s c p).
Proof.
  intros E. unfold battach, sp_news. cbn [bkids bset_par]. rewrite E. reflexivity.
Qed.

Lemma attach_relinked s (c p : id) : BWF s -> c < bsize s -> p < bsize s -> p <> c ->
  ~ In c (bancestors s p) -> bfull (bdetach s c) (Some p) = false ->
  relinked s (battach (bdetach s c) c (Some p)) p (sp_news s c p) /\ valid_news s p (sp_news s c p).
Proof.
  intros W Hc Hp Hpc Hanc Hfull. pose proof W as [Hl Hd Hu Ho Hb _].
  destruct (bfull_false _ _ Hfull) as [i E]. rewrite (attach_state s c p i E).
  pose proof (sp_news_slot s c p i W E) as HS. pose proof (sp_news_In s c p i W E) as HM.
  assert (HMb : forall x, slot_mem x (sp_news s c p) = Nat.eqb x c || slot_mem x (bkids s p)).
  { intros x. destruct (slot_mem x (sp_news s c p)) eqn:E1.
    - symmetry. apply slot_mem_In, HM in E1. destruct E1 as [->|[_ H]]; [rewrite Nat.eqb_refl; reflexivity|].
      apply slot_mem_In in H. rewrite H. apply Bool.orb_true_r.
    - symmetry. apply orb_false_iff. destruct (Nat.eqb_spec x c) as [->|Hne].
      + exfalso. apply slot_mem_false in E1. apply E1, HM. left. reflexivity.
      + split; [reflexivity|]. apply slot_mem_false. intros H. apply slot_mem_false in E1.
        apply E1, HM. right. auto. }
  split.
  - constructor.
    + cbn [bsize bset_kids bset_par]. apply detach_size.
    + intros x. cbn [bpar bset_kids bset_par]. unfold upd. rewrite detach_par, HMb.
      destruct (Nat.eqb_spec x c) as [->|Hne]; [reflexivity|]. cbn [orb].
      destruct (slot_mem x (bkids s p)) eqn:E1; [|reflexivity].
      apply slot_mem_In, In_slot in E1. destruct E1 as [j Hj]. exact (Hd _ _ _ Hj).
    + cbn [bkids bset_kids]. apply upd_same.
    + intros q Hq. cbn [bkids bset_kids bset_par]. rewrite upd_other by exact Hq. apply detach_kids, W.
    + intros q j Hq. cbn [bkids bset_kids bset_par]. rewrite upd_other by exact Hq.
      destruct (detach_kids s c q W) as [_ Hs]. rewrite Hs. unfold rm, rmset.
      destruct (slot (bkids s q) j) as [y|] eqn:Ey; [|reflexivity]. rewrite HMb, (Nat.eqb_sym y c).
      destruct (Nat.eqb_spec c y) as [->|Hne]; [reflexivity|]. cbn [orb].
      destruct (slot_mem y (bkids s p)) eqn:E1; [|reflexivity].
      apply slot_mem_In, In_slot in E1. destruct E1 as [k Hk]. apply Hd in Hk. apply Hd in Ey. congruence.
  - constructor.
    + unfold sp_news. rewrite E, set_nth_length. destruct (detach_kids s c p W) as [Hlen _]. rewrite Hlen. apply Hl.
    + intros j1 j2 x H1 H2. rewrite HS in H1, H2.
      destruct (Nat.eqb_spec j1 i) as [->|N1]; destruct (Nat.eqb_spec j2 i) as [->|N2]; try reflexivity.
      * injection H1 as <-. apply rm_Some in H2. tauto.
      * injection H2 as <-. apply rm_Some in H1. tauto.
      * apply rm_Some in H1, H2. exact (Ho p _ _ _ (proj1 H1) (proj1 H2)).
    + exact Hp.
    + intros x Hx. apply HM in Hx. destruct Hx as [->|[_ Hx]]; [auto|].
      apply In_slot in Hx. destruct Hx as [j Hj]. apply Hd in Hj.
      destruct (kid_not_anc s x p W Hj). destruct (Hb _ _ Hj). auto.
Qed.

(* ------------------------------------------------------------------------------------------ *)
(* the except block of the parent setter gives back the state the setter started from *)

Lemma set_nth_restore {A} i (v w : A) l d : i < length l -> nth i l d = v ->
  set_nth i v (set_nth i w l) = l.
Proof.
  revert i. induction l as [|h t IH]; intros i Hi Hv; [cbn in Hi; lia|].
  destruct i as [|i]; cbn [set_nth nth length] in *; [congruence|]. f_equal. apply IH; [lia|exact Hv].
Qed.

Lemma restore_clear c l : In (Some c) l -> set_nth (slot_index c l) (Some c) (clear_slot c l) = l.
Proof.
  intros H. destruct (slot_index_spec c l H) as [Hlt Hs]. unfold clear_slot.
  apply (set_nth_restore _ _ _ _ None); assumption.
Qed.

Lemma clear_filled c i l : ~ In (Some c) l -> i < length l -> slot l i = None ->
  clear_slot c (set_nth i (Some c) l) = l.
Proof.
  intros Hnin Hi Hnone. unfold clear_slot.
  assert (Hidx : slot_index c (set_nth i (Some c) l) = i).
  { assert (Hin : In (Some c) (set_nth i (Some c) l)).
    { apply (slot_In _ i). rewrite slot_set_nth, Nat.eqb_refl. apply Nat.ltb_lt in Hi. rewrite Hi. reflexivity. }
    destruct (slot_index_spec c _ Hin) as [_ Hs]. rewrite slot_set_nth in Hs.
    destruct (Nat.eqb_spec (slot_index c (set_nth i (Some c) l)) i) as [E|Hne]; [exact E|].
    cbn [andb] in Hs. exfalso. apply Hnin. exact (slot_In _ _ _ Hs). }
  rewrite Hidx. apply (set_nth_restore _ _ _ _ None); assumption.
Qed.

(* last step of the except block: put c back into its old slot *)
Lemma restore_beq s st c : BWF s ->
  bsize st = bsize s -> (forall x, bpar st x = bpar s x) ->
  (forall x, bkids st x = bkids (bdetach s c) x) ->
  beq (match bcur_idx s c, bpar s c with
       | Some i, Some q => bset_kids st q (set_nth i (Some c) (bkids st q))
       | _, _ => st
       end) s.
Proof.
  intros W Hs Hp Hk. unfold bcur_idx. destruct (bpar s c) as [q|] eqn:E.
  - split; [exact Hs|]. split; [exact Hp|]. intros x. cbn [bkids bset_kids]. unfold upd.
    destruct (Nat.eqb_spec x q) as [->|Hne].
    + rewrite Hk, (detach_kids_parent s c q E). apply restore_clear.
      destruct (bw_up s W _ _ E) as [i Hi]. exact (slot_In _ _ _ Hi).
    + rewrite Hk. apply detach_kids_other; [exact W|congruence].
  - split; [exact Hs|]. split; [exact Hp|]. intros x. rewrite Hk. unfold bdetach. rewrite E. reflexivity.
Qed.

Lemma parent_rollback_beq s c np : BWF s ->
  (forall p, np = Some p -> p <> c) ->
  beq (bparent_rollback (battach (bdetach s c) c np) c (bpar s c) np (bcur_idx s c)) s.
Proof.
  intros W Hnp. unfold bparent_rollback.
  set (st1 := match np with
              | Some p => if slot_mem c (bkids (battach (bdetach s c) c np) p)
                          then bset_kids (battach (bdetach s c) c np) p
                                 (clear_slot c (bkids (battach (bdetach s c) c np) p))
                          else battach (bdetach s c) c np
              | None => battach (bdetach s c) c np end).
  assert (H1 : bsize st1 = bsize s /\ (forall x, bpar st1 x = upd (bpar s) c np x)
               /\ forall x, bkids st1 x = bkids (bdetach s c) x).
  { unfold st1. destruct np as [p|].
    - specialize (Hnp p eq_refl).
      assert (Hc1 : ~ In (Some c) (bkids (bdetach s c) p)).
      { intros H. apply In_slot in H. destruct H as [j Hj]. destruct (detach_kids s c p W) as [_ Hs].
        rewrite Hs in Hj. apply rm_Some in Hj. tauto. }
      destruct (first_empty (bkids (bdetach s c) p)) as [i|] eqn:E.
      + rewrite (attach_state s c p i E). cbn [bkids bset_kids bset_par]. rewrite upd_same.
        destruct (first_empty_some _ _ E) as [Hi [Hnone _]].
        assert (Hm : slot_mem c (sp_news s c p) = true).
        { apply slot_mem_In, (sp_news_In s c p i W E). left. reflexivity. }
        rewrite Hm. cbn [bsize bpar bkids bset_kids bset_par]. split; [apply detach_size|]. split.
        * intros x. unfold upd. rewrite detach_par. reflexivity.
        * intros x. unfold upd. destruct (Nat.eqb_spec x p) as [->|Hne]; [|reflexivity].
          unfold sp_news. rewrite E. apply clear_filled; assumption.
      + unfold battach. cbn [bkids bset_par]. rewrite E. cbn [bkids bset_par].
        assert (Hm : slot_mem c (bkids (bdetach s c) p) = false) by (apply slot_mem_false; exact Hc1).
        rewrite Hm. cbn [bsize bpar bkids bset_par]. split; [apply detach_size|]. split; [|reflexivity].
        intros x. unfold upd. rewrite detach_par. reflexivity.
    - unfold battach. cbn [bsize bpar bkids bset_par]. split; [apply detach_size|]. split; [|reflexivity].
      intros x. unfold upd. rewrite detach_par. reflexivity. }
  destruct H1 as [Hs [Hp Hk]]. fold st1.
  change (match bcur_idx s c, bpar s c with
          | Some i, Some q => bset_kids (bset_par st1 c (bpar s c)) q
                                (set_nth i (Some c) (bkids (bset_par st1 c (bpar s c)) q))
          | _, _ => bset_par st1 c (bpar s c) end)
    with (match bcur_idx s c, bpar s c with
          | Some i, Some q => bset_kids (bset_par st1 c (bpar s c)) q
                                (set_nth i (Some c) (bkids (bset_par st1 c (bpar s c)) q))
          | _, _ => bset_par st1 c (bpar s c) end).
  apply restore_beq; [exact W|exact Hs| |exact Hk].
  intros x. cbn [bpar bset_par]. unfold upd at 1. rewrite Hp. unfold upd.
  destruct (Nat.eqb_spec x c) as [->|_]; reflexivity.
Qed.

(* ------------------------------------------------------------------------------------------ *)
(* the parent setter as a whole *)

Lemma loop_false s (c p : id) : bparent_loop s c (Some p) = false -> p <> c /\ ~ In c (bancestors s p).
Proof.
  unfold bparent_loop. intros H. apply orb_false_iff in H. destruct H as [H1 H2].
  apply Nat.eqb_neq in H1. split; [exact H1|]. intros Hin. apply memb_In in Hin. congruence.
Qed.

Lemma set_parent_sound cfg ft s (c : id) a : BWF s -> c < bsize s -> barg_in_range s a = true ->
  (snd (bset_parent cfg ft s c a) <> Ok -> beq (fst (bset_parent cfg ft s c a)) s)
  /\ BWF (fst (bset_parent cfg ft s c a)).
Proof.
  intros W Hc Ha.
  assert (Hrej : forall t o, beq t s -> (snd (t, o) <> Ok -> beq (fst (t, o)) s) /\ BWF (fst (t, o))).
  { intros t o Hb. cbn [fst snd]. split; [intros _; exact Hb|]. apply (BWF_beq s); [exact W|apply beq_sym, Hb]. }
  unfold bset_parent. destruct a as [p| |]; cbv zeta.
  - destruct (bparent_loop s c (Some p)) eqn:EL; [apply Hrej, beq_refl|].
    destruct (loop_false s c p EL) as [Hpc Hanc].
    destruct (fault_eqb ft PreFail); [apply Hrej, beq_refl|].
    rewrite (bcorrupted_false s c W).
    assert (Hroll := parent_rollback_beq s c (Some p) W ltac:(intros p' [= <-]; exact Hpc)).
    destruct (bfull (bdetach s c) (Some p)) eqn:EF; [apply Hrej, Hroll|].
    destruct (fault_eqb ft PostFail); [apply Hrej, Hroll|].
    cbn [fst snd]. split; [congruence|].
    cbn [barg_in_range] in Ha. apply Nat.ltb_lt in Ha.
    destruct (attach_relinked s c p W Hc Ha Hpc Hanc EF) as [R V]. exact (relink_BWF _ _ _ _ W V R).
  - cbn [bparent_loop bfull].
    destruct (fault_eqb ft PreFail); [apply Hrej, beq_refl|].
    rewrite (bcorrupted_false s c W).
    assert (Hroll := parent_rollback_beq s c None W ltac:(discriminate)).
    destruct (fault_eqb ft PostFail); [apply Hrej, Hroll|].
    cbn [fst snd]. split; [congruence|]. unfold battach. apply orphan_BWF, W.
  - apply Hrej, beq_refl.
Qed.

(* ------------------------------------------------------------------------------------------ *)
(* del p.children *)

Lemma orphan_explicit st (c p : id) : bpar st c = Some p ->
  bsize (borphan st (Some c)) = bsize st
  /\ (forall x, bpar (borphan st (Some c)) x = upd (bpar st) c None x)
  /\ (forall q, bkids (borphan st (Some c)) q = upd (bkids st) p (clear_slot c (bkids st p)) q).
Proof. intros E. unfold borphan, bdetach. rewrite E. repeat split. Qed.

Lemma eqb_refl_if {A} (x : id) (a b : A) : (if Nat.eqb x x then a else b) = a.
Proof. rewrite Nat.eqb_refl. reflexivity. Qed.

Lemma del_state s (p : id) l r : BWF s -> bkids s p = [l; r] ->
  bsize (bdel_children s p) = bsize s
  /\ (forall x, bpar (bdel_children s p) x = if slot_mem x [l; r] then None else bpar s x)
  /\ (forall q, bkids (bdel_children s p) q = if Nat.eqb q p then [None; None] else bkids s q).
Proof.
  intros W E.
  assert (Hl : forall c, l = Some c -> bpar s c = Some p).
  { intros c ->. apply (bw_down s W p 0). rewrite E. reflexivity. }
  assert (Hr : forall d, r = Some d -> bpar s d = Some p).
  { intros d ->. apply (bw_down s W p 1). rewrite E. reflexivity. }
  assert (Hne : forall c, l = Some c -> r = Some c -> False).
  { intros c -> ->. assert (H := bw_once s W p 0 1 c). rewrite E in H. specialize (H eq_refl eq_refl). discriminate. }
  unfold bdel_children. rewrite E. cbn [fold_left].
  destruct l as [c|]; destruct r as [d|].
  - assert (Hcd : d <> c) by (intros ->; exact (Hne c eq_refl eq_refl)).
    destruct (orphan_explicit s c p (Hl c eq_refl)) as [S1 [P1 K1]].
    assert (Ed : bpar (borphan s (Some c)) d = Some p).
    { rewrite P1, upd_other by exact Hcd. exact (Hr d eq_refl). }
    destruct (orphan_explicit _ d p Ed) as [S2 [P2 K2]].
    split; [congruence|]. split.
    + intros x. rewrite P2. unfold upd at 1. rewrite P1. unfold upd. cbn [slot_mem existsb].
      destruct (Nat.eqb_spec x d); destruct (Nat.eqb_spec x c); reflexivity.
    + intros q. rewrite K2. unfold upd at 1. rewrite !K1, upd_same, E. unfold upd.
      destruct (Nat.eqb_spec q p) as [->|Hq]; [|reflexivity].
      unfold clear_slot. cbn [slot_index]. rewrite !eqb_refl_if. cbn [set_nth slot_index].
      rewrite eqb_refl_if. reflexivity.
  - destruct (orphan_explicit s c p (Hl c eq_refl)) as [S1 [P1 K1]]. cbn [borphan].
    split; [exact S1|]. split.
    + intros x. rewrite P1. unfold upd. cbn [slot_mem existsb].
      destruct (Nat.eqb_spec x c); reflexivity.
    + intros q. rewrite K1, E. unfold upd. destruct (Nat.eqb_spec q p) as [->|Hq]; [|reflexivity].
      unfold clear_slot. cbn [slot_index]. rewrite eqb_refl_if. reflexivity.
  - destruct (orphan_explicit s d p (Hr d eq_refl)) as [S1 [P1 K1]]. cbn [borphan] in *.
    split; [exact S1|]. split.
    + intros x. rewrite P1. unfold upd. cbn [slot_mem existsb].
      destruct (Nat.eqb_spec x d); reflexivity.
    + intros q. rewrite K1, E. unfold upd. destruct (Nat.eqb_spec q p) as [->|Hq]; [|reflexivity].
      unfold clear_slot. cbn [slot_index]. rewrite eqb_refl_if. reflexivity.
  - cbn [borphan]. split; [reflexivity|]. split; [reflexivity|].
    intros q. destruct (Nat.eqb_spec q p) as [->|Hq]; [exact E|reflexivity].
Qed.

Lemma del_relinked s (p : id) : BWF s -> p < bsize s ->
  relinked s (bdel_children s p) p [None; None] /\ valid_news s p [None; None].
Proof.
  intros W Hp. split.
  2:{ apply valid_news_local; try assumption; try reflexivity.
      - intros i j x. rewrite slot2. destruct i as [|[|i]]; discriminate.
      - intros x [H|[H|[]]]; discriminate. }
  destruct (len2 _ (bw_len s W p)) as [l [r E]].
  destruct (del_state s p l r W E) as [S [P K]].
  apply relinked_local; try assumption.
  - intros x [H|[H|[]]]; discriminate.
  - intros x. rewrite P, E. cbn [slot_mem existsb]. rewrite Bool.andb_true_r. reflexivity.
  - rewrite K, Nat.eqb_refl. reflexivity.
  - intros q Hq. rewrite K. apply Nat.eqb_neq in Hq. rewrite Hq. reflexivity.
Qed.

Lemma del_BWF s (p : id) : BWF s -> p < bsize s -> BWF (bdel_children s p).
Proof. intros W Hp. destruct (del_relinked s p W Hp) as [R V]. exact (relink_BWF _ _ _ _ W V R). Qed.

(* ------------------------------------------------------------------------------------------ *)
(* p.children = [a; b]: the stealing loop, started from the state `sd` left by `del p.children` *)

Definition rmo (o : option id) (v : option id) : option id :=
  match o with Some x => rm x v | None => v end.

Lemma rmo_erases o v z : rmo o v = Some z -> v = Some z.
Proof. destruct o as [x|]; cbn [rmo]; [|auto]. intros H. apply rm_Some in H. tauto. Qed.

Lemma once_erased (F : option id -> option id) l l' :
  (forall v z, F v = Some z -> v = Some z) ->
  (forall j, slot l' j = F (slot l j)) -> once l -> once l'.
Proof.
  intros HF Hs Ho i j x Hi Hj. rewrite Hs in Hi, Hj. exact (Ho _ _ _ (HF _ _ Hi) (HF _ _ Hj)).
Qed.

Lemma steal_inv sd st (p : id) o (F : option id -> option id) : BWF sd ->
  (forall v z, F v = Some z -> v = Some z) ->
  (forall q, q <> p -> length (bkids st q) = length (bkids sd q)
                       /\ forall j, slot (bkids st q) j = F (slot (bkids sd q) j)) ->
  (forall x, o = Some x -> bpar st x = bpar sd x /\ bpar sd x <> Some p) ->
  bsize (bsteal p st o) = bsize st
  /\ (forall z, bpar (bsteal p st o) z = match o with Some x => upd (bpar st) x (Some p) z | None => bpar st z end)
  /\ bkids (bsteal p st o) p = bkids st p
  /\ (forall q, q <> p -> length (bkids (bsteal p st o) q) = length (bkids sd q)
                          /\ forall j, slot (bkids (bsteal p st o) q) j = rmo o (F (slot (bkids sd q) j))).
Proof.
  intros W HF Hinv Ho. destruct o as [x|]; cbn [bsteal rmo].
  2:{ repeat split; try reflexivity; apply Hinv; assumption. }
  destruct (Ho x eq_refl) as [Ex Hxp]. cbn [bsize bpar bkids bset_par].
  split; [apply detach_size|]. split; [intros z; unfold upd; rewrite detach_par; reflexivity|].
  assert (Hno : forall q, q <> p -> bpar sd x <> Some q -> forall j, rm x (F (slot (bkids sd q) j)) = F (slot (bkids sd q) j)).
  { intros q Hq Hne j. apply rm_absent. intros H. apply HF in H. apply (bw_down sd W) in H. congruence. }
  unfold bdetach. rewrite Ex. destruct (bpar sd x) as [q0|] eqn:E0.
  - assert (Hq0 : q0 <> p) by congruence. cbn [bkids bset_kids]. split; [apply upd_other; congruence|].
    intros q Hq. destruct (Hinv q Hq) as [Hlen Hs]. destruct (Nat.eq_dec q q0) as [->|Hne].
    + rewrite upd_same. split; [rewrite clear_slot_length; exact Hlen|]. intros j.
      rewrite slot_clear; [rewrite Hs; reflexivity|].
      exact (once_erased F _ _ HF Hs (bw_once sd W q0)).
    + rewrite upd_other by exact Hne. split; [exact Hlen|]. intros j. rewrite Hs. symmetry.
      apply Hno; [exact Hq|congruence].
  - split; [reflexivity|]. intros q Hq. destruct (Hinv q Hq) as [Hlen Hs]. split; [exact Hlen|].
    intros j. rewrite Hs. symmetry. apply Hno; [exact Hq|discriminate].
Qed.

Lemma rmset_rmo a b v : rmset [a; b] v = rmo b (rmo a v).
Proof.
  unfold rmset. destruct v as [z|]; [|destruct a, b; reflexivity].
  cbn [slot_mem existsb]. destruct a as [x|]; destruct b as [y|]; cbn [rmo rm orb].
  - rewrite (Nat.eqb_sym z x), (Nat.eqb_sym z y). destruct (Nat.eqb x z); cbn [orb rm]; [reflexivity|].
    rewrite Bool.orb_false_r. destruct (Nat.eqb y z); reflexivity.
  - rewrite (Nat.eqb_sym z x), Bool.orb_false_r. destruct (Nat.eqb x z); reflexivity.
  - rewrite (Nat.eqb_sym z y), Bool.orb_false_r. destruct (Nat.eqb y z); reflexivity.
  - reflexivity.
Qed.

Lemma no_kids_parent sd (p x : id) : BWF sd -> bkids sd p = [None; None] -> bpar sd x <> Some p.
Proof.
  intros W E H. destruct (bw_up sd W _ _ H) as [i Hi]. rewrite E, slot2 in Hi.
  destruct i as [|[|i]]; discriminate.
Qed.

Lemma steal_relinked sd (p : id) a b : BWF sd -> bkids sd p = [None; None] ->
  (forall x, a = Some x -> b = Some x -> False) ->
  relinked sd (fold_left (bsteal p) [a; b] (bset_kids sd p [a; b])) p [a; b].
Proof.
  intros W E Hab. cbn [fold_left]. set (st0 := bset_kids sd p [a; b]).
  assert (I0 : forall q, q <> p -> length (bkids st0 q) = length (bkids sd q)
                                   /\ forall j, slot (bkids st0 q) j = (fun v => v) (slot (bkids sd q) j)).
  { intros q Hq. unfold st0. cbn [bkids bset_kids]. rewrite upd_other by exact Hq. split; reflexivity. }
  destruct (steal_inv sd st0 p a (fun v => v) W ltac:(auto) I0) as [S1 [P1 [K1 I1]]].
  { intros x _. split; [reflexivity|]. apply no_kids_parent; assumption. }
  destruct (steal_inv sd (bsteal p st0 a) p b (fun v => rmo a v) W (rmo_erases a) I1) as [S2 [P2 [K2 I2]]].
  { intros y Hy. split; [|apply no_kids_parent; assumption]. rewrite P1. destruct a as [x|]; [|reflexivity].
    apply upd_other. intros ->. exact (Hab x eq_refl Hy). }
  constructor.
  - rewrite S2, S1. reflexivity.
  - intros z. rewrite P2. rewrite E. cbn [slot_mem existsb].
    destruct b as [y|]; destruct a as [x|]; unfold upd; rewrite ?P1; unfold upd; unfold st0; cbn [bpar bset_kids];
      repeat match goal with |- context [Nat.eqb ?u ?v] => destruct (Nat.eqb_spec u v) end; subst; try reflexivity.
  - rewrite K2, K1. unfold st0. cbn [bkids bset_kids]. apply upd_same.
  - intros q Hq. apply I2. exact Hq.
  - intros q j Hq. destruct (I2 q Hq) as [_ Hs]. rewrite Hs, rmset_rmo. reflexivity.
Qed.

Lemma rmset_nones v : rmset [None; None] v = v.
Proof. destruct v; reflexivity. Qed.

Lemma assign_relinked s (p : id) a b : BWF s -> p < bsize s ->
  (forall x, a = Some x -> b = Some x -> False) ->
  relinked s (bassign_children s p [a; b]) p [a; b].
Proof.
  intros W Hp Hab. destruct (del_relinked s p W Hp) as [[S1 P1 K1 L1 Q1] V1].
  pose proof (del_BWF s p W Hp) as Wd.
  pose proof (steal_relinked (bdel_children s p) p a b Wd K1 Hab) as [S2 P2 K2 L2 Q2].
  unfold bassign_children. constructor.
  - rewrite S2. exact S1.
  - intros x. rewrite P2, K1, P1. cbn [slot_mem existsb]. reflexivity.
  - exact K2.
  - intros q Hq. rewrite L2 by exact Hq. apply L1. exact Hq.
  - intros q j Hq. rewrite Q2, Q1 by exact Hq. rewrite rmset_nones. reflexivity.
Qed.

(* what the guards of the children setter establish *)
Lemma check_valid s (p : id) a1 a2 : BWF s -> p < bsize s ->
  barg_in_range s a1 = true -> barg_in_range s a2 = true ->
  bcheck_children s p [a1; a2] [] = None ->
  valid_news s p [slot_of_arg a1; slot_of_arg a2]
  /\ (forall x, slot_of_arg a1 = Some x -> slot_of_arg a2 = Some x -> False).
Proof.
  intros W Hp R1 R2 H.
  assert (Hone : forall a x seen rest, slot_of_arg a = Some x ->
            bcheck_children s p (a :: rest) seen = None ->
            x <> p /\ ~ In x (bancestors s p) /\ ~ In x seen /\ bcheck_children s p rest (x :: seen) = None).
  { intros a x seen rest Ha Hc. destruct a as [y| |]; try discriminate. injection Ha as ->.
    cbn [bcheck_children] in Hc. destruct (Nat.eqb_spec x p); [discriminate|].
    destruct (memb x (bancestors s p)) eqn:E1; [discriminate|].
    destruct (memb x seen) eqn:E2; [discriminate|].
    repeat split; try assumption; intros Hin; apply memb_In in Hin; congruence. }
  assert (Hrange : forall a x, barg_in_range s a = true -> slot_of_arg a = Some x -> x < bsize s).
  { intros a x Hr Ha. destruct a as [y| |]; try discriminate. injection Ha as ->. apply Nat.ltb_lt. exact Hr. }
  split.
  - constructor; [reflexivity| |exact Hp|].
    + intros i j x. rewrite !slot2. destruct i as [|[|i]]; destruct j as [|[|j]]; try discriminate; try reflexivity.
      * intros H1 H2. exfalso. destruct (Hone _ _ _ _ H1 H) as [_ [_ [_ H3]]].
        destruct a1 as [y| |]; try discriminate. injection H1 as ->.
        destruct (Hone _ _ _ _ H2 H3) as [_ [_ [Hn _]]]. apply Hn. left. reflexivity.
      * intros H2 H1. exfalso. destruct (Hone _ _ _ _ H1 H) as [_ [_ [_ H3]]].
        destruct a1 as [y| |]; try discriminate. injection H1 as ->.
        destruct (Hone _ _ _ _ H2 H3) as [_ [_ [Hn _]]]. apply Hn. left. reflexivity.
    + intros x [H1|[H2|[]]].
      * destruct (Hone _ _ _ _ H1 H) as [Ha [Hb _]]. split; [exact (Hrange _ _ R1 H1)|]. split; assumption.
      * destruct a1 as [y| |].
        -- destruct (Hone (ANode y) y [] [a2] eq_refl H) as [_ [_ [_ H3]]].
           destruct (Hone _ _ _ _ H2 H3) as [Ha [Hb _]]. split; [exact (Hrange _ _ R2 H2)|]. split; assumption.
        -- change (bcheck_children s p [a2] [] = None) in H. destruct (Hone _ _ _ _ H2 H) as [Ha [Hb _]].
           split; [exact (Hrange _ _ R2 H2)|]. split; assumption.
        -- discriminate.
  - intros x H1 H2. destruct (Hone _ _ _ _ H1 H) as [_ [_ [_ H3]]].
    destruct a1 as [y| |]; try discriminate. injection H1 as ->.
    destruct (Hone _ _ _ _ H2 H3) as [_ [_ [Hn _]]]. apply Hn. left. reflexivity.
Qed.

(* ------------------------------------------------------------------------------------------ *)
(* the except block of the children setter gives back the state the setter started from *)

Lemma fold_inv {E} (f : bheap -> E -> bheap) (P : bheap -> Prop) l :
  (forall e st, In e l -> P st -> P (f st e)) -> forall st, P st -> P (fold_left f l st).
Proof.
  induction l as [|h t IH]; intros H st Hst; [exact Hst|]. cbn [fold_left].
  apply IH; [intros e st' He; apply H; right; exact He|]. apply H; [left; reflexivity|exact Hst].
Qed.

(* I: a side invariant; P: established by the step for e0 (under I), stable afterwards *)
Lemma fold_est {E} (f : bheap -> E -> bheap) (I P : bheap -> Prop) l e0 :
  In e0 l ->
  (forall e st, In e l -> I st -> I (f st e)) ->
  (forall st, I st -> P (f st e0)) ->
  (forall e st, In e l -> I st -> P st -> P (f st e)) ->
  forall st, I st -> P (fold_left f l st).
Proof.
  induction l as [|h t IH]; intros Hin HI Hest Hstab st Ist; [contradiction|]. cbn [fold_left].
  assert (HIt : forall e st, In e t -> I st -> I (f st e)) by (intros; apply HI; [right|]; assumption).
  assert (Hstt : forall e st, In e t -> I st -> P st -> P (f st e)) by (intros; apply Hstab; [right| |]; assumption).
  assert (Ih : I (f st h)) by (apply HI; [left; reflexivity|exact Ist]).
  destruct Hin as [->|Hin].
  - assert (HIP : I (f st e0) /\ P (f st e0)) by (split; [exact Ih|apply Hest; exact Ist]).
    revert HIP. generalize (f st e0). clear - HIt Hstt. induction t as [|h t IH]; intros st [Hi Hp]; [exact Hp|].
    cbn [fold_left]. apply IH.
    + intros; apply HIt; [right|]; assumption.
    + intros; apply Hstt; [right| |]; assumption.
    + split; [apply HIt; [left; reflexivity|exact Hi]|apply Hstt; [left; reflexivity|exact Hi|exact Hp]].
  - apply IH; assumption.
Qed.

Lemma donors_In s news x i q :
  In (x, (i, q)) (bdonors s news) <->
  In (Some x) news /\ bpar s x = Some q /\ i = slot_index x (bkids s q).
Proof.
  unfold bdonors. rewrite in_flat_map. split.
  - intros [[y|] [Hy Hin]]; [|contradiction].
    destruct (bpar s y) as [q'|] eqn:E; [|contradiction]. destruct Hin as [Heq|[]].
    injection Heq as E1 E2 E3. subst. auto.
  - intros [H1 [H2 ->]]. exists (Some x). split; [exact H1|]. rewrite H2. left. reflexivity.
Qed.

Lemma give_back_explicit st x i q :
  bsize (bgive_back st (x, (i, q))) = bsize st
  /\ (forall z, bpar (bgive_back st (x, (i, q))) z = upd (bpar st) x (Some q) z)
  /\ (forall q', bkids (bgive_back st (x, (i, q))) q' = upd (bkids st) q (set_nth i (Some x) (bkids st q)) q').
Proof. repeat split. Qed.

Definition restore_orphan (s : bheap) (st : bheap) (o : option id) : bheap :=
  match o with
  | Some x => match bpar s x with None => bset_par st x None | Some _ => st end
  | None => st
  end.
Definition reparent (p : id) (st : bheap) (o : option id) : bheap :=
  match o with Some c => bset_par st c (Some p) | None => st end.

Lemma children_rollback_unfold s0 s p news :
  bchildren_rollback s0 s p news
  = fold_left (reparent p) (bkids s0 p)
      (bset_kids (fold_left (restore_orphan s0) news (fold_left bgive_back (bdonors s0 news) s)) p (bkids s0 p)).
Proof. reflexivity. Qed.

Lemma children_rollback_beq s s' (p : id) news : BWF s -> relinked s s' p news ->
  beq (bchildren_rollback s s' p news) s.
Proof.
  intros W [Rs Rp Rkp Rl Rk]. pose proof W as [Hl Hd Hu Ho Hb _].
  rewrite children_rollback_unfold.
  set (s1 := fold_left bgive_back (bdonors s news) s').
  set (s2 := fold_left (restore_orphan s) news s1).
  set (s3 := bset_kids s2 p (bkids s p)).
  set (s4 := fold_left (reparent p) (bkids s p) s3).
  (* sizes *)
  assert (S1 : bsize s1 = bsize s).
  { unfold s1. apply (fold_inv bgive_back (fun st => bsize st = bsize s)); [|exact Rs].
    intros [x [i q]] st _ H. exact H. }
  assert (S2 : bsize s2 = bsize s).
  { unfold s2. apply (fold_inv (restore_orphan s) (fun st => bsize st = bsize s)); [|exact S1].
    intros [x|] st _ H; cbn [restore_orphan]; [destruct (bpar s x)|]; exact H. }
  assert (S4 : bsize s4 = bsize s).
  { unfold s4. apply (fold_inv (reparent p) (fun st => bsize st = bsize s)); [|exact S2].
    intros [x|] st _ H; exact H. }
  (* stability of "z has its old parent" under every step of the except block *)
  assert (StG : forall z e st, In e (bdonors s news) -> bpar st z = bpar s z -> bpar (bgive_back st e) z = bpar s z).
  { intros z [x [i q]] st He H. apply donors_In in He. destruct He as [_ [E _]].
    destruct (give_back_explicit st x i q) as [_ [P _]]. rewrite P. unfold upd.
    destruct (Nat.eqb_spec z x) as [->|_]; congruence. }
  assert (StO : forall z e st, bpar st z = bpar s z -> bpar (restore_orphan s st e) z = bpar s z).
  { intros z [x|] st H; cbn [restore_orphan]; [|exact H]. destruct (bpar s x) eqn:E; [exact H|].
    cbn [bpar bset_par]. unfold upd. destruct (Nat.eqb_spec z x) as [->|_]; congruence. }
  assert (StP : forall z e st, In e (bkids s p) -> bpar st z = bpar s z -> bpar (reparent p st e) z = bpar s z).
  { intros z [c|] st He H; cbn [reparent]; [|exact H]. apply In_slot in He. destruct He as [i Hi]. apply Hd in Hi.
    cbn [bpar bset_par]. unfold upd. destruct (Nat.eqb_spec z c) as [->|_]; congruence. }
  assert (Par : forall z, bpar s4 z = bpar s z).
  { intros z. destruct (slot_mem z (bkids s p)) eqn:Ek.
    - (* a previous child of p: re-parented by the last loop *)
      apply slot_mem_In in Ek. unfold s4.
      apply (fold_est (reparent p) (fun _ => True) (fun st => bpar st z = bpar s z) (bkids s p) (Some z)).
      + exact Ek.
      + intros; exact Logic.I.
      + intros st _. cbn [reparent bpar bset_par]. rewrite upd_same. apply In_slot in Ek. destruct Ek as [i Hi].
        symmetry. exact (Hd _ _ _ Hi).
      + intros e st He _. apply StP. exact He.
      + exact Logic.I.
    - unfold s4. apply (fold_inv (reparent p) (fun st => bpar st z = bpar s z)); [intros e st He; apply StP; exact He|].
      unfold s3. cbn [bpar bset_kids].
      destruct (slot_mem z news) eqn:En.
      + apply slot_mem_In in En. destruct (bpar s z) as [q|] eqn:E.
        * unfold s2. apply (fold_inv (restore_orphan s) (fun st => bpar st z = Some q)).
          { intros e st _ H. rewrite <- E. apply StO. congruence. }
          unfold s1.
          apply (fold_est bgive_back (fun _ => True) (fun st => bpar st z = Some q) (bdonors s news)
                          (z, (slot_index z (bkids s q), q))).
          -- apply donors_In. auto.
          -- intros; exact Logic.I.
          -- intros st _. destruct (give_back_explicit st z (slot_index z (bkids s q)) q) as [_ [P _]].
             rewrite P. apply upd_same.
          -- intros e st He _ H. rewrite <- E. apply StG; [exact He|congruence].
          -- exact Logic.I.
        * unfold s2.
          apply (fold_est (restore_orphan s) (fun _ => True) (fun st => bpar st z = None) news (Some z)).
          -- exact En.
          -- intros; exact Logic.I.
          -- intros st _. cbn [restore_orphan]. rewrite E. cbn [bpar bset_par]. apply upd_same.
          -- intros e st _ _ H. rewrite <- E. apply StO. congruence.
          -- exact Logic.I.
      + unfold s2. apply (fold_inv (restore_orphan s) (fun st => bpar st z = bpar s z)); [intros e st _; apply StO|].
        unfold s1. apply (fold_inv bgive_back (fun st => bpar st z = bpar s z)); [intros e st He; apply StG; exact He|].
        rewrite Rp, En, Ek. reflexivity. }
  (* slot lists: only the give-back loop and `self.__children = current_children` write them *)
  assert (KO : forall q e st, bkids (restore_orphan s st e) q = bkids st q).
  { intros q [x|] st; cbn [restore_orphan]; [destruct (bpar s x)|]; reflexivity. }
  assert (KP : forall q e st, bkids (reparent p st e) q = bkids st q).
  { intros q [x|] st; reflexivity. }
  assert (K43 : forall q, bkids s4 q = bkids s3 q).
  { intros q. unfold s4. apply (fold_inv (reparent p) (fun st => bkids st q = bkids s3 q)); [|reflexivity].
    intros e st _ H. rewrite KP. exact H. }
  assert (K21 : forall q, bkids s2 q = bkids s1 q).
  { intros q. unfold s2. apply (fold_inv (restore_orphan s) (fun st => bkids st q = bkids s1 q)); [|reflexivity].
    intros e st _ H. rewrite KO. exact H. }
  split; [exact S4|]. split; [exact Par|].
  intros q. rewrite K43. unfold s3. cbn [bkids bset_kids]. unfold upd.
  destruct (Nat.eqb_spec q p) as [->|Hq]; [reflexivity|]. rewrite K21.
  (* q <> p: every slot emptied by the stealing loop is refilled by the give-back loop *)
  assert (Len : length (bkids s1 q) = length (bkids s q)).
  { unfold s1. apply (fold_inv bgive_back (fun st => length (bkids st q) = length (bkids s q))); [|apply Rl; exact Hq].
    intros [x [i q']] st _ H. destruct (give_back_explicit st x i q') as [_ [_ K]]. rewrite K. unfold upd.
    destruct (Nat.eqb_spec q q') as [<-|_]; [rewrite set_nth_length|]; exact H. }
  apply slot_ext; [exact Len|]. intros j.
  set (I := fun st => length (bkids st q) = length (bkids s q)).
  assert (II : forall e st, In e (bdonors s news) -> I st -> I (bgive_back st e)).
  { intros [x [i q']] st _ H. unfold I in *. destruct (give_back_explicit st x i q') as [_ [_ K]]. rewrite K. unfold upd.
    destruct (Nat.eqb_spec q q') as [<-|_]; [rewrite set_nth_length|]; exact H. }
  assert (Stab : forall e st, In e (bdonors s news) -> I st ->
            slot (bkids st q) j = slot (bkids s q) j -> slot (bkids (bgive_back st e) q) j = slot (bkids s q) j).
  { intros [x [i q']] st He HI H. apply donors_In in He. destruct He as [_ [E ->]].
    destruct (give_back_explicit st x (slot_index x (bkids s q')) q') as [_ [_ K]]. rewrite K. unfold upd.
    destruct (Nat.eqb_spec q q') as [<-|_]; [|exact H]. rewrite slot_set_nth.
    destruct (Nat.eqb_spec j (slot_index x (bkids s q))) as [->|_]; [|exact H].
    destruct (Hu _ _ E) as [k Hk]. destruct (slot_index_spec x _ (slot_In _ _ _ Hk)) as [Hlt Hs].
    unfold I in HI. rewrite HI. apply Nat.ltb_lt in Hlt. rewrite Hlt. symmetry. exact Hs. }
  destruct (slot (bkids s q) j) as [z|] eqn:Ez.
  2:{ unfold s1. apply (fold_inv bgive_back (fun st => I st /\ slot (bkids st q) j = None)).
      - intros e st He [H1 H2]. split; [apply II; assumption|apply Stab; assumption].
      - split; [apply Rl; exact Hq|]. rewrite Rk, Ez by exact Hq. reflexivity. }
  destruct (slot_mem z news) eqn:En.
  - apply slot_mem_In in En. pose proof (Hd _ _ _ Ez) as Ezq. unfold s1.
    apply (fold_est bgive_back I (fun st => slot (bkids st q) j = Some z) (bdonors s news)
                    (z, (slot_index z (bkids s q), q))).
    + apply donors_In. auto.
    + exact II.
    + intros st HI. destruct (give_back_explicit st z (slot_index z (bkids s q)) q) as [_ [_ K]]. rewrite K, upd_same.
      rewrite slot_set_nth, (slot_index_once _ _ _ (Ho q) Ez), Nat.eqb_refl. unfold I in HI. rewrite HI.
      pose proof (slot_lt _ _ _ Ez) as Hlt. apply Nat.ltb_lt in Hlt. rewrite Hlt. reflexivity.
    + intros e st He HI H. apply Stab; assumption.
    + apply Rl. exact Hq.
  - unfold s1. apply (fold_inv bgive_back (fun st => I st /\ slot (bkids st q) j = Some z)).
    + intros e st He [H1 H2]. split; [apply II; assumption|apply Stab; assumption].
    + split; [apply Rl; exact Hq|]. rewrite Rk, Ez by exact Hq. cbn [rmset]. rewrite En. reflexivity.
Qed.

(* ------------------------------------------------------------------------------------------ *)
(* the children setter as a whole *)

Definition norm_args (args : list arg) : list arg :=
  match args with [] => [ANone; ANone] | _ => args end.

Inductive children_outcome (cfg : config) (ft : fault) (s : bheap) (p : id) (cont : container)
          (args : list arg) : Prop :=
| CO_rejected : fst (bset_children cfg ft s p cont args) = s ->
                snd (bset_children cfg ft s p cont args) <> Ok ->
                children_outcome cfg ft s p cont args
| CO_rolled_back a1 a2 :
    norm_args args = [a1; a2] -> bcheck_children s p [a1; a2] [] = None ->
    bset_children cfg ft s p cont args
    = (bchildren_rollback s (bassign_children s p [slot_of_arg a1; slot_of_arg a2]) p
                          [slot_of_arg a1; slot_of_arg a2], Err TreeError) ->
    children_outcome cfg ft s p cont args
| CO_accepted a1 a2 :
    norm_args args = [a1; a2] -> bcheck_children s p [a1; a2] [] = None ->
    bset_children cfg ft s p cont args = (bassign_children s p [slot_of_arg a1; slot_of_arg a2], Ok) ->
    children_outcome cfg ft s p cont args.

Definition sc_tail (cfg : config) (ft : fault) (s : bheap) (p : id) (a1 a2 : arg) : bheap * outcome :=
  match bcheck_children s p [a1; a2] [] with
  | Some e => (s, Err (if assertions cfg then e else Unmodelled))
  | None =>
      if fault_eqb ft PreFail then (s, Err HookRaw) else
      if fault_eqb ft PostFail
      then (bchildren_rollback s (bassign_children s p [slot_of_arg a1; slot_of_arg a2]) p
                               [slot_of_arg a1; slot_of_arg a2], Err TreeError)
      else (bassign_children s p [slot_of_arg a1; slot_of_arg a2], Ok)
  end.

Lemma set_children_inv cfg ft s p cont args : children_outcome cfg ft s p cont args.
Proof.
  assert (Hrej : forall o, o <> Ok -> bset_children cfg ft s p cont args = (s, o) ->
                           children_outcome cfg ft s p cont args).
  { intros o Ho E. apply CO_rejected; rewrite E; [reflexivity|exact Ho]. }
  assert (Htail : forall a1 a2, norm_args args = [a1; a2] ->
                    bset_children cfg ft s p cont args = sc_tail cfg ft s p a1 a2 ->
                    children_outcome cfg ft s p cont args).
  { intros a1 a2 EN E. unfold sc_tail in E.
    destruct (bcheck_children s p [a1; a2] []) as [e|] eqn:EC; [eapply Hrej; [|exact E]; discriminate|].
    destruct (fault_eqb ft PreFail); [eapply Hrej; [|exact E]; discriminate|].
    destruct (fault_eqb ft PostFail); [eapply CO_rolled_back|eapply CO_accepted]; eauto. }
  destruct cont.
  4:{ apply (Hrej (Err TypeError)); [discriminate|reflexivity]. }
  all: destruct (norm_args args) as [|a1 [|a2 [|a3 t]]] eqn:EN.
  all: try (apply (Hrej (Err ValueError)); [discriminate|];
            unfold bset_children; fold (norm_args args); rewrite EN; reflexivity).
  - apply (Htail a1 a2 eq_refl). unfold bset_children. fold (norm_args args). rewrite EN. reflexivity.
  - apply (Htail a1 a2 eq_refl). unfold bset_children. fold (norm_args args). rewrite EN. reflexivity.
  - destruct args as [|a0 t0].
    + apply (Htail a1 a2 eq_refl). unfold bset_children. fold (norm_args (@nil arg)). rewrite EN. reflexivity.
    + apply (Hrej (Err Unmodelled)); [discriminate|].
      unfold bset_children. fold (norm_args (a0 :: t0)). rewrite EN. reflexivity.
Qed.

Lemma norm_args_range s args :
  forallb (barg_in_range s) args = true -> forallb (barg_in_range s) (norm_args args) = true.
Proof. destruct args; [reflexivity|auto]. Qed.

Lemma set_children_sound cfg ft s (p : id) cont args : BWF s -> p < bsize s ->
  forallb (barg_in_range s) args = true ->
  (snd (bset_children cfg ft s p cont args) <> Ok -> beq (fst (bset_children cfg ft s p cont args)) s)
  /\ BWF (fst (bset_children cfg ft s p cont args))
  /\ bsize (fst (bset_children cfg ft s p cont args)) = bsize s.
Proof.
  intros W Hp Hr. apply norm_args_range in Hr.
  destruct (set_children_inv cfg ft s p cont args) as [E1 E2|a1 a2 EN EC E|a1 a2 EN EC E].
  - rewrite E1. split; [intros _; apply beq_refl|]. split; [exact W|reflexivity].
  - rewrite EN in Hr. cbn [forallb] in Hr. apply andb_true_iff in Hr. destruct Hr as [R1 R2].
    apply andb_true_iff in R2. destruct R2 as [R2 _].
    destruct (check_valid s p a1 a2 W Hp R1 R2 EC) as [V Hab].
    pose proof (assign_relinked s p _ _ W Hp Hab) as R.
    pose proof (children_rollback_beq s _ p _ W R) as Hroll.
    rewrite E. cbn [fst snd]. split; [intros _; exact Hroll|].
    split; [apply (BWF_beq s); [exact W|apply beq_sym, Hroll]|apply Hroll].
  - rewrite EN in Hr. cbn [forallb] in Hr. apply andb_true_iff in Hr. destruct Hr as [R1 R2].
    apply andb_true_iff in R2. destruct R2 as [R2 _].
    destruct (check_valid s p a1 a2 W Hp R1 R2 EC) as [V Hab].
    pose proof (assign_relinked s p _ _ W Hp Hab) as R.
    rewrite E. cbn [fst snd]. split; [congruence|]. split; [exact (relink_BWF _ _ _ _ W V R)|apply R].
Qed.

Lemma set_parent_size cfg ft s (c : id) a : BWF s -> c < bsize s -> barg_in_range s a = true ->
  bsize (fst (bset_parent cfg ft s c a)) = bsize s.
Proof.
  intros W Hc Ha. destruct (set_parent_sound cfg ft s c a W Hc Ha) as [Hat _].
  destruct (snd (bset_parent cfg ft s c a)) eqn:E.
  2:{ apply Hat. discriminate. }
  clear Hat. revert E. unfold bset_parent. destruct a as [p| |]; cbv zeta.
  - destruct (bparent_loop s c (Some p)); [discriminate|].
    destruct (fault_eqb ft PreFail); [discriminate|]. rewrite (bcorrupted_false s c W).
    destruct (bfull (bdetach s c) (Some p)) eqn:EF; [discriminate|].
    destruct (fault_eqb ft PostFail); [discriminate|]. intros _. cbn [fst].
    destruct (bfull_false _ _ EF) as [i Ei]. rewrite (attach_state s c p i Ei). apply detach_size.
  - cbn [bparent_loop bfull]. destruct (fault_eqb ft PreFail); [discriminate|]. rewrite (bcorrupted_false s c W).
    destruct (fault_eqb ft PostFail); [discriminate|]. intros _. apply detach_size.
  - discriminate.
Qed.

(* ------------------------------------------------------------------------------------------ *)
(* left / right setters *)

Lemma slot_range s (p : id) i x : BWF s -> slot (bkids s p) i = Some x -> x < bsize s.
Proof. intros W H. apply (bw_down s W) in H. apply (bw_bound s W) in H. tauto. Qed.

Lemma nth_error_slot (l : list (option id)) i o : nth_error l i = Some o -> slot l i = o.
Proof. intros H. unfold slot. exact (nth_error_nth l i None H). Qed.

Lemma arg_of_slot_range s (p : id) i o : BWF s -> nth_error (bkids s p) i = Some o ->
  barg_in_range s (arg_of_slot o) = true.
Proof.
  intros W H. apply nth_error_slot in H. destruct o as [x|]; [|reflexivity].
  cbn [arg_of_slot barg_in_range]. apply Nat.ltb_lt. exact (slot_range s p i x W H).
Qed.

Lemma set_left_sound cfg ft s (p : id) a : BWF s -> p < bsize s -> barg_in_range s a = true ->
  (snd (bset_left cfg ft s p a) <> Ok -> beq (fst (bset_left cfg ft s p a)) s)
  /\ BWF (fst (bset_left cfg ft s p a)) /\ bsize (fst (bset_left cfg ft s p a)) = bsize s.
Proof.
  intros W Hp Ha. unfold bset_left, right_of. destruct (nth_error (bkids s p) 1) as [r|] eqn:E.
  - apply set_children_sound; [exact W|exact Hp|]. cbn [forallb]. rewrite Ha, (arg_of_slot_range s p 1 r W E). reflexivity.
  - cbn [fst snd]. split; [intros _; apply beq_refl|]. split; [exact W|reflexivity].
Qed.

Lemma set_right_sound cfg ft s (p : id) a : BWF s -> p < bsize s -> barg_in_range s a = true ->
  (snd (bset_right cfg ft s p a) <> Ok -> beq (fst (bset_right cfg ft s p a)) s)
  /\ BWF (fst (bset_right cfg ft s p a)) /\ bsize (fst (bset_right cfg ft s p a)) = bsize s.
Proof.
  intros W Hp Ha. unfold bset_right, left_of. destruct (nth_error (bkids s p) 0) as [l|] eqn:E.
  - apply set_children_sound; [exact W|exact Hp|]. cbn [forallb]. rewrite Ha, (arg_of_slot_range s p 0 l W E). reflexivity.
  - cbn [fst snd]. split; [intros _; apply beq_refl|]. split; [exact W|reflexivity].
Qed.

(* ------------------------------------------------------------------------------------------ *)
(* sort *)

Lemma py_sort_two key rev (c d : id) :
  py_sort key rev [c; d] = [c; d] \/ py_sort key rev [c; d] = [d; c].
Proof.
  unfold py_sort, stable_sort. destruct rev; cbn [List.rev app fold_right ins_key].
  - destruct (Nat.leb (key d) (key c)); cbn [List.rev app]; auto.
  - destruct (Nat.leb (key c) (key d)); auto.
Qed.

Lemma sort_relinked s (p : id) key rev : BWF s -> p < bsize s ->
  beq (bsort s p key rev) s
  \/ exists c d, bkids s p = [Some c; Some d]
                 /\ relinked s (bsort s p key rev) p [Some d; Some c] /\ valid_news s p [Some d; Some c].
Proof.
  intros W Hp. unfold bsort. destruct (len2 _ (bw_len s W p)) as [l [r E]]. rewrite E.
  destruct l as [c|]; destruct r as [d|]; cbn [somes length Nat.eqb]; try (left; apply beq_refl).
  destruct (py_sort_two key rev c d) as [-> | ->]; cbn [map].
  - left. split; [reflexivity|]. split; [reflexivity|]. intros x. cbn [bkids bset_kids]. unfold upd.
    destruct (Nat.eqb_spec x p) as [->|_]; [symmetry; exact E|reflexivity].
  - right. exists c, d. split; [reflexivity|].
    assert (Hsub : forall x, In (Some x) [Some d; Some c] -> In (Some x) (bkids s p)).
    { rewrite E. intros x [H|[H|[]]]; [right; left|left]; exact H. }
    split.
    + apply relinked_local; try assumption; try reflexivity.
      * intros x. cbn [bpar bset_kids]. rewrite E. cbn [slot_mem existsb].
        destruct (Nat.eqb x c); destruct (Nat.eqb x d); reflexivity.
      * cbn [bkids bset_kids]. apply upd_same.
      * intros q Hq. cbn [bkids bset_kids]. apply upd_other. exact Hq.
    + apply valid_news_local; try assumption; try reflexivity.
      intros i j x. rewrite !slot2. pose proof (bw_once s W p) as Ho. rewrite E in Ho.
      destruct i as [|[|i]]; destruct j as [|[|j]]; try discriminate; try reflexivity; intros H1 H2.
      * specialize (Ho 1 0 x). rewrite !slot2 in Ho. specialize (Ho H1 H2). discriminate.
      * specialize (Ho 0 1 x). rewrite !slot2 in Ho. specialize (Ho H1 H2). discriminate.
Qed.

Lemma sort_BWF s (p : id) key rev : BWF s -> p < bsize s -> BWF (bsort s p key rev).
Proof.
  intros W Hp. destruct (sort_relinked s p key rev W Hp) as [H|[c [d [_ [R V]]]]].
  - apply (BWF_beq s); [exact W|apply beq_sym, H].
  - exact (relink_BWF _ _ _ _ W V R).
Qed.

Lemma sort_size s (p : id) key rev : bsize (bsort s p key rev) = bsize s.
Proof. unfold bsort. destruct (Nat.eqb _ 2); reflexivity. Qed.

(* ------------------------------------------------------------------------------------------ *)
(* extend, constructor, step, histories *)

Lemma extend_sound cfg (p : id) : forall cs fts s, BWF s -> p < bsize s ->
  forallb (bin_range s) cs = true ->
  BWF (fst (bextend_loop cfg s p cs fts)) /\ bsize (fst (bextend_loop cfg s p cs fts)) = bsize s.
Proof.
  induction cs as [|c t IH]; intros fts s W Hp Hr; cbn [bextend_loop]; [split; [exact W|reflexivity]|].
  cbn [forallb] in Hr. apply andb_true_iff in Hr. destruct Hr as [Hc Ht]. apply Nat.ltb_lt in Hc.
  assert (Ha : barg_in_range s (ANode p) = true) by (apply Nat.ltb_lt; exact Hp).
  destruct (set_parent_sound cfg (hd NoFault fts) s c (ANode p) W Hc Ha) as [_ W1].
  pose proof (set_parent_size cfg (hd NoFault fts) s c (ANode p) W Hc Ha) as S1.
  destruct (bset_parent cfg (hd NoFault fts) s c (ANode p)) as [s1 o]. cbn [fst] in *.
  destruct o; [|split; assumption].
  destruct (IH (tl fts) s1 W1) as [W2 S2].
  - rewrite S1. exact Hp.
  - unfold bin_range in *. rewrite S1. exact Ht.
  - split; [exact W2|congruence].
Qed.

Lemma alloc_BWF s : BWF s -> BWF (balloc s).
Proof.
  intros [Hl Hd Hu Ho Hb [r Hr]].
  assert (Hfresh : forall c q, bpar s c = Some q -> c <> bsize s /\ q <> bsize s).
  { intros c q H. destruct (Hb _ _ H). lia. }
  constructor; cbn [balloc bsize bpar bkids].
  - intros p. unfold upd. destruct (Nat.eqb p (bsize s)); [reflexivity|apply Hl].
  - intros p i c. unfold upd at 1. destruct (Nat.eqb_spec p (bsize s)) as [->|Hp].
    + rewrite slot2. destruct i as [|[|i]]; discriminate.
    + intros H. pose proof (Hd _ _ _ H) as E. destruct (Hfresh _ _ E). rewrite upd_other; assumption.
  - intros c p. unfold upd at 1. destruct (Nat.eqb_spec c (bsize s)) as [->|Hc]; [discriminate|].
    intros H. destruct (Hfresh _ _ H). rewrite upd_other by assumption. apply Hu. exact H.
  - intros p. unfold upd. destruct (Nat.eqb p (bsize s)); [|apply Ho].
    intros i j x. rewrite slot2. destruct i as [|[|i]]; discriminate.
  - intros c p. unfold upd. destruct (Nat.eqb_spec c (bsize s)) as [->|Hc]; [discriminate|].
    intros H. destruct (Hb _ _ H). lia.
  - exists r. intros c p. unfold upd. destruct (Nat.eqb_spec c (bsize s)) as [->|Hc]; [discriminate|apply Hr].
Qed.

Lemma arg_range_mono s s' a : bsize s <= bsize s' -> barg_in_range s a = true -> barg_in_range s' a = true.
Proof.
  intros Hle. destruct a as [x| |]; cbn [barg_in_range]; auto. unfold bin_range.
  intros H. apply Nat.ltb_lt in H. apply Nat.ltb_lt. lia.
Qed.

Lemma new_BWF cfg s l r par ch fp fc : BWF s ->
  barg_in_range s l = true -> barg_in_range s r = true -> barg_in_range s par = true ->
  forallb (barg_in_range s) ch = true ->
  BWF (fst (bnew cfg s l r par ch fp fc)).
Proof.
  intros W Rl Rr Rp Rch. unfold bnew. cbv zeta.
  pose proof (alloc_BWF s W) as W0.
  assert (Hx : bsize s < bsize (balloc s)) by (cbn [balloc bsize]; lia).
  match goal with |- context [if ?b then _ else _] => destruct b end; [exact W0|].
  assert (Rp0 : barg_in_range (balloc s) par = true) by (eapply arg_range_mono; [|exact Rp]; lia).
  destruct (set_parent_sound cfg fp (balloc s) (bsize s) par W0 Hx Rp0) as [_ W1].
  pose proof (set_parent_size cfg fp (balloc s) (bsize s) par W0 Hx Rp0) as S1.
  destruct (bset_parent cfg fp (balloc s) (bsize s) par) as [s1 o]. cbn [fst] in *.
  destruct o; [|exact W1].
  apply set_children_sound; [exact W1|rewrite S1; exact Hx|].
  assert (Hm : forall a, barg_in_range s a = true -> barg_in_range s1 a = true).
  { intros a. apply arg_range_mono. rewrite S1. lia. }
  destruct ch as [|c0 t0].
  - cbn [forallb]. rewrite (Hm _ Rl), (Hm _ Rr). reflexivity.
  - apply forallb_forall. intros a Ha. apply Hm. rewrite forallb_forall in Rch. apply Rch. exact Ha.
Qed.

Theorem bstep_BWF cfg s o : BWF s -> BWF (fst (bstep cfg s o)).
Proof.
  intros W. unfold bstep. destruct (bop_in_range s o) eqn:Er; cbn [negb]; [|exact W].
  destruct o; cbn [bop_in_range] in Er; repeat (apply andb_true_iff in Er; destruct Er as [Er ?]);
    unfold bin_range in *; try (apply Nat.ltb_lt in Er).
  - apply set_parent_sound; assumption.
  - apply set_children_sound; assumption.
  - apply set_left_sound; assumption.
  - apply set_right_sound; assumption.
  - cbn [fst]. apply del_BWF; assumption.
  - cbn [fst]. apply sort_BWF; assumption.
  - apply extend_sound; assumption.
  - apply new_BWF; assumption.
Qed.

Theorem brun_BWF cfg ops : forall s, BWF s -> BWF (brun cfg s ops).
Proof.
  unfold brun. induction ops as [|o t IH]; intros s W; [exact W|]. cbn [fold_left].
  apply IH, bstep_BWF, W.
Qed.

Theorem btrace_BWF cfg ops : forall s, BWF s -> Forall (fun r => BWF (fst r)) (btrace cfg s ops).
Proof.
  induction ops as [|o t IH]; intros s W; cbn [btrace]; constructor.
  - apply bstep_BWF, W.
  - apply IH, bstep_BWF, W.
Qed.

(* ------------------------------------------------------------------------------------------ *)
(* C02, BinaryNode share: an operation that is one assignment and does not succeed leaves every
   parent link and every slot list as it was *)

Definition atomic_op (o : bop) : bool :=
  match o with BExtend _ _ _ | BNew _ _ _ _ _ _ => false | _ => true end.

Theorem binary_atomic cfg s o : BWF s -> atomic_op o = true ->
  snd (bstep cfg s o) <> Ok -> beq (fst (bstep cfg s o)) s.
Proof.
  intros W Hat. unfold bstep. destruct (bop_in_range s o) eqn:Er; cbn [negb]; [|intros _; apply beq_refl].
  destruct o; try discriminate; cbn [bop_in_range] in Er;
    repeat (apply andb_true_iff in Er; destruct Er as [Er ?]);
    unfold bin_range in *; try (apply Nat.ltb_lt in Er).
  - apply set_parent_sound; assumption.
  - apply set_children_sound; assumption.
  - apply set_left_sound; assumption.
  - apply set_right_sound; assumption.
  - cbn [snd]. congruence.
  - cbn [snd]. congruence.
Qed.

(* ------------------------------------------------------------------------------------------ *)
(* C20, BinaryNode share: the assertion switch is consulted only on the rejecting branches — an
   operation that is accepted under one setting is accepted under the other, with the same state *)

Lemma set_parent_cfg cfg cfg' ft s c a :
  snd (bset_parent cfg ft s c a) = Ok -> bset_parent cfg' ft s c a = bset_parent cfg ft s c a.
Proof.
  unfold bset_parent. destruct a as [p| |]; cbv zeta; try discriminate.
  - destruct (bparent_loop s c (Some p)); [discriminate|]. reflexivity.
  - destruct (bparent_loop s c None); [discriminate|]. reflexivity.
Qed.

Lemma set_children_cfg cfg cfg' ft s p cont args :
  snd (bset_children cfg ft s p cont args) = Ok ->
  bset_children cfg' ft s p cont args = bset_children cfg ft s p cont args.
Proof.
  unfold bset_children. destruct cont; try discriminate; cbv zeta.
  all: match goal with |- context [negb ?b] => destruct b end; cbn [negb]; try discriminate.
  1,2: destruct (bcheck_children s p _ []); [discriminate|reflexivity].
  destruct args; [|discriminate].
  destruct (bcheck_children s p _ []); [discriminate|reflexivity].
Qed.

Lemma extend_cfg cfg cfg' p : forall cs fts s,
  snd (bextend_loop cfg s p cs fts) = Ok -> bextend_loop cfg' s p cs fts = bextend_loop cfg s p cs fts.
Proof.
  induction cs as [|c t IH]; intros fts s; cbn [bextend_loop]; [reflexivity|].
  destruct (bset_parent cfg (hd NoFault fts) s c (ANode p)) as [s1 o] eqn:E.
  destruct o; [|discriminate]. intros H.
  rewrite (set_parent_cfg cfg cfg'), E by (rewrite E; reflexivity). apply IH. exact H.
Qed.

Theorem binary_assert_irrelevant cfg cfg' s o :
  snd (bstep cfg s o) = Ok -> bstep cfg' s o = bstep cfg s o.
Proof.
  unfold bstep. destruct (bop_in_range s o); cbn [negb]; [|discriminate].
  destruct o; try reflexivity.
  - apply set_parent_cfg.
  - apply set_children_cfg.
  - unfold bset_left. destruct (right_of s p); [apply set_children_cfg|discriminate].
  - unfold bset_right. destruct (left_of s p); [apply set_children_cfg|discriminate].
  - apply extend_cfg.
  - unfold bnew. cbv zeta. match goal with |- context [if ?b then _ else _] => destruct b end; [discriminate|].
    destruct (bset_parent cfg fp (balloc s) (bsize s) par) as [s1 o] eqn:E.
    destruct o; [|discriminate]. intros H.
    rewrite (set_parent_cfg cfg cfg'), E by (rewrite E; reflexivity). apply set_children_cfg. exact H.
Qed.

(* the form used for C20: accepted with the checks on => accepted with the checks off, same state *)
Corollary binary_assert_off s o s' :
  bstep {| assertions := true; is_node := true |} s o = (s', Ok) ->
  bstep {| assertions := false; is_node := true |} s o = (s', Ok).
Proof. intros H. rewrite <- H. apply binary_assert_irrelevant. rewrite H. reflexivity. Qed.

(* with the switch on, a rejection by a guard leaves the state untouched: binary_atomic *)

(* ========================================================================================== *)
(* 4. the boolean predicates of Spec/PC11.v hold of the model *)

Lemma boid_eqb_eq a b : boid_eqb a b = true <-> a = b.
Proof.
  unfold boid_eqb, opt_eqb. destruct a as [x|]; destruct b as [y|]; try (split; [discriminate|congruence]).
  - rewrite Nat.eqb_eq. split; congruence.
  - split; reflexivity.
Qed.

Lemma boid_eqb_refl a : boid_eqb a a = true.
Proof. apply boid_eqb_eq. reflexivity. Qed.

Lemma bslots_eqb_refl l : bslots_eqb l l = true.
Proof. induction l as [|h t IH]; [reflexivity|]. cbn. rewrite boid_eqb_refl. exact IH. Qed.

Lemma forallb_bids n (f : id -> bool) : (forall x, x < n -> f x = true) -> forallb f (bids n) = true.
Proof. intros H. apply forallb_forall. intros x Hx. apply in_seq in Hx. apply H. lia. Qed.

Lemma occ_absent c l : ~ In (Some c) l -> occ c l = 0.
Proof.
  induction l as [|[y|] t IH]; intros H; cbn [occ]; [reflexivity| |].
  - destruct (Nat.eqb_spec c y) as [->|_]; [exfalso; apply H; left; reflexivity|].
    apply IH. intros Hin. apply H. right. exact Hin.
  - apply IH. intros Hin. apply H. right. exact Hin.
Qed.

Lemma occ_two a b c : once [a; b] -> In (Some c) [a; b] -> occ c [a; b] = 1.
Proof.
  intros Ho Hin. cbn [occ].
  assert (Hboth : a = Some c -> b = Some c -> False).
  { intros -> ->. specialize (Ho 0 1 c eq_refl eq_refl). discriminate. }
  destruct a as [x|]; destruct b as [y|]; cbn [occ].
  - destruct (Nat.eqb_spec c x) as [Ex|Hx]; destruct (Nat.eqb_spec c y) as [Ey|Hy]; try reflexivity.
    + exfalso. subst. apply Hboth; reflexivity.
    + exfalso. destruct Hin as [H|[H|[]]]; congruence.
  - destruct (Nat.eqb_spec c x) as [->|Hx]; [reflexivity|]. exfalso. destruct Hin as [H|[H|[]]]; congruence.
  - destruct (Nat.eqb_spec c y) as [->|Hy]; [reflexivity|]. exfalso. destruct Hin as [H|[H|[]]]; congruence.
  - exfalso. destruct Hin as [H|[H|[]]]; discriminate.
Qed.

Lemma breaches_len s : forall fuel c, length (banc s (S fuel) c) <= fuel -> breaches_root s fuel c = true.
Proof.
  induction fuel as [|f IH]; intros c H.
  - cbn [banc] in H. cbn [breaches_root]. destruct (bpar s c); [cbn in H; lia|reflexivity].
  - cbn [breaches_root]. change (banc s (S (S f)) c) with
      (match bpar s c with None => [] | Some p => p :: banc s (S f) p end) in H.
    destruct (bpar s c) as [p|]; [|reflexivity]. apply IH. cbn [length] in H. lia.
Qed.

Theorem BWF_bwf_b s : BWF s -> bwf_b s = true.
Proof.
  intros W. pose proof W as [Hl Hd Hu Ho Hb [r Hr]]. unfold bwf_b. apply andb_true_iff. split.
  - apply forallb_bids. intros p _. apply andb_true_iff. split; [rewrite Hl; reflexivity|].
    apply forallb_forall. intros [c|] Hin; [|reflexivity].
    pose proof Hin as Hin'. apply In_slot in Hin'. destruct Hin' as [i Hi]. pose proof (Hd _ _ _ Hi) as E.
    destruct (Hb _ _ E) as [Hc _]. apply Nat.ltb_lt in Hc. rewrite Hc, E, boid_eqb_refl. cbn [andb].
    destruct (len2 _ (Hl p)) as [a [b Eab]]. pose proof (Ho p) as Hop. rewrite Eab in *.
    rewrite (occ_two a b c Hop Hin). reflexivity.
  - apply forallb_bids. intros c _. apply andb_true_iff. split.
    + destruct (bpar s c) as [p|] eqn:E; [|reflexivity]. destruct (Hb _ _ E) as [_ Hp].
      apply Nat.ltb_lt in Hp. rewrite Hp. cbn [andb]. destruct (Hu _ _ E) as [i Hi]. apply slot_In in Hi.
      destruct (len2 _ (Hl p)) as [a [b Eab]]. pose proof (Ho p) as Hop. rewrite Eab in *.
      rewrite (occ_two a b c Hop Hi). reflexivity.
    + apply breaches_len. rewrite (banc_fix s r Hr Hb (bsize s) c (le_n _)).
      exact (banc_len_le s r Hr Hb c).
Qed.

(* the spec's ancestor test is the model's *)
Lemma is_anc_b_memb s a : forall fuel x, is_anc_b s fuel a x = memb a (banc s fuel x).
Proof.
  induction fuel as [|f IH]; intros x; [reflexivity|]. cbn [is_anc_b banc].
  destruct (bpar s x) as [q|]; [|reflexivity]. cbn [memb existsb]. rewrite IH, (Nat.eqb_sym q a). reflexivity.
Qed.

(* ------------------------------------------------------------------------------------------ *)
(* "deleting children empties both slots" *)

Theorem del_empties_sound cfg s o : BWF s -> bop_in_range s o = true ->
  del_empties_b s o (fst (bstep cfg s o)) (is_ok (snd (bstep cfg s o))) = true.
Proof.
  intros W Hr. destruct o; try reflexivity. unfold bstep. rewrite Hr. cbn [negb fst snd is_ok del_empties_b andb].
  destruct (len2 _ (bw_len s W p)) as [l [r E]]. destruct (del_state s p l r W E) as [_ [P K]].
  rewrite K, Nat.eqb_refl. cbn [bslots_eqb list_eqb boid_eqb opt_eqb andb].
  apply forallb_forall. intros [x|] Hin; [|reflexivity]. rewrite P, E in *.
  apply slot_mem_In in Hin. rewrite Hin. reflexivity.
Qed.

(* ------------------------------------------------------------------------------------------ *)
(* "... or is refused when both are taken" — and only then, loops and failing hooks apart *)

Lemma two_slots_eq (l : list (option id)) a b : length l = 2 -> slot l 0 = a -> slot l 1 = b -> l = [a; b].
Proof.
  intros Hl H0 H1. destruct (len2 _ Hl) as [x [y ->]]. rewrite slot2 in H0, H1. congruence.
Qed.

Definition takenb (c : id) (o : option id) : bool :=
  match o with Some x => negb (Nat.eqb x c) | None => false end.

Lemma detach_full s (c p : id) : BWF s ->
  bfull (bdetach s c) (Some p) = takenb c (slot (bkids s p) 0) && takenb c (slot (bkids s p) 1).
Proof.
  intros W. destruct (detach_kids s c p W) as [Hlen Hs].
  assert (Hl1 : length (bkids (bdetach s c) p) = 2) by (rewrite Hlen; apply (bw_len s W)).
  assert (Htk : forall j, takenb c (slot (bkids s p) j) = true <-> slot (bkids (bdetach s c) p) j <> None).
  { intros j. rewrite Hs. unfold takenb, rm. destruct (slot (bkids s p) j) as [x|]; [|split; [discriminate|congruence]].
    rewrite (Nat.eqb_sym x c). destruct (Nat.eqb c x); cbn [negb]; split; congruence. }
  unfold bfull. destruct (first_empty (bkids (bdetach s c) p)) as [i|] eqn:E.
  - destruct (first_empty_some _ _ E) as [Hi [Hn _]]. rewrite Hl1 in Hi. symmetry. apply andb_false_iff.
    destruct i as [|[|i]]; [left|right|lia].
    + destruct (takenb c (slot (bkids s p) 0)) eqn:T; [apply Htk in T; congruence|reflexivity].
    + destruct (takenb c (slot (bkids s p) 1)) eqn:T; [apply Htk in T; congruence|reflexivity].
  - pose proof (first_empty_none _ E) as Hn. rewrite Hl1 in Hn. symmetry. apply andb_true_iff.
    split; apply Htk, Hn; lia.
Qed.

Theorem full_refused_sound cfg s o : BWF s -> bop_in_range s o = true ->
  full_refused_b s o (is_ok (snd (bstep cfg s o))) = true.
Proof.
  intros W Hr. destruct o; try reflexivity. destruct a as [p| |]; try reflexivity.
  unfold bstep. rewrite Hr. cbn [negb full_refused_b]. unfold slot_at.
  fold (slot (bkids s p) 0). fold (slot (bkids s p) 1).
  change (match slot (bkids s p) 0 with Some x => negb (Nat.eqb x c) | None => false end)
    with (takenb c (slot (bkids s p) 0)).
  change (match slot (bkids s p) 1 with Some x => negb (Nat.eqb x c) | None => false end)
    with (takenb c (slot (bkids s p) 1)).
  rewrite <- (detach_full s c p W).
  assert (Hloop : Nat.eqb p c || is_anc_b s (bsize s) c p = bparent_loop s c (Some p)).
  { unfold bparent_loop, bancestors. rewrite is_anc_b_memb. reflexivity. }
  rewrite Hloop. unfold bset_parent. cbv zeta.
  destruct (bfull (bdetach s c) (Some p)) eqn:EF.
  - destruct (bparent_loop s c (Some p)); [reflexivity|]. destruct (fault_eqb ft PreFail); [reflexivity|].
    rewrite (bcorrupted_false s c W). reflexivity.
  - destruct (fault_eqb ft NoFault) eqn:Eft; [|reflexivity]. destruct ft; try discriminate.
    destruct (bparent_loop s c (Some p)); [reflexivity|]. cbn [negb andb fault_eqb].
    rewrite (bcorrupted_false s c W). reflexivity.
Qed.

(* ------------------------------------------------------------------------------------------ *)
(* "assigning a child to a slot empties the slot it came from" *)

Lemma moved_ok_relinked s s' (p : id) news (x : id) i :
  relinked s s' p news -> once news -> slot news i = Some x -> moved_ok s s' x p i = true.
Proof.
  intros [Rs Rp Rkp Rl Rk] Ho Hi. unfold moved_ok, slot_at.
  fold (slot (bkids s' p) i). rewrite Rkp, Hi, boid_eqb_refl.
  assert (Hm : slot_mem x news = true) by (apply slot_mem_In; exact (slot_In _ _ _ Hi)).
  rewrite Rp, Hm, boid_eqb_refl. cbn [andb].
  apply forallb_bids. intros q _. apply forallb_forall. intros j _.
  fold (slot (bkids s q) j). fold (slot (bkids s' q) j).
  destruct (boid_eqb (slot (bkids s q) j) (Some x)) eqn:E1; [|reflexivity]. apply boid_eqb_eq in E1.
  destruct (Nat.eqb_spec q p) as [->|Hq]; cbn [andb negb].
  - destruct (Nat.eqb_spec j i) as [->|Hj]; cbn [negb]; [reflexivity|]. rewrite Rkp.
    destruct (boid_eqb (slot news j) (Some x)) eqn:E2; [|reflexivity]. apply boid_eqb_eq in E2.
    exfalso. apply Hj. exact (Ho _ _ _ E2 Hi).
  - rewrite Rk, E1 by exact Hq. cbn [rmset]. rewrite Hm. reflexivity.
Qed.

Lemma assigned_ok_relinked s s' (p : id) news i a : BWF s ->
  relinked s s' p news -> once news -> length news = 2 -> i < 2 ->
  slot news i = slot_of_arg a -> a <> AJunk -> assigned_ok s s' p i a = true.
Proof.
  intros W R Ho Hl Hi Hs Hj. destruct a as [x| |]; [|  |congruence]; cbn [assigned_ok slot_of_arg] in *.
  - exact (moved_ok_relinked s s' p news x i R Ho Hs).
  - destruct R as [Rs Rp Rkp Rl Rk]. unfold emptied_ok, slot_at.
    fold (slot (bkids s' p) i). fold (slot (bkids s' p) (1 - i)). fold (slot (bkids s p) i).
    rewrite Rkp, Hs. cbn [boid_eqb opt_eqb andb].
    destruct (slot (bkids s p) i) as [y|] eqn:Ey; [|reflexivity].
    destruct (boid_eqb (slot news (1 - i)) (Some y)) eqn:E1; [reflexivity|].
    assert (Hn : slot_mem y news = false).
    { apply slot_mem_false. intros Hin. apply In_slot in Hin. destruct Hin as [j Hj'].
      pose proof (slot_lt _ _ _ Hj') as Hlt. rewrite Hl in Hlt.
      assert (Hji : j = i \/ j = 1 - i) by lia. destruct Hji as [->| ->]; [congruence|].
      rewrite Hj', boid_eqb_refl in E1. discriminate. }
    assert (Hk : slot_mem y (bkids s p) = true) by (apply slot_mem_In; exact (slot_In _ _ _ Ey)).
    rewrite Rp, Hn, Hk. reflexivity.
Qed.

Lemma check_no_junk s p a1 a2 : bcheck_children s p [a1; a2] [] = None -> a1 <> AJunk /\ a2 <> AJunk.
Proof.
  intros H. split; intros ->; [discriminate|]. destruct a1 as [x| |]; cbn [bcheck_children] in H; try discriminate.
  destruct (Nat.eqb x p); [discriminate|]. destruct (memb x (bancestors s p)); [discriminate|].
  destruct (memb x []); discriminate.
Qed.

Lemma is_ok_false o : o <> Ok -> is_ok o = false.
Proof. destruct o; [congruence|reflexivity]. Qed.

(* what an accepted children assignment looks like *)
Lemma children_accepted cfg ft s (p : id) cont args : BWF s -> p < bsize s ->
  forallb (barg_in_range s) args = true ->
  is_ok (snd (bset_children cfg ft s p cont args)) = true ->
  exists a1 a2, norm_args args = [a1; a2] /\ a1 <> AJunk /\ a2 <> AJunk
    /\ relinked s (fst (bset_children cfg ft s p cont args)) p [slot_of_arg a1; slot_of_arg a2]
    /\ valid_news s p [slot_of_arg a1; slot_of_arg a2].
Proof.
  intros W Hp Hr Hok. apply norm_args_range in Hr.
  destruct (set_children_inv cfg ft s p cont args) as [E1 E2|a1 a2 EN EC E|a1 a2 EN EC E].
  - rewrite (is_ok_false _ E2) in Hok. discriminate.
  - rewrite E in Hok. discriminate.
  - rewrite EN in Hr. cbn [forallb] in Hr. apply andb_true_iff in Hr. destruct Hr as [R1 R2].
    apply andb_true_iff in R2. destruct R2 as [R2 _].
    destruct (check_valid s p a1 a2 W Hp R1 R2 EC) as [V Hab]. destruct (check_no_junk s p a1 a2 EC) as [J1 J2].
    exists a1, a2. rewrite E. cbn [fst]. split; [exact EN|]. split; [exact J1|]. split; [exact J2|].
    split; [apply (assign_relinked s p _ _ W Hp Hab)|exact V].
Qed.

Theorem slot_moves_sound cfg s o : BWF s -> bop_in_range s o = true ->
  slot_moves_b s o (fst (bstep cfg s o)) (is_ok (snd (bstep cfg s o))) = true.
Proof.
  intros W Hr. unfold slot_moves_b.
  destruct (is_ok (snd (bstep cfg s o))) eqn:Hok; cbn [negb]; [|reflexivity].
  destruct o; try reflexivity; revert Hok; unfold bstep; rewrite Hr; cbn [negb];
    cbn [bop_in_range] in Hr; repeat (apply andb_true_iff in Hr; destruct Hr as [Hr ?]);
    unfold bin_range in *; apply Nat.ltb_lt in Hr; intros Hok.
  - (* p.children = args *)
    destruct (children_accepted cfg ft s p cont args W Hr H Hok) as [a1 [a2 [EN [J1 [J2 [R V]]]]]].
    destruct V as [Vl Vo _ _].
    assert (A0 := assigned_ok_relinked s _ p _ 0 a1 W R Vo Vl ltac:(lia) eq_refl J1).
    assert (A1 := assigned_ok_relinked s _ p _ 1 a2 W R Vo Vl ltac:(lia) eq_refl J2).
    destruct args as [|b1 [|b2 [|b3 t]]]; cbn [norm_args] in EN; try discriminate.
    + injection EN as <- <-. cbn [assigned_ok] in A0, A1. rewrite A0, A1. reflexivity.
    + injection EN as <- <-. rewrite A0, A1. reflexivity.
  - (* p.left = a *)
    unfold bset_left, right_of in *. destruct (nth_error (bkids s p) 1) as [r|] eqn:E; [|discriminate].
    assert (Hr2 : forallb (barg_in_range s) [a; arg_of_slot r] = true).
    { cbn [forallb]. rewrite H, (arg_of_slot_range s p 1 r W E). reflexivity. }
    destruct (children_accepted cfg ft s p CList _ W Hr Hr2 Hok) as [a1 [a2 [EN [J1 [J2 [R V]]]]]].
    cbn [norm_args] in EN. injection EN as <- <-. destruct V as [Vl Vo _ _].
    rewrite (assigned_ok_relinked s _ p _ 0 a W R Vo Vl ltac:(lia) eq_refl J1). cbn [andb].
    unfold slot_at. fold (slot (bkids (fst (bset_children cfg ft s p CList [a; arg_of_slot r])) p) 1).
    rewrite (rl_kids_p _ _ _ _ R), slot2. fold (slot (bkids s p) 1). rewrite (nth_error_slot _ _ _ E).
    destruct r; apply boid_eqb_refl.
  - (* p.right = a *)
    unfold bset_right, left_of in *. destruct (nth_error (bkids s p) 0) as [l|] eqn:E; [|discriminate].
    assert (Hr2 : forallb (barg_in_range s) [arg_of_slot l; a] = true).
    { cbn [forallb]. rewrite H, (arg_of_slot_range s p 0 l W E). reflexivity. }
    destruct (children_accepted cfg ft s p CList _ W Hr Hr2 Hok) as [a1 [a2 [EN [J1 [J2 [R V]]]]]].
    cbn [norm_args] in EN. injection EN as <- <-. destruct V as [Vl Vo _ _].
    rewrite (assigned_ok_relinked s _ p _ 1 a W R Vo Vl ltac:(lia) eq_refl J2). cbn [andb].
    unfold slot_at. fold (slot (bkids (fst (bset_children cfg ft s p CList [arg_of_slot l; a])) p) 0).
    rewrite (rl_kids_p _ _ _ _ R), slot2. fold (slot (bkids s p) 0). rewrite (nth_error_slot _ _ _ E).
    destruct l; apply boid_eqb_refl.
Qed.

(* ------------------------------------------------------------------------------------------ *)
(* "attaching by parent fills the first empty slot (left before right)" *)

Lemma un_rm (c : id) o : (if boid_eqb o (Some c) then None else o) = rm c o.
Proof.
  unfold rm. destruct o as [y|]; [|reflexivity]. cbn [boid_eqb opt_eqb]. rewrite (Nat.eqb_sym y c).
  destruct (Nat.eqb c y); reflexivity.
Qed.

Theorem parent_first_empty_sound cfg s o : BWF s -> bop_in_range s o = true ->
  parent_first_empty_b s o (fst (bstep cfg s o)) (is_ok (snd (bstep cfg s o))) = true.
Proof.
  intros W Hr. unfold parent_first_empty_b.
  destruct (is_ok (snd (bstep cfg s o))) eqn:Hok; cbn [negb]; [|reflexivity].
  destruct o; try reflexivity. revert Hok. unfold bstep. rewrite Hr. cbn [negb].
  cbn [bop_in_range] in Hr. apply andb_true_iff in Hr. destruct Hr as [Hc Ha].
  unfold bin_range in Hc. apply Nat.ltb_lt in Hc.
  unfold bset_parent. destruct a as [p| |]; cbv zeta; [| |discriminate].
  - destruct (bparent_loop s c (Some p)) eqn:EL; [discriminate|]. destruct (loop_false s c p EL) as [Hpc Hanc].
    destruct (fault_eqb ft PreFail); [discriminate|]. rewrite (bcorrupted_false s c W).
    destruct (bfull (bdetach s c) (Some p)) eqn:EF; [discriminate|].
    destruct (fault_eqb ft PostFail); [discriminate|]. intros _. cbn [fst].
    cbn [barg_in_range] in Ha. unfold bin_range in Ha. apply Nat.ltb_lt in Ha.
    destruct (attach_relinked s c p W Hc Ha Hpc Hanc EF) as [R V].
    destruct (bfull_false _ _ EF) as [i Ei]. pose proof (sp_news_slot s c p i W Ei) as HS.
    destruct (first_empty_some _ _ Ei) as [Hi [Hnone Hmin]].
    destruct (detach_kids s c p W) as [Hlen Hs]. rewrite Hlen, (bw_len s W) in Hi. rewrite Hs in Hnone.
    unfold slot_at. rewrite !un_rm.
    fold (slot (bkids s p) 0). fold (slot (bkids s p) 1).
    set (s' := battach (bdetach s c) c (Some p)) in *.
    fold (slot (bkids s' p) 0). fold (slot (bkids s' p) 1).
    rewrite (rl_kids_p _ _ _ _ R), !HS.
    assert (Hm : slot_mem c (sp_news s c p) = true).
    { apply slot_mem_In, (slot_In _ i). rewrite HS, Nat.eqb_refl. reflexivity. }
    rewrite (rl_par _ _ _ _ R), Hm, boid_eqb_refl. cbn [andb].
    destruct (rm c (slot (bkids s p) 0)) as [y|] eqn:E0.
    + assert (Ei1 : i = 1).
      { destruct i as [|[|i]]; [congruence|reflexivity|lia]. }
      subst i. cbn [Nat.eqb]. rewrite !boid_eqb_refl. cbn [andb].
      apply (moved_ok_relinked s s' p _ c 1 R (vn_once _ _ _ V)). rewrite HS. reflexivity.
    + assert (Ei0 : i = 0).
      { destruct i as [|i]; [reflexivity|]. exfalso. apply (Hmin 0); [lia|]. rewrite Hs. exact E0. }
      subst i. cbn [Nat.eqb]. rewrite !boid_eqb_refl. cbn [andb].
      apply (moved_ok_relinked s s' p _ c 0 R (vn_once _ _ _ V)). rewrite HS. reflexivity.
  - cbn [bparent_loop bfull]. destruct (fault_eqb ft PreFail); [discriminate|]. rewrite (bcorrupted_false s c W).
    destruct (fault_eqb ft PostFail); [discriminate|]. intros _. cbn [fst]. unfold battach.
    pose proof (orphan_BWF s c W) as W'. set (s' := bset_par (bdetach s c) c None) in *.
    assert (Ec : bpar s' c = None) by (unfold s'; cbn [bpar bset_par]; apply upd_same).
    rewrite Ec. cbn [boid_eqb opt_eqb andb]. apply forallb_bids. intros q _. apply Nat.eqb_eq, occ_absent.
    intros Hin. apply In_slot in Hin. destruct Hin as [j Hj]. apply (bw_down s' W') in Hj. congruence.
Qed.

(* ------------------------------------------------------------------------------------------ *)
(* all clauses of C11 on one step; `left` / `right` are the two slots *)

Theorem prop_C11_step_sound cfg s o : BWF s -> bop_in_range s o = true ->
  prop_C11_step s o (fst (bstep cfg s o)) (is_ok (snd (bstep cfg s o))) = true.
Proof.
  intros W Hr. unfold prop_C11_step.
  rewrite (BWF_bwf_b _ (bstep_BWF cfg s o W)), (slot_moves_sound cfg s o W Hr),
          (parent_first_empty_sound cfg s o W Hr), (full_refused_sound cfg s o W Hr),
          (del_empties_sound cfg s o W Hr). reflexivity.
Qed.

Theorem getters_sound s : BWF s -> getters_ok_b s (fun p => (left_of s p, right_of s p)) = true.
Proof.
  intros W. unfold getters_ok_b. apply forallb_bids. intros p _. cbn [fst snd]. unfold left_of, right_of.
  destruct (len2 _ (bw_len s W p)) as [a [b ->]]. cbn [nth_error]. unfold opt_eqb at 1 2.
  rewrite !boid_eqb_refl. reflexivity.
Qed.

(* an operation outside the live ids is declined by the model and leaves the state alone *)
Lemma bstep_out_of_range cfg s o : bop_in_range s o = false -> bstep cfg s o = (s, Err Unmodelled).
Proof. intros H. unfold bstep. rewrite H. reflexivity. Qed.

(* C20 lifted to histories: when every operation of a history is accepted under one setting of the
   switch, the whole trace (states and outcomes) is the same under the other setting *)
Theorem binary_assert_irrelevant_trace cfg cfg' : forall ops s,
  Forall (fun r => snd r = Ok) (btrace cfg s ops) -> btrace cfg' s ops = btrace cfg s ops.
Proof.
  induction ops as [|o t IH]; intros s H; [reflexivity|]. cbn [btrace] in *.
  inversion H as [|r l H1 H2]; subst. rewrite (binary_assert_irrelevant cfg cfg' s o H1).
  f_equal. apply IH. exact H2.
Qed.

(* C20, guards are pure — the general form: the switch matters only where a type/loop check rejects
   (there the model under `assertions := false` declines: Unmodelled).  Everywhere else — accepted
   operations, failing user hooks with their rollback, full parents, wrong lengths / containers — both
   settings give the same state and the same outcome. *)
Definition cfg_off : config := {| assertions := false; is_node := true |}.

Lemma set_parent_off cfg ft s c a :
  snd (bset_parent cfg_off ft s c a) <> Err Unmodelled ->
  bset_parent cfg ft s c a = bset_parent cfg_off ft s c a.
Proof.
  unfold bset_parent. destruct a as [p| |]; cbv zeta.
  - destruct (bparent_loop s c (Some p)); [cbn; congruence|]. reflexivity.
  - destruct (bparent_loop s c None); [cbn; congruence|]. reflexivity.
  - cbn. congruence.
Qed.

Lemma set_children_off cfg ft s p cont args :
  snd (bset_children cfg_off ft s p cont args) <> Err Unmodelled ->
  bset_children cfg ft s p cont args = bset_children cfg_off ft s p cont args.
Proof.
  unfold bset_children. destruct cont; try reflexivity; cbv zeta.
  all: match goal with |- context [negb ?b] => destruct b end; cbn [negb]; try reflexivity.
  1,2: destruct (bcheck_children s p _ []); [cbn; congruence|reflexivity].
  destruct args; [|reflexivity].
  destruct (bcheck_children s p _ []); [cbn; congruence|reflexivity].
Qed.

Lemma extend_off cfg p : forall cs fts s,
  snd (bextend_loop cfg_off s p cs fts) <> Err Unmodelled ->
  bextend_loop cfg s p cs fts = bextend_loop cfg_off s p cs fts.
Proof.
  induction cs as [|c t IH]; intros fts s; cbn [bextend_loop]; [reflexivity|].
  destruct (bset_parent cfg_off (hd NoFault fts) s c (ANode p)) as [s1 o] eqn:E. intros H.
  assert (E' : bset_parent cfg (hd NoFault fts) s c (ANode p) = (s1, o)).
  { rewrite <- E. apply set_parent_off. rewrite E. destruct o; [discriminate|exact H]. }
  rewrite E'. destruct o; [apply IH; exact H|reflexivity].
Qed.

Theorem binary_guards_pure cfg s o :
  snd (bstep cfg_off s o) <> Err Unmodelled -> bstep cfg s o = bstep cfg_off s o.
Proof.
  unfold bstep. destruct (bop_in_range s o); cbn [negb]; [|reflexivity].
  destruct o; try reflexivity.
  - apply set_parent_off.
  - apply set_children_off.
  - unfold bset_left. destruct (right_of s p); [apply set_children_off|reflexivity].
  - unfold bset_right. destruct (left_of s p); [apply set_children_off|reflexivity].
  - apply extend_off.
  - unfold bnew. cbv zeta. match goal with |- context [if ?b then _ else _] => destruct b end; [reflexivity|].
    destruct (bset_parent cfg_off fp (balloc s) (bsize s) par) as [s1 o] eqn:E. intros H.
    assert (E' : bset_parent cfg fp (balloc s) (bsize s) par = (s1, o)).
    { rewrite <- E. apply set_parent_off. rewrite E. destruct o; [discriminate|exact H]. }
    rewrite E'. destruct o; [apply set_children_off; exact H|reflexivity].
Qed.

(* ... along a history: if the model never declines with the checks off, the whole trace (states and
   outcomes, hook failures and their rollbacks included) is the same with the checks on *)
Theorem binary_guards_pure_trace cfg : forall ops s,
  Forall (fun r => snd r <> Err Unmodelled) (btrace cfg_off s ops) -> btrace cfg s ops = btrace cfg_off s ops.
Proof.
  induction ops as [|o t IH]; intros s H; [reflexivity|]. cbn [btrace] in *.
  inversion H as [|r l H1 H2]; subst. rewrite (binary_guards_pure cfg s o H1).
  f_equal. apply IH. exact H2.
Qed.
