(* Proofs about the BinaryNode heap model (Heap/Binary.v): the two-slot invariant BWF is preserved
   by every operation (accepted, rejected or failing), the effect clauses of C11, atomicity of a
   rejected / failing assignment (C02, BinaryNode share) and irrelevance of the assertion switch for
   accepted operations (C20, BinaryNode share). *)
From BT Require Import Base.Prelude Heap.Forest Heap.Binary.

(* ========================================================================================== *)
(* 1. slot lists *)

Lemma upd_same {A} (f : id -> A) k v : upd f k v k = v.
Proof. unfold upd. rewrite Nat.eqb_refl. reflexivity. Qed.
Lemma upd_other {A} (f : id -> A) k v x : x <> k -> upd f k v x = f x.
Proof. unfold upd. intros H. destruct (Nat.eqb_spec x k); [contradiction|reflexivity]. Qed.

Lemma set_nth_length {A} (v : A) : forall l i, length (set_nth i v l) = length l.
Proof.
  induction l as [|h t IH]; intros i; [reflexivity|].
  destruct i; cbn [set_nth length]; [reflexivity|]. rewrite IH. reflexivity.
Qed.

Lemma slot_set_nth v : forall l i j,
  slot (set_nth i v l) j = if Nat.eqb j i && Nat.ltb i (length l) then v else slot l j.
Proof.
  unfold slot. induction l as [|h t IH]; intros i j.
  - cbn [set_nth length]. rewrite Bool.andb_false_r. reflexivity.
  - destruct i as [|i]; destruct j as [|j]; cbn [set_nth nth length]; try reflexivity.
    rewrite IH. change (Nat.eqb (S j) (S i)) with (Nat.eqb j i).
    change (Nat.ltb (S i) (S (length t))) with (Nat.ltb i (length t)). reflexivity.
Qed.

Lemma slot_In l i x : slot l i = Some x -> In (Some x) l.
Proof.
  unfold slot. intros H. destruct (Nat.lt_ge_cases i (length l)) as [Hlt|Hge].
  - rewrite <- H. apply nth_In. exact Hlt.
  - rewrite nth_overflow in H by exact Hge. discriminate.
Qed.

Lemma slot_lt l i x : slot l i = Some x -> i < length l.
Proof.
  unfold slot. intros H. destruct (Nat.lt_ge_cases i (length l)) as [Hlt|Hge]; [exact Hlt|].
  rewrite nth_overflow in H by exact Hge. discriminate.
Qed.

Lemma In_slot l x : In (Some x) l -> exists i, slot l i = Some x.
Proof. intros H. destruct (In_nth l (Some x) None H) as [i [_ Hi]]. exists i. exact Hi. Qed.

Lemma slot_ext l l' : length l = length l' -> (forall j, slot l j = slot l' j) -> l = l'.
Proof. intros Hl H. apply (nth_ext l l' None None Hl). intros n _. apply H. Qed.

Lemma slot_mem_In x l : slot_mem x l = true <-> In (Some x) l.
Proof.
  unfold slot_mem. rewrite existsb_exists. split.
  - intros [[y|] [Hy E]]; [|discriminate]. apply Nat.eqb_eq in E. subst. exact Hy.
  - intros H. exists (Some x). split; [exact H|apply Nat.eqb_refl].
Qed.

Lemma slot_mem_false x l : slot_mem x l = false <-> ~ In (Some x) l.
Proof.
  rewrite <- slot_mem_In. destruct (slot_mem x l); split; intros H; congruence.
Qed.

Lemma slot_index_spec x : forall l, In (Some x) l ->
  slot_index x l < length l /\ slot l (slot_index x l) = Some x.
Proof.
  unfold slot. induction l as [|h t IH]; intros H; [contradiction|].
  cbn [slot_index]. destruct h as [y|].
  - destruct (Nat.eqb_spec x y) as [->|Hne]; cbn [length nth].
    + split; [lia|reflexivity].
    + destruct H as [H|H]; [congruence|]. destruct (IH H). split; [lia|assumption].
  - destruct H as [H|H]; [discriminate|]. destruct (IH H). cbn [length nth]. split; [lia|assumption].
Qed.

Lemma slot_index_absent x : forall l, ~ In (Some x) l -> slot_index x l = length l.
Proof.
  induction l as [|h t IH]; intros H; [reflexivity|].
  cbn [slot_index length]. destruct h as [y|].
  - destruct (Nat.eqb_spec x y) as [->|Hne]; [exfalso; apply H; left; reflexivity|].
    rewrite IH; [reflexivity|]. intros Hin. apply H. right. exact Hin.
  - rewrite IH; [reflexivity|]. intros Hin. apply H. right. exact Hin.
Qed.

(* a node occupies at most one slot of the list *)
Definition once (l : list (option id)) : Prop :=
  forall i j x, slot l i = Some x -> slot l j = Some x -> i = j.

Lemma slot_index_once l i x : once l -> slot l i = Some x -> slot_index x l = i.
Proof.
  intros Ho H. destruct (slot_index_spec x l (slot_In _ _ _ H)) as [_ H2]. exact (Ho _ _ _ H2 H).
Qed.

(* emptying the slots that hold x *)
Definition rm (x : id) (o : option id) : option id :=
  match o with Some y => if Nat.eqb x y then None else Some y | None => None end.

Lemma rm_Some x o y : rm x o = Some y <-> o = Some y /\ y <> x.
Proof.
  unfold rm. destruct o as [z|]; [|split; [discriminate|intros [? _]; discriminate]].
  destruct (Nat.eqb_spec x z) as [->|Hne]; split.
  - discriminate.
  - intros [[= ->] H]. congruence.
  - intros [= ->]. split; [reflexivity|congruence].
  - intros [[= ->] _]. reflexivity.
Qed.

Lemma rm_absent x o : o <> Some x -> rm x o = o.
Proof.
  unfold rm. destruct o as [z|]; [|reflexivity]. intros H.
  destruct (Nat.eqb_spec x z) as [->|Hne]; [congruence|reflexivity].
Qed.

Lemma clear_slot_length x l : length (clear_slot x l) = length l.
Proof. apply set_nth_length. Qed.

Lemma slot_clear x l j : once l -> slot (clear_slot x l) j = rm x (slot l j).
Proof.
  intros Ho. unfold clear_slot. rewrite slot_set_nth.
  destruct (slot_mem x l) eqn:Em.
  - apply slot_mem_In in Em. destruct (slot_index_spec x l Em) as [Hlt Hs].
    apply Nat.ltb_lt in Hlt. rewrite Hlt, Bool.andb_true_r.
    destruct (Nat.eqb_spec j (slot_index x l)) as [->|Hne].
    + rewrite Hs. unfold rm. rewrite Nat.eqb_refl. reflexivity.
    + symmetry. apply rm_absent. intros H. apply Hne. exact (Ho _ _ _ H Hs).
  - apply slot_mem_false in Em. rewrite (slot_index_absent x l Em), Nat.ltb_irrefl, Bool.andb_false_r.
    symmetry. apply rm_absent. intros H. apply Em. exact (slot_In _ _ _ H).
Qed.

Lemma once_clear x l : once l -> once (clear_slot x l).
Proof.
  intros Ho i j y Hi Hj. rewrite slot_clear in Hi, Hj by exact Ho.
  apply rm_Some in Hi. apply rm_Some in Hj. exact (Ho _ _ _ (proj1 Hi) (proj1 Hj)).
Qed.

Lemma clear_absent x l : ~ In (Some x) l -> clear_slot x l = l.
Proof.
  intros H. apply slot_ext; [apply clear_slot_length|]. intros j.
  unfold clear_slot. rewrite slot_set_nth, (slot_index_absent x l H), Nat.ltb_irrefl, Bool.andb_false_r.
  reflexivity.
Qed.

Lemma first_empty_some : forall l i, first_empty l = Some i ->
  i < length l /\ slot l i = None /\ forall j, j < i -> slot l j <> None.
Proof.
  unfold slot. induction l as [|h t IH]; intros i H; [discriminate|].
  cbn [first_empty] in H. destruct h as [y|].
  - destruct (first_empty t) as [k|] eqn:E; [|discriminate]. injection H as <-.
    destruct (IH k eq_refl) as [H1 [H2 H3]]. cbn [length nth]. split; [lia|]. split; [exact H2|].
    intros [|j] Hj; cbn [nth]; [discriminate|]. apply H3. lia.
  - injection H as <-. cbn [length nth]. split; [lia|]. split; [reflexivity|]. intros j Hj. lia.
Qed.

Lemma first_empty_none : forall l, first_empty l = None -> forall j, j < length l -> slot l j <> None.
Proof.
  unfold slot. induction l as [|h t IH]; intros H j Hj; [cbn in Hj; lia|].
  cbn [first_empty] in H. destruct h as [y|]; [|discriminate].
  destruct (first_empty t) eqn:E; [discriminate|].
  destruct j as [|j]; cbn [nth]; [discriminate|]. apply IH; [reflexivity|]. cbn [length] in Hj. lia.
Qed.

Lemma len2 {A} (l : list A) : length l = 2 -> exists a b, l = [a; b].
Proof.
  destruct l as [|a [|b [|c t]]]; cbn; intros H; try discriminate. exists a, b. reflexivity.
Qed.

Lemma slot2 a b j : slot [a; b] j = match j with 0 => a | 1 => b | _ => None end.
Proof. unfold slot. destruct j as [|[|[|j]]]; reflexivity. Qed.

(* ========================================================================================== *)
(* 2. the invariant *)

Record BWF (s : bheap) : Prop := {
  bw_len   : forall p, length (bkids s p) = 2;                                  (* exactly two slots   *)
  bw_down  : forall p i c, slot (bkids s p) i = Some c -> bpar s c = Some p;    (* slot -> parent      *)
  bw_up    : forall c p, bpar s c = Some p -> exists i, slot (bkids s p) i = Some c;  (* parent -> slot *)
  bw_once  : forall p, once (bkids s p);                                        (* in one slot only    *)
  bw_bound : forall c p, bpar s c = Some p -> c < bsize s /\ p < bsize s;       (* links among live ids *)
  bw_acyc  : exists r : id -> nat, forall c p, bpar s c = Some p -> r p < r c   (* ghost rank           *)
}.

(* pointwise equality of states (no functional extensionality) *)
Definition beq (s t : bheap) : Prop :=
  bsize s = bsize t /\ (forall x, bpar s x = bpar t x) /\ (forall x, bkids s x = bkids t x).

Lemma beq_refl s : beq s s.
Proof. repeat split. Qed.
Lemma beq_sym s t : beq s t -> beq t s.
Proof. intros [H1 [H2 H3]]. repeat split; intros; symmetry; auto. Qed.
Lemma beq_trans s t u : beq s t -> beq t u -> beq s u.
Proof.
  intros [H1 [H2 H3]] [G1 [G2 G3]]. split; [congruence|].
  split; intros x; [rewrite H2; apply G2|rewrite H3; apply G3].
Qed.

Lemma BWF_beq s t : BWF s -> beq s t -> BWF t.
Proof.
  intros [Hl Hd Hu Ho Hb [r Hr]] [E1 [E2 E3]]. constructor.
  - intros p. rewrite <- E3. apply Hl.
  - intros p i c. rewrite <- E3, <- E2. apply Hd.
  - intros c p. rewrite <- E2, <- E3. apply Hu.
  - intros p. rewrite <- E3. apply Ho.
  - intros c p. rewrite <- E2, <- E1. apply Hb.
  - exists r. intros c p. rewrite <- E2. apply Hr.
Qed.

Lemma memb_In x l : memb x l = true <-> In x l.
Proof.
  unfold memb. rewrite existsb_exists. split.
  - intros [y [Hy E]]. apply Nat.eqb_eq in E. subst. exact Hy.
  - intros H. exists x. split; [exact H|apply Nat.eqb_refl].
Qed.

Lemma BWF_init n : BWF (binit n).
Proof.
  constructor; cbn [binit bkids bpar bsize]; try discriminate.
  - reflexivity.
  - intros p i c. rewrite slot2. destruct i as [|[|i]]; discriminate.
  - intros p i j x. rewrite slot2. destruct i as [|[|i]]; discriminate.
  - exists (fun _ => 0). discriminate.
Qed.

(* ------------------------------------------------------------------------------------------ *)
(* the fuelled parent walk on a ranked state: fuel = bsize is never exhausted *)

Section Chain.
Variable s : bheap.
Variable r : id -> nat.
Hypothesis Hr : forall c p, bpar s c = Some p -> r p < r c.
Hypothesis Hb : forall c p, bpar s c = Some p -> c < bsize s /\ p < bsize s.

Lemma banc_rank f : forall c x, In x (banc s f c) -> r x < r c.
Proof.
  induction f as [|f IH]; cbn [banc]; intros c x Hx; [contradiction|].
  destruct (bpar s c) as [p|] eqn:E; [|contradiction].
  destruct Hx as [->|Hx]; [eauto|]. specialize (IH _ _ Hx). specialize (Hr _ _ E). lia.
Qed.

Lemma banc_nodup f : forall c, NoDup (banc s f c).
Proof.
  induction f as [|f IH]; cbn [banc]; intros c; [constructor|].
  destruct (bpar s c) as [p|] eqn:E; [|constructor].
  constructor; [|apply IH]. intros H. apply banc_rank in H. lia.
Qed.

Lemma banc_bound f : forall c x, In x (banc s f c) -> x < bsize s.
Proof.
  induction f as [|f IH]; cbn [banc]; intros c x Hx; [contradiction|].
  destruct (bpar s c) as [p|] eqn:E; [|contradiction].
  destruct Hx as [->|Hx]; [apply (Hb _ _ E)|eauto].
Qed.

Lemma banc_len_lt f c : bsize s <= f -> bpar s c <> None -> length (banc s f c) < f.
Proof.
  intros Hf Hc.
  assert (Hnd : NoDup (c :: banc s f c)).
  { constructor; [|apply banc_nodup]. intros H. apply banc_rank in H. lia. }
  assert (Hin : incl (c :: banc s f c) (seq 0 (bsize s))).
  { intros x [<-|Hx]; apply in_seq.
    - destruct (bpar s c) as [p|] eqn:E; [|congruence]. destruct (Hb _ _ E). lia.
    - apply banc_bound in Hx. lia. }
  pose proof (NoDup_incl_length Hnd Hin) as H. rewrite seq_length in H. cbn [length] in H. lia.
Qed.

Lemma banc_short_stable f : forall c, length (banc s f c) < f -> banc s (S f) c = banc s f c.
Proof.
  induction f as [|f IH]; intros c H; [cbn in H; lia|].
  cbn [banc] in *. destruct (bpar s c) as [p|]; [|reflexivity].
  cbn [length] in H. f_equal. apply IH. lia.
Qed.

Lemma banc_fix f c : bsize s <= f -> banc s (S f) c = banc s f c.
Proof.
  intros Hf. case_eq (bpar s c); [intros p E|intros E].
  - apply banc_short_stable, banc_len_lt; [assumption|congruence].
  - cbn [banc]. rewrite E. destruct f; cbn [banc]; rewrite ?E; reflexivity.
Qed.

Lemma bancestors_unfold c p : bpar s c = Some p -> bancestors s c = p :: bancestors s p.
Proof.
  intros E. unfold bancestors. rewrite <- (banc_fix (bsize s) c) by lia.
  cbn [banc]. rewrite E. reflexivity.
Qed.

Lemma bancestors_root c : bpar s c = None -> bancestors s c = [].
Proof. intros E. unfold bancestors. destruct (bsize s); cbn [banc]; rewrite ?E; reflexivity. Qed.

(* the walk from any node ends at a root within bsize steps *)
Lemma banc_len_le c : length (bancestors s c) <= bsize s.
Proof.
  case_eq (bpar s c); [intros p E|intros E].
  - assert (H := banc_len_lt (bsize s) c (le_n _)). rewrite E in H. specialize (H ltac:(discriminate)).
    unfold bancestors. lia.
  - rewrite (bancestors_root c E). cbn. lia.
Qed.
End Chain.

Lemma existsb_ext_in {A} (f g : A -> bool) l :
  (forall x, In x l -> f x = g x) -> existsb f l = existsb g l.
Proof.
  induction l as [|h t IH]; intros H; [reflexivity|]. cbn [existsb].
  rewrite (H h (or_introl eq_refl)), IH; [reflexivity|]. intros x Hx. apply H. right. exact Hx.
Qed.

(* re-ranking after the nodes `ms` (with their subtrees) have been hung below p *)
Lemma rerank s (ms : list id) p (par' : id -> option id) :
  BWF s ->
  (forall x, In x ms -> x <> p /\ ~ In x (bancestors s p)) ->
  (forall c q, par' c = Some q -> (In c ms /\ q = p) \/ (~ In c ms /\ bpar s c = Some q)) ->
  exists r', forall c q, par' c = Some q -> r' q < r' c.
Proof.
  intros [_ _ _ _ Hb [r Hr]] Hms Hpar.
  set (D := fun x => existsb (fun m => Nat.eqb x m || memb m (bancestors s x)) ms).
  exists (fun x => if D x then r x + r p + 1 else r x).
  intros c q E. destruct (Hpar c q E) as [[Hin ->]|[Hnin Eold]].
  - assert (D p = false) as ->.
    { destruct (D p) eqn:ED; [|reflexivity]. unfold D in ED. apply existsb_exists in ED.
      destruct ED as [m [Hm Hor]]. destruct (Hms m Hm) as [Hne Hna].
      apply orb_true_iff in Hor. destruct Hor as [H|H].
      - apply Nat.eqb_eq in H. congruence.
      - apply memb_In in H. contradiction. }
    assert (D c = true) as ->.
    { unfold D. apply existsb_exists. exists c. split; [exact Hin|]. rewrite Nat.eqb_refl. reflexivity. }
    lia.
  - assert (HD : D c = D q).
    { unfold D. apply existsb_ext_in. intros m Hm.
      rewrite (bancestors_unfold s r Hr Hb c q Eold).
      destruct (Nat.eqb_spec c m) as [->|Hne]; [contradiction|].
      cbn [orb memb existsb]. fold (memb m (bancestors s q)). rewrite (Nat.eqb_sym m q). reflexivity. }
    rewrite HD. specialize (Hr _ _ Eold). destruct (D q); lia.
Qed.

(* ------------------------------------------------------------------------------------------ *)
(* "relinking": node p gets the slot list `news`; the nodes named in `news` leave the slots they sat
   in; the previous children of p that are not named become roots; nothing else changes.  Every
   accepted operation of the model is an instance. *)

Definition rmset (news : list (option id)) (o : option id) : option id :=
  match o with Some y => if slot_mem y news then None else Some y | None => None end.

Lemma rmset_Some news o y : rmset news o = Some y <-> o = Some y /\ slot_mem y news = false.
Proof.
  unfold rmset. destruct o as [z|]; [|split; [discriminate|intros [? _]; discriminate]].
  destruct (slot_mem z news) eqn:E; split.
  - discriminate.
  - intros [[= ->] H]. congruence.
  - intros [= ->]. split; [reflexivity|exact E].
  - intros [[= ->] _]. reflexivity.
Qed.

Record relinked (s s' : bheap) (p : id) (news : list (option id)) : Prop := {
  rl_size : bsize s' = bsize s;
  rl_par  : forall x, bpar s' x = if slot_mem x news then Some p
                                   else if slot_mem x (bkids s p) then None else bpar s x;
  rl_kids_p : bkids s' p = news;
  rl_len  : forall q, q <> p -> length (bkids s' q) = length (bkids s q);
  rl_kids : forall q j, q <> p -> slot (bkids s' q) j = rmset news (slot (bkids s q) j)
}.

Record valid_news (s : bheap) (p : id) (news : list (option id)) : Prop := {
  vn_len : length news = 2;
  vn_once : once news;
  vn_p : p < bsize s;
  vn_in : forall x, In (Some x) news -> x < bsize s /\ x <> p /\ ~ In x (bancestors s p)
}.

Lemma somes_In x l : In x (somes l) <-> In (Some x) l.
Proof.
  induction l as [|[y|] t IH]; cbn [somes In]; [tauto| |].
  - rewrite IH. split; [intros [->|H]; auto|intros [[= ->]|H]; auto].
  - rewrite IH. split; [auto|intros [H|H]; [discriminate|exact H]].
Qed.

Theorem relink_BWF s s' p news : BWF s -> valid_news s p news -> relinked s s' p news -> BWF s'.
Proof.
  intros W [Vl Vo Vp Vin] [Rs Rp Rkp Rl Rk]. pose proof W as [Hl Hd Hu Ho Hb _].
  assert (Hnp : forall c q, q <> p -> bpar s c = Some q -> slot_mem c (bkids s p) = false).
  { intros c q Hq E. apply slot_mem_false. intros Hin. apply In_slot in Hin. destruct Hin as [i Hi].
    apply Hd in Hi. congruence. }
  constructor.
  - intros q. destruct (Nat.eq_dec q p) as [->|Hq]; [rewrite Rkp; exact Vl|rewrite Rl by exact Hq; apply Hl].
  - intros q j c H. destruct (Nat.eq_dec q p) as [->|Hq].
    + rewrite Rkp in H. apply slot_In, slot_mem_In in H. rewrite Rp, H. reflexivity.
    + rewrite Rk in H by exact Hq. apply rmset_Some in H. destruct H as [H Hm].
      apply Hd in H. rewrite Rp, Hm, (Hnp c q Hq H). exact H.
  - intros c q H. rewrite Rp in H. destruct (slot_mem c news) eqn:Em.
    + injection H as <-. apply slot_mem_In, In_slot in Em. rewrite Rkp. exact Em.
    + destruct (slot_mem c (bkids s p)) eqn:Ek; [discriminate|].
      assert (Hq : q <> p).
      { intros ->. apply Hu in H. destruct H as [i Hi]. apply slot_In, slot_mem_In in Hi. congruence. }
      destruct (Hu _ _ H) as [i Hi]. exists i. rewrite Rk by exact Hq. apply rmset_Some. split; assumption.
  - intros q. destruct (Nat.eq_dec q p) as [->|Hq]; [rewrite Rkp; exact Vo|].
    intros i j x Hi Hj. rewrite Rk in Hi, Hj by exact Hq. apply rmset_Some in Hi, Hj.
    exact (Ho q _ _ _ (proj1 Hi) (proj1 Hj)).
  - intros c q H. rewrite Rs. rewrite Rp in H. destruct (slot_mem c news) eqn:Em.
    + injection H as <-. apply slot_mem_In in Em. destruct (Vin c Em) as [Hc _]. split; assumption.
    + destruct (slot_mem c (bkids s p)); [discriminate|]. apply Hb. exact H.
  - apply (rerank s (somes news) p (bpar s') W).
    + intros x Hx. apply somes_In in Hx. destruct (Vin x Hx) as [_ H]. exact H.
    + intros c q H. rewrite Rp in H. destruct (slot_mem c news) eqn:Em.
      * injection H as <-. left. split; [apply somes_In, slot_mem_In; exact Em|reflexivity].
      * destruct (slot_mem c (bkids s p)); [discriminate|]. right. split; [|exact H].
        intros Hin. apply somes_In, slot_mem_In in Hin. congruence.
Qed.

(* ========================================================================================== *)
(* 3. the primitive steps on a well-formed state *)

Lemma bcorrupted_false s c : BWF s -> bcorrupted s c = false.
Proof.
  intros W. unfold bcorrupted. destruct (bpar s c) as [q|] eqn:E; [|reflexivity].
  destruct (bw_up s W _ _ E) as [i Hi]. apply slot_In, slot_mem_In in Hi. rewrite Hi. reflexivity.
Qed.

Lemma kid_not_anc s y p : BWF s -> bpar s y = Some p -> y <> p /\ ~ In y (bancestors s p).
Proof.
  intros W E. pose proof W as [_ _ _ _ Hb [r Hr]]. pose proof (Hr _ _ E) as Hlt. split.
  - intros ->. lia.
  - intros Hin. apply (banc_rank s r Hr) in Hin. lia.
Qed.

Lemma detach_par s c x : bpar (bdetach s c) x = bpar s x.
Proof. unfold bdetach. destruct (bpar s c); reflexivity. Qed.
Lemma detach_size s c : bsize (bdetach s c) = bsize s.
Proof. unfold bdetach. destruct (bpar s c); reflexivity. Qed.

Lemma detach_kids s c q : BWF s ->
  length (bkids (bdetach s c) q) = length (bkids s q)
  /\ forall j, slot (bkids (bdetach s c) q) j = rm c (slot (bkids s q) j).
Proof.
  intros W. pose proof W as [_ Hd _ Ho _ _].
  assert (Hno : bpar s c <> Some q -> forall j, rm c (slot (bkids s q) j) = slot (bkids s q) j).
  { intros Hne j. apply rm_absent. intros H. apply Hd in H. congruence. }
  unfold bdetach. destruct (bpar s c) as [q0|] eqn:E.
  - cbn [bkids bset_kids]. destruct (Nat.eq_dec q q0) as [->|Hq].
    + rewrite upd_same. split; [apply clear_slot_length|]. intros j. apply slot_clear, Ho.
    + rewrite upd_other by exact Hq. split; [reflexivity|]. intros j. symmetry. apply Hno. congruence.
  - split; [reflexivity|]. intros j. symmetry. apply Hno. discriminate.
Qed.

Lemma detach_kids_parent s c q : bpar s c = Some q -> bkids (bdetach s c) q = clear_slot c (bkids s q).
Proof. intros E. unfold bdetach. rewrite E. cbn [bkids bset_kids]. apply upd_same. Qed.

Lemma detach_kids_other s c q : BWF s -> bpar s c <> Some q -> bkids (bdetach s c) q = bkids s q.
Proof.
  intros W Hne. destruct (detach_kids s c q W) as [Hl Hs]. apply slot_ext; [exact Hl|].
  intros j. rewrite Hs. apply rm_absent. intros H. apply (bw_down s W) in H. congruence.
Qed.

(* relinking p with (some of) its own children *)
Lemma relinked_local s s' p news : BWF s ->
  (forall x, In (Some x) news -> In (Some x) (bkids s p)) ->
  bsize s' = bsize s ->
  (forall x, bpar s' x = if slot_mem x (bkids s p) && negb (slot_mem x news) then None else bpar s x) ->
  bkids s' p = news ->
  (forall q, q <> p -> bkids s' q = bkids s q) ->
  relinked s s' p news.
Proof.
  intros W Hsub Hs Hp Hk Hq. pose proof W as [_ Hd _ _ _ _]. constructor.
  - exact Hs.
  - intros x. rewrite Hp. destruct (slot_mem x news) eqn:En.
    + rewrite Bool.andb_false_r. apply slot_mem_In, Hsub, In_slot in En. destruct En as [i Hi].
      exact (Hd _ _ _ Hi).
    + rewrite Bool.andb_true_r. reflexivity.
  - exact Hk.
  - intros q Hne. rewrite Hq by exact Hne. reflexivity.
  - intros q j Hne. rewrite Hq by exact Hne. unfold rmset. destruct (slot (bkids s q) j) as [y|] eqn:E; [|reflexivity].
    destruct (slot_mem y news) eqn:En; [|reflexivity].
    apply slot_mem_In, Hsub, In_slot in En. destruct En as [i Hi]. apply Hd in Hi. apply Hd in E. congruence.
Qed.

Lemma valid_news_local s p news : BWF s -> p < bsize s -> length news = 2 -> once news ->
  (forall x, In (Some x) news -> In (Some x) (bkids s p)) -> valid_news s p news.
Proof.
  intros W Hp Hl Ho Hsub. constructor; try assumption.
  intros x Hx. apply Hsub, In_slot in Hx. destruct Hx as [i Hi]. apply (bw_down s W) in Hi.
  destruct (kid_not_anc s x p W Hi) as [H1 H2]. destruct (bw_bound s W _ _ Hi) as [H3 _]. auto.
Qed.

(* ------------------------------------------------------------------------------------------ *)
(* c.parent = None *)

Lemma once_In_clear x y l : once l -> In (Some y) (clear_slot x l) <-> In (Some y) l /\ y <> x.
Proof.
  intros Ho. split.
  - intros H. apply In_slot in H. destruct H as [i Hi]. rewrite slot_clear in Hi by exact Ho.
    apply rm_Some in Hi. destruct Hi as [Hi Hne]. split; [exact (slot_In _ _ _ Hi)|exact Hne].
  - intros [H Hne]. apply In_slot in H. destruct H as [i Hi]. apply (slot_In _ i).
    rewrite slot_clear by exact Ho. apply rm_Some. split; assumption.
Qed.

Lemma orphan_relinked s c q : BWF s -> bpar s c = Some q ->
  relinked s (bset_par (bdetach s c) c None) q (clear_slot c (bkids s q))
  /\ valid_news s q (clear_slot c (bkids s q)).
Proof.
  intros W E. pose proof W as [Hl Hd Hu Ho Hb _].
  assert (Hsub : forall x, In (Some x) (clear_slot c (bkids s q)) -> In (Some x) (bkids s q)).
  { intros x H. apply once_In_clear in H; [tauto|apply Ho]. }
  split.
  - apply relinked_local; try assumption.
    + cbn [bsize bset_par]. apply detach_size.
    + intros x. cbn [bpar bset_par]. unfold upd. rewrite detach_par.
      destruct (Nat.eqb_spec x c) as [->|Hne].
      * destruct (Hu _ _ E) as [i Hi]. apply slot_In in Hi.
        assert (H1 : slot_mem c (bkids s q) = true) by (apply slot_mem_In; exact Hi).
        assert (H2 : slot_mem c (clear_slot c (bkids s q)) = false).
        { apply slot_mem_false. intros H. apply once_In_clear in H; [tauto|apply Ho]. }
        rewrite H1, H2. reflexivity.
      * destruct (slot_mem x (bkids s q)) eqn:E1; [|reflexivity].
        assert (H2 : slot_mem x (clear_slot c (bkids s q)) = true).
        { apply slot_mem_In, once_In_clear; [apply Ho|]. split; [apply slot_mem_In; exact E1|exact Hne]. }
        rewrite H2. reflexivity.
    + cbn [bkids bset_par]. apply detach_kids_parent. exact E.
    + intros q' Hq'. cbn [bkids bset_par]. apply detach_kids_other; [exact W|congruence].
  - apply valid_news_local; try assumption.
    + apply (Hb _ _ E).
    + rewrite clear_slot_length. apply Hl.
    + apply once_clear, Ho.
Qed.

Lemma orphan_root_beq s c : bpar s c = None -> beq (bset_par (bdetach s c) c None) s.
Proof.
  intros E. unfold bdetach. rewrite E. split; [reflexivity|]. split; [|reflexivity].
  intros x. cbn [bpar bset_par]. unfold upd. destruct (Nat.eqb_spec x c) as [->|_]; congruence.
Qed.

Lemma orphan_BWF s c : BWF s -> BWF (bset_par (bdetach s c) c None).
Proof.
  intros W. destruct (bpar s c) as [q|] eqn:E.
  - destruct (orphan_relinked s c q W E) as [R V]. exact (relink_BWF _ _ _ _ W V R).
  - apply (BWF_beq s); [exact W|]. apply beq_sym, orphan_root_beq. exact E.
Qed.

(* ------------------------------------------------------------------------------------------ *)
(* c.parent = p *)

(* the slot list of p after an accepted `c.parent = p` *)
Definition sp_news (s : bheap) (c p : id) : list (option id) :=
  let l1 := bkids (bdetach s c) p in
  match first_empty l1 with Some i => set_nth i (Some c) l1 | None => l1 end.

Lemma bfull_false s p : bfull s (Some p) = false -> exists i, first_empty (bkids s p) = Some i.
Proof. unfold bfull. destruct (first_empty (bkids s p)) as [i|]; [eauto|discriminate]. Qed.

Lemma sp_news_slot s c p i : BWF s -> first_empty (bkids (bdetach s c) p) = Some i ->
  forall j, slot (sp_news s c p) j = if Nat.eqb j i then Some c else rm c (slot (bkids s p) j).
Proof.
  intros W E j. unfold sp_news. rewrite E. destruct (first_empty_some _ _ E) as [Hi _].
  rewrite slot_set_nth. apply Nat.ltb_lt in Hi. rewrite Hi, Bool.andb_true_r.
  destruct (detach_kids s c p W) as [_ Hs]. rewrite Hs. reflexivity.
Qed.

Lemma sp_news_In s c p i : BWF s -> first_empty (bkids (bdetach s c) p) = Some i ->
  forall x, In (Some x) (sp_news s c p) <-> x = c \/ (x <> c /\ In (Some x) (bkids s p)).
Proof.
  intros W E x. pose proof (sp_news_slot s c p i W E) as HS.
  destruct (first_empty_some _ _ E) as [_ [Hnone _]].
  destruct (detach_kids s c p W) as [_ Hs]. rewrite Hs in Hnone. split.
  - intros H. apply In_slot in H. destruct H as [j Hj]. rewrite HS in Hj.
    destruct (Nat.eqb_spec j i) as [Eji|Hne]; [left; congruence|].
    apply rm_Some in Hj. destruct Hj as [Hj Hx]. right. split; [exact Hx|exact (slot_In _ _ _ Hj)].
  - intros [->|[Hx H]].
    + apply (slot_In _ i). rewrite HS, Nat.eqb_refl. reflexivity.
    + apply In_slot in H. destruct H as [j Hj]. apply (slot_In _ j). rewrite HS.
      destruct (Nat.eqb_spec j i) as [Eji|Hne].
      * subst j. rewrite Hj in Hnone. assert (rm c (Some x) = Some x) by (apply rm_Some; auto). congruence.
      * rewrite Hj. apply rm_Some. auto.
Qed.

Lemma attach_state s c p i : first_empty (bkids (bdetach s c) p) = Some i ->
  battach (bdetach s c) c (Some p)
  = bset_kids (bset_par (bdetach s c) c (Some p)) p (sp_news s c p).
Proof.
  intros E. unfold battach, sp_news. cbn [bkids bset_par]. rewrite E. reflexivity.
Qed.

Lemma attach_relinked s (c p : id) : BWF s -> c < bsize s -> p < bsize s -> p <> c ->
  ~ In c (bancestors s p) -> bfull (bdetach s c) (Some p) = false ->
  relinked s (battach (bdetach s c) c (Some p)) p (sp_news s c p) /\ valid_news s p (sp_news s c p).
Proof.
  intros W Hc Hp Hpc Hanc Hfull. pose proof W as [Hl Hd Hu Ho Hb _].
  destruct (bfull_false _ _ Hfull) as [i E]. rewrite (attach_state s c p i E).
  pose proof (sp_news_slot s c p i W E) as HS. pose proof (sp_news_In s c p i W E) as HM.
  assert (HMb : forall x, slot_mem x (sp_news s c p) = Nat.eqb x c || slot_mem x (bkids s p)).
  { intros x. destruct (slot_mem x (sp_news s c p)) eqn:E1.
    - symmetry. apply slot_mem_In, HM in E1. destruct E1 as [->|[_ H]]; [rewrite Nat.eqb_refl; reflexivity|].
      apply slot_mem_In in H. rewrite H. apply Bool.orb_true_r.
    - symmetry. apply orb_false_iff. destruct (Nat.eqb_spec x c) as [->|Hne].
      + exfalso. apply slot_mem_false in E1. apply E1, HM. left. reflexivity.
      + split; [reflexivity|]. apply slot_mem_false. intros H. apply slot_mem_false in E1.
        apply E1, HM. right. auto. }
  split.
  - constructor.
    + cbn [bsize bset_kids bset_par]. apply detach_size.
    + intros x. cbn [bpar bset_kids bset_par]. unfold upd. rewrite detach_par, HMb.
      destruct (Nat.eqb_spec x c) as [->|Hne]; [reflexivity|]. cbn [orb].
      destruct (slot_mem x (bkids s p)) eqn:E1; [|reflexivity].
      apply slot_mem_In, In_slot in E1. destruct E1 as [j Hj]. exact (Hd _ _ _ Hj).
    + cbn [bkids bset_kids]. apply upd_same.
    + intros q Hq. cbn [bkids bset_kids bset_par]. rewrite upd_other by exact Hq. apply detach_kids, W.
    + intros q j Hq. cbn [bkids bset_kids bset_par]. rewrite upd_other by exact Hq.
      destruct (detach_kids s c q W) as [_ Hs]. rewrite Hs. unfold rm, rmset.
      destruct (slot (bkids s q) j) as [y|] eqn:Ey; [|reflexivity]. rewrite HMb, (Nat.eqb_sym y c).
      destruct (Nat.eqb_spec c y) as [->|Hne]; [reflexivity|]. cbn [orb].
      destruct (slot_mem y (bkids s p)) eqn:E1; [|reflexivity].
      apply slot_mem_In, In_slot in E1. destruct E1 as [k Hk]. apply Hd in Hk. apply Hd in Ey. congruence.
  - constructor.
    + unfold sp_news. rewrite E, set_nth_length. destruct (detach_kids s c p W) as [Hlen _]. rewrite Hlen. apply Hl.
    + intros j1 j2 x H1 H2. rewrite HS in H1, H2.
      destruct (Nat.eqb_spec j1 i) as [->|N1]; destruct (Nat.eqb_spec j2 i) as [->|N2]; try reflexivity.
      * injection H1 as <-. apply rm_Some in H2. tauto.
      * injection H2 as <-. apply rm_Some in H1. tauto.
      * apply rm_Some in H1, H2. exact (Ho p _ _ _ (proj1 H1) (proj1 H2)).
    + exact Hp.
    + intros x Hx. apply HM in Hx. destruct Hx as [->|[_ Hx]]; [auto|].
      apply In_slot in Hx. destruct Hx as [j Hj]. apply Hd in Hj.
      destruct (kid_not_anc s x p W Hj). destruct (Hb _ _ Hj). auto.
Qed.

(* ------------------------------------------------------------------------------------------ *)
(* the except block of the parent setter gives back the state the setter started from *)

Lemma set_nth_restore {A} i (v w : A) l d : i < length l -> nth i l d = v ->
  set_nth i v (set_nth i w l) = l.
Proof.
  revert i. induction l as [|h t IH]; intros i Hi Hv; [cbn in Hi; lia|].
  destruct i as [|i]; cbn [set_nth nth length] in *; [congruence|]. f_equal. apply IH; [lia|exact Hv].
Qed.

Lemma restore_clear c l : In (Some c) l -> set_nth (slot_index c l) (Some c) (clear_slot c l) = l.
Proof.
  intros H. destruct (slot_index_spec c l H) as [Hlt Hs]. unfold clear_slot.
  apply (set_nth_restore _ _ _ _ None); assumption.
Qed.

Lemma clear_filled c i l : ~ In (Some c) l -> i < length l -> slot l i = None ->
  clear_slot c (set_nth i (Some c) l) = l.
Proof.
  intros Hnin Hi Hnone. unfold clear_slot.
  assert (Hidx : slot_index c (set_nth i (Some c) l) = i).
  { assert (Hin : In (Some c) (set_nth i (Some c) l)).
    { apply (slot_In _ i). rewrite slot_set_nth, Nat.eqb_refl. apply Nat.ltb_lt in Hi. rewrite Hi. reflexivity. }
    destruct (slot_index_spec c _ Hin) as [_ Hs]. rewrite slot_set_nth in Hs.
    destruct (Nat.eqb_spec (slot_index c (set_nth i (Some c) l)) i) as [E|Hne]; [exact E|].
    cbn [andb] in Hs. exfalso. apply Hnin. exact (slot_In _ _ _ Hs). }
  rewrite Hidx. apply (set_nth_restore _ _ _ _ None); assumption.
Qed.

(* last step of the except block: put c back into its old slot *)
Lemma restore_beq s st c : BWF s ->
  bsize st = bsize s -> (forall x, bpar st x = bpar s x) ->
  (forall x, bkids st x = bkids (bdetach s c) x) ->
  beq (match bcur_idx s c, bpar s c with
       | Some i, Some q => bset_kids st q (set_nth i (Some c) (bkids st q))
       | _, _ => st
       end) s.
Proof.
  intros W Hs Hp Hk. unfold bcur_idx. destruct (bpar s c) as [q|] eqn:E.
  - split; [exact Hs|]. split; [exact Hp|]. intros x. cbn [bkids bset_kids]. unfold upd.
    destruct (Nat.eqb_spec x q) as [->|Hne].
    + rewrite Hk, (detach_kids_parent s c q E). apply restore_clear.
      destruct (bw_up s W _ _ E) as [i Hi]. exact (slot_In _ _ _ Hi).
    + rewrite Hk. apply detach_kids_other; [exact W|congruence].
  - split; [exact Hs|]. split; [exact Hp|]. intros x. rewrite Hk. unfold bdetach. rewrite E. reflexivity.
Qed.

Lemma parent_rollback_beq s c np : BWF s ->
  (forall p, np = Some p -> p <> c) ->
  beq (bparent_rollback (battach (bdetach s c) c np) c (bpar s c) np (bcur_idx s c)) s.
Proof.
  intros W Hnp. unfold bparent_rollback.
  set (st1 := match np with
              | Some p => if slot_mem c (bkids (battach (bdetach s c) c np) p)
                          then bset_kids (battach (bdetach s c) c np) p
                                 (clear_slot c (bkids (battach (bdetach s c) c np) p))
                          else battach (bdetach s c) c np
              | None => battach (bdetach s c) c np end).
  assert (H1 : bsize st1 = bsize s /\ (forall x, bpar st1 x = upd (bpar s) c np x)
               /\ forall x, bkids st1 x = bkids (bdetach s c) x).
  { unfold st1. destruct np as [p|].
    - specialize (Hnp p eq_refl).
      assert (Hc1 : ~ In (Some c) (bkids (bdetach s c) p)).
      { intros H. apply In_slot in H. destruct H as [j Hj]. destruct (detach_kids s c p W) as [_ Hs].
        rewrite Hs in Hj. apply rm_Some in Hj. tauto. }
      destruct (first_empty (bkids (bdetach s c) p)) as [i|] eqn:E.
      + rewrite (attach_state s c p i E). cbn [bkids bset_kids bset_par]. rewrite upd_same.
        destruct (first_empty_some _ _ E) as [Hi [Hnone _]].
        assert (Hm : slot_mem c (sp_news s c p) = true).
        { apply slot_mem_In, (sp_news_In s c p i W E). left. reflexivity. }
        rewrite Hm. cbn [bsize bpar bkids bset_kids bset_par]. split; [apply detach_size|]. split.
        * intros x. unfold upd. rewrite detach_par. reflexivity.
        * intros x. unfold upd. destruct (Nat.eqb_spec x p) as [->|Hne]; [|reflexivity].
          unfold sp_news. rewrite E. apply clear_filled; assumption.
      + unfold battach. cbn [bkids bset_par]. rewrite E. cbn [bkids bset_par].
        assert (Hm : slot_mem c (bkids (bdetach s c) p) = false) by (apply slot_mem_false; exact Hc1).
        rewrite Hm. cbn [bsize bpar bkids bset_par]. split; [apply detach_size|]. split; [|reflexivity].
        intros x. unfold upd. rewrite detach_par. reflexivity.
    - unfold battach. cbn [bsize bpar bkids bset_par]. split; [apply detach_size|]. split; [|reflexivity].
      intros x. unfold upd. rewrite detach_par. reflexivity. }
  destruct H1 as [Hs [Hp Hk]]. fold st1.
  change (match bcur_idx s c, bpar s c with
          | Some i, Some q => bset_kids (bset_par st1 c (bpar s c)) q
                                (set_nth i (Some c) (bkids (bset_par st1 c (bpar s c)) q))
          | _, _ => bset_par st1 c (bpar s c) end)
    with (match bcur_idx s c, bpar s c with
          | Some i, Some q => bset_kids (bset_par st1 c (bpar s c)) q
                                (set_nth i (Some c) (bkids (bset_par st1 c (bpar s c)) q))
          | _, _ => bset_par st1 c (bpar s c) end).
  apply restore_beq; [exact W|exact Hs| |exact Hk].
  intros x. cbn [bpar bset_par]. unfold upd at 1. rewrite Hp. unfold upd.
  destruct (Nat.eqb_spec x c) as [->|_]; reflexivity.
Qed.

(* ------------------------------------------------------------------------------------------ *)
(* the parent setter as a whole *)

Lemma loop_false s (c p : id) : bparent_loop s c (Some p) = false -> p <> c /\ ~ In c (bancestors s p).
Proof.
  unfold bparent_loop. intros H. apply orb_false_iff in H. destruct H as [H1 H2].
  apply Nat.eqb_neq in H1. split; [exact H1|]. intros Hin. apply memb_In in Hin. congruence.
Qed.

Lemma set_parent_sound cfg ft s (c : id) a : BWF s -> c < bsize s -> barg_in_range s a = true ->
  (snd (bset_parent cfg ft s c a) <> Ok -> beq (fst (bset_parent cfg ft s c a)) s)
  /\ BWF (fst (bset_parent cfg ft s c a)).
Proof.
  intros W Hc Ha.
  assert (Hrej : forall t o, beq t s -> (snd (t, o) <> Ok -> beq (fst (t, o)) s) /\ BWF (fst (t, o))).
  { intros t o Hb. cbn [fst snd]. split; [intros _; exact Hb|]. apply (BWF_beq s); [exact W|apply beq_sym, Hb]. }
  unfold bset_parent. destruct a as [p| |]; cbv zeta.
  - destruct (bparent_loop s c (Some p)) eqn:EL; [apply Hrej, beq_refl|].
    destruct (loop_false s c p EL) as [Hpc Hanc].
    destruct (fault_eqb ft PreFail); [apply Hrej, beq_refl|].
    rewrite (bcorrupted_false s c W).
    assert (Hroll := parent_rollback_beq s c (Some p) W ltac:(intros p' [= <-]; exact Hpc)).
    destruct (bfull (bdetach s c) (Some p)) eqn:EF; [apply Hrej, Hroll|].
    destruct (fault_eqb ft PostFail); [apply Hrej, Hroll|].
    cbn [fst snd]. split; [congruence|].
    cbn [barg_in_range] in Ha. apply Nat.ltb_lt in Ha.
    destruct (attach_relinked s c p W Hc Ha Hpc Hanc EF) as [R V]. exact (relink_BWF _ _ _ _ W V R).
  - cbn [bparent_loop bfull].
    destruct (fault_eqb ft PreFail); [apply Hrej, beq_refl|].
    rewrite (bcorrupted_false s c W).
    assert (Hroll := parent_rollback_beq s c None W ltac:(discriminate)).
    destruct (fault_eqb ft PostFail); [apply Hrej, Hroll|].
    cbn [fst snd]. split; [congruence|]. unfold battach. apply orphan_BWF, W.
  - apply Hrej, beq_refl.
Qed.

(* ------------------------------------------------------------------------------------------ *)
(* del p.children *)

Lemma orphan_explicit st (c p : id) : bpar st c = Some p ->
  bsize (borphan st (Some c)) = bsize st
  /\ (forall x, bpar (borphan st (Some c)) x = upd (bpar st) c None x)
  /\ (forall q, bkids (borphan st (Some c)) q = upd (bkids st) p (clear_slot c (bkids st p)) q).
Proof. intros E. unfold borphan, bdetach. rewrite E. repeat split. Qed.

Lemma eqb_refl_if {A} (x : id) (a b : A) : (if Nat.eqb x x then a else b) = a.
Proof. rewrite Nat.eqb_refl. reflexivity. Qed.

Lemma del_state s (p : id) l r : BWF s -> bkids s p = [l; r] ->
  bsize (bdel_children s p) = bsize s
  /\ (forall x, bpar (bdel_children s p) x = if slot_mem x [l; r] then None else bpar s x)
  /\ (forall q, bkids (bdel_children s p) q = if Nat.eqb q p then [None; None] else bkids s q).
Proof.
  intros W E.
  assert (Hl : forall c, l = Some c -> bpar s c = Some p).
  { intros c ->. apply (bw_down s W p 0). rewrite E. reflexivity. }
  assert (Hr : forall d, r = Some d -> bpar s d = Some p).
  { intros d ->. apply (bw_down s W p 1). rewrite E. reflexivity. }
  assert (Hne : forall c, l = Some c -> r = Some c -> False).
  { intros c -> ->. assert (H := bw_once s W p 0 1 c). rewrite E in H. specialize (H eq_refl eq_refl). discriminate. }
  unfold bdel_children. rewrite E. cbn [fold_left].
  destruct l as [c|]; destruct r as [d|].
  - assert (Hcd : d <> c) by (intros ->; exact (Hne c eq_refl eq_refl)).
    destruct (orphan_explicit s c p (Hl c eq_refl)) as [S1 [P1 K1]].
    assert (Ed : bpar (borphan s (Some c)) d = Some p).
    { rewrite P1, upd_other by exact Hcd. exact (Hr d eq_refl). }
    destruct (orphan_explicit _ d p Ed) as [S2 [P2 K2]].
    split; [congruence|]. split.
    + intros x. rewrite P2. unfold upd at 1. rewrite P1. unfold upd. cbn [slot_mem existsb].
      destruct (Nat.eqb_spec x d); destruct (Nat.eqb_spec x c); reflexivity.
    + intros q. rewrite K2. unfold upd at 1. rewrite !K1, upd_same, E. unfold upd.
      destruct (Nat.eqb_spec q p) as [->|Hq]; [|reflexivity].
      unfold clear_slot. cbn [slot_index]. rewrite !eqb_refl_if. cbn [set_nth slot_index].
      rewrite eqb_refl_if. reflexivity.
  - destruct (orphan_explicit s c p (Hl c eq_refl)) as [S1 [P1 K1]]. cbn [borphan].
    split; [exact S1|]. split.
    + intros x. rewrite P1. unfold upd. cbn [slot_mem existsb].
      destruct (Nat.eqb_spec x c); reflexivity.
    + intros q. rewrite K1, E. unfold upd. destruct (Nat.eqb_spec q p) as [->|Hq]; [|reflexivity].
      unfold clear_slot. cbn [slot_index]. rewrite eqb_refl_if. reflexivity.
  - destruct (orphan_explicit s d p (Hr d eq_refl)) as [S1 [P1 K1]]. cbn [borphan] in *.
    split; [exact S1|]. split.
    + intros x. rewrite P1. unfold upd. cbn [slot_mem existsb].
      destruct (Nat.eqb_spec x d); reflexivity.
    + intros q. rewrite K1, E. unfold upd. destruct (Nat.eqb_spec q p) as [->|Hq]; [|reflexivity].
      unfold clear_slot. cbn [slot_index]. rewrite eqb_refl_if. reflexivity.
  - cbn [borphan]. split; [reflexivity|]. split; [reflexivity|].
    intros q. destruct (Nat.eqb_spec q p) as [->|Hq]; [exact E|reflexivity].
Qed.

Lemma del_relinked s (p : id) : BWF s -> p < bsize s ->
  relinked s (bdel_children s p) p [None; None] /\ valid_news s p [None; None].
Proof.
  intros W Hp. split.
  2:{ apply valid_news_local; try assumption; try reflexivity.
      - intros i j x. rewrite slot2. destruct i as [|[|i]]; discriminate.
      - intros x [H|[H|[]]]; discriminate. }
  destruct (len2 _ (bw_len s W p)) as [l [r E]].
  destruct (del_state s p l r W E) as [S [P K]].
  apply relinked_local; try assumption.
  - intros x [H|[H|[]]]; discriminate.
  - intros x. rewrite P, E. cbn [slot_mem existsb]. rewrite Bool.andb_true_r. reflexivity.
  - rewrite K, Nat.eqb_refl. reflexivity.
  - intros q Hq. rewrite K. apply Nat.eqb_neq in Hq. rewrite Hq. reflexivity.
Qed.

Lemma del_BWF s (p : id) : BWF s -> p < bsize s -> BWF (bdel_children s p).
Proof. intros W Hp. destruct (del_relinked s p W Hp) as [R V]. exact (relink_BWF _ _ _ _ W V R). Qed.
