(* Path lookup on the forest heap model: bigtree/tree/search.py:291-327 (find_full_path) with
   find_child_by_name (search.py:450-536). *)
From BT Require Import Base.Prelude Base.Str Heap.Forest.

Definition children_named (s : forest) (p : id) (nm : str) : list id :=
  filter (fun k => str_eqb (name s k) nm) (kids s p).

(* for child_name in path_list[1:]: child = find_child_by_name(parent, child_name); if not child: break *)
Fixpoint descend (s : forest) (parent : id) (names : list str) : res (option id) :=
  match names with
  | [] => Ret (Some parent)
  | nm :: t =>
      match children_named s parent nm with
      | [] => Ret None
      | [c] => descend s c t
      | _ => Raise SearchError            (* find_child -> find_children(max_count=1) *)
      end
  end.

Definition path_list (s : forest) (start : id) (path : str) : list str :=
  let sp := sep s start in split (lstrip (rstrip path sp) sp) sp.

Definition find_full_path (s : forest) (start : id) (path : str) : res (option id) :=
  let parts := path_list s start path in
  let rt := root s start in
  if negb (str_eqb (hd [] parts) (name s rt)) then Raise ValueError
  else descend s rt (tl parts).

(* the route from the root down to n, root first *)
Definition route (s : forest) (n : id) : list id := rev (n :: ancestors s n).
