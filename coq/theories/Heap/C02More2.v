(* C02, second round: whole-call statements for the calls that are SEQUENCES of assignments.
   Heap/BinaryProofs.v (binary_atomic) and Heap/DagProofs.v (dag_atomic) prove atomicity per setter call
   and exclude BExtend / BNew / DNew.  Here:
     1. BinaryNode `p.extend(cs)`: when the call raises, the state is (pointwise) the one produced by the
        appends before the failing one, every one of which was accepted, and the failing assignment left
        nothing -- plus the explicit link structure of that state (parents, slot lists).
     2. BinaryNode constructor: when it raises, the fresh node is either unlinked or linked below the
        accepted `parent=` argument (in its first empty slot), its own slots are empty, and every other
        link is as before -- the `children=` assignment, when it is the failing one, left nothing.
     3. DAGNode constructor: the same, with the lists in ORDER (DagProofs.dag_new_atomic is existential in
        the intermediate state, DagEdits.refused_constructor_edges speaks of the edge SET). *)
From BT Require Import Base.Prelude Heap.Forest Heap.Binary Heap.BinaryProofs.

(* ========================================================================================== *)
(* 1. BinaryNode.extend *)

(* the accepted branch of `c.parent = p` in closed form (binarynode.py:187-197) *)
Definition bappend (p : id) (s : bheap) (c : id) : bheap := battach (bdetach s c) c (Some p).
Definition bappends (p : id) (cs : list id) (s : bheap) : bheap := fold_left (bappend p) cs s.

Lemma bset_parent_ok cfg ft s c a s' :
  bset_parent cfg ft s c a = (s', Ok) -> s' = battach (bdetach s c) c (slot_of_arg a).
Proof.
  unfold bset_parent. destruct a as [p| |]; cbv zeta; cbn [slot_of_arg].
  - destruct (bparent_loop s c (Some p)); [discriminate|].
    destruct (fault_eqb ft PreFail); [discriminate|].
    destruct (bcorrupted s c); [discriminate|].
    destruct (bfull (bdetach s c) (Some p)); [discriminate|].
    destruct (fault_eqb ft PostFail); [discriminate|]. intros [= <-]. reflexivity.
  - destruct (bparent_loop s c None); [discriminate|].
    destruct (fault_eqb ft PreFail); [discriminate|].
    destruct (bcorrupted s c); [discriminate|].
    destruct (bfull (bdetach s c) None); [discriminate|].
    destruct (fault_eqb ft PostFail); [discriminate|]. intros [= <-]. reflexivity.
  - discriminate.
Qed.

(* an accepted extend is the appends one after the other *)
Theorem bextend_ok cfg p : forall cs fts s s',
  bextend_loop cfg s p cs fts = (s', Ok) -> s' = bappends p cs s.
Proof.
  induction cs as [|c cs IH]; intros fts s s' E; cbn [bextend_loop] in E.
  - injection E as <-. reflexivity.
  - destruct (bset_parent cfg (hd NoFault fts) s c (ANode p)) as [s1 o1] eqn:E1.
    destruct o1 as [|e1]; [|discriminate].
    apply bset_parent_ok in E1. cbn [slot_of_arg] in E1. subst s1.
    unfold bappends. cbn [fold_left]. exact (IH _ _ _ E).
Qed.

Lemma nth_S_tl {A} (k : nat) (l : list A) d : nth (S k) l d = nth k (tl l) d.
Proof. destruct l as [|x l]; [destruct k; reflexivity|reflexivity]. Qed.

(* the whole-call statement: when extend raises, the children before the failing one were all accepted,
   the failing assignment is the next one (it raises the call's exception on the state reached by the
   accepted prefix) and the final state is pointwise that state: the failing assignment left nothing,
   the remaining children were never touched *)
Theorem bextend_prefix cfg (p : id) : forall cs fts s s' e,
  BWF s -> p < bsize s -> forallb (bin_range s) cs = true ->
  bextend_loop cfg s p cs fts = (s', Err e) ->
  exists done c rest, cs = done ++ c :: rest
    /\ bextend_loop cfg s p done fts = (bappends p done s, Ok)
    /\ snd (bset_parent cfg (nth (length done) fts NoFault) (bappends p done s) c (ANode p)) = Err e
    /\ beq s' (bappends p done s).
Proof.
  induction cs as [|c cs IH]; intros fts s s' e W Hp Hr E; cbn [bextend_loop] in E; [discriminate|].
  cbn [forallb] in Hr. apply andb_true_iff in Hr. destruct Hr as [Hc Ht]. apply Nat.ltb_lt in Hc.
  assert (Ha : barg_in_range s (ANode p) = true) by (apply Nat.ltb_lt; exact Hp).
  destruct (set_parent_sound cfg (hd NoFault fts) s c (ANode p) W Hc Ha) as [Hat W1].
  pose proof (set_parent_size cfg (hd NoFault fts) s c (ANode p) W Hc Ha) as S1.
  destruct (bset_parent cfg (hd NoFault fts) s c (ANode p)) as [s1 o1] eqn:E1. cbn [fst snd] in *.
  destruct o1 as [|e1].
  - pose proof (bset_parent_ok _ _ _ _ _ _ E1) as Es. cbn [slot_of_arg] in Es.
    destruct (IH (tl fts) s1 s' e W1) as [done [c' [rest [Ecs [Hok [Hfail Hs]]]]]]; [| |exact E|].
    + rewrite S1. exact Hp.
    + unfold bin_range in *. rewrite S1. exact Ht.
    + exists (c :: done), c', rest. subst s1. unfold bappends in *. cbn [fold_left length app].
      split; [rewrite Ecs; reflexivity|].
      split; [cbn [bextend_loop]; rewrite E1; exact Hok|].
      split; [rewrite nth_S_tl; exact Hfail|exact Hs].
  - injection E as <- <-. exists [], c, cs. unfold bappends. cbn [fold_left length app bextend_loop].
    split; [reflexivity|]. split; [reflexivity|].
    split; [destruct fts; cbn [nth hd] in *; rewrite E1; reflexivity|].
    apply Hat. discriminate.
Qed.

(* ---- the link structure of the accepted prefix, explicitly ---- *)

Lemma bappend_par p s c x : bpar (bappend p s c) x = if Nat.eqb x c then Some p else bpar s x.
Proof.
  unfold bappend, battach. cbv zeta.
  destruct (first_empty _); cbn [bset_kids bset_par bpar]; unfold upd; rewrite detach_par; reflexivity.
Qed.

Lemma bappend_size p s c : bsize (bappend p s c) = bsize s.
Proof.
  unfold bappend, battach. cbv zeta.
  destruct (first_empty _); cbn [bset_kids bset_par bsize]; apply detach_size.
Qed.

Lemma bappends_par p : forall cs s x, bpar (bappends p cs s) x = if memb x cs then Some p else bpar s x.
Proof.
  unfold bappends. induction cs as [|c t IH]; intros s x; cbn [fold_left]; [reflexivity|].
  rewrite IH, bappend_par. unfold memb. cbn [existsb].
  destruct (Nat.eqb x c); destruct (existsb (Nat.eqb x) t); reflexivity.
Qed.

Lemma bappends_size p : forall cs s, bsize (bappends p cs s) = bsize s.
Proof.
  unfold bappends. induction cs as [|c t IH]; intros s; cbn [fold_left]; [reflexivity|].
  rewrite IH. apply bappend_size.
Qed.

(* the slots that the moved children vacate *)
Definition rmdone (done : list id) (o : option id) : option id :=
  match o with Some y => if memb y done then None else Some y | None => None end.

Lemma rmdone_cons c t o : rmdone (c :: t) o = rmdone t (rm c o).
Proof.
  unfold rmdone, rm, memb. destruct o as [y|]; [|reflexivity]. cbn [existsb].
  rewrite (Nat.eqb_sym c y). destruct (Nat.eqb y c); reflexivity.
Qed.

Lemma battach_kids_other s c (p q : id) : q <> p -> bkids (battach s c (Some p)) q = bkids s q.
Proof.
  intros Hq. unfold battach. cbv zeta. destruct (first_empty _); cbn [bset_kids bset_par bkids]; [|reflexivity].
  apply BinaryProofs.upd_other. exact Hq.
Qed.

(* one accepted append: in every slot list but p's, the moved child's slot is emptied in place *)
Lemma bappend_kids p s c q : BWF s -> q <> p ->
  length (bkids (bappend p s c) q) = length (bkids s q)
  /\ forall j, slot (bkids (bappend p s c) q) j = rm c (slot (bkids s q) j).
Proof.
  intros W Hq. unfold bappend. rewrite battach_kids_other by exact Hq. apply detach_kids. exact W.
Qed.

Lemma bextend_ok_kids cfg (p : id) : forall done fts s s',
  BWF s -> p < bsize s -> forallb (bin_range s) done = true ->
  bextend_loop cfg s p done fts = (s', Ok) ->
  forall q, q <> p ->
    length (bkids s' q) = length (bkids s q)
    /\ forall j, slot (bkids s' q) j = rmdone done (slot (bkids s q) j).
Proof.
  induction done as [|c t IH]; intros fts s s' W Hp Hr E q Hq; cbn [bextend_loop] in E.
  - injection E as <-. split; [reflexivity|]. intros j. unfold rmdone. cbn [memb existsb].
    destruct (slot (bkids s q) j); reflexivity.
  - cbn [forallb] in Hr. apply andb_true_iff in Hr. destruct Hr as [Hc Ht]. apply Nat.ltb_lt in Hc.
    assert (Ha : barg_in_range s (ANode p) = true) by (apply Nat.ltb_lt; exact Hp).
    destruct (set_parent_sound cfg (hd NoFault fts) s c (ANode p) W Hc Ha) as [_ W1].
    pose proof (set_parent_size cfg (hd NoFault fts) s c (ANode p) W Hc Ha) as S1.
    destruct (bset_parent cfg (hd NoFault fts) s c (ANode p)) as [s1 o1] eqn:E1. cbn [fst snd] in *.
    destruct o1 as [|e1]; [|discriminate].
    pose proof (bset_parent_ok _ _ _ _ _ _ E1) as Es. cbn [slot_of_arg] in Es.
    destruct (IH (tl fts) s1 s' W1) with (q := q) as [L1 K1]; [| |exact E|exact Hq|].
    + rewrite S1. exact Hp.
    + unfold bin_range in *. rewrite S1. exact Ht.
    + subst s1. destruct (bappend_kids p s c q W Hq) as [L0 K0]. fold (bappend p s c) in L1, K1.
      split; [congruence|]. intros j. rewrite K1, K0. symmetry. apply rmdone_cons.
Qed.

(* what the state looks like after a raising extend *)
Record bextend_links (s s' : bheap) (p : id) (done : list id) : Prop := {
  xl_size : bsize s' = bsize s;
  (* exactly the accepted children hang below p; every other node -- the failing child and the
     children after it included -- has the parent it had *)
  xl_par  : forall x, bpar s' x = if memb x done then Some p else bpar s x;
  (* every slot list but p's: the accepted children's old slots are empty, every other slot is as before *)
  xl_len  : forall q, q <> p -> length (bkids s' q) = length (bkids s q);
  xl_kids : forall q j, q <> p -> slot (bkids s' q) j = rmdone done (slot (bkids s q) j);
  (* p's slots hold exactly its old children and the accepted ones *)
  xl_kids_p : forall x, In (Some x) (bkids s' p) <-> memb x done = true \/ bpar s x = Some p
}.

Lemma bextend_links_of_prefix cfg (p : id) done fts s s' :
  BWF s -> p < bsize s -> forallb (bin_range s) done = true ->
  bextend_loop cfg s p done fts = (bappends p done s, Ok) ->
  beq s' (bappends p done s) -> bextend_links s s' p done.
Proof.
  intros W Hp Hrd Hok [B1 [B2 B3]].
  assert (Hpar : forall x, bpar s' x = if memb x done then Some p else bpar s x).
  { intros x. rewrite B2. apply bappends_par. }
  assert (W' : BWF s').
  { destruct (extend_sound cfg p done fts s W Hp Hrd) as [W' _]. rewrite Hok in W'. cbn [fst] in W'.
    apply (BWF_beq _ _ W'). apply beq_sym. repeat split; assumption. }
  constructor.
  - rewrite B1. apply bappends_size.
  - exact Hpar.
  - intros q Hq. rewrite B3. exact (proj1 (bextend_ok_kids cfg p done fts s _ W Hp Hrd Hok q Hq)).
  - intros q j Hq. rewrite B3. exact (proj2 (bextend_ok_kids cfg p done fts s _ W Hp Hrd Hok q Hq) j).
  - intros x. split.
    + intros Hin. destruct (In_slot _ _ Hin) as [i Hi]. apply (bw_down s' W') in Hi.
      rewrite Hpar in Hi. destruct (memb x done); [left; reflexivity|right; exact Hi].
    + intros H. assert (Hx : bpar s' x = Some p).
      { rewrite Hpar. destruct (memb x done); [reflexivity|]. destruct H as [H|H]; [discriminate|exact H]. }
      destruct (bw_up s' W' _ _ Hx) as [i Hi]. exact (slot_In _ _ _ Hi).
Qed.

(* the whole-call statement with the link structure spelled out *)
Theorem bextend_failure cfg (p : id) cs fts s s' e :
  BWF s -> p < bsize s -> forallb (bin_range s) cs = true ->
  bextend_loop cfg s p cs fts = (s', Err e) ->
  exists done c rest, cs = done ++ c :: rest
    /\ bextend_loop cfg s p done fts = (bappends p done s, Ok)
    /\ snd (bset_parent cfg (nth (length done) fts NoFault) (bappends p done s) c (ANode p)) = Err e
    /\ beq s' (bappends p done s)
    /\ bextend_links s s' p done.
Proof.
  intros W Hp Hr E.
  destruct (bextend_prefix cfg p cs fts s s' e W Hp Hr E) as [done [c [rest [Ecs [Hok [Hf Hb]]]]]].
  exists done, c, rest. split; [exact Ecs|]. split; [exact Hok|]. split; [exact Hf|]. split; [exact Hb|].
  apply (bextend_links_of_prefix cfg p done fts s s' W Hp); try assumption.
  rewrite Ecs, forallb_app in Hr. apply andb_true_iff in Hr. tauto.
Qed.

(* the same through the operation interface *)
Theorem bstep_extend_failure cfg s (p : id) cs fts :
  BWF s -> bop_in_range s (BExtend p cs fts) = true ->
  snd (bstep cfg s (BExtend p cs fts)) <> Ok ->
  exists done c rest, cs = done ++ c :: rest
    /\ bextend_loop cfg s p done fts = (bappends p done s, Ok)
    /\ snd (bset_parent cfg (nth (length done) fts NoFault) (bappends p done s) c (ANode p))
       = snd (bstep cfg s (BExtend p cs fts))
    /\ beq (fst (bstep cfg s (BExtend p cs fts))) (bappends p done s)
    /\ bextend_links s (fst (bstep cfg s (BExtend p cs fts))) p done.
Proof.
  intros W Hr Herr. unfold bstep in *. rewrite Hr in *. cbn [negb] in *.
  cbn [bop_in_range] in Hr. apply andb_true_iff in Hr. destruct Hr as [Hp Hcs]. apply Nat.ltb_lt in Hp.
  destruct (bextend_loop cfg s p cs fts) as [s' o] eqn:E. cbn [fst snd] in *.
  destruct o as [|e]; [contradiction|].
  exact (bextend_failure cfg p cs fts s s' e W Hp Hcs E).
Qed.

(* ========================================================================================== *)
(* 2. the BinaryNode constructor *)

(* "put x into the first empty slot" (binarynode.py:192-197) *)
Definition fill_first (x : id) (l : list (option id)) : list (option id) :=
  match first_empty l with Some i => set_nth i (Some x) l | None => l end.

(* the state after a constructor call that linked the fresh node (id `bsize s`) below `np` and did
   nothing else: every old node has the parent it had, every old slot list but np's is as it was,
   np's got the fresh node in its first empty slot, the fresh node's own slots are empty *)
Record bnew_links (s s' : bheap) (np : option id) : Prop := {
  nl_size : bsize s' = S (bsize s);
  nl_par  : forall y, bpar s' y = if Nat.eqb y (bsize s) then np else bpar s y;
  nl_own  : bkids s' (bsize s) = [None; None];
  nl_kids : forall q, q <> bsize s ->
            bkids s' q = match np with
                         | Some p => if Nat.eqb q p then fill_first (bsize s) (bkids s q) else bkids s q
                         | None => bkids s q
                         end
}.

Lemma bnew_links_beq s t s' np : bnew_links s t np -> beq s' t -> bnew_links s s' np.
Proof.
  intros [H1 H2 H3 H4] [B1 [B2 B3]]. constructor.
  - congruence.
  - intros y. rewrite B2. apply H2.
  - rewrite B3. exact H3.
  - intros q Hq. rewrite B3. apply H4. exact Hq.
Qed.

Lemma balloc_links s : bnew_links s (balloc s) None.
Proof.
  constructor; cbn [balloc bsize bpar bkids].
  - reflexivity.
  - intros y. reflexivity.
  - apply BinaryProofs.upd_same.
  - intros q Hq. apply BinaryProofs.upd_other. exact Hq.
Qed.

Lemma balloc_detach s : bdetach (balloc s) (bsize s) = balloc s.
Proof. unfold bdetach. cbn [balloc bpar]. rewrite BinaryProofs.upd_same. reflexivity. Qed.

Lemma battach_alloc_links s a : barg_in_range s a = true ->
  bnew_links s (battach (balloc s) (bsize s) (slot_of_arg a)) (slot_of_arg a).
Proof.
  intros Ha. destruct a as [p| |]; cbn [slot_of_arg].
  - cbn [barg_in_range] in Ha. apply Nat.ltb_lt in Ha.
    assert (Hpx : p <> bsize s) by lia.
    unfold battach. cbv zeta.
    assert (Ek : bkids (bset_par (balloc s) (bsize s) (Some p)) p = bkids s p).
    { cbn [bset_par balloc bkids]. apply BinaryProofs.upd_other. exact Hpx. }
    rewrite Ek.
    destruct (first_empty (bkids s p)) as [i|] eqn:Ei;
      constructor; cbn [bset_kids bset_par balloc bsize bpar bkids]; try reflexivity.
    + intros y. unfold upd. destruct (Nat.eqb y (bsize s)); reflexivity.
    + rewrite BinaryProofs.upd_other by (intros H; apply Hpx; symmetry; exact H). apply BinaryProofs.upd_same.
    + intros q Hq. unfold upd at 1. destruct (Nat.eqb_spec q p) as [->|Hqp]; [unfold fill_first; rewrite Ei; reflexivity|].
      apply BinaryProofs.upd_other. exact Hq.
    + intros y. unfold upd. destruct (Nat.eqb y (bsize s)); reflexivity.
    + apply BinaryProofs.upd_same.
    + intros q Hq. rewrite BinaryProofs.upd_other by exact Hq.
      destruct (Nat.eqb_spec q p) as [->|Hqp]; [unfold fill_first; rewrite Ei|]; reflexivity.
  - unfold battach. cbv zeta. constructor; cbn [bset_par balloc bsize bpar bkids]; try reflexivity.
    + intros y. unfold upd. destruct (Nat.eqb y (bsize s)); reflexivity.
    + apply BinaryProofs.upd_same.
    + intros q Hq. apply BinaryProofs.upd_other. exact Hq.
  - unfold battach. cbv zeta. constructor; cbn [bset_par balloc bsize bpar bkids]; try reflexivity.
    + intros y. unfold upd. destruct (Nat.eqb y (bsize s)); reflexivity.
    + apply BinaryProofs.upd_same.
    + intros q Hq. apply BinaryProofs.upd_other. exact Hq.
Qed.

Lemma bset_parent_ok_notfull cfg ft s c a s' :
  bset_parent cfg ft s c a = (s', Ok) -> bfull (bdetach s c) (slot_of_arg a) = false.
Proof.
  unfold bset_parent. destruct a as [p| |]; cbv zeta; cbn [slot_of_arg]; [| reflexivity | discriminate].
  destruct (bparent_loop s c (Some p)); [discriminate|].
  destruct (fault_eqb ft PreFail); [discriminate|].
  destruct (bcorrupted s c); [discriminate|].
  destruct (bfull (bdetach s c) (Some p)); [discriminate|reflexivity].
Qed.

(* the children the constructor assigns (binarynode.py:95-96) *)
Definition bnew_children (l r : arg) (ch : list arg) : list arg :=
  match ch with [] => [l; r] | _ => ch end.

(* the whole-call statement: a raising constructor call either linked nothing (argument check or
   refused parent assignment), or the parent assignment was accepted -- the fresh node sits in the
   first empty slot of its parent -- and the children assignment is the one that raised and left
   nothing; in both cases every link among the old nodes is as before *)
Theorem bnew_failure cfg s l r par ch fp fc s' e : BWF s ->
  barg_in_range s l = true -> barg_in_range s r = true -> barg_in_range s par = true ->
  forallb (barg_in_range s) ch = true ->
  bnew cfg s l r par ch fp fc = (s', Err e) ->
  (beq s' (balloc s) /\ bnew_links s s' None)
  \/ (let s1 := battach (balloc s) (bsize s) (slot_of_arg par) in
      bset_parent cfg fp (balloc s) (bsize s) par = (s1, Ok)
      /\ snd (bset_children cfg fc s1 (bsize s) CList (bnew_children l r ch)) = Err e
      /\ beq s' s1
      /\ bnew_links s s' (slot_of_arg par)
      /\ forall p, par = ANode p -> first_empty (bkids s p) <> None).
Proof.
  intros W Rl Rr Rp Rch E. unfold bnew in E. cbv zeta in E.
  pose proof (alloc_BWF s W) as W0.
  assert (Hx : bsize s < bsize (balloc s)) by (cbn [balloc bsize]; lia).
  match type of E with context [if ?b then _ else _] => destruct b end.
  { injection E as <- _. left. split; [apply beq_refl|apply balloc_links]. }
  assert (Rp0 : barg_in_range (balloc s) par = true) by (eapply arg_range_mono; [|exact Rp]; lia).
  destruct (set_parent_sound cfg fp (balloc s) (bsize s) par W0 Hx Rp0) as [Hat W1].
  pose proof (set_parent_size cfg fp (balloc s) (bsize s) par W0 Hx Rp0) as S1.
  destruct (bset_parent cfg fp (balloc s) (bsize s) par) as [s1 o] eqn:E1. cbn [fst snd] in *.
  destruct o as [|e1].
  - right. cbv zeta.
    pose proof (bset_parent_ok _ _ _ _ _ _ E1) as Es. rewrite balloc_detach in Es.
    pose proof (bset_parent_ok_notfull _ _ _ _ _ _ E1) as Enf. rewrite balloc_detach in Enf.
    subst s1. set (s1 := battach (balloc s) (bsize s) (slot_of_arg par)) in *.
    assert (Hm : forall a, barg_in_range s a = true -> barg_in_range s1 a = true).
    { intros a. apply arg_range_mono. rewrite S1. lia. }
    assert (Rc : forallb (barg_in_range s1) (bnew_children l r ch) = true).
    { unfold bnew_children. destruct ch as [|c0 t0].
      - cbn [forallb]. rewrite (Hm _ Rl), (Hm _ Rr). reflexivity.
      - apply forallb_forall. intros a Ha. apply Hm. rewrite forallb_forall in Rch. apply Rch. exact Ha. }
    fold (bnew_children l r ch) in E.
    destruct (set_children_sound cfg fc s1 (bsize s) CList (bnew_children l r ch) W1
                ltac:(rewrite S1; exact Hx) Rc) as [Hat2 _].
    rewrite E in Hat2. cbn [fst snd] in Hat2.
    assert (Hb : beq s' s1) by (apply Hat2; discriminate).
    split; [reflexivity|]. split; [rewrite E; reflexivity|]. split; [exact Hb|].
    split; [exact (bnew_links_beq _ _ _ _ (battach_alloc_links s par Rp) Hb)|].
    intros p ->. cbn [slot_of_arg] in Enf. destruct (bfull_false _ _ Enf) as [i Hi].
    cbn [barg_in_range] in Rp. apply Nat.ltb_lt in Rp.
    cbn [balloc bkids] in Hi. rewrite BinaryProofs.upd_other in Hi by lia. congruence.
  - injection E as <- _. left.
    assert (Hb : beq s1 (balloc s)) by (apply Hat; discriminate).
    split; [exact Hb|]. exact (bnew_links_beq _ _ _ _ (balloc_links s) Hb).
Qed.

(* through the operation interface *)
Theorem bstep_new_failure cfg s l r par ch fp fc : BWF s ->
  bop_in_range s (BNew l r par ch fp fc) = true ->
  snd (bstep cfg s (BNew l r par ch fp fc)) <> Ok ->
  let s' := fst (bstep cfg s (BNew l r par ch fp fc)) in
  bnew_links s s' None
  \/ (snd (bset_parent cfg fp (balloc s) (bsize s) par) = Ok
      /\ snd (bset_children cfg fc (battach (balloc s) (bsize s) (slot_of_arg par)) (bsize s) CList
                (bnew_children l r ch)) = snd (bstep cfg s (BNew l r par ch fp fc))
      /\ beq s' (battach (balloc s) (bsize s) (slot_of_arg par))
      /\ bnew_links s s' (slot_of_arg par)
      /\ forall p, par = ANode p -> first_empty (bkids s p) <> None).
Proof.
  intros W Hr Herr. cbv zeta. unfold bstep in *. rewrite Hr in *. cbn [negb] in *.
  cbn [bop_in_range] in Hr. repeat (apply andb_true_iff in Hr; destruct Hr as [Hr ?]).
  destruct (bnew cfg s l r par ch fp fc) as [s' o] eqn:E. cbn [fst snd] in *.
  destruct o as [|e]; [contradiction|].
  destruct (bnew_failure cfg s l r par ch fp fc s' e W) as [[_ HL]|[E1 [E2 [Hb [HL Hf]]]]]; try assumption.
  - left. exact HL.
  - right. cbv zeta in E1. rewrite E1. cbn [snd].
    split; [reflexivity|]. split; [exact E2|]. split; [exact Hb|]. split; [exact HL|exact Hf].
Qed.

(* ========================================================================================== *)
(* 3. the DAGNode constructor, lists in order *)
From BT Require Import Heap.Dag Heap.DagProofs.

(* the state after a constructor call that linked the fresh node (id `dsize s`) below the parents
   `ps`, in that order, and did nothing else: every old node has its parents list as it was and its
   children list as it was, with the fresh node appended at the end when it is one of `ps` *)
Record dnew_links (s s' : dag) (ps : list id) : Prop := {
  dl_size : dsize s' = S (dsize s);
  dl_parents_new : parents s' (dsize s) = ps;
  dl_children_new : children s' (dsize s) = [];
  dl_old : forall y, y <> dsize s ->
           parents s' y = parents s y
           /\ children s' y = if memb y ps then children s y ++ [dsize s] else children s y
}.

Lemma dnew_links_same s t s' ps : dnew_links s t ps -> same_state s' t -> dnew_links s s' ps.
Proof.
  intros [H1 H2 H3 H4] [B1 B2]. constructor.
  - congruence.
  - rewrite (proj1 (B2 _)). exact H2.
  - rewrite (proj2 (B2 _)). exact H3.
  - intros y Hy. rewrite (proj1 (B2 y)), (proj2 (B2 y)). apply H4. exact Hy.
Qed.

Lemma alloc_links s nm : dnew_links s (alloc s nm) [].
Proof.
  constructor; cbn [alloc dsize parents children].
  - reflexivity.
  - apply DagProofs.upd_same.
  - apply DagProofs.upd_same.
  - intros y Hy. rewrite !DagProofs.upd_other by exact Hy. split; reflexivity.
Qed.

Lemma filter_all {A} (f : A -> bool) : forall l, (forall x, In x l -> f x = true) -> filter f l = l.
Proof.
  induction l as [|a t IH]; intros H; [reflexivity|]. cbn [filter]. rewrite (H a (or_introl eq_refl)).
  f_equal. apply IH. intros x Hx. apply H. right. exact Hx.
Qed.

Lemma assign_alloc_links s nm news : NoDup news -> (forall p, In p news -> p < dsize s) ->
  dnew_links s (assign_parents (alloc s nm) (dsize s) news) news.
Proof.
  intros Hnd Hr.
  assert (Ep : parents (alloc s nm) (dsize s) = []) by (cbn [alloc parents]; apply DagProofs.upd_same).
  assert (Hx : memb (dsize s) news = false).
  { apply memb_false. intros Hin. apply Hr in Hin. lia. }
  constructor.
  - rewrite assign_parents_size. reflexivity.
  - rewrite ap_parents_c, Ep, fold_addl_filter by exact Hnd. cbn [app]. apply filter_all. reflexivity.
  - rewrite ap_children by exact Hnd. rewrite Hx. cbn [andb alloc children]. apply DagProofs.upd_same.
  - intros y Hy. split.
    + rewrite ap_parents_other by exact Hy. cbn [alloc parents]. apply DagProofs.upd_other. exact Hy.
    + rewrite ap_children by exact Hnd. rewrite Ep. cbn [memb existsb negb]. rewrite andb_true_r.
      cbn [alloc children]. rewrite DagProofs.upd_other by exact Hy. reflexivity.
Qed.

Lemma set_parents_ok cfg ft s c cont args s' :
  set_parents cfg ft s c cont args = (s', Ok) ->
  NoDup (ids_of args) /\ s' = assign_parents s c (ids_of args).
Proof.
  unfold set_parents. destruct (check_parents s c cont args) eqn:Hchk; [discriminate|].
  destruct (dfault_eqb ft DPreFail); [discriminate|].
  destruct (dfault_eqb ft DPostFail); [discriminate|]. intros [= <-]. split; [|reflexivity].
  unfold check_parents in Hchk. destruct cont; try discriminate.
  apply check_parent_loop_ok in Hchk. tauto.
Qed.

(* the whole-call statement: a raising constructor call either linked nothing (the parents assignment
   was refused or failed), or the parents assignment was accepted -- the fresh node has exactly the
   requested parents in the requested order and is the LAST child of each of them -- and the
   children assignment is the one that raised and left nothing; every other list is as before *)
Theorem dnew_failure cfg s nm pa ca ftp ftc s' e : DWF s ->
  forallb (darg_in_range s) (carg_args pa) = true -> forallb (darg_in_range s) (carg_args ca) = true ->
  construct cfg s nm pa ca ftp ftc = (s', Err e) ->
  (same_state s' (alloc s nm) /\ dnew_links s s' [])
  \/ (let s2 := assign_parents (alloc s nm) (dsize s) (ids_of (carg_args pa)) in
      set_parents cfg ftp (alloc s nm) (dsize s) (carg_cont pa) (carg_args pa) = (s2, Ok)
      /\ snd (set_children cfg ftc s2 (dsize s) (carg_cont ca) (carg_args ca)) = Err e
      /\ same_state s' s2
      /\ dnew_links s s' (ids_of (carg_args pa))).
Proof.
  intros W Hp Hc E. unfold construct in E.
  pose proof (alloc_DWF s nm W) as W1.
  pose proof (set_parents_atomic cfg ftp (alloc s nm) (dsize s) (carg_cont pa) (carg_args pa) W1) as A1.
  pose proof (set_parents_DWF cfg ftp (alloc s nm) (dsize s) (carg_cont pa) (carg_args pa) W1) as W2.
  destruct (set_parents cfg ftp (alloc s nm) (dsize s) (carg_cont pa) (carg_args pa)) as [s2 o2] eqn:E2.
  cbn [fst snd] in *. destruct o2 as [|e2].
  - right. cbv zeta. destruct (set_parents_ok _ _ _ _ _ _ _ E2) as [Hnd Es]. subst s2.
    set (s2 := assign_parents (alloc s nm) (dsize s) (ids_of (carg_args pa))) in *.
    assert (Hb : same_state s' s2).
    { pose proof (set_children_atomic cfg ftc s2 (dsize s) (carg_cont ca) (carg_args ca)) as A2.
      rewrite E in A2. cbn [fst snd] in A2. apply A2; [|discriminate].
      apply W2; [cbn; lia|]. eapply range_mono; [|exact Hp]. cbn. lia. }
    split; [reflexivity|]. split; [rewrite E; reflexivity|]. split; [exact Hb|].
    apply (dnew_links_same s s2); [|exact Hb].
    apply assign_alloc_links; [exact Hnd|]. apply ids_in_range. exact Hp.
  - injection E as <- _. left.
    assert (Hb : same_state s2 (alloc s nm)) by (apply A1; discriminate).
    split; [exact Hb|]. exact (dnew_links_same _ _ _ _ (alloc_links s nm) Hb).
Qed.

(* through the operation interface *)
Theorem dstep_new_failure cfg s nm pa ca ftp ftc : DWF s ->
  dop_in_range s (DNew nm pa ca ftp ftc) = true ->
  snd (dstep cfg s (DNew nm pa ca ftp ftc)) <> Ok ->
  let s' := fst (dstep cfg s (DNew nm pa ca ftp ftc)) in
  dnew_links s s' []
  \/ (snd (set_parents cfg ftp (alloc s nm) (dsize s) (carg_cont pa) (carg_args pa)) = Ok
      /\ snd (set_children cfg ftc (assign_parents (alloc s nm) (dsize s) (ids_of (carg_args pa)))
                (dsize s) (carg_cont ca) (carg_args ca)) = snd (dstep cfg s (DNew nm pa ca ftp ftc))
      /\ same_state s' (assign_parents (alloc s nm) (dsize s) (ids_of (carg_args pa)))
      /\ dnew_links s s' (ids_of (carg_args pa))).
Proof.
  intros W Hr Herr. cbv zeta. unfold dstep in *. rewrite Hr in *. cbn [negb] in *.
  cbn [dop_in_range] in Hr. apply andb_true_iff in Hr. destruct Hr as [Hp Hc].
  destruct (construct cfg s nm pa ca ftp ftc) as [s' o] eqn:E. cbn [fst snd] in *.
  destruct o as [|e]; [contradiction|].
  destruct (dnew_failure cfg s nm pa ca ftp ftc s' e W Hp Hc E) as [[_ HL]|[E1 [E2 [Hb HL]]]].
  - left. exact HL.
  - right. cbv zeta in E1. rewrite E1. cbn [snd].
    split; [reflexivity|]. split; [exact E2|]. split; [exact Hb|exact HL].
Qed.
