(* Commutation of the parent setter with rose-tree surgery (closes the deviation recorded in
   DESIGN section 11: Heap/Abs.v related states to rose trees but not operations to tree edits).

   For a well-formed heap state s and an accepted `c.parent = np`:
     - the subtree below c is moved intact                      (attach_subtree_moved)
     - every subtree that contains neither the old nor the new parent is untouched
                                                                 (attach_subtree_frame)
     - for every node r outside the moved subtree, the rose tree below r in the new state is the
       rose tree below r in the old state with the c-subtree cut out and grafted as the LAST child
       of the node tagged np                                     (attach_is_surgery)
   All three for arbitrary states, nodes and targets; no fuel bound is visible in the statements. *)
From Coq Require Import Sorting.Permutation.
From BT Require Import Base.Prelude Base.Str Base.Rose Heap.Forest Heap.ForestWF Heap.ForestOps
     Heap.ForestStep Heap.ForestNames Heap.Abs.

Definition tag_is (c : id) (t : tree) : bool :=
  match ttag t with Some x => Nat.eqb x c | None => false end.

(* cut out every subtree whose root is tagged c *)
Fixpoint cut (c : id) (t : tree) : tree :=
  match t with
  | T g n a ks => T g n a (filter (fun k => negb (tag_is c k)) (map (cut c) ks))
  end.

(* append u as the last child of every node tagged p (tags are distinct: at most one) *)
Fixpoint graft (p : id) (u : tree) (t : tree) : tree :=
  match t with
  | T g n a ks =>
      let ks' := map (graft p u) ks in
      T g n a (if tag_is p t then ks' ++ [u] else ks')
  end.

Definition graft_opt (np : option id) (u : tree) (t : tree) : tree :=
  match np with Some p => graft p u t | None => t end.

(* ---------------- frame: a subtree depends only on the entries of its own nodes ---------------- *)
Lemma in_tags_kid (t k : tree) y : In k (tkids t) -> In (Some y) (tags k) -> In (Some y) (tags t).
Proof.
  destruct t as [g n a ks]. cbn [tkids]. intros Hk Hy. unfold tags in *. cbn [pre map]. right.
  apply in_map_iff in Hy. destruct Hy as [u [Hu Hin]]. apply in_map_iff. exists u. split; [exact Hu|].
  apply in_flat_map. exists k. split; assumption.
Qed.

Lemma tree_of_frame s s' : forall f x,
  (forall y, In (Some y) (tags (tree_of s f x)) -> kids s' y = kids s y /\ name s' y = name s y) ->
  tree_of s' f x = tree_of s f x.
Proof.
  induction f as [|f IH]; intros x H; cbn [tree_of].
  - destruct (H x) as [_ Hn]; [unfold tags; cbn; left; reflexivity|]. rewrite Hn. reflexivity.
  - destruct (H x) as [Hk Hn]; [unfold tags; cbn; left; reflexivity|]. rewrite Hk, Hn. f_equal.
    apply map_ext_in. intros c Hc. apply IH. intros y Hy. apply H.
    apply (in_tags_kid _ (tree_of s f c)); [cbn [tree_of tkids]; apply in_map; exact Hc|exact Hy].
Qed.

Theorem subtree_frame s s' x :
  size s' = size s ->
  (forall y, In (Some y) (tags (subtree s x)) -> kids s' y = kids s y /\ name s' y = name s y) ->
  subtree s' x = subtree s x.
Proof. intros Hs H. unfold subtree. rewrite Hs. apply tree_of_frame. exact H. Qed.


Lemma cut_tag c t : ttag (cut c t) = ttag t.
Proof. destruct t; reflexivity. Qed.

Lemma subtree_tag s x : ttag (subtree s x) = Some x.
Proof. reflexivity. Qed.

Lemma filter_map_comm {A B} (P : B -> bool) (f : A -> B) l :
  filter P (map f l) = map f (filter (fun x => P (f x)) l).
Proof.
  induction l as [|x l IH]; cbn [map filter]; [reflexivity|]. destruct (P (f x)); cbn [map]; rewrite IH; reflexivity.
Qed.

Lemma graft_opt_unfold np u g n a ks :
  graft_opt np u (T g n a ks) =
  T g n a (map (graft_opt np u) ks ++
           (if match g with Some r => is_parent np r | None => false end then [u] else [])).
Proof.
  destruct np as [p|].
  - change (graft_opt (Some p) u) with (graft p u). cbn [graft].
    unfold tag_is, is_parent. cbn [ttag]. destruct g as [r|].
    + rewrite (Nat.eqb_sym r p). destruct (Nat.eqb p r); [reflexivity|]. rewrite app_nil_r. reflexivity.
    + f_equal. symmetry. apply app_nil_r.
  - cbn [graft_opt]. assert (E : map (graft_opt None u) ks = ks).
    { induction ks as [|k l IH]; cbn [map graft_opt]; [reflexivity|]. f_equal. exact IH. }
    rewrite E. destruct g; cbn [is_parent]; rewrite app_nil_r; reflexivity.
Qed.

Lemma cut_unfold c g n a ks :
  cut c (T g n a ks) = T g n a (filter (fun k => negb (tag_is c k)) (map (cut c) ks)).
Proof. reflexivity. Qed.

(* ---------------- the moved subtree is intact ---------------- *)
Section Attach.
  Variables (s : forest) (c : id) (np : option id).
  Hypothesis W : WF s.
  Hypothesis Hc : c < size s.
  Hypothesis Hnp : forall p, np = Some p -> p < size s /\ p <> c /\ ~ In c (ancestors s p).
  Let s' := attach s c np.

  Lemma attach_W' : WF s'.
  Proof. apply attach_WF; assumption. Qed.

  (* a node inside the c-subtree neither lists c as a child nor is the new parent *)
  Lemma inside_kids y : In (Some y) (tags (subtree s c)) -> kids s' y = kids s y.
  Proof.
    intros Hy. apply (subtree_members s c y W) in Hy.
    unfold s'. rewrite attach_kids by exact W.
    assert (Hnc : ~ In c (kids s y)).
    { intros Hin. apply (wf_link s W) in Hin. destruct (child_not_above s c y W Hin) as [Hne Hna].
      destruct Hy as [->|Hy]; [apply Hne; reflexivity|apply Hna; exact Hy]. }
    rewrite (remove1_notin c _ Hnc).
    assert (Hp : is_parent np y = false).
    { unfold is_parent. destruct np as [p|] eqn:E; [|reflexivity]. apply Nat.eqb_neq. intros ->.
      destruct (Hnp y eq_refl) as [_ [Hne Hna]]. destruct Hy as [->|Hy]; [apply Hne; reflexivity|apply Hna; exact Hy]. }
    rewrite Hp. apply app_nil_r.
  Qed.

  Theorem attach_subtree_moved : subtree s' c = subtree s c.
  Proof.
    apply subtree_frame; [apply attach_size|]. intros y Hy. split; [apply inside_kids; exact Hy|apply attach_name].
  Qed.

  (* a subtree containing neither the old nor the new parent is untouched *)
  Theorem attach_subtree_frame x :
    (forall q, par s c = Some q -> ~ In (Some q) (tags (subtree s x))) ->
    (forall p, np = Some p -> ~ In (Some p) (tags (subtree s x))) ->
    subtree s' x = subtree s x.
  Proof.
    intros Hq Hp. apply subtree_frame; [apply attach_size|]. intros y Hy. split; [|apply attach_name].
    unfold s'. rewrite attach_kids by exact W.
    assert (Hnc : ~ In c (kids s y)).
    { intros Hin. apply (wf_link s W) in Hin. apply (Hq y Hin). exact Hy. }
    rewrite (remove1_notin c _ Hnc).
    assert (E : is_parent np y = false).
    { unfold is_parent. destruct np as [p|] eqn:E; [|reflexivity]. apply Nat.eqb_neq. intros ->.
      apply (Hp y eq_refl). exact Hy. }
    rewrite E. apply app_nil_r.
  Qed.

  (* ---------------- the whole edit as tree surgery ---------------- *)
  Lemma outside_child r k :
    ~ In (Some r) (tags (subtree s c)) -> In k (kids s r) -> k <> c ->
    ~ In (Some k) (tags (subtree s c)) /\ par s' k = Some r.
  Proof.
    intros Hr Hk Hne. apply (wf_link s W) in Hk. split.
    - intros Hin. apply (subtree_members s c k W) in Hin. destruct Hin as [->|Hin]; [apply Hne; reflexivity|].
      rewrite (WF_ancestors_unfold s k r W Hk) in Hin. apply Hr. apply (subtree_members s c r W).
      destruct Hin as [->|Hin]; [left; reflexivity|right; exact Hin].
    - unfold s'. rewrite attach_par. destruct (Nat.eqb_spec k c) as [->|_]; [contradiction|exact Hk].
  Qed.

  Lemma surgery_n : forall n r,
    ~ In (Some r) (tags (subtree s c)) -> size s < depth s' r + n ->
    subtree s' r = graft_opt np (subtree s c) (cut c (subtree s r)).
  Proof.
    pose proof attach_W' as W'. assert (Hsz : size s' = size s) by apply attach_size.
    induction n as [|n IH]; intros r Hr Hd.
    - destruct (Nat.lt_ge_cases r (size s)) as [Hlt|Hge].
      { pose proof (depth_le_size s' r W'). rewrite Hsz in *. specialize (H Hlt). lia. }
      rewrite (subtree_unfold s' r W'), (subtree_unfold s r W).
      rewrite (kids_nil_outside s r W Hge). rewrite (kids_nil_outside s' r W') by (rewrite Hsz; exact Hge).
      cbn [map]. rewrite cut_unfold. cbn [map filter]. rewrite graft_opt_unfold. cbn [map app].
      unfold s' at 1. rewrite attach_name.
      assert (E : is_parent np r = false).
      { unfold is_parent. destruct np as [p|] eqn:E; [|reflexivity]. apply Nat.eqb_neq. intros ->.
        destruct (Hnp r eq_refl) as [Hlt _]. lia. }
      rewrite E. reflexivity.
    - rewrite (subtree_unfold s' r W'), (subtree_unfold s r W).
      rewrite cut_unfold, graft_opt_unfold. unfold s' at 1. rewrite attach_name. f_equal.
      unfold s' at 2. rewrite attach_kids by exact W. fold s'.
      rewrite map_app. f_equal.
      + rewrite map_map, filter_map_comm.
        rewrite (remove1_filter c (kids s r) (wf_nodup s W r)).
        assert (Efil : filter (fun x => negb (tag_is c (cut c (subtree s x)))) (kids s r)
                       = filter (fun y => negb (Nat.eqb y c)) (kids s r)).
        { apply filter_ext. intros x. unfold tag_is. rewrite cut_tag, subtree_tag. reflexivity. }
        rewrite Efil, map_map. apply map_ext_in. intros k Hk.
        apply filter_In in Hk. destruct Hk as [Hk Hkc]. apply negb_true_iff, Nat.eqb_neq in Hkc.
        destruct (outside_child r k Hr Hk Hkc) as [Hko Hkp].
        apply IH; [exact Hko|]. rewrite (depth_child s' k r W' Hkp). lia.
      + destruct (is_parent np r); [|reflexivity]. cbn [map]. rewrite attach_subtree_moved. reflexivity.
  Qed.

  (* for every node r outside the moved subtree: the tree below r afterwards is the tree below r
     before with the c-subtree cut out and grafted as the last child of the new parent *)
  Theorem attach_is_surgery r :
    ~ In (Some r) (tags (subtree s c)) ->
    subtree s' r = graft_opt np (subtree s c) (cut c (subtree s r)).
  Proof. intros Hr. apply (surgery_n (S (size s))); [exact Hr|]. unfold depth. lia. Qed.
End Attach.

(* ---------------- meaning of cut / graft where the tag does not occur ---------------- *)
Lemma tags_root t : In (ttag t) (tags t).
Proof. destruct t. unfold tags. cbn. left. reflexivity. Qed.

Lemma tags_kid_incl g n a ks k o : In k ks -> In o (tags k) -> In o (tags (T g n a ks)).
Proof.
  intros Hk Ho. unfold tags in *. cbn [pre map]. right.
  apply in_map_iff in Ho. destruct Ho as [u [Hu Hin]]. apply in_map_iff. exists u. split; [exact Hu|].
  apply in_flat_map. exists k. split; assumption.
Qed.

Theorem cut_absent c : forall t, ~ In (Some c) (tags t) -> cut c t = t.
Proof.
  induction t as [g n a ks IH] using tree_ind'. intros H. rewrite cut_unfold. f_equal.
  induction ks as [|k ks IHks]; [reflexivity|]. inversion IH as [|? ? Hk Hks]; subst.
  cbn [map filter]. rewrite Hk by (intros Hin; apply H; apply (tags_kid_incl g n a (k :: ks) k); [left; reflexivity|exact Hin]).
  assert (E : tag_is c k = false).
  { unfold tag_is. destruct (ttag k) as [x|] eqn:Ex; [|reflexivity]. apply Nat.eqb_neq. intros ->.
    apply H. apply (tags_kid_incl g n a (k :: ks) k); [left; reflexivity|]. rewrite <- Ex. apply tags_root. }
  rewrite E. cbn [negb]. f_equal. apply IHks; [exact Hks|].
  intros Hin. apply H. unfold tags in *. cbn [pre map flat_map] in *. destruct Hin as [Hin|Hin]; [left; exact Hin|].
  right. rewrite map_app. apply in_or_app. right. exact Hin.
Qed.

Theorem graft_absent p u : forall t, ~ In (Some p) (tags t) -> graft p u t = t.
Proof.
  induction t as [g n a ks IH] using tree_ind'. intros H. cbn [graft].
  assert (E : tag_is p (T g n a ks) = false).
  { unfold tag_is. cbn [ttag]. destruct g as [x|]; [|reflexivity]. apply Nat.eqb_neq. intros ->.
    apply H. unfold tags. cbn. left. reflexivity. }
  rewrite E. f_equal.
  assert (Hks : forall k, In k ks -> ~ In (Some p) (tags k)).
  { intros k Hk Hin. apply H. apply (tags_kid_incl g n a ks k); assumption. }
  clear H E. induction ks as [|k ks IHks]; [reflexivity|]. inversion IH as [|? ? Hk Hr]; subst.
  cbn [map]. rewrite Hk by (apply Hks; left; reflexivity). f_equal. apply IHks; [exact Hr|].
  intros k' Hk'. apply Hks. right. exact Hk'.
Qed.

(* ---------------- lifted to the parent setter ---------------- *)
Theorem set_parent_is_surgery cfg ft s c a s' :
  WF s -> c < size s -> (forall p, a = ANode p -> p < size s) ->
  set_parent cfg ft s c a = (s', Ok) ->
  subtree s' c = subtree s c
  /\ (forall r, ~ In (Some r) (tags (subtree s c)) ->
        subtree s' r = graft_opt (np_of a) (subtree s c) (cut c (subtree s r)))
  /\ (forall x, (forall q, par s c = Some q -> ~ In (Some q) (tags (subtree s x))) ->
                (forall p, np_of a = Some p -> ~ In (Some p) (tags (subtree s x))) ->
                subtree s' x = subtree s x).
Proof.
  intros W Hc Ha E.
  destruct (set_parent_cases cfg ft s c a) as [[_ [H [_ [HL _]]]]|[[H _]|[H _]]];
    rewrite E in H; cbn [fst snd] in H; try congruence.
  subst s'.
  assert (Hnp : forall p, np_of a = Some p -> p < size s /\ p <> c /\ ~ In c (ancestors s p)).
  { intros p Ep. destruct (parent_loop_false s c (np_of a) HL p Ep) as [H1 H2].
    split; [apply Ha; destruct a; cbn [np_of] in Ep; congruence|split; assumption]. }
  split; [apply attach_subtree_moved; assumption|].
  split; [intros r Hr; apply attach_is_surgery; assumption|].
  intros x Hq Hp. apply attach_subtree_frame; assumption.
Qed.

(* states with the same links and names have the same subtrees *)
Lemma subtree_same s t x :
  same s t -> (forall y, name s y = name t y) -> subtree s x = subtree t x.
Proof.
  intros [Hs H] Hn. apply subtree_frame; [exact Hs|]. intros y _. split; [apply (H y)|apply Hn].
Qed.

(* ---------------- children setter = a sequence of parent-setter surgeries ---------------- *)
(* the accepted children assignment has the links of: detach every previous child (c.parent = None),
   then attach the new children one by one in the given order (x.parent = p) -- each of these is a
   tree surgery by set_parent_is_surgery / attach_is_surgery *)
Theorem assign_children_is_attaches s p news :
  WF s -> p < size s -> valid_children s p news ->
  let t := fold_left (fun st x => attach st x (Some p)) news
             (fold_left (fun st x => attach st x None) (kids s p) s) in
  same (assign_children s p news) t /\ (forall y, name (assign_children s p news) y = name t y).
Proof.
  intros W Hp [Hnd [Hpn Hv]]. unfold assign_children.
  destruct (del_children_spec s p W) as [W1 [Hs1 [Hpar1 [Hk1 Hkq1]]]].
  assert (Edel : fold_left (fun st x => attach st x None) (kids s p) s = del_children s p).
  { unfold del_children.
    assert (G : forall l s0, fold_left (fun st x => attach st x None) l s0 = fold_left orphan l s0).
    { induction l as [|x l IH]; intros s0; [reflexivity|]. cbn [fold_left]. rewrite <- orphan_attach. apply IH. }
    apply G. }
  rewrite Edel.
  set (s1 := del_children s p) in *.
  assert (Ha1 : ancestors s1 p = ancestors s p).
  { apply ancestors_frame; [exact Hs1|]. intros y Hy. rewrite Hpar1.
    destruct (memb y (kids s p)) eqn:E; [|reflexivity].
    apply memb_In in E. apply (wf_link s W) in E. destruct (child_not_above s y p W E) as [H1 H2].
    destruct Hy as [->|Hy]; [congruence|contradiction]. }
  destruct (steal_loop p news news (set_kids s1 p news) s1 [] W1) as
    [Wf [Hsf [Hsuf [Hpf [Hkf [HLf [Hkpf [Hparf Hkqf]]]]]]]]; try assumption; try reflexivity.
  - rewrite Hs1. exact Hp.
  - intros x Hx. rewrite Hs1, Ha1. apply Hv. exact Hx.
  - intros q Hq. cbn [kids set_kids]. apply upd_other. exact Hq.
  - cbn [kids set_kids]. apply upd_same.
  - set (u' := fold_left (steal p) news (set_kids s1 p news)) in *.
    set (t' := fold_left (fun st x => attach st x (Some p)) news s1) in *.
    split.
    + split; [exact Hsuf|]. intros x. split; [apply Hpf|].
      destruct (Nat.eq_dec x p) as [->|Hx]; [transitivity news; [exact HLf|symmetry; exact Hkpf]|apply Hkf; exact Hx].
    + intros y. unfold u', t'.
      assert (N1 : forall l st, name (fold_left (steal p) l st) y = name st y).
      { induction l as [|x l IH]; intros st; [reflexivity|]. cbn [fold_left]. rewrite IH.
        unfold steal. destruct (par st x); reflexivity. }
      assert (N2 : forall l st, name (fold_left (fun st x => attach st x (Some p)) l st) y = name st y).
      { induction l as [|x l IH]; intros st; [reflexivity|]. cbn [fold_left]. rewrite IH. apply attach_name. }
      rewrite N1, N2. reflexivity.
Qed.

(* ---------------- sort / any re-ordering of one child list ---------------- *)
(* re-ordering the children of p (what `sort` does: a permutation of kids p, C01_sort_step) permutes
   the child subtrees of p and changes no subtree that does not contain p *)
Theorem reorder_is_tree_permutation s p l :
  WF s -> Permutation l (kids s p) ->
  let s' := set_kids s p l in
  subtree s' p = T (Some p) (name s p) [] (map (subtree s) l)
  /\ (forall x, ~ In (Some p) (tags (subtree s x)) -> subtree s' x = subtree s x).
Proof.
  intros W HP. cbv zeta.
  assert (W' : WF (set_kids s p l)) by (apply set_kids_perm_WF; assumption).
  assert (Hfr : forall x, ~ In (Some p) (tags (subtree s x)) -> subtree (set_kids s p l) x = subtree s x).
  { intros x Hx. apply subtree_frame; [reflexivity|]. intros y Hy. split; [|reflexivity].
    cbn [kids set_kids]. apply upd_other. intros ->. exact (Hx Hy). }
  split; [|exact Hfr].
  rewrite (subtree_unfold _ p W').
  assert (Ek : kids (set_kids s p l) p = l) by (cbn [kids set_kids]; apply upd_same).
  rewrite Ek. change (name (set_kids s p l) p) with (name s p). f_equal.
  apply map_ext_in. intros k Hk. apply Hfr. intros Hin.
  apply (subtree_members s k p W) in Hin.
  assert (Hpk : par s k = Some p).
  { apply (wf_link s W). apply (Permutation_in k HP). exact Hk. }
  destruct (child_not_above s k p W Hpk) as [Hne Hna].
  destruct Hin as [->|Hin]; [apply Hne; reflexivity|apply Hna; exact Hin].
Qed.

(* ---------------- del node.children ---------------- *)
Lemma del_children_name s p y : name (del_children s p) y = name s y.
Proof.
  unfold del_children. generalize (kids s p) as l. intros l. revert s.
  induction l as [|x l IH]; intros s; [reflexivity|]. cbn [fold_left]. rewrite IH.
  unfold orphan. destruct (par s x); reflexivity.
Qed.

(* p becomes a leaf; every subtree not containing p -- in particular the subtree of every detached
   child, now a root -- is unchanged *)
Theorem del_children_is_tree_cut s p :
  WF s ->
  let s' := del_children s p in
  subtree s' p = T (Some p) (name s p) [] []
  /\ (forall x, ~ In (Some p) (tags (subtree s x)) -> subtree s' x = subtree s x).
Proof.
  intros W. cbv zeta. destruct (del_children_spec s p W) as [W' [Hsz [_ [Hk Hkq]]]]. split.
  - rewrite (subtree_unfold _ p W'), Hk, del_children_name. reflexivity.
  - intros x Hx. apply subtree_frame; [exact Hsz|]. intros y Hy. split; [|apply del_children_name].
    apply Hkq. intros ->. exact (Hx Hy).
Qed.

(* ---------------- sep assignment ---------------- *)
Theorem set_sep_keeps_trees s n v x : subtree (set_sep s n v) x = subtree s x.
Proof. apply subtree_frame; [reflexivity|]. intros y _. split; reflexivity. Qed.

(* ---------------- extend: the accepted prefix, one append at a time ---------------- *)
Definition appends (p : id) (cs : list id) (s : forest) : forest :=
  fold_left (fun st c => attach st c (Some p)) cs s.

Lemma extend_ok cfg p : forall cs fts s s',
  extend_loop cfg s p cs fts = (s', Ok) -> s' = appends p cs s.
Proof.
  induction cs as [|c cs IH]; intros fts s s' E; cbn [extend_loop] in E.
  - injection E as <-. reflexivity.
  - destruct (set_parent cfg (hd NoFault fts) s c (ANode p)) as [s1 o1] eqn:E1.
    destruct o1 as [|e]; [|discriminate].
    destruct (set_parent_cases cfg (hd NoFault fts) s c (ANode p)) as [[_ [H _]]|[[H _]|[H _]]];
      rewrite E1 in H; cbn [fst snd] in H; try congruence.
    subst s1. cbn [np_of] in E. unfold appends. cbn [fold_left]. apply (IH _ _ _ E).
Qed.

(* when extend raises, exactly the appends before the failing one are in place (the failing one is
   rolled back: C02 assignment by assignment) *)
Theorem extend_prefix cfg p : forall cs fts s s' e,
  WF s -> (forall c, In c cs -> c < size s) -> p < size s ->
  extend_loop cfg s p cs fts = (s', Err e) ->
  exists done c rest, cs = done ++ c :: rest /\ same s' (appends p done s).
Proof.
  induction cs as [|c cs IH]; intros fts s s' e W Hcs Hp E; cbn [extend_loop] in E; [discriminate|].
  destruct (set_parent cfg (hd NoFault fts) s c (ANode p)) as [s1 o1] eqn:E1.
  destruct o1 as [|e1].
  - destruct (set_parent_cases cfg (hd NoFault fts) s c (ANode p)) as [[_ [H [_ [HL _]]]]|[[H _]|[H _]]];
      rewrite E1 in H; cbn [fst snd] in H; try congruence.
    subst s1. cbn [np_of] in *.
    assert (W1 : WF (attach s c (Some p))).
    { apply attach_WF; [exact W|apply Hcs; left; reflexivity|]. intros p0 [= <-].
      destruct (parent_loop_false s c (Some p) HL p eq_refl) as [H1 H2]. repeat split; assumption. }
    destruct (IH (tl fts) _ s' e W1) as [done [c' [rest [Ecs Hs]]]]; [| |exact E|].
    + intros x Hx. rewrite attach_size. apply Hcs. right. exact Hx.
    + rewrite attach_size. exact Hp.
    + exists (c :: done), c', rest. split; [cbn [app]; rewrite Ecs; reflexivity|exact Hs].
  - injection E as <- <-. exists [], c, cs. split; [reflexivity|]. unfold appends. cbn [fold_left].
    pose proof (set_parent_atomic cfg (hd NoFault fts) s c (ANode p) W) as Hat. rewrite E1 in Hat. cbn [fst snd] in Hat.
    apply Hat. discriminate.
Qed.

(* ---------------- every accepted operation of the structural API is a tree edit ---------------- *)
Definition surgery (s s' : forest) (c : id) (np : option id) : Prop :=
  subtree s' c = subtree s c
  /\ forall r, ~ In (Some r) (tags (subtree s c)) ->
       subtree s' r = graft_opt np (subtree s c) (cut c (subtree s r)).

Definition edit_of (cfg : config) (s s' : forest) (o : op) : Prop :=
  match o with
  | SetParent c a _ => surgery s s' c (np_of a)
  | Append p c _ | RShift p c _ | LShift c p _ => surgery s s' c (Some p)
  | DelItem p nm _ =>
      ((forall k, In k (kids s p) -> name s k <> nm) /\ s' = s)
      \/ exists c, In c (kids s p) /\ name s c = nm /\ surgery s s' c None
  | DelChildren p =>
      subtree s' p = T (Some p) (name s p) [] []
      /\ forall x, ~ In (Some p) (tags (subtree s x)) -> subtree s' x = subtree s x
  | Sort p keys rv =>
      subtree s' p = T (Some p) (name s p) [] (map (subtree s) (py_sort (key_of keys) rv (kids s p)))
      /\ forall x, ~ In (Some p) (tags (subtree s x)) -> subtree s' x = subtree s x
  | SetSep _ _ => forall x, subtree s' x = subtree s x
  | SetChildren p _ args _ =>
      let t := fold_left (fun st x => attach st x (Some p)) (ids_of args)
                 (fold_left (fun st x => attach st x None) (kids s p) s) in
      forall x, subtree s' x = subtree t x
  | Extend p cs _ => s' = appends p cs s      (* the Append steps one after the other, each a surgery *)
  end.

Lemma set_parent_surgery cfg ft s c a s' :
  WF s -> in_range s c = true -> arg_in_range s a = true ->
  set_parent cfg ft s c a = (s', Ok) -> surgery s s' c (np_of a).
Proof.
  intros W Hc Ha E. apply Nat.ltb_lt in Hc.
  destruct (set_parent_is_surgery cfg ft s c a s' W Hc) as [H1 [H2 _]]; [|exact E|split; assumption].
  intros p ->. cbn [arg_in_range] in Ha. apply Nat.ltb_lt. exact Ha.
Qed.

Theorem step_is_tree_edit cfg s o s' :
  WF s -> step cfg s o = (s', Ok) -> edit_of cfg s s' o.
Proof.
  intros W E. unfold step in E. destruct (op_in_range s o) eqn:Hr; cbn [negb] in E; [|discriminate].
  destruct o as [c a ft|p cont args ft|p|p c ft|p cs fts|p c ft|c p ft|p nm ft|p keys rv|n v]; cbn [edit_of op_in_range] in *.
  - apply andb_true_iff in Hr as [H1 H2]. apply (set_parent_surgery cfg ft s c a s' W H1 H2 E).
  - apply andb_true_iff in Hr as [H1 H2].
    destruct (set_children_cases cfg ft s p cont args) as [[_ [H [Hc _]]]|[[H _]|[H _]]];
      rewrite E in H; cbn [fst snd] in H; try congruence.
    subst s'. intros x. apply Nat.ltb_lt in H1.
    destruct (assign_children_is_attaches s p (ids_of args) W H1 (checked_valid s p cont args Hc H2)) as [Hs Hn].
    apply subtree_same; assumption.
  - injection E as <-. apply (del_children_is_tree_cut s p W).
  - apply andb_true_iff in Hr as [H1 H2]. apply (set_parent_surgery cfg ft s c (ANode p) s' W H2 H1 E).
  - apply (extend_ok cfg p cs fts s s' E).
  - apply andb_true_iff in Hr as [H1 H2]. apply (set_parent_surgery cfg ft s c (ANode p) s' W H2 H1 E).
  - apply andb_true_iff in Hr as [H1 H2]. apply (set_parent_surgery cfg ft s c (ANode p) s' W H2 H1 E).
  - destruct (is_node cfg); cbn [negb] in E; [|discriminate].
    destruct (filter (fun k => str_eqb (name s k) nm) (kids s p)) as [|c [|c2 l]] eqn:Ef.
    + injection E as <-. left. split; [|reflexivity]. intros k Hk Hn.
      assert (Hin : In k (filter (fun k => str_eqb (name s k) nm) (kids s p))).
      { apply filter_In. split; [exact Hk|]. apply str_eqb_eq. exact Hn. }
      rewrite Ef in Hin. exact Hin.
    + right. exists c.
      assert (Hin : In c (filter (fun k => str_eqb (name s k) nm) (kids s p))) by (rewrite Ef; left; reflexivity).
      apply filter_In in Hin as [Hk Hn]. apply str_eqb_eq in Hn. split; [exact Hk|]. split; [exact Hn|].
      apply (set_parent_surgery cfg ft s c ANone s' W); [|reflexivity|exact E].
      apply (wf_link s W) in Hk. apply Nat.ltb_lt. apply (wf_bound s W c p Hk).
    + discriminate.
  - destruct (sort_raises keys (kids s p)); [discriminate|]. injection E as <-.
    apply (reorder_is_tree_permutation s p _ W). apply py_sort_perm.
  - destruct (is_node cfg); cbn [negb] in E; [|discriminate]. injection E as <-. intros x. apply set_sep_keeps_trees.
Qed.
