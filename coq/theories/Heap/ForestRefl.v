(* Reflection between the Prop-level invariant and the boolean predicates of Spec/PForest.v, and
   the property predicates proved of the model's own steps. *)
From BT Require Import Base.Prelude Base.Str Heap.Forest Heap.ForestWF Heap.ForestOps Heap.ForestRollback
     Heap.ForestStep Spec.PForest.

Lemma ids_eqb_refl l : ids_eqb l l = true.
Proof. induction l as [|x l IH]; cbn; [reflexivity|]. rewrite Nat.eqb_refl. exact IH. Qed.
Lemma oid_eqb_refl o : oid_eqb o o = true.
Proof. destruct o; cbn; [apply Nat.eqb_refl|reflexivity]. Qed.

Lemma same_same_links s t : same s t -> same_links s t = true.
Proof.
  intros [_ H]. unfold same_links. apply forallb_forall. intros x _.
  destruct (H x) as [-> ->]. rewrite oid_eqb_refl, ids_eqb_refl. reflexivity.
Qed.

Lemma nodupb_NoDup l : NoDup l -> nodupb l = true.
Proof.
  induction 1 as [|x l Hx Hl IH]; cbn [nodupb]; [reflexivity|].
  rewrite IH, andb_true_r. apply negb_true_iff. apply memb_false. exact Hx.
Qed.

Lemma reaches_root_len s : forall f c, length (anc s (S f) c) <= f -> reaches_root s f c = true.
Proof.
  induction f as [|f IH]; intros c H.
  - cbn [anc] in H. cbn [reaches_root]. destruct (par s c); [cbn in H; lia|reflexivity].
  - cbn [reaches_root]. remember (S f) as g. cbn [anc] in H. subst g.
    destruct (par s c) as [p|]; [|reflexivity]. cbn [length] in H. apply IH. lia.
Qed.

Theorem WF_wf_b s : WF s -> wf_b s = true.
Proof.
  intros W. pose proof W as [Hl Hn Hb [r Hr]]. unfold wf_b.
  apply andb_true_iff. split; apply forallb_forall; intros x Hx.
  - apply andb_true_iff. split; [apply nodupb_NoDup, Hn|].
    apply forallb_forall. intros c Hc. apply Hl in Hc. destruct (Hb _ _ Hc) as [H1 _].
    apply andb_true_iff. split; [apply Nat.ltb_lt; exact H1|]. rewrite Hc. cbn. apply Nat.eqb_refl.
  - apply andb_true_iff. split.
    + destruct (par s x) as [p|] eqn:E; [|reflexivity]. destruct (Hb _ _ E) as [_ H2].
      apply andb_true_iff. split; [apply Nat.ltb_lt; exact H2|]. apply memb_In, Hl. exact E.
    + apply reaches_root_len.
      destruct (par s x) as [p|] eqn:E.
      * assert (H : length (anc s (S (size s)) x) < S (size s)).
        { apply (anc_len_lt s r Hr Hb); [lia|congruence]. }
        lia.
      * cbn [anc]. rewrite E. cbn. lia.
Qed.

(* the model's own steps satisfy the per-step predicates that the check evaluates on the
   implementation's steps *)
Theorem model_step_C01 cfg s o :
  WF s -> let r := step cfg s o in prop_C01_step cfg s o (fst r) (is_ok (snd r)) = true.
Proof.
  intros W r. unfold prop_C01_step.
  rewrite (WF_wf_b (fst r)) by (apply step_WF; exact W). cbn [andb].
  destruct (is_ok (snd r)) eqn:E.
  - fold r. rewrite E. cbn [andb]. apply same_same_links, same_refl.
  - destruct o; try reflexivity.
    apply same_same_links, same_sym, step_atomic; [exact W|reflexivity|].
    intros H. fold r in H. rewrite H in E. discriminate.
Qed.

Theorem model_step_C02 cfg s o :
  WF s -> let r := step cfg s o in prop_C02_step s o (fst r) (is_ok (snd r)) = true.
Proof.
  intros W r. unfold prop_C02_step.
  destruct (single_assignment o) eqn:Hs; [|destruct o; try discriminate; reflexivity].
  assert (G : (if is_ok (snd r) then true else same_links s (fst r)) = true).
  { destruct (is_ok (snd r)) eqn:E; [reflexivity|].
    apply same_same_links, same_sym, step_atomic; [exact W|exact Hs|].
    intros H. fold r in H. rewrite H in E. discriminate. }
  destruct o; try exact G. discriminate.
Qed.
