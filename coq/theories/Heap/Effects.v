(* C07 - effect skeletons of the read-only / copying API on the forest heap model (Heap/Forest.v).

   What is modelled here is *which heap cells a call allocates and writes*, as a sequence of heap
   primitives: `deep_copy` (copy.deepcopy / BaseNode.copy, basenode.py:732-743), `shallow_copy`
   (BaseNode.__copy__, basenode.py:786-800), `alloc` (node_type(kwargs)), and the structural
   operations `step` of Forest.v (x.parent = ..., del x.children).  What a call *reads* in order
   to decide its operands (path lookups, depth levels, the shape of a diff) is either computed
   from the state or a parameter of the skeleton; the frame theorems of EffectsProofs.v hold for
   every value of these parameters.

   Partial by nature: that CPython's copy.deepcopy really allocates fresh objects and that the
   pure readers really contain no write is assumed by these definitions and observed at run time
   by the correspondence check (Corr/EffectsCorr.v, harness/engines/effects.py).

   No proofs in this file. *)
From BT Require Import Base.Prelude Base.Str Heap.Forest.

(* ------------------------------------------------------------------------------------------ *)
(* forest level *)

(* the connected tree of r: copy.deepcopy follows `__parent` as well as `__children`, so the
   whole tree is copied whichever node the call starts from *)
Definition comp (s : forest) (r : id) : list id :=
  filter (fun x => Nat.eqb (root s x) (root s r)) (seq 0 (size s)).

(* the copy of x: fresh ids are handed out in the order of `comp` *)
Definition phi (s : forest) (r : id) (x : id) : id := size s + index_of x (comp s r).

Definition deep_copy_f (s : forest) (r : id) : forest :=
  let c := comp s r in
  let n := size s in
  let src := fun k => nth_error c (k - n) in
  mk (n + length c)
     (fun k => if Nat.ltb k n then par s k else
               match src k with Some x => option_map (phi s r) (par s x) | None => None end)
     (fun k => if Nat.ltb k n then kids s k else
               match src k with Some x => map (phi s r) (kids s x) | None => [] end)
     (fun k => if Nat.ltb k n then name s k else
               match src k with Some x => name s x | None => [] end)
     (fun k => if Nat.ltb k n then sepf s k else
               match src k with Some x => sepf s x | None => [] end).

(* BaseNode.__copy__: obj.__dict__.update(self.__dict__) - one new object whose fields hold the
   very same parent, children list and attribute values *)
Definition shallow_copy_f (s : forest) (x : id) : forest :=
  let n := size s in
  mk (S n) (upd (par s) n (par s x)) (upd (kids s) n (kids s x)) (upd (name s) n (name s x))
     (upd (sepf s) n (sepf s x)).

(* node_type(kwargs): a new object without links *)
Definition alloc_f (s : forest) (nm : str) (sp : str) : forest :=
  let n := size s in
  mk (S n) (upd (par s) n None) (upd (kids s) n []) (upd (name s) n nm) (upd (sepf s) n sp).

Definition detach (k : id) : op := SetParent k ANone NoFault.

(* levelordergroup_iter: the nodes of level d (the start node is level 1) *)
Fixpoint level (s : forest) (d : nat) (l : list id) : list id :=
  match d with
  | 0 => []
  | 1 => l
  | S d' => level s d' (flat_map (kids s) l)
  end.

(* ------------------------------------------------------------------------------------------ *)
(* heap with public attributes and object addresses *)

Definition attr := (nat * nat * nat)%type.    (* key, content, address of the value object (0: immutable) *)

Record eheap := EH {
  fr  : forest;
  att : id -> list attr;       (* public attributes other than name                            *)
  kl  : id -> nat;             (* address of the private children list object                  *)
  vsz : nat                    (* addresses < vsz are in use (lists and values share the space)  *)
}.

Definition fresh_addr (v : nat) (a : nat) : nat := if Nat.eqb a 0 then 0 else v + a.
Definition copy_attr (v : nat) (a : attr) : attr :=
  let '(k, c, ad) := a in (k, c, fresh_addr v ad).

Definition deep_copy (h : eheap) (r : id) : eheap :=
  let s := fr h in
  let n := size s in
  let c := comp s r in
  EH (deep_copy_f s r)
     (fun k => if Nat.ltb k n then att h k else
               match nth_error c (k - n) with Some x => map (copy_attr (vsz h)) (att h x) | None => [] end)
     (fun k => if Nat.ltb k n then kl h k else
               match nth_error c (k - n) with Some x => fresh_addr (vsz h) (kl h x) | None => 0 end)
     (vsz h + vsz h).

Definition shallow_copy (h : eheap) (x : id) : eheap * id :=
  let n := size (fr h) in
  (EH (shallow_copy_f (fr h) x) (upd (att h) n (att h x)) (upd (kl h) n (kl h x)) (vsz h), n).

Definition alloc (h : eheap) (nm sp : str) (a : list attr) : eheap * id :=
  let n := size (fr h) in
  (EH (alloc_f (fr h) nm sp) (upd (att h) n a) (upd (kl h) n (vsz h)) (S (vsz h)), n).

Definition with_fr (h : eheap) (s : forest) : eheap := EH s (att h) (kl h) (vsz h).

(* ------------------------------------------------------------------------------------------ *)
(* skeletons.  Each returns the heap after the call and the node handed back (if any). *)

(* pure readers: print_tree/yield_tree/hprint_tree/hyield_tree/tree_to_newick/tree_to_mermaid,
   the iterators of utils/iterators.py and the functions of tree/search.py *)
Definition sk_reader (h : eheap) : eheap := h.

(* exporters that start with tree = tree.copy(): tree_to_dataframe (export.py:856), tree_to_polars
   (963), tree_to_dict (1049), tree_to_nested_dict (1127), tree_to_dot (1281); they then only read
   the copy *)
Definition sk_export (h : eheap) (start : id) : eheap := deep_copy h start.

(* node.copy() / copy.deepcopy(node) *)
Definition sk_copy (h : eheap) (start : id) : eheap * id :=
  (deep_copy h start, phi (fr h) start start).

(* copy.copy(node) *)
Definition sk_shallow := shallow_copy.

(* clone_tree, helper.py:14-55: a new root from tree.root's public attributes, then for every
   child a new node attached to the new parent.  The attribute *values* are passed by reference
   (dict(describe(...)) handed to the constructor). *)
Fixpoint clone_rec (cfg : config) (fuel : nat) (h : eheap) (newp oldp : id) : eheap :=
  match fuel with
  | 0 => h
  | S f =>
      fold_left (fun st ch =>
                   let '(st1, c') := alloc st (name (fr st) ch) [47%N] (att st ch) in
                   let st2 := with_fr st1 (fst (set_parent cfg NoFault (fr st1) c' (ANode newp))) in
                   clone_rec cfg f st2 c' ch)
                (kids (fr h) oldp) h
  end.

Definition sk_clone (cfg : config) (h : eheap) (start : id) : eheap * id :=
  let r := root (fr h) start in
  let '(h1, r') := alloc h (name (fr h) r) [47%N] (att h r) in
  (clone_rec cfg (size (fr h)) h1 r' r, r').

(* depth cut of prune_tree, helper.py:226-232: del level_node.children for the nodes of level d *)
Definition cut_ops (s : forest) (t : id) (d : nat) : list op :=
  match d with 0 => [] | _ => map DelChildren (level s d [t]) end.

(* get_subtree, helper.py:95-107.  `found`: the node of the ORIGINAL tree whose copy find_path
   resolves to (start itself when no path is given). *)
Definition sk_get_subtree (cfg : config) (h : eheap) (start found : id) (max_depth : nat) : eheap * id :=
  let h1 := deep_copy h start in
  let t := phi (fr h) start found in
  let s2 := run cfg (fr h1) (match par (fr h1) t with None => [] | Some _ => [detach t] end) in
  match max_depth with
  | 0 => (with_fr h1 s2, t)
  | _ =>
      (* tree = prune_tree(tree, max_depth=max_depth): copies once more *)
      let h2 := with_fr h1 s2 in
      let h3 := deep_copy h2 t in
      let t' := phi s2 t t in
      (with_fr h3 (run cfg (fr h3) (cut_ops (fr h3) t' max_depth)), t')
  end.

(* prune_tree, helper.py:191-233.  `targets`: the nodes of the ORIGINAL tree the prune paths
   resolve to. *)
Definition prune_ops (s : forest) (ts : list id) (exact : bool) : list op :=
  let anc := flat_map (ancestors s) ts ++ (if exact then ts else []) in
  flat_map (fun a => map detach (filter (fun k => negb (memb k anc) && negb (memb k ts)) (kids s a))) anc.

Definition sk_prune (cfg : config) (h : eheap) (start : id) (targets : list id) (exact : bool)
           (max_depth : nat) : eheap * id :=
  let h1 := deep_copy h start in
  let tc := phi (fr h) start start in
  let ts := map (phi (fr h) start) targets in
  let s2 := run cfg (fr h1) (prune_ops (fr h1) ts exact) in
  let s3 := run cfg s2 (cut_ops s2 tc max_depth) in
  (with_fr h1 s3, tc).

(* constructors used by get_tree_diff (dataframe_to_tree, add_dict_to_tree_by_path): new nodes,
   each attached to an earlier new node.  shape: (position of the parent among the new nodes, name) *)
Fixpoint build (cfg : config) (h : eheap) (base : id) (shape : list (option nat * str)) : eheap :=
  match shape with
  | [] => h
  | (p, nm) :: t =>
      let '(h1, k) := alloc h nm [47%N] [] in
      let s2 := match p with
                | None => fr h1
                | Some j => fst (set_parent cfg NoFault (fr h1) k (ANode (base + j)))
                end in
      build cfg (with_fr h1 s2) base t
  end.

(* get_tree_diff, helper.py:336-424: other_tree.sep = tree.sep (a write to the INPUT's separator
   field - not one of parent / children / name / attributes), two tree_to_dataframe calls (each
   copies), then the diff tree is built from fresh nodes *)
Definition sk_diff (cfg : config) (h : eheap) (t1 t2 : id) (shape : list (option nat * str)) : eheap * id :=
  let h0 := with_fr h (set_sep (fr h) (root (fr h) t2) (sep (fr h) t1)) in
  let h1 := deep_copy h0 t1 in
  let h2 := deep_copy h1 t2 in
  (build cfg h2 (size (fr h2)) shape, size (fr h2)).

(* copy_nodes / copy_nodes_from_tree_to_tree (copy_or_shift_logic with copy=True, modify.py:1198-1224)
   and copy_and_replace_nodes_from_tree_to_tree (replace_logic, modify.py:1345-1361):
   `from_node = from_node.copy()` comes before every write, and every later write has its operands
   in the copy or in the destination tree.  from_ is a node of the source tree; `ops` lists the
   writes that follow, given the state after the copy and the copied node. *)
Definition sk_copy_then (cfg : config) (h : eheap) (from_ : id) (ops : forest -> id -> list op) : eheap * id :=
  let h1 := deep_copy h from_ in
  let c := phi (fr h) from_ from_ in
  (with_fr h1 (run cfg (fr h1) (ops (fr h1) c)), c).

Definition attach_to (p : id) (k : id) : op := SetParent k (ANode p) NoFault.

(* descendants-or-self in pre-order (fuel: number of nodes) *)
Fixpoint reach (fuel : nat) (s : forest) (x : id) : list id :=
  match fuel with
  | 0 => [x]
  | S f => x :: flat_map (reach f s) (kids s x)
  end.
Definition leaves (s : forest) (x : id) : list id :=
  filter (fun k => match kids s k with [] => true | _ => false end) (reach (size s) s x).

(* modify.py:1204-1224 *)
Definition copy_ops (to_ : id) (merge_children merge_leaves delete_children : bool)
           (s : forest) (c : id) : list op :=
  if merge_children then
    flat_map (fun k => (if delete_children then [DelChildren k] else []) ++ [attach_to to_ k]) (kids s c)
    ++ [detach c]
  else if merge_leaves then map (attach_to to_) (leaves s c)
  else (if delete_children then [DelChildren c] else []) ++ [attach_to to_ c].

(* modify.py:1350-1361: the copy takes the place of to_ among its siblings (the later siblings are
   detached and re-attached so that the order is kept) *)
Definition replace_ops (to_ : id) (delete_children : bool) (s : forest) (c : id) : list op :=
  match par s to_ with
  | None => []
  | Some p =>
      (if delete_children then [DelChildren c] else [])
      ++ flat_map (fun k => if Nat.eqb k to_ then [detach to_; attach_to p c] else [detach k; attach_to p k])
                  (skipn (index_of to_ (kids s p)) (kids s p))
  end.

Definition sk_copy_nodes (cfg : config) (h : eheap) (from_ to_ : id) (mc ml dc : bool) : eheap * id :=
  sk_copy_then cfg h from_ (copy_ops to_ mc ml dc).
Definition sk_copy_replace (cfg : config) (h : eheap) (from_ to_ : id) (dc : bool) : eheap * id :=
  sk_copy_then cfg h from_ (replace_ops to_ dc).
(* the plain case: the copy becomes a new child of to_ *)
Definition sk_copy_attach (cfg : config) (h : eheap) (from_ to_ : id) : eheap * id :=
  sk_copy_nodes cfg h from_ to_ false false false.

(* what the same call would do WITHOUT the copy (shift_nodes): used only to show the theorems are
   not vacuous *)
Definition sk_move (cfg : config) (h : eheap) (from_ to_ : id) : eheap :=
  with_fr h (run cfg (fr h) [SetParent from_ (ANode to_) NoFault]).

(* ------------------------------------------------------------------------------------------ *)
(* address-aware writes (only used to state what sharing means: K4-C07, K5-C07) *)

(* x.parent = p ends with p.__children.append(x): the list OBJECT is changed, so every node whose
   private field holds that object sees the new element *)
Definition append_alias (h : eheap) (p c : id) : eheap :=
  let s := fr h in
  with_fr h (mk (size s) (upd (par s) c (Some p))
                (fun x => if Nat.eqb (kl h x) (kl h p) then kids s x ++ [c] else kids s x)
                (name s) (sepf s)).

(* in-place change of the value object at address a (a <> 0): visible through every attribute
   that holds that object *)
Definition mutate_obj (h : eheap) (a c' : nat) : eheap :=
  EH (fr h)
     (fun x => map (fun t : attr => let '(k, c, ad) := t in
                                   if negb (Nat.eqb a 0) && Nat.eqb ad a then (k, c', ad) else (k, c, ad))
                   (att h x))
     (kl h) (vsz h).

(* ------------------------------------------------------------------------------------------ *)
(* DAGNode (bigtree/node/dagnode.py:575-602), on the DAG heap model of Heap/Dag.v (its names are
   used qualified: both heap models define set_children, alloc, ...) *)
From BT Require Heap.Dag.

(* the connected part of the DAG: copy.deepcopy follows __parents as well as __children *)
Fixpoint dgrow (s : Dag.dag) (fuel : nat) (acc : list id) : list id :=
  match fuel with
  | 0 => acc
  | S f => dgrow s f (fold_left Dag.addl (flat_map (fun x => Dag.parents s x ++ Dag.children s x) acc) acc)
  end.
Definition dcomp (s : Dag.dag) (r : id) : list id := dgrow s (Dag.dsize s) [r].

Definition dphi (s : Dag.dag) (r : id) (x : id) : id := Dag.dsize s + index_of x (dcomp s r).

(* DAGNode.copy() / copy.deepcopy(dagnode) *)
Definition ddeep_copy (s : Dag.dag) (r : id) : Dag.dag :=
  let c := dcomp s r in
  let n := Dag.dsize s in
  let src := fun k => nth_error c (k - n) in
  Dag.mkdag (n + length c)
    (fun k => if Nat.ltb k n then Dag.parents s k else
              match src k with Some x => map (dphi s r) (Dag.parents s x) | None => [] end)
    (fun k => if Nat.ltb k n then Dag.children s k else
              match src k with Some x => map (dphi s r) (Dag.children s x) | None => [] end)
    (fun k => if Nat.ltb k n then Dag.dname s k else
              match src k with Some x => Dag.dname s x | None => [] end).

(* copy.copy(dagnode): DAGNode.__copy__ is obj.__dict__.update(self.__dict__) as well *)
Definition dshallow_copy (s : Dag.dag) (x : id) : Dag.dag * id :=
  let n := Dag.dsize s in
  (Dag.mkdag (S n) (upd (Dag.parents s) n (Dag.parents s x)) (upd (Dag.children s) n (Dag.children s x))
             (upd (Dag.dname s) n (Dag.dname s x)), n).

Definition dsk_copy (s : Dag.dag) (start : id) : Dag.dag * id := (ddeep_copy s start, dphi s start start).
(* dag_to_dict (dag/export.py:85) and dag_to_dataframe (:155) start with dag = dag.copy() *)
Definition dsk_export (s : Dag.dag) (start : id) : Dag.dag := ddeep_copy s start.
(* dag_iterator, dag_to_list, dag_to_dot, ancestors / descendants / siblings / go_to: readers *)
Definition dsk_reader (s : Dag.dag) : Dag.dag := s.
