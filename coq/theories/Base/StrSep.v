(* Separators of any length.  bigtree builds a path as sep + sep.join(names) and reads it back with
   path.rstrip(sep).lstrip(sep).split(sep)  (node.py path_name, search.py find_full_path,
   construct.py add_path_to_tree, ...).  lstrip/rstrip treat sep as a character *set*, split treats it
   as a substring.  Under the guard  sfree sp x  (no character of the separator occurs in the name x)
   the three operations invert the join, whatever the length of sp.  The guard is the natural
   strengthening of "the separator does not occur in a name" under which the known finding K3
   (a name starting or ending with a character of a multi-character separator) cannot arise. *)
From BT Require Import Base.Prelude Base.Str.

Definition sfree (sp x : str) : Prop := forall ch, In ch sp -> ~ In ch x.
Definition sgood (sp x : str) : Prop := x <> [] /\ sfree sp x.

Lemma memN_In c l : memN c l = true <-> In c l.
Proof.
  unfold memN. rewrite existsb_exists. split.
  - intros [y [Hy E]]. apply N.eqb_eq in E. subst. exact Hy.
  - intros H. exists c. split; [exact H|apply N.eqb_refl].
Qed.

Lemma memN_false c l : memN c l = false <-> ~ In c l.
Proof.
  rewrite <- memN_In. destruct (memN c l); split; intros H.
  - discriminate.
  - exfalso. apply H. reflexivity.
  - intros E. discriminate.
  - reflexivity.
Qed.

Lemma sfree_cons sp c x : sfree sp (c :: x) -> ~ In c sp /\ sfree sp x.
Proof.
  intros H. split.
  - intros Hc. apply (H c Hc). left. reflexivity.
  - intros ch Hch Hx. apply (H ch Hch). right. exact Hx.
Qed.

Lemma sfree_one c x : sfree [c] x <-> ~ In c x.
Proof.
  split.
  - intros H. apply H. left. reflexivity.
  - intros H ch [<-|[]]. exact H.
Qed.

(* ---- split ---- *)
Section Split.
Variable a : N.
Variable sp' : str.
Let sp := a :: sp'.

Lemma startswith_sfree_false c t : ~ In c sp -> startswith (c :: t) sp = false.
Proof.
  intros H. unfold sp. cbn [startswith].
  destruct (N.eqb a c) eqn:E; [|reflexivity].
  apply N.eqb_eq in E. subst c. exfalso. apply H. left. reflexivity.
Qed.

Lemma split_go_name : forall x cur rest fuel, sfree sp x -> length x <= fuel ->
  split_go fuel sp cur (x ++ rest) = split_go (fuel - length x) sp (rev x ++ cur) rest.
Proof.
  induction x as [|c x IH]; intros cur rest fuel Hf Hl.
  - cbn [app length rev]. rewrite Nat.sub_0_r. reflexivity.
  - apply sfree_cons in Hf as [Hc Hx]. cbn [length] in Hl.
    destruct fuel as [|f]; [lia|]. cbn [app split_go].
    rewrite (startswith_sfree_false c (x ++ rest) Hc).
    rewrite (IH (c :: cur) rest f Hx) by lia.
    cbn [length rev Nat.sub]. rewrite <- app_assoc. reflexivity.
Qed.

Lemma split_go_end fuel cur : split_go fuel sp cur [] = [rev cur].
Proof. destruct fuel; reflexivity. Qed.

Lemma skipn_app_exact {A} (l r : list A) : skipn (length l) (l ++ r) = r.
Proof. induction l as [|y l IH]; cbn; [reflexivity|exact IH]. Qed.

Lemma split_go_sep fuel cur rest :
  split_go (S fuel) sp cur (sp ++ rest) = rev cur :: split_go fuel sp [] rest.
Proof.
  cbn [split_go]. unfold sp at 1. cbn [app].
  change (a :: sp' ++ rest) with (sp ++ rest).
  rewrite startswith_app, skipn_app_exact. reflexivity.
Qed.

Lemma split_go_join : forall L cur fuel, L <> [] -> Forall (sfree sp) L ->
  length (join sp L) <= fuel ->
  split_go fuel sp cur (join sp L) = (rev cur ++ hd [] L) :: tl L.
Proof.
  induction L as [|x L IH]; intros cur fuel Hne Hall Hl; [congruence|].
  inversion Hall as [|? ? Hx HL]; subst. destruct L as [|y L].
  - cbn [join hd tl] in *. rewrite <- (app_nil_r x) at 1.
    rewrite (split_go_name x cur [] fuel Hx Hl), split_go_end.
    rewrite rev_app_distr, rev_involutive. reflexivity.
  - rewrite join_cons in *. rewrite !app_length in Hl. unfold sp in Hl at 1. cbn [length] in Hl.
    rewrite (split_go_name x cur _ fuel Hx) by lia.
    destruct (fuel - length x) as [|f] eqn:Ef; [lia|].
    rewrite split_go_sep. rewrite (IH [] f) by (try discriminate; try assumption; lia).
    cbn [rev app hd tl]. rewrite rev_app_distr, rev_involutive. reflexivity.
Qed.

Lemma split_join_multi L : L <> [] -> Forall (sfree sp) L -> split (join sp L) sp = L.
Proof.
  intros Hne Hall. unfold split, sp at 2.
  change (a :: sp') with sp. rewrite (split_go_join L [] _ Hne Hall) by lia.
  destruct L; [congruence|reflexivity].
Qed.
End Split.

(* ---- lstrip / rstrip ---- *)
Lemma lstrip_all sp : forall p rest, (forall ch, In ch p -> In ch sp) -> lstrip (p ++ rest) sp = lstrip rest sp.
Proof.
  induction p as [|c p IH]; intros rest H; [reflexivity|].
  cbn [app lstrip]. assert (Hc : memN c sp = true) by (apply memN_In, H; left; reflexivity).
  rewrite Hc. apply IH. intros ch Hch. apply H. right. exact Hch.
Qed.

Lemma lstrip_stop sp x rest : sgood sp x -> lstrip (x ++ rest) sp = x ++ rest.
Proof.
  intros [Hne Hf]. destruct x as [|c x]; [congruence|]. cbn [app lstrip].
  apply sfree_cons in Hf as [Hc _]. apply memN_false in Hc. rewrite Hc. reflexivity.
Qed.

Lemma lstrip_sep_join sp L : L <> [] -> Forall (sgood sp) L -> lstrip (sp ++ join sp L) sp = join sp L.
Proof.
  intros Hne Hall. rewrite lstrip_all by auto.
  destruct L as [|x L]; [congruence|]. inversion Hall as [|? ? Hx HL]; subst.
  destruct L as [|y L].
  - cbn [join]. rewrite <- (app_nil_r x). apply lstrip_stop. exact Hx.
  - rewrite join_cons. apply lstrip_stop. exact Hx.
Qed.

Lemma rstrip_stop sp pre x : sgood sp x -> rstrip (pre ++ x) sp = pre ++ x.
Proof.
  intros [Hne Hf]. unfold rstrip. rewrite rev_app_distr.
  assert (G : sgood sp (rev x)).
  { split.
    - intros E. apply (f_equal (@rev _)) in E. rewrite rev_involutive in E. contradiction.
    - intros ch Hch Hin. apply (Hf ch Hch). apply in_rev. exact Hin. }
  rewrite (lstrip_stop sp (rev x) (rev pre) G). rewrite <- rev_app_distr. apply rev_involutive.
Qed.

Lemma rstrip_join_multi sp : forall L pre, L <> [] -> Forall (sgood sp) L ->
  rstrip (pre ++ join sp L) sp = pre ++ join sp L.
Proof.
  induction L as [|x L IH]; intros pre Hne Hall; [congruence|].
  inversion Hall as [|? ? Hx HL]; subst. destruct L as [|y L].
  - cbn [join]. apply rstrip_stop. exact Hx.
  - rewrite join_cons. rewrite !app_assoc. apply IH; [discriminate|exact HL].
Qed.

(* the whole read-back of a path string, for a separator of any positive length *)
Theorem path_list_roundtrip_multi sp L : sp <> [] -> L <> [] -> Forall (sgood sp) L ->
  split (lstrip (rstrip (sp ++ join sp L) sp) sp) sp = L.
Proof.
  intros Hsp Hne Hall. rewrite rstrip_join_multi by assumption.
  rewrite lstrip_sep_join by assumption.
  destruct sp as [|a sp']; [congruence|].
  apply split_join_multi; [exact Hne|].
  rewrite Forall_forall in *. intros x Hx. apply (Hall x Hx).
Qed.

(* the guard is needed: with sep "->" the name "a-" is read back as "a" (finding K3) *)
Example path_list_roundtrip_needs_guard :
  let sp := [45; 62]%N in let L := [[97; 45]%N] in
  split (lstrip (rstrip (sp ++ join sp L) sp) sp) sp = [[97]%N].
Proof. vm_compute. reflexivity. Qed.
