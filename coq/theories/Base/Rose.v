(* Ordered rooted trees with object identity tags, names and attributes: the data the read-only
   algorithms, constructors and exporters work on. *)
From BT Require Import Base.Prelude Base.Str.

Inductive val := VNone | VInt (z : Z) | VStr (s : str) | VBool (b : bool) | VFloat (num den : Z).

Definition val_eqb (a b : val) : bool :=
  match a, b with
  | VNone, VNone => true
  | VInt x, VInt y => Z.eqb x y
  | VStr x, VStr y => str_eqb x y
  | VBool x, VBool y => Bool.eqb x y
  | VFloat a1 b1, VFloat a2 b2 => Z.eqb (a1 * b2) (a2 * b1)
  | _, _ => false
  end.

Definition attrs := list (str * val).

(* tag = Some i: the Python object numbered i before the call; None: an object created by the call *)
Inductive tree := T (tag : option nat) (name : str) (at_ : attrs) (kids : list tree).

Definition ttag (t : tree) := match t with T g _ _ _ => g end.
Definition tname (t : tree) := match t with T _ n _ _ => n end.
Definition tattrs (t : tree) := match t with T _ _ a _ => a end.
Definition tkids (t : tree) := match t with T _ _ _ k => k end.

Section Ind.
  Variable P : tree -> Prop.
  Hypothesis H : forall g n a ks, Forall P ks -> P (T g n a ks).
  Fixpoint tree_ind' (t : tree) : P t :=
    match t with
    | T g n a ks =>
        H g n a ks ((fix go (l : list tree) : Forall P l :=
                       match l with
                       | [] => Forall_nil P
                       | x :: r => Forall_cons x (tree_ind' x) (go r)
                       end) ks)
    end.
End Ind.

Fixpoint tsize (t : tree) : nat :=
  match t with T _ _ _ ks => S (fold_right (fun k a => tsize k + a) 0 ks) end.

Fixpoint height (t : tree) : nat :=
  match t with T _ _ _ ks => S (fold_right (fun k a => Nat.max (height k) a) 0 ks) end.

(* pre-order list of all subtrees (a node is identified with the subtree it roots) *)
Fixpoint pre (t : tree) : list tree :=
  match t with T _ _ _ ks => t :: flat_map pre ks end.

Fixpoint post (t : tree) : list tree :=
  match t with T _ _ _ ks => flat_map post ks ++ [t] end.

(* nodes at relative depth k, left to right *)
Fixpoint level (k : nat) (t : tree) : list tree :=
  match k with 0 => [t] | S k' => flat_map (level k') (tkids t) end.

Definition is_leaf (t : tree) : bool := match tkids t with [] => true | _ => false end.
Definition leaves (t : tree) : list tree := filter is_leaf (pre t).

(* positions: a node is addressed by the child indices on the route from the root *)
Definition pos := list nat.
Fixpoint subtree_at (t : tree) (p : pos) : option tree :=
  match p with
  | [] => Some t
  | i :: p' => match nth_error (tkids t) i with
               | Some k => subtree_at k p'
               | None => None
               end
  end.

(* all positions in pre-order *)
Fixpoint positions (t : tree) : list pos :=
  match t with
  | T _ _ _ ks =>
      [] :: (fix go (i : nat) (l : list tree) : list pos :=
               match l with
               | [] => []
               | k :: r => map (cons i) (positions k) ++ go (S i) r
               end) 0 ks
  end.

(* name paths of all nodes, pre-order: the list of names from the root *)
Fixpoint paths_from (prefix : list str) (t : tree) : list (list str) :=
  match t with
  | T _ n _ ks => let p := prefix ++ [n] in p :: flat_map (paths_from p) ks
  end.
Definition paths (t : tree) : list (list str) := paths_from [] t.

(* structural equality ignoring tags *)
Fixpoint attrs_eqb (a b : attrs) : bool :=
  match a, b with
  | [], [] => true
  | (k, v) :: a', (k', v') :: b' => str_eqb k k' && val_eqb v v' && attrs_eqb a' b'
  | _, _ => false
  end.

Fixpoint tree_eqb (a b : tree) : bool :=
  match a, b with
  | T _ n at1 ks, T _ m at2 ls =>
      str_eqb n m && attrs_eqb at1 at2 &&
      (fix go (x y : list tree) : bool :=
         match x, y with
         | [], [] => true
         | p :: x', q :: y' => tree_eqb p q && go x' y'
         | _, _ => false
         end) ks ls
  end.

(* equality including tags *)
Fixpoint tree_eqb_tags (a b : tree) : bool :=
  match a, b with
  | T g n at1 ks, T h m at2 ls =>
      opt_eqb Nat.eqb g h && str_eqb n m && attrs_eqb at1 at2 &&
      (fix go (x y : list tree) : bool :=
         match x, y with
         | [], [] => true
         | p :: x', q :: y' => tree_eqb_tags p q && go x' y'
         | _, _ => false
         end) ks ls
  end.

(* Decode a tree from its pre-order list of (depth, payload): the canonical observation format
   of the harness.  Returns the forest of trees whose roots have depth d. *)
Section Decode.
  Context {A : Type}.
  Variable mk : A -> list tree -> tree.
  (* take the maximal prefix of entries deeper than d *)
  Fixpoint span_deeper (d : nat) (l : list (nat * A)) : list (nat * A) * list (nat * A) :=
    match l with
    | [] => ([], [])
    | (e, a) :: t => if Nat.ltb d e
                     then let (x, y) := span_deeper d t in ((e, a) :: x, y)
                     else ([], l)
    end.
  Fixpoint forest_of_pre (fuel : nat) (d : nat) (l : list (nat * A)) : list tree :=
    match fuel with
    | 0 => []
    | S f =>
      match l with
      | [] => []
      | (e, a) :: t =>
          let (sub, rest) := span_deeper e t in
          mk a (forest_of_pre f (S e) sub) :: forest_of_pre f d rest
      end
    end.
End Decode.

Lemma pre_length t : length (pre t) = tsize t.
Proof.
  induction t as [g n a ks IH] using tree_ind'. cbn [pre tsize length]. f_equal.
  induction ks as [|k ks IHk]; [reflexivity|]. inversion IH as [|? ? Hk Hks]; subst.
  cbn [flat_map fold_right]. rewrite app_length, Hk, IHk by exact Hks. reflexivity.
Qed.
