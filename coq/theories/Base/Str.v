(* The Python `str` methods bigtree relies on, over str = list N (code points). *)
From BT Require Import Base.Prelude.
From Coq Require Decimal DecimalNat.

Lemma str_eqb_refl a : str_eqb a a = true.
Proof. induction a as [|x a IH]; cbn; [reflexivity|]. rewrite N.eqb_refl, IH. reflexivity. Qed.

Lemma str_eqb_eq a b : str_eqb a b = true <-> a = b.
Proof.
  revert b; induction a as [|x a IH]; intros [|y b]; cbn; split; intros H; try reflexivity; try discriminate.
  - apply andb_true_iff in H as [H1 H2]. apply N.eqb_eq in H1. apply IH in H2. subst. reflexivity.
  - inversion H; subst. rewrite N.eqb_refl. cbn. apply IH. reflexivity.
Qed.

Lemma str_eqb_neq a b : str_eqb a b = false <-> a <> b.
Proof.
  split.
  - intros H E. apply str_eqb_eq in E. congruence.
  - intros H. destruct (str_eqb a b) eqn:E; [apply str_eqb_eq in E; contradiction|reflexivity].
Qed.

Definition memN (c : N) (l : str) : bool := existsb (N.eqb c) l.

(* s.startswith(p) *)
Fixpoint startswith (s p : str) {struct p} : bool :=
  match p, s with
  | [], _ => true
  | x :: p', y :: s' => N.eqb x y && startswith s' p'
  | _ :: _, [] => false
  end.

(* s.endswith(p) *)
Definition endswith (s p : str) : bool := startswith (rev s) (rev p).

(* s.lstrip(chars) / s.rstrip(chars): strip while the character belongs to the *set* chars *)
Fixpoint lstrip (s chars : str) : str :=
  match s with
  | [] => []
  | c :: t => if memN c chars then lstrip t chars else s
  end.
Definition rstrip (s chars : str) : str := rev (lstrip (rev s) chars).
Definition strip (s chars : str) : str := rstrip (lstrip s chars) chars.

(* sep.join(parts) *)
Fixpoint join (sp : str) (l : list str) : str :=
  match l with
  | [] => []
  | [x] => x
  | x :: t => x ++ sp ++ join sp t
  end.

(* s.split(sep) for a non-empty sep: leftmost non-overlapping occurrences.  fuel = length s + 1 *)
Fixpoint split_go (fuel : nat) (sp : str) (cur : str) (s : str) : list str :=
  match fuel with
  | 0 => [rev cur]
  | S f =>
    match s with
    | [] => [rev cur]
    | c :: t =>
        if startswith s sp
        then rev cur :: split_go f sp [] (skipn (length sp) s)
        else split_go f sp (c :: cur) t
    end
  end.
Definition split (s sp : str) : list str :=
  match sp with
  | [] => [s]                      (* Python raises ValueError("empty separator") *)
  | _ => split_go (S (length s)) sp [] s
  end.

(* sub in s *)
Fixpoint contains (s sub : str) : bool :=
  startswith s sub || match s with [] => false | _ :: t => contains t sub end.

(* s.replace(old, new) for non-empty old; fuel = length s + 1 *)
Fixpoint replace_go (fuel : nat) (old new : str) (s : str) : str :=
  match fuel with
  | 0 => s
  | S f =>
    match s with
    | [] => []
    | c :: t =>
        if startswith s old then new ++ replace_go f old new (skipn (length old) s)
        else c :: replace_go f old new t
    end
  end.
Definition replace (s old new : str) : str :=
  match old with [] => s | _ => replace_go (S (length s)) old new s end.

(* str(n) for a natural number *)
Fixpoint uint_digits (d : Decimal.uint) : str :=
  match d with
  | Decimal.Nil => []
  | Decimal.D0 r => 48%N :: uint_digits r | Decimal.D1 r => 49%N :: uint_digits r
  | Decimal.D2 r => 50%N :: uint_digits r | Decimal.D3 r => 51%N :: uint_digits r
  | Decimal.D4 r => 52%N :: uint_digits r | Decimal.D5 r => 53%N :: uint_digits r
  | Decimal.D6 r => 54%N :: uint_digits r | Decimal.D7 r => 55%N :: uint_digits r
  | Decimal.D8 r => 56%N :: uint_digits r | Decimal.D9 r => 57%N :: uint_digits r
  end.
Definition str_of_nat (n : nat) : str := uint_digits (Nat.to_uint n).

Definition repeat_str (s : str) (n : nat) : str := concat (repeat s n).
Definition spaces (n : nat) : str := repeat 32%N n.

(* lexicographic comparison of strings (Python's < on str) *)
Fixpoint str_ltb (a b : str) : bool :=
  match a, b with
  | [], [] => false
  | [], _ :: _ => true
  | _ :: _, [] => false
  | x :: a', y :: b' => N.ltb x y || (N.eqb x y && str_ltb a' b')
  end.

(* facts used by several developments *)
Lemma join_single sp x : join sp [x] = x.
Proof. reflexivity. Qed.
Lemma join_cons sp x y t : join sp (x :: y :: t) = x ++ sp ++ join sp (y :: t).
Proof. reflexivity. Qed.

Lemma startswith_app s p : startswith (p ++ s) p = true.
Proof. induction p as [|x p IH]; cbn; [reflexivity|]. rewrite N.eqb_refl. exact IH. Qed.

Lemma startswith_prefix s p : startswith s p = true -> exists r, s = p ++ r.
Proof.
  revert s; induction p as [|x p IH]; intros s H; cbn in H.
  - exists s. reflexivity.
  - destruct s as [|y s]; [discriminate|]. apply andb_true_iff in H as [H1 H2].
    apply N.eqb_eq in H1. subst. destruct (IH _ H2) as [r ->]. exists r. reflexivity.
Qed.
