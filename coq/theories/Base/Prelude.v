(* Shared vocabulary of every model: ids, strings, outcomes, list primitives that mirror
   the Python list methods used by bigtree (remove = first occurrence, index, insert). *)
From Coq Require Export List Arith NArith ZArith Bool Lia.
Export ListNotations.

Definition id := nat.
Definition str := list N.          (* a Python str as its list of code points *)

Definition upd {A} (f : id -> A) (k : id) (v : A) : id -> A :=
  fun x => if Nat.eqb x k then v else f x.

Fixpoint str_eqb (a b : str) : bool :=
  match a, b with
  | [], [] => true
  | x :: a', y :: b' => N.eqb x y && str_eqb a' b'
  | _, _ => false
  end.

Definition memb (x : id) (l : list id) : bool := existsb (Nat.eqb x) l.

(* list.remove(x): first occurrence *)
Fixpoint remove1 (x : id) (l : list id) : list id :=
  match l with [] => [] | y :: t => if Nat.eqb x y then t else y :: remove1 x t end.

(* list.index(x) (length l when absent; Python raises ValueError there) *)
Fixpoint index_of (x : id) (l : list id) : nat :=
  match l with [] => 0 | y :: t => if Nat.eqb x y then 0 else S (index_of x t) end.

(* list.insert(i, x) *)
Fixpoint insert_at {A} (i : nat) (x : A) (l : list A) : list A :=
  match i, l with
  | 0, _ => x :: l
  | S j, [] => [x]
  | S j, y :: t => y :: insert_at j x t
  end.

Fixpoint nodupb (l : list id) : bool :=
  match l with [] => true | x :: t => negb (memb x t) && nodupb t end.

Fixpoint list_eqb {A} (e : A -> A -> bool) (a b : list A) : bool :=
  match a, b with
  | [], [] => true
  | x :: a', y :: b' => e x y && list_eqb e a' b'
  | _, _ => false
  end.

Definition opt_eqb {A} (e : A -> A -> bool) (a b : option A) : bool :=
  match a, b with
  | None, None => true
  | Some x, Some y => e x y
  | _, _ => false
  end.

(* exception classes, as observed by the harness (class only, never the message) *)
Inductive exn :=
| TypeError | ValueError | AttributeError | IndexError | KeyError
| LoopError | TreeError | NotFoundError | SearchError | DuplicatedNodeError | CorruptedTreeError
| HookRaw            (* the exception object a user hook raised, propagating unwrapped *)
| OtherError
| Unmodelled.        (* the model declines to predict (inputs outside the modelled domain) *)

Definition exn_code (e : exn) : nat :=
  match e with
  | TypeError => 1 | ValueError => 2 | AttributeError => 3 | IndexError => 4 | KeyError => 5
  | LoopError => 6 | TreeError => 7 | NotFoundError => 8 | SearchError => 9
  | DuplicatedNodeError => 10 | CorruptedTreeError => 11 | HookRaw => 12 | OtherError => 13
  | Unmodelled => 14
  end.
Definition exn_eqb (a b : exn) : bool := Nat.eqb (exn_code a) (exn_code b).

Inductive outcome := Ok | Err (e : exn).
Definition outcome_eqb (a b : outcome) : bool :=
  match a, b with
  | Ok, Ok => true
  | Err x, Err y => exn_eqb x y
  | _, _ => false
  end.
Definition is_ok (o : outcome) : bool := match o with Ok => true | _ => false end.

(* result of a computation that may raise *)
Inductive res (A : Type) := Ret (a : A) | Raise (e : exn).
Arguments Ret {A} a.
Arguments Raise {A} e.

(* indices (from 0) of the cases whose flag word is non-zero, packed as 8*index+flags.
   This is the only thing a generated case file prints. *)
Fixpoint flags_from (i : nat) (l : list nat) : list nat :=
  match l with
  | [] => []
  | f :: t => (if Nat.eqb f 0 then [] else [8 * i + f]) ++ flags_from (S i) t
  end.
Definition flags_of {C} (check : C -> nat) (cases : list C) : list nat :=
  flags_from 0 (map check cases).

(* flag bits *)
Definition F_DISAGREE := 1.   (* model and implementation differ on this case            *)
Definition F_PROPFAIL := 2.   (* the property predicate is false on the implementation's output *)
Definition F_SKIP     := 4.   (* the model declined (Unmodelled); nothing compared        *)
Definition flag (b : bool) (f : nat) : nat := if b then f else 0.
