From Coq Require Import List Arith Lia Bool.
Import ListNotations.

Definition id := nat.
Record forest := mk { size : nat; par : id -> option id; kids : id -> list id }.

Definition upd {A} (f : id -> A) (k : id) (v : A) : id -> A :=
  fun x => if Nat.eqb x k then v else f x.

Fixpoint remove1 (x : id) (l : list id) : list id :=
  match l with [] => [] | y :: t => if Nat.eqb x y then t else y :: remove1 x t end.

Fixpoint anc (s : forest) (fuel : nat) (c : id) : list id :=
  match fuel with 0 => [] | S f =>
    match par s c with None => [] | Some p => p :: anc s f p end end.

Definition ancestors s c := anc s (size s) c.

Inductive err := TypeError | LoopError | TreeError | HookRaw.
Inductive outcome := Ok | Err (e : err).
Inductive fault := NoFault | PreFail | PostFail.

Definition memb (x : id) (l : list id) := existsb (Nat.eqb x) l.

Fixpoint index_of (x : id) (l : list id) : nat :=
  match l with [] => 0 | y :: t => if Nat.eqb x y then 0 else S (index_of x t) end.
Fixpoint insert_at (i : nat) (x : id) (l : list id) : list id :=
  match i, l with 0, _ => x :: l | S j, [] => [x] | S j, y :: t => y :: insert_at j x t end.

(* BaseNode.parent setter, basenode.py:187-231 *)
Definition set_parent (A : bool) (ft : fault) (s : forest) (c : id) (np : option id) : forest * outcome :=
  let loop := match np with
              | None => false
              | Some p => Nat.eqb p c || memb c (ancestors s p) end in
  if A && loop then (s, Err LoopError) else
  match ft with PreFail => (s, Err HookRaw) | _ =>
  let cp := par s c in
  let idx := match cp with Some p => index_of c (kids s p) | None => 0 end in
  let k1 := match cp with Some p => upd (kids s) p (remove1 c (kids s p)) | None => kids s end in
  let p2 := upd (par s) c np in
  let k2 := match np with Some p => upd k1 p (k1 p ++ [c]) | None => k1 end in
  match ft with
  | PostFail =>
     (* rollback *)
     let k3 := match np with Some p => upd k2 p (remove1 c (k2 p)) | None => k2 end in
     let p3 := upd p2 c cp in
     let k4 := match cp with Some p => upd k3 p (insert_at idx c (k3 p)) | None => k3 end in
     (mk (size s) p3 k4, Err TreeError)
  | _ => (mk (size s) p2 k2, Ok)
  end end.

Record WF (s : forest) : Prop := {
  wf_link : forall p c, In c (kids s p) <-> par s c = Some p;
  wf_nodup : forall p, NoDup (kids s p);
  wf_bound : forall c p, par s c = Some p -> c < size s /\ p < size s;
  wf_acyc : forall c, ~ In c (ancestors s c)
}.
