From Coq Require Import List Arith Lia Bool QArith.
Import ListNotations.
Open Scope nat_scope.

Inductive tree := T (tag : nat) (kids : list tree).
Definition kidsof (t : tree) := match t with T _ ks => ks end.

Section Ind.
  Variable P : tree -> Prop.
  Hypothesis H : forall n ks, Forall P ks -> P (T n ks).
  Fixpoint tree_ind' (t : tree) : P t :=
    match t with T n ks =>
      H n ks ((fix go (l : list tree) : Forall P l :=
                match l with [] => Forall_nil P | x :: r => Forall_cons x (tree_ind' x) (go r) end) ks)
    end.
End Ind.

Fixpoint height (t : tree) : nat :=
  match t with T _ ks => S (fold_right (fun k a => Nat.max (height k) a) 0 ks) end.

(* spec: nodes at relative depth k, left to right *)
Fixpoint level (k : nat) (t : tree) : list tree :=
  match k with 0 => [t] | S k' => flat_map (level k') (kidsof t) end.

(* model of iterators.py:260-281 (_levelorder_iter) with gate (stop, max_depth) and filter *)
Section LO.
  Variables (filt stop : tree -> bool) (maxd : nat).
  Definition gate (d : nat) (t : tree) := (Nat.eqb maxd 0 || Nat.leb d maxd) && negb (stop t).
  Fixpoint lo (fuel d : nat) (fr : list tree) : list tree :=
    match fuel with 0 => [] | S f =>
      let open := filter (gate d) fr in
      let next := flat_map kidsof open in
      filter filt open ++ match next with [] => [] | _ => lo f (S d) next end
    end.
  (* spec: level k of the tree pruned at closed nodes *)
  Fixpoint vlevel (k d : nat) (t : tree) : list tree :=
    if gate d t then match k with 0 => [t] | S k' => flat_map (vlevel k' (S d)) (kidsof t) end else [].
  Definition vlevels k d fr := flat_map (vlevel k d) fr.

  Lemma vlevels_S k d fr : vlevels (S k) d fr = vlevels k (S d) (flat_map kidsof (filter (gate d) fr)).
  Proof.
    unfold vlevels. induction fr as [|t fr IH]; [reflexivity|].
    cbn [flat_map filter]. destruct (gate d t) eqn:G.
    - cbn [flat_map]. rewrite flat_map_app. rewrite <- IH.
      cbn [vlevel]. rewrite G. reflexivity.
    - rewrite <- IH. cbn [vlevel]. rewrite G. reflexivity.
  Qed.
  Lemma vlevel_0 d t : vlevel 0 d t = if gate d t then [t] else [].
  Proof. reflexivity. Qed.
  Lemma vlevels_0 d fr : vlevels 0 d fr = filter (gate d) fr.
  Proof.
    unfold vlevels. induction fr as [|t fr IH]; [reflexivity|].
    change (flat_map (vlevel 0 d) (t :: fr)) with (vlevel 0 d t ++ flat_map (vlevel 0 d) fr).
    rewrite IH, vlevel_0. cbn [filter]. destruct (gate d t); reflexivity.
  Qed.
  Lemma vlevels_nil k d : vlevels k d [] = []. Proof. reflexivity. Qed.

  Lemma fm_shift {A} (g : nat -> list A) f : forall n,
    flat_map g (seq (S n) f) = flat_map (fun k => g (S k)) (seq n f).
  Proof. induction f as [|f IH]; intros n; [reflexivity|]. cbn [seq flat_map]. rewrite IH. reflexivity. Qed.

  Theorem lo_spec fuel : forall d fr,
    lo fuel d fr = filter filt (flat_map (fun k => vlevels k d fr) (seq 0 fuel)).
  Proof.
    induction fuel as [|f IH]; intros d fr; [reflexivity|].
    cbn [lo seq flat_map]. rewrite filter_app, vlevels_0. f_equal.
    rewrite fm_shift.
    rewrite (flat_map_ext (fun k => vlevels (S k) d fr) (fun k => vlevels k (S d) (flat_map kidsof (filter (gate d) fr)))) by (intros k; apply vlevels_S).
    destruct (flat_map kidsof (filter (gate d) fr)) eqn:E.
    - clear. induction (seq 0 f) as [|a l IHl]; [reflexivity|cbn; exact IHl].
    - rewrite <- E. apply IH.
  Qed.
End LO.
Print Assumptions lo_spec.

(* Q evaluation smoke test *)
