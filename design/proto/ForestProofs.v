From Coq Require Import List Arith Lia Bool.
Import ListNotations.
Require Import Forest.

Definition acyclic s := exists r : id -> nat, forall c p, par s c = Some p -> r p < r c.
Record WF2 (s : forest) : Prop := {
  w_link : forall p c, In c (kids s p) <-> par s c = Some p;
  w_nodup : forall p, NoDup (kids s p);
  w_bound : forall c p, par s c = Some p -> c < size s /\ p < size s;
  w_acyc : acyclic s }.

Section S.
Variable s : forest.
Variable r : id -> nat.
Hypothesis Hr : forall c p, par s c = Some p -> r p < r c.
Hypothesis Hb : forall c p, par s c = Some p -> c < size s /\ p < size s.

Lemma anc_rank f : forall c x, In x (anc s f c) -> r x < r c.
Proof.
  induction f as [|f IH]; cbn [anc]; intros c x Hx; [contradiction|].
  destruct (par s c) as [p|] eqn:E; [|contradiction].
  destruct Hx as [->|Hx]; [eauto|]. specialize (IH _ _ Hx). specialize (Hr _ _ E). lia.
Qed.

Lemma anc_nodup f : forall c, NoDup (anc s f c).
Proof.
  induction f as [|f IH]; cbn [anc]; intros c; [constructor|].
  destruct (par s c) as [p|] eqn:E; [|constructor].
  constructor; [|apply IH]. intros H. apply anc_rank in H. lia.
Qed.

Lemma anc_bound f : forall c x, In x (anc s f c) -> x < size s.
Proof.
  induction f as [|f IH]; cbn [anc]; intros c x Hx; [contradiction|].
  destruct (par s c) as [p|] eqn:E; [|contradiction].
  destruct Hx as [->|Hx]; [apply (Hb _ _ E)|eauto].
Qed.

Lemma anc_len_lt f c : size s <= f -> par s c <> None -> length (anc s f c) < f.
Proof.
  intros Hf Hc.
  assert (Hnd : NoDup (c :: anc s f c)).
  { constructor; [|apply anc_nodup]. intros H. apply anc_rank in H. lia. }
  assert (Hin : incl (c :: anc s f c) (seq 0 (size s))).
  { intros x [<-|Hx]; apply in_seq.
    - destruct (par s c) as [p|] eqn:E; [|congruence]. destruct (Hb _ _ E). lia.
    - apply anc_bound in Hx. lia. }
  pose proof (NoDup_incl_length Hnd Hin) as H. rewrite seq_length in H. cbn [length] in H. lia.
Qed.

Lemma anc_short_stable f : forall c, length (anc s f c) < f -> anc s (S f) c = anc s f c.
Proof.
  induction f as [|f IH]; intros c H; [cbn in H; lia|].
  cbn [anc] in *. destruct (par s c) as [p|]; [|reflexivity].
  cbn [length] in H. f_equal. apply IH. lia.
Qed.

Lemma anc_fix f c : size s <= f -> anc s (S f) c = anc s f c.
Proof.
  intros Hf. case_eq (par s c); [intros p E|intros E].
  - apply anc_short_stable, anc_len_lt; [assumption|congruence].
  - cbn [anc]. rewrite E. destruct f; cbn [anc]; rewrite ?E; reflexivity.
Qed.

Lemma ancestors_unfold c p : par s c = Some p -> ancestors s c = p :: ancestors s p.
Proof.
  intros E. unfold ancestors. rewrite <- (anc_fix (size s) c) by lia.
  cbn [anc]. rewrite E. reflexivity.
Qed.
End S.
Print Assumptions ancestors_unfold.
