From Coq Require Import List Arith Lia Bool.
Import ListNotations.
Require Import Forest ForestProofs.

Lemma upd_same {A} (f : id -> A) k v : upd f k v k = v.
Proof. unfold upd. rewrite Nat.eqb_refl. reflexivity. Qed.
Lemma upd_other {A} (f : id -> A) k v x : x <> k -> upd f k v x = f x.
Proof. unfold upd. intros H. destruct (Nat.eqb_spec x k); [contradiction|reflexivity]. Qed.

Lemma memb_In x l : memb x l = true <-> In x l.
Proof.
  unfold memb. rewrite existsb_exists. split.
  - intros [y [Hy E]]. apply Nat.eqb_eq in E. subst. exact Hy.
  - intros H. exists x. split; [exact H|apply Nat.eqb_refl].
Qed.

Lemma In_remove1 c l x : NoDup l -> (In x (remove1 c l) <-> In x l /\ x <> c).
Proof.
  induction l as [|y t IH]; cbn [remove1]; intros Hnd; [cbn; tauto|].
  inversion Hnd as [|? ? Hy Ht]; subst.
  destruct (Nat.eqb_spec c y) as [->|Hne].
  - cbn [In]. split; [intros H; split; [tauto|intros ->; contradiction]|intros [[->|H] Hx]; [congruence|exact H]].
  - cbn [In]. rewrite (IH Ht). split; [intros [->|[H1 H2]]; [split; [tauto|congruence]|tauto]|intros [[->|H] Hx]; tauto].
Qed.

Lemma NoDup_remove1 c l : NoDup l -> NoDup (remove1 c l).
Proof.
  induction l as [|y t IH]; cbn [remove1]; intros Hnd; [constructor|].
  inversion Hnd as [|? ? Hy Ht]; subst.
  destruct (Nat.eqb_spec c y); [exact Ht|].
  constructor; [|apply IH, Ht]. intros H. apply (In_remove1 c t y Ht) in H. tauto.
Qed.

Definition s_after (s : forest) (c : id) (np : option id) : forest :=
  let cp := par s c in
  let k1 := match cp with Some p => upd (kids s) p (remove1 c (kids s p)) | None => kids s end in
  let p2 := upd (par s) c np in
  let k2 := match np with Some p => upd k1 p (k1 p ++ [c]) | None => k1 end in
  mk (size s) p2 k2.

Lemma kids_after s c np q x : WF2 s ->
  In x (kids (s_after s c np) q) <-> (x <> c /\ In x (kids s q)) \/ (x = c /\ np = Some q).
Proof.
  intros W. destruct W as [Hl Hn _ _].
  unfold s_after; cbn [kids].
  assert (Hc : forall q', In c (kids s q') <-> par s c = Some q') by (intros; apply Hl).
  destruct (par s c) as [cp|] eqn:Ecp; destruct np as [p|].
  - (* cp, p *)
    destruct (Nat.eq_dec q p) as [->|Hqp].
    + rewrite upd_same. rewrite in_app_iff. cbn [In].
      destruct (Nat.eq_dec p cp) as [->|Hpc].
      * rewrite upd_same. rewrite In_remove1 by apply Hn. split.
        -- intros [[H1 H2]|[<-|[]]]; [left; tauto|right; tauto].
        -- intros [[H1 H2]|[-> _]]; [left; tauto|right; left; reflexivity].
      * rewrite upd_other by exact Hpc. split.
        -- intros [H|[<-|[]]]; [|right; tauto].
           left. split; [|exact H]. intros ->. apply Hc in H. congruence.
        -- intros [[H1 H2]|[-> _]]; [left; exact H2|right; left; reflexivity].
    + rewrite upd_other by exact Hqp.
      destruct (Nat.eq_dec q cp) as [->|Hqc].
      * rewrite upd_same. rewrite In_remove1 by apply Hn. split.
        -- intros [H1 H2]. left. tauto.
        -- intros [[H1 H2]|[-> E]]; [tauto|congruence].
      * rewrite upd_other by exact Hqc. split.
        -- intros H. left. split; [|exact H]. intros ->. apply Hc in H. congruence.
        -- intros [[H1 H2]|[-> E]]; [exact H2|congruence].
  - (* cp, None *)
    destruct (Nat.eq_dec q cp) as [->|Hqc].
    + rewrite upd_same. rewrite In_remove1 by apply Hn. split; [intros [H1 H2]; left; tauto|intros [[H1 H2]|[_ E]]; [tauto|discriminate]].
    + rewrite upd_other by exact Hqc. split.
      * intros H. left. split; [|exact H]. intros ->. apply Hc in H. congruence.
      * intros [[H1 H2]|[_ E]]; [exact H2|discriminate].
  - (* None, p *)
    destruct (Nat.eq_dec q p) as [->|Hqp].
    + rewrite upd_same, in_app_iff. cbn [In]. split.
      * intros [H|[<-|[]]]; [|right; tauto]. left. split; [|exact H]. intros ->. apply Hc in H. discriminate.
      * intros [[H1 H2]|[-> _]]; [left; exact H2|right; left; reflexivity].
    + rewrite upd_other by exact Hqp. split.
      * intros H. left. split; [|exact H]. intros ->. apply Hc in H. discriminate.
      * intros [[H1 H2]|[-> E]]; [exact H2|congruence].
  - split.
    + intros H. left. split; [|exact H]. intros ->. apply Hc in H. discriminate.
    + intros [[H1 H2]|[_ E]]; [exact H2|discriminate].
Qed.

Lemma nodup_after s c np q : WF2 s -> NoDup (kids (s_after s c np) q).
Proof.
  intros W. pose proof W as [Hl Hn _ _].
  assert (Hc : forall q', In c (kids s q') <-> par s c = Some q') by (intros; apply Hl).
  unfold s_after; cbn [kids].
  set (k1 := match par s c with Some p => upd (kids s) p (remove1 c (kids s p)) | None => kids s end).
  assert (Hk1 : forall q', NoDup (k1 q')).
  { intros q'. unfold k1. destruct (par s c) as [cp|]; [|apply Hn].
    destruct (Nat.eq_dec q' cp) as [->|H]; [rewrite upd_same; apply NoDup_remove1, Hn|rewrite upd_other by exact H; apply Hn]. }
  assert (Hk1c : forall q', ~ In c (k1 q')).
  { intros q'. unfold k1. destruct (par s c) as [cp|] eqn:E.
    - destruct (Nat.eq_dec q' cp) as [->|H].
      + rewrite upd_same. rewrite In_remove1 by apply Hn. tauto.
      + rewrite upd_other by exact H. intros Hin. apply Hc in Hin. congruence.
    - intros Hin. apply Hc in Hin. congruence. }
  destruct np as [p|]; [|apply Hk1].
  destruct (Nat.eq_dec q p) as [->|H]; [rewrite upd_same|rewrite upd_other by exact H; apply Hk1].
  (* NoDup (k1 p ++ [c]) *)
  clear - Hk1 Hk1c.
  specialize (Hk1 p). specialize (Hk1c p). revert Hk1 Hk1c. generalize (k1 p) as l.
  induction l as [|y t IH]; cbn; intros Hnd Hc; [constructor; [tauto|constructor]|].
  inversion Hnd; subst. constructor.
  - rewrite in_app_iff. cbn. intros [H|[H|[]]]; [contradiction|subst; tauto].
  - apply IH; tauto.
Qed.

Theorem set_parent_accept_WF s c p :
  WF2 s -> c < size s -> p < size s -> p <> c -> ~ In c (ancestors s p) ->
  WF2 (s_after s c (Some p)).
Proof.
  intros W Hc Hp Hpc Hanc. pose proof W as [Hl Hn Hb [r Hr]].
  constructor.
  - intros q x. rewrite kids_after by exact W. unfold s_after; cbn [par].
    destruct (Nat.eq_dec x c) as [->|Hx].
    + rewrite upd_same. split; [intros [[H _]|[_ H]]; [congruence|exact H]|intros H; right; tauto].
    + rewrite upd_other by exact Hx. rewrite <- Hl. split; [intros [[_ H]|[H _]]; [exact H|contradiction]|intros H; left; tauto].
  - intros q. apply nodup_after, W.
  - intros x y. unfold s_after; cbn [par size].
    destruct (Nat.eq_dec x c) as [->|Hx]; [rewrite upd_same; intros [= <-]; tauto|rewrite upd_other by exact Hx; apply Hb].
  - (* rank *)
    set (D := fun x => Nat.eqb x c || memb c (ancestors s x)).
    exists (fun x => if D x then r x + r p + 1 else r x).
    intros x y. unfold s_after; cbn [par].
    destruct (Nat.eq_dec x c) as [->|Hx].
    + rewrite upd_same. intros [= <-].
      assert (D p = false) as ->.
      { unfold D. apply orb_false_iff. split; [apply Nat.eqb_neq; exact Hpc|].
        destruct (memb c (ancestors s p)) eqn:E; [apply memb_In in E; contradiction|reflexivity]. }
      assert (D c = true) as -> by (unfold D; rewrite Nat.eqb_refl; reflexivity). lia.
    + rewrite upd_other by exact Hx. intros E.
      assert (HD : D x = D y).
      { unfold D. rewrite (ancestors_unfold s r Hr Hb x y E).
        apply Nat.eqb_neq in Hx. rewrite Hx. cbn [orb memb existsb].
        fold (memb c (ancestors s y)). rewrite (Nat.eqb_sym c y). reflexivity. }
      rewrite HD. specialize (Hr _ _ E). destruct (D y); lia.
Qed.
Print Assumptions set_parent_accept_WF.
