#!/bin/bash
# final pass on the unchanged /repo: rebuild, run every quick check (evidence/*.json rewritten), regenerate
# MANIFEST.json and the seeded table, refresh the coqchk report
HERE="$(cd "$(dirname "$0")/.." && pwd)"
cd $HERE
bash tools/setup.sh || exit 1
rc=0
for p in C01 C02 C03 C04 C05 C06 C07 C08 C09 C10 C11 C12 C13 C14 C15 C16 C17 C18 C19 C20; do
  ./check $p > build/final_$p.log 2>&1 || rc=1
  tail -1 build/final_$p.log
  grep "^VIOLATION" build/final_$p.log
done
/venv/bin/python tools/mkmanifest.py C01 C02 C03 C04 C05 C06 C07 C08 C09 C10 C11 C12 C13 C14 C15 C16 C17 C18 C19 C20 > /dev/null
python3 tools/seed_table.py | tail -5
[ "$1" = "--coqchk" ] && bash tools/coqchk.sh > coq/coqchk_report.txt 2>&1 && tail -12 coq/coqchk_report.txt
exit $rc
