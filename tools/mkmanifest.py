#!/usr/bin/env python3
"""Regenerate MANIFEST.json from the table below (only properties whose check is registered)."""
import json, os, sys
V = '/verif'
props = [json.loads(l) for l in open(f'{V}/properties.jsonl')]
COMMON_NOTE = ("Trusted: Coq 8.16.1 kernel incl. vm_compute (no native_compute, no extraction); the hand-written Gallina model is tied to /repo only by the "
               "correspondence run (Python harness: generators, runners, literal emitter; Corr/*.v decoders) on sampled / small-scope inputs; "
               "CPython object model, str/list/dict methods, pandas/polars/pydot are modelled or glue, not verified. "
               "Print Assumptions of every theorem is copied into the evidence (expected: Closed under the global context).")
# id -> (technique, level text, design ref, claimed?)
T = {
 'C01': ("Coq invariant proof over operation histories (heap model of BaseNode/Node) + vm_compute correspondence on generated histories",
         "Theorems: the forest invariant WF (link symmetry, NoDup, bounds, acyclicity by ghost rank) holds in every state reachable by any operation list incl. invalid arguments and failing hooks; closed-form effect theorems for parent/children/del/sort; rejection theorems; every accepted parent assignment is the documented rose-tree edit (subtree cut out and grafted as last child of the new parent), children assignment a sequence of them, sort a permutation of child subtrees (Props/C01_surgery.v). Tie to the code: every run executes ~1400 random histories on the real classes and compares each step with the model inside coqc."),
 'C02': ("Coq atomicity proof (rollback exactness, restore_sorted lemma) for BaseNode/Node, BinaryNode, DAGNode heap models + fault-injection correspondence",
         "Theorems: any assignment that does not return normally leaves all links pointwise identical (all fault points: guards, duplicate name, pre/post hook); the except-branches are proved to undo the try-branches exactly. Tie: histories with 40% failing operations through the documented hook extension points on all four classes."),
 'C03': ("Coq invariant + path/lookup theorems on the Node heap model, bridged to the exporters' path column and the search model's paths + vm_compute correspondence (path_name, sep, depth, find_full_path)",
         "Theorems: sibling-name uniqueness is an invariant of all histories; path_name/depth/sep specifications; lookup round trip for separators of any length under the guard that no separator character occurs in a name (K3 outside). Tie: random histories over related names and separators, every node's path/sep/depth and lookups compared."),
 'C20': ("Coq proof that the assertion switch only selects rejections (three heap models) + two-interpreter correspondence (BIGTREE_CONF_ASSERTIONS) + static tie re-derived from the source on every run (every read of ASSERTIONS has the modelled shape)",
         "Theorems: a step accepted with checks on is computed identically with checks off (forest, binary, DAG). Tie: valid histories are run in-process (checks on) and in a child interpreter started with BIGTREE_CONF_ASSERTIONS='' (checks off), both compared with the model and with each other, plus a battery of library calls."),
}
GENERIC = {
 'C04': ("Coq functional-correctness proofs of the seven iterators against a route/level specification + vm_compute correspondence", "DESIGN.md 7/C04"),
 'C05': ("Coq proofs about the path-constructor model (prefix closure, reuse, order) + vm_compute correspondence over list/dict/DataFrame/polars entry points", "DESIGN.md 7/C05"),
 'C06': ("Coq export/import round-trip proofs (dict, nested dict, frames, Newick, printed tree) + vm_compute correspondence + translator tie (Newick control characters regenerated from bigtree/utils/constants.py and checked against the model's reader and writer on every run)", "DESIGN.md 7/C06"),
 'C07': ("Coq effect-skeleton proofs on the heap model (copy freshness, frame, independence) with refinement theorems tying the skeletons to the algorithm models + runtime snapshot correspondence", "DESIGN.md 7/C07"),
 'C08': ("Coq proofs about the shift/copy/replace model (decision table, multi-pair refinement, commuting square with the heap model of the parent setter) + vm_compute correspondence over flag combinations", "DESIGN.md 7/C08"),
 'C09': ("Coq soundness/completeness proofs of the search model + vm_compute correspondence", "DESIGN.md 7/C09"),
 'C10': ("Coq invariant proof over DAG operation histories (heap model) with exact edge effect of every operation on the abstract graph + vm_compute correspondence", "DESIGN.md 7/C10"),
 'C11': ("Coq invariant proof over BinaryNode operation histories (heap model) with every accepted step proved a binary-tree edit + vm_compute correspondence", "DESIGN.md 7/C11"),
 'C12': ("Coq proofs that derived queries equal first-principles definitions (incl. diameter = max distance), bridged to the heap model's own depth/root/siblings/leaves + vm_compute correspondence", "DESIGN.md 7/C12"),
 'C13': ("Coq proofs about relation / nested-dict / heap-list constructors + vm_compute correspondence", "DESIGN.md 7/C13"),
 'C14': ("Coq proofs that prune_tree/get_subtree keep exactly the specified nodes + vm_compute correspondence", "DESIGN.md 7/C14"),
 'C15': ("Coq proofs that the diff model marks exactly the differing paths + vm_compute correspondence", "DESIGN.md 7/C15"),
 'C16': ("Coq graph-theoretic proofs about dag_iterator / ancestors / descendants / go_to, instantiated on every state reachable through the DAGNode heap model + vm_compute correspondence", "DESIGN.md 7/C16"),
 'C17': ("Coq proofs of DAG export completeness and round trip + vm_compute correspondence", "DESIGN.md 7/C17"),
 'C18': ("Coq proofs about the vertical/horizontal renderers and vertex-id schemes + vm_compute correspondence + translator tie (glyph tables regenerated from bigtree/utils/constants.py and proved equal to the model's on every run)", "DESIGN.md 7/C18"),
 'C19': ("Coq proofs over exact rationals for the Reingold-Tilford model + tolerance-based correspondence with the float implementation", "DESIGN.md 7/C19"),
}
sys.path.insert(0, V); sys.path.insert(0, '/repo')
import io, contextlib
with contextlib.redirect_stdout(io.StringIO()):
    from harness.registry import ENGINES
claimed = [a for a in sys.argv[1:]]
checks, na = [], []
for p in props:
    pid = p['id']
    if pid in claimed and pid in ENGINES:
        tech, text = (T[pid] if pid in T else (GENERIC[pid][0], "Theorems of coq/theories/Props/%s.v about the hand-written model (see DESIGN.md section 7 for the clause-by-clause status, partial clauses are listed in the evidence); the model is tied to /repo on every run by executing generated cases on the implementation and evaluating model, agreement and the property predicate inside coqc." % pid))
        checks.append({
            "property_id": pid,
            "quick_cmd": f"./check {pid}",
            "thorough_cmd": f"./check {pid} --tier thorough",
            "evidence_file": f"/verif/evidence/{pid}.json",
            "replay_cmd_template": f"./check {pid} --replay {{path}}",
            "engine": ",".join(e.split('.')[-1] for e in ENGINES[pid]),
            "level_claimed": {"category": "proof", "text": text, "design_ref": f"DESIGN.md section 7 / {pid}"},
            "level_note": COMMON_NOTE,
            "technique": tech,
        })
    else:
        na.append({"property_id": pid, "reason": "check not registered yet (engine under construction in this round; see DESIGN.md section 10)"})
m = {"version": 1,
     "setup_cmd": "bash /verif/tools/setup.sh",
     "hooks": {"guard": "BIGTREE_VERIF",
               "enable": "no source hooks are needed: fault injection uses the documented _<Class>__pre/post_assign_* extension points in harness-side subclasses; the assertion switch is exercised through BIGTREE_CONF_ASSERTIONS in a child interpreter",
               "baseline_off_cmd": "python3 /verif/tools/baseline.py",
               "source_commits": [l.split()[0] for l in os.popen("git -C /repo log --format='%h %s' | grep ' fix:'").read().splitlines()],
               "add_only": True},
     "engines": [{"name": e.split('.')[-1], "path": "harness/engines/%s.py" % e.split('.')[-1],
                  "serves_properties": sorted(k for k, v in ENGINES.items() if e in v),
                  "kind_free_text": "Gallina model + Coq theorems + vm_compute correspondence against /repo"}
                 for e in sorted({e for v in ENGINES.values() for e in v})],
     "checks": checks,
     "notes": "Machine-checked proof in Coq 8.16.1 of hand-written models; correspondence check re-run against /repo's working tree on every invocation. See DESIGN.md.",
     "not_applicable": na}
json.dump(m, open(f'{V}/MANIFEST.json', 'w'), indent=1)
print("claimed:", [c['property_id'] for c in checks])
