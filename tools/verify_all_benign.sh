#!/bin/bash
# run every benign refactoring under /tmp/ben/<id>-out against its own check and the checks of the properties
# anchored in the files it touches; results in build/benres/<id>-<k>.json (3 jobs in parallel)
HERE="$(cd "$(dirname "$0")/.." && pwd)"
SRC=${1:-/tmp/ben}
mkdir -p $HERE/build/benres
extra() {  # props by touched file
  local d=$1 out=""
  grep -q "bigtree/node/basenode.py" $d && out="$out C01 C02 C03 C12 C20"
  grep -q "bigtree/node/node.py" $d && out="$out C03"
  grep -q "bigtree/node/binarynode.py" $d && out="$out C11 C02 C20"
  grep -q "bigtree/node/dagnode.py" $d && out="$out C10 C16 C20"
  grep -q "bigtree/utils/iterators.py" $d && out="$out C04 C09 C16"
  grep -q "bigtree/tree/search.py" $d && out="$out C09 C03"
  grep -q "bigtree/tree/construct.py" $d && out="$out C05 C13 C06"
  grep -q "bigtree/tree/export.py" $d && out="$out C06 C18"
  grep -q "bigtree/tree/helper.py" $d && out="$out C14 C15 C07"
  grep -q "bigtree/tree/modify.py" $d && out="$out C08"
  grep -q "bigtree/utils/plot.py" $d && out="$out C19"
  grep -q "bigtree/dag/" $d && out="$out C17"
  grep -q "bigtree/utils/assertions.py" $d && out="$out C05 C13"
  echo $out
}
jobs_list=()
for id in C01 C02 C03 C04 C05 C06 C07 C08 C09 C10 C11 C12 C13 C14 C15 C16 C17 C18 C19 C20; do
  for k in 1 2 3; do
    d=$SRC/$id-out
    [ -f $d/benign$k.diff ] && [ -f $d/equiv$k.py ] || continue
    [ -s $HERE/build/benres/$id-$k.json ] && grep -q '"alarm"' $HERE/build/benres/$id-$k.json && continue
    ex=$(for p in $(extra $d/benign$k.diff); do [ $p != $id ] && echo $p; done | sort -u | tr '\n' ' ')
    echo "$id $k $ex"
  done
done > $HERE/build/benres/todo.txt
sed -i 's/ *$//' $HERE/build/benres/todo.txt
export HERE SRC
cat $HERE/build/benres/todo.txt | xargs -P 3 -I LINE bash -c 'set -- LINE; id=$1; k=$2; shift 2; timeout 3000 env VERIF_NPROC=5 python3 $HERE/tools/verify_benign.py $id $SRC/$id-out/benign$k.diff $SRC/$id-out/equiv$k.py "$@" > $HERE/build/benres/$id-$k.json 2>&1; echo "$id-$k done $(date +%T)"'
