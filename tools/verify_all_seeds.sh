#!/bin/bash
# verify every seeded change under /tmp/mut/<id>-out (or /verif/seeded/<id>/) ; results in /verif/build/seedres
mkdir -p /verif/build/seedres
SRC=${1:-/tmp/mut}
for id in C01 C02 C03 C04 C05 C06 C07 C08 C09 C10 C11 C12 C13 C14 C15 C16 C17 C18 C19 C20; do
  for k in ${KS:-1 2 3 4 5 6 7 8 9 10}; do
    d=$SRC/$id-out
    [ -f $d/patch$k.diff ] && [ -f $d/meta$k.json ] && [ -f $d/demo$k.py ] || continue
    [ -s /verif/build/seedres/$id-$k.json ] && grep -q '"caught"' /verif/build/seedres/$id-$k.json && continue
    timeout 1500 env VERIF_NPROC=14 python3 /verif/tools/verify_seed.py $id $d/patch$k.diff $d/demo$k.py > /verif/build/seedres/$id-$k.json 2>&1
    echo "$id-$k done $(date +%T)"
  done
done
