#!/bin/bash
# re-verify every seeded change in parallel (4 jobs); results in build/seedres/<id>-<k>.json
HERE="$(cd "$(dirname "$0")/.." && pwd)"
SRC=${1:-/tmp/mut}
mkdir -p $HERE/build/seedres
for id in C01 C02 C03 C04 C05 C06 C07 C08 C09 C10 C11 C12 C13 C14 C15 C16 C17 C18 C19 C20; do
  for k in ${KS:-1 2 3 4 5 6 7 8 9 10 11 12}; do
    d=$SRC/$id-out
    [ -f $d/patch$k.diff ] && [ -f $d/meta$k.json ] && [ -f $d/demo$k.py ] || continue
    [ -s $HERE/build/seedres/$id-$k.json ] && grep -q '"caught"' $HERE/build/seedres/$id-$k.json && continue
    echo "$id $k"
  done
done > $HERE/build/seedres/todo.txt
export HERE SRC
cat $HERE/build/seedres/todo.txt | xargs -P ${JOBS:-4} -I LINE bash -c 'set -- LINE; id=$1; k=$2; timeout 2400 env VERIF_NPROC=4 python3 $HERE/tools/verify_seed.py $id $SRC/$id-out/patch$k.diff $SRC/$id-out/demo$k.py > $HERE/build/seedres/$id-$k.json 2>&1; echo "$id-$k done $(date +%T)"'
