#!/usr/bin/env python3
"""Collect the results of tools/verify_all_benign.sh (build/benres/*.json or the directory given), copy the
benign refactorings into /verif/benign/<id>/ and write benign/README.md."""
import json, os, shutil, sys, glob
V = os.path.dirname(os.path.dirname(os.path.abspath(__file__)))
RES = sys.argv[1] if len(sys.argv) > 1 else f'{V}/build/benres'
SRC = sys.argv[2] if len(sys.argv) > 2 else '/tmp/ben'
rows = []
for f in sorted(glob.glob(f'{RES}/C*.json')):
    name = os.path.basename(f)[:-5]
    pid, k = name.split('-')
    t = open(f).read()
    try:
        d = json.loads(t[t.index('{'):])
    except Exception:
        rows.append((pid, k, None, {})); continue
    meta = {}
    mp = f'{SRC}/{pid}-out/bmeta{k}.json'
    if os.path.exists(mp):
        try: meta = json.load(open(mp))
        except Exception: meta = {}
    rows.append((pid, k, d, meta))
    dst = f'{V}/benign/{pid}'
    os.makedirs(dst, exist_ok=True)
    for fn in (f'benign{k}.diff', f'equiv{k}.py'):
        if os.path.exists(f'{SRC}/{pid}-out/{fn}'):
            shutil.copy(f'{SRC}/{pid}-out/{fn}', f'{dst}/{fn}')
    json.dump({"property": pid, "summary": meta.get("summary", ""), "why_equivalent": meta.get("why_equivalent", ""),
               "files": meta.get("files", []), "base": d.get("base", "HEAD"),
               "confirmed_benign": d.get("benign_confirmed"),
               "checks_run": {p: {"exit": v["rc"], "line": (v["lines"] or [""])[-1]} for p, v in d.get("checks", {}).items()},
               "alarm": d.get("alarm")}, open(f'{dst}/bmeta{k}.json', 'w'), indent=1)
with open(f'{V}/benign/README.md', 'w') as out:
    out.write("# Behaviour-preserving refactorings (false-alarm test)\n\nWritten by independent sub-agents that saw only the property text and a "
              "scratch worktree of /repo.  Each keeps the pinned suite's result and prints a byte-identical transcript (`equiv<k>.py`) "
              "before and after (confirmed by `tools/verify_benign.py` in a scratch worktree).  Verdict = the checks of the property and of "
              "every property anchored in a touched file, run against the patched worktree: every one must exit 0.\n\n"
              "| refactoring | what it rewrites | confirmed benign | checks run | alarm |\n|---|---|---|---|---|\n")
    for pid, k, d, meta in rows:
        if d is None:
            out.write(f"| {pid}/{k} | (verification did not finish) | ? | | ? |\n"); continue
        desc = meta.get("summary", "").replace("|", "/").replace("\n", " ")[:300]
        out.write(f"| {pid}/{k} | {desc} | {'yes' if d.get('benign_confirmed') else 'NO'} | {' '.join(sorted(d.get('checks', {})))} | {'ALARM' if d.get('alarm') else 'none'} |\n")
n = sum(1 for r in rows if r[2]); ok = sum(1 for r in rows if r[2] and r[2].get('benign_confirmed') and not r[2].get('alarm'))
print(f"benign: {n} verified, {ok} confirmed benign and quiet")
for pid, k, d, meta in rows:
    if d and (d.get('alarm') or not d.get('benign_confirmed')):
        print("ATTENTION", pid, k, {p: v['lines'][:1] for p, v in d['checks'].items() if v['rc']}, {x: d.get(x) for x in ('apply_rc', 'transcripts_identical', 'suite_ok')})
