#!/usr/bin/env python3
"""Run the repository's pinned suite (guard off) and compare with BASELINE.json stable_pass.
Exit 0 iff every stable_pass test passed."""
import json, subprocess, sys, tempfile, os, xml.etree.ElementTree as ET
base = json.load(open('/root/.vp/BASELINE.json'))
out = tempfile.mktemp(suffix='.xml', dir='/var/tmp')
cmd = base['cmd'].replace('<file>', out)
env = dict(os.environ); env.pop('BIGTREE_VERIF', None)
p = subprocess.run(cmd, shell=True, env=env, stdout=subprocess.PIPE, stderr=subprocess.STDOUT, text=True)
passed = set()
root = ET.parse(out).getroot()
for tc in root.iter('testcase'):
    ok = not any(ch.tag in ('failure', 'error', 'skipped') for ch in tc)
    if ok:
        passed.add(f"{tc.get('classname')}::{tc.get('name')}")
os.remove(out)
missing = [t for t in base['stable_pass'] if t not in passed]
print(p.stdout.strip().splitlines()[-1])
print(f"stable_pass={len(base['stable_pass'])} passed_now={len(passed)} missing={len(missing)}")
for m in missing[:20]: print("MISSING", m)
sys.exit(1 if missing else 0)
