import json,sys
d=json.load(open(sys.argv[1]))
print(d['kind'],'|',d['what'],'| flags',d['flags'],'| failing',d.get('failing_cases_in_run'))
c=d['case']
for k,v in c.items():
    if k!='ops': print(' ',k,'=',v)
for i,o in enumerate(c.get('ops',[])):
    ob=d['observation']['trace'][i] if isinstance(d['observation'],dict) and 'trace' in d['observation'] else ''
    print('  op',i,o,'->',ob)
if not (isinstance(d['observation'],dict) and 'trace' in d['observation']): print(d['observation'])
