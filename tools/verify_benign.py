#!/usr/bin/env python3
"""verify_benign.py <prop> <benign.diff> <equiv.py> [extra props...]
A behaviour-preserving refactoring written by a sub-agent: in a scratch worktree of /repo (never /repo
itself) the transcript script prints the same text before and after, the pinned suite's stable_pass tests
still pass, and then `./check <prop>` (and the extra props) is run against the patched worktree: it must
exit 0 -- an alarm here is a false alarm of the machinery (or the refactoring is not benign after all).
Prints a JSON summary."""
import json, os, shutil, subprocess, sys, tempfile, xml.etree.ElementTree as ET
HOME = os.path.dirname(os.path.dirname(os.path.abspath(__file__)))

prop, patch, equiv = sys.argv[1:4]
props = [prop] + sys.argv[4:]
wt = tempfile.mkdtemp(prefix=f"bencheck-{prop}-", dir="/tmp")
os.rmdir(wt)
def sh(cmd, **kw):
    return subprocess.run(cmd, shell=True, stdout=subprocess.PIPE, stderr=subprocess.STDOUT, text=True, **kw)
res = {"property": prop, "patch": patch}
try:
    r = sh(f"git -C /repo worktree add -q --detach {wt} HEAD")
    assert r.returncode == 0, r.stdout
    shutil.copy(equiv, os.path.join(wt, "_equiv.py"))
    env0 = dict(os.environ, PYTHONHASHSEED="0")
    a = sh("/venv/bin/python _equiv.py", cwd=wt, env=env0)
    r = sh(f"git apply {patch}", cwd=wt); res["apply_rc"] = r.returncode
    if r.returncode:
        # written against the commit before the latest fix: commit: use that base for this patch
        sh(f"git -C /repo worktree remove --force {wt}")
        r = sh(f"git -C /repo worktree add -q --detach {wt} {os.environ.get('BENIGN_BASE', '2aa206d')}")
        shutil.copy(equiv, os.path.join(wt, "_equiv.py"))
        a = sh("/venv/bin/python _equiv.py", cwd=wt, env=env0)
        r = sh(f"git apply {patch}", cwd=wt); res["apply_rc"] = r.returncode; res["base"] = "2aa206d"
    if r.returncode: res["apply_out"] = r.stdout[-500:]
    b = sh("/venv/bin/python _equiv.py", cwd=wt, env=env0)
    res["transcripts_identical"] = (a.stdout == b.stdout and a.returncode == b.returncode)
    res["transcript_len"] = len(a.stdout)
    base = json.load(open('/root/.vp/BASELINE.json'))
    out = os.path.join(wt, "_junit.xml")
    cmd = base['cmd'].replace('cd /repo', f'cd {wt}').replace('<file>', out)
    r = sh(cmd)
    passed = set()
    for tc in ET.parse(out).getroot().iter('testcase'):
        if not any(ch.tag in ('failure', 'error', 'skipped') for ch in tc):
            passed.add(f"{tc.get('classname')}::{tc.get('name')}")
    missing = [t for t in base['stable_pass'] if t not in passed]
    res["suite_missing"] = missing[:10]; res["suite_ok"] = not missing
    os.remove(out); os.remove(os.path.join(wt, "_equiv.py"))
    res["checks"] = {}
    for p in props:
        env = dict(os.environ, VERIF_REPO=wt, VERIF_NPROC=os.environ.get("VERIF_NPROC", "8"))
        r = subprocess.run(f"./check {p}", shell=True, cwd=HOME, env=env, stdout=subprocess.PIPE, stderr=subprocess.STDOUT, text=True)
        lines = [l for l in r.stdout.splitlines() if l.startswith(("VIOLATION", "["))][-4:]
        item = {"rc": r.returncode, "lines": lines}
        for l in lines:
            if l.startswith("VIOLATION") and "replay=" in l:
                rp = l.split("replay=")[1].split()[0]
                try:
                    d = json.load(open(rp)); item["replay_kind"] = d.get("kind"); item["what"] = str(d.get("what"))[:300]
                    item["replay_case"] = json.dumps(d.get("case"))[:600]; item["deviations"] = d.get("deviations")
                except Exception: pass
        res["checks"][p] = item
    res["benign_confirmed"] = res["apply_rc"] == 0 and res["transcripts_identical"] and res["suite_ok"]
    res["alarm"] = any(v["rc"] != 0 for v in res["checks"].values())
finally:
    sh(f"git -C /repo worktree remove --force {wt}")
    shutil.rmtree(wt, ignore_errors=True)
print(json.dumps(res, indent=1))
