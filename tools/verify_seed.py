#!/usr/bin/env python3
"""verify_seed.py <prop> <patch.diff> <demo.py> [--keep DIR]
Confirms a seeded change in a scratch worktree of /repo (never in /repo itself):
 demo passes on the clean tree, fails with the patch; the pinned suite's stable_pass tests all
 still pass with the patch; then runs ./check <prop> against the patched worktree.
Prints a JSON summary."""
import json, os, shutil, subprocess, sys, tempfile, xml.etree.ElementTree as ET
HOME = os.path.dirname(os.path.dirname(os.path.abspath(__file__)))

prop, patch, demo = sys.argv[1:4]
# some seeds were written against a tree that a later fix: commit has since changed at the very
# lines they touch; those are verified on their recorded base commit (seeded/bases.json)
BASES = {}
try:
    BASES = json.load(open(os.path.join(HOME, 'seeded', 'bases.json')))
except Exception:
    pass
_key = os.path.basename(os.path.dirname(patch)).replace('-out', '') + '/' + ''.join(ch for ch in os.path.basename(patch) if ch.isdigit())
BASE = BASES.get(_key, 'HEAD')
wt = tempfile.mkdtemp(prefix=f"seedcheck-{prop}-", dir="/tmp")
os.rmdir(wt)
def sh(cmd, **kw):
    return subprocess.run(cmd, shell=True, stdout=subprocess.PIPE, stderr=subprocess.STDOUT, text=True, **kw)
res = {"property": prop, "patch": patch}
try:
    r = sh(f"git -C /repo worktree add -q --detach {wt} {BASE}")
    res["base"] = BASE
    assert r.returncode == 0, r.stdout
    shutil.copy(demo, os.path.join(wt, "_demo.py"))
    r = sh("/venv/bin/python _demo.py", cwd=wt); res["demo_clean_rc"] = r.returncode
    r = sh(f"git apply {patch}", cwd=wt); res["apply_rc"] = r.returncode
    if r.returncode: res["apply_out"] = r.stdout[-500:]
    r = sh("/venv/bin/python _demo.py", cwd=wt); res["demo_patched_rc"] = r.returncode; res["demo_patched_tail"] = r.stdout[-300:]
    base = json.load(open('/root/.vp/BASELINE.json'))
    out = os.path.join(wt, "_junit.xml")
    cmd = base['cmd'].replace('cd /repo', f'cd {wt}').replace('<file>', out)
    r = sh(cmd)
    passed = set()
    for tc in ET.parse(out).getroot().iter('testcase'):
        if not any(ch.tag in ('failure', 'error', 'skipped') for ch in tc):
            passed.add(f"{tc.get('classname')}::{tc.get('name')}")
    missing = [t for t in base['stable_pass'] if t not in passed]
    res["suite_missing"] = missing[:10]; res["suite_ok"] = not missing
    os.remove(out); os.remove(os.path.join(wt, "_demo.py"))
    env = dict(os.environ, VERIF_REPO=wt, VERIF_NPROC=os.environ.get("VERIF_NPROC", "8"))
    r = subprocess.run(f"./check {prop}", shell=True, cwd=HOME, env=env, stdout=subprocess.PIPE, stderr=subprocess.STDOUT, text=True)
    res["check_rc"] = r.returncode
    res["check_lines"] = [l for l in r.stdout.splitlines() if l.startswith(("VIOLATION", "KNOWN-FINDING", "["))][-6:]
    for l in res["check_lines"]:
        if l.startswith("VIOLATION") and "replay=" in l:
            rp = l.split("replay=")[1].split()[0]
            try:
                d = json.load(open(rp)); res["replay_kind"] = d.get("kind"); res["replay_case"] = json.dumps(d.get("case"))[:600]
            except Exception: pass
    res["confirmed_seed"] = res["demo_clean_rc"] == 0 and res["demo_patched_rc"] != 0 and res["suite_ok"] and res["apply_rc"] == 0
    res["caught"] = res["check_rc"] == 1 and any(l.startswith("VIOLATION") for l in res["check_lines"])
finally:
    sh(f"git -C /repo worktree remove --force {wt}")
    shutil.rmtree(wt, ignore_errors=True)
print(json.dumps(res, indent=1))
