#!/usr/bin/env python3
"""Collect the verification results of the seeded changes (build/seedres/*.json), copy the confirmed
ones into /verif/seeded/<id>/ and write seeded/README.md."""
import json, os, shutil, sys, glob
V = '/verif'
SRCS = sys.argv[1:] if len(sys.argv) > 1 else ['/tmp/mut']
rows = []
def _key(f):
    pid, k = os.path.basename(f)[:-5].split('-')
    return (pid, int(k) if k.isdigit() else 0)
for f in sorted(glob.glob(f'{V}/build/seedres/*.json'), key=_key):
    name = os.path.basename(f)[:-5]
    pid, k = name.split('-')
    t = open(f).read()
    try:
        d = json.loads(t[t.index('{'):])
    except Exception:
        rows.append((pid, k, None, None)); continue
    meta = {}
    src = None
    for cand in SRCS:
        if os.path.exists(f'{cand}/{pid}-out/patch{k}.diff'):
            src = cand; break
    mp = f'{src}/{pid}-out/meta{k}.json' if src else f'{V}/seeded/{pid}/meta{k}.json'
    if os.path.exists(mp):
        try: meta = json.load(open(mp))
        except Exception: meta = {}
    if 'summary' not in meta and 'breaks' in meta:
        meta['summary'] = meta['breaks']
    rows.append((pid, k, d, meta))
    if d.get('confirmed_seed') and src:
        dst = f'{V}/seeded/{pid}'
        os.makedirs(dst, exist_ok=True)
        shutil.copy(f'{src}/{pid}-out/patch{k}.diff', f'{dst}/patch{k}.diff')
        shutil.copy(f'{src}/{pid}-out/demo{k}.py', f'{dst}/demo{k}.py')
        m = {"property": pid, "breaks": meta.get("summary", ""), "needs_to_manifest": meta.get("needs_to_manifest", ""),
             "files": meta.get("files", []),
             "confirmed_by": "tools/verify_seed.py in a scratch git worktree of /repo: demo exits 0 on the clean tree, non-zero with the patch; all 972 stable_pass tests of the pinned suite still pass with the patch",
             "check_verdict": {"cmd": f"VERIF_REPO=<scratch worktree> ./check {pid}", "exit": d.get("check_rc"), "caught": d.get("caught"),
                               "kind": d.get("replay_kind"), "lines": d.get("check_lines"), "minimal_case": d.get("replay_case")}}
        json.dump(m, open(f'{dst}/meta{k}.json', 'w'), indent=1)
cross = {}
cp = f'{V}/seeded/cross_checks.json'
if os.path.exists(cp):
    cross = json.load(open(cp))
with open(f'{V}/seeded/README.md', 'w') as out:
    out.write("# Seeded changes\n\nWritten by independent sub-agents that saw only the property text and a scratch worktree of /repo "
              "(nothing from /verif).  Each change compiles, keeps all 972 stable tests of the pinned suite green, and comes with a "
              "demonstration that fails with the change and passes without it (confirmed by `tools/verify_seed.py`).  "
              "Verdict = `./check <id>` (quick tier) run against a scratch worktree with the patch applied.\n\n"
              "| seed | change (what it needs to manifest) | confirmed | caught by ./check | verdict kind |\n|---|---|---|---|---|\n")
    for pid, k, d, meta in rows:
        if d is None:
            out.write(f"| {pid}/{k} | (verification did not finish) | ? | ? | |\n"); continue
        desc = (meta.get("summary", "") + " — needs: " + meta.get("needs_to_manifest", "")).replace("|", "/").replace("\n", " ")[:420]
        caught = 'yes' if d.get('caught') else ('no; ' + cross[f"{pid}/{k}"] if f"{pid}/{k}" in cross else 'NO')
        out.write(f"| {pid}/{k} | {desc} | {'yes' if d.get('confirmed_seed') else 'NO'} | {caught} | {d.get('replay_kind') or ''} |\n")
n_conf = sum(1 for r in rows if r[2] and r[2].get('confirmed_seed'))
n_caught = sum(1 for r in rows if r[2] and r[2].get('confirmed_seed') and r[2].get('caught'))
print(f"seeds: {len(rows)} verified, {n_conf} confirmed, {n_caught} caught")
for pid, k, d, meta in rows:
    if d and d.get('confirmed_seed') and not d.get('caught'):
        print("MISSED", pid, k, meta.get('summary', '')[:200])
    if d and not d.get('confirmed_seed'):
        print("UNCONFIRMED", pid, k, {x: d.get(x) for x in ('demo_clean_rc', 'demo_patched_rc', 'suite_ok', 'apply_rc')})
