#!/bin/bash
# Independent re-check of every compiled property file (and everything it depends on) with coqchk;
# prints the axiom summary.  Takes ~1-2 min; run after tools/setup.sh.
cd "$(dirname "$0")/../coq"
mods=$(ls theories/Props/*.v | sed 's#theories/Props/#BT.Props.#; s#\.v$##' | tr '\n' ' ')
timeout 7200 coqchk -o -silent -Q theories BT $mods
