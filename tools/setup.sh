#!/bin/bash
# Build the whole Coq development from files on disk (full .vo build), then the proof-hygiene gate.
set -e
HERE="$(cd "$(dirname "$0")/.." && pwd)"
cd "$HERE/coq"
find theories -name '*.v' | sort > /tmp/.bt_vfiles.$$
coq_makefile -f _CoqProject -o Makefile $(cat /tmp/.bt_vfiles.$$) > /dev/null
rm -f /tmp/.bt_vfiles.$$ .Makefile.d
mkdir -p "$HERE/build"
timeout 3000 make -j16 > $HERE/build/setup_make.log 2>&1 || { tail -30 $HERE/build/setup_make.log; exit 1; }
# hygiene gate: nothing admitted, no axioms declared, no checks switched off
if grep -rnE '\bAdmitted\b|\badmit\b|^\s*(Axiom|Parameter|Conjecture)\b|Unset Guard|bypass_check|type-in-type|Admit Obligations' theories --include='*.v'; then
  echo "hygiene gate failed"; exit 1
fi
echo "coq build ok: $(find theories -name '*.vo' | wc -l) files"
