"""Run an engine function in a persistent child interpreter started with
BIGTREE_CONF_ASSERTIONS="" (the documented way to switch the checks off; see docs/others/remove_checks.md).
One child per worker process; requests and replies are JSON lines."""
import json
import os
import subprocess
import sys

VERIF = os.path.dirname(os.path.dirname(os.path.abspath(__file__)))
REPO = os.environ.get("VERIF_REPO", "/repo")
_child = {}
_seq = [0]


def _die_with_parent():
    """the child must not outlive the worker that started it (PR_SET_PDEATHSIG = 1, SIGKILL = 9)"""
    try:
        import ctypes
        ctypes.CDLL("libc.so.6", use_errno=True).prctl(1, 9)
    except Exception:
        pass


def call(engine_mod: str, func: str, *args):
    ch = _child.get(engine_mod)
    if ch is None or ch.poll() is not None:
        env = dict(os.environ, BIGTREE_CONF_ASSERTIONS="", PYTHONHASHSEED="0",
                   PYTHONPATH=REPO + os.pathsep + VERIF, MPLBACKEND="Agg")
        ch = subprocess.Popen([sys.executable, "-m", "harness.noassert", engine_mod],
                              stdin=subprocess.PIPE, stdout=subprocess.PIPE, stderr=subprocess.DEVNULL,
                              text=True, env=env, cwd=VERIF, preexec_fn=_die_with_parent)
        _child[engine_mod] = ch
    _seq[0] += 1
    rid = _seq[0]
    try:
        ch.stdin.write(json.dumps([rid, func, list(args)]) + "\n")
        ch.stdin.flush()
        line = ch.stdout.readline()
        if not line:
            raise RuntimeError("no-assertion child died")
        rep = json.loads(line)
        if rep.get("id") != rid:
            raise RuntimeError("no-assertion child: reply out of sequence")
    except BaseException:
        # never leave a half-finished exchange behind (e.g. the per-case alarm fired): restart the child
        try:
            ch.kill()
        finally:
            _child.pop(engine_mod, None)
        raise
    if "error" in rep:
        raise RuntimeError("no-assertion child: " + rep["error"])
    return rep["ok"]


def _main():
    import importlib
    import traceback
    real_stdout = sys.stdout
    sys.stdout = sys.stderr           # nothing but replies on the pipe
    from bigtree.globals import ASSERTIONS
    eng = importlib.import_module(sys.argv[1])
    import signal

    def _watchdog(signum, frame):      # a request that loops for ever must not leave a spinning orphan
        os._exit(3)

    signal.signal(signal.SIGALRM, _watchdog)
    limit = int(os.environ.get("VERIF_CASE_TIMEOUT", "30")) + 5
    for line in sys.stdin:
        rid, func, args = json.loads(line)
        signal.alarm(limit)
        try:
            if func == "__assertions__":
                rep = {"ok": bool(ASSERTIONS)}
            else:
                rep = {"ok": getattr(eng, func)(*args)}
        except BaseException as e:  # noqa
            rep = {"error": "".join(traceback.format_exception_only(type(e), e)).strip()[:300]}
        signal.alarm(0)
        rep["id"] = rid
        real_stdout.write(json.dumps(rep, default=str) + "\n")
        real_stdout.flush()


if __name__ == "__main__":
    _main()
