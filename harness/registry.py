"""Which engines decide which property: every module in harness/engines declares SERVES = [ids]."""
import importlib
import os

_ORDER = {}
ENGINES = {}
BROKEN = {}
_dir = os.path.join(os.path.dirname(os.path.abspath(__file__)), "engines")
for _f in sorted(os.listdir(_dir)):
    if _f.endswith(".py") and not _f.startswith("_"):
        _m = "harness.engines." + _f[:-3]
        try:
            _mod = importlib.import_module(_m)
        except Exception as e:  # an engine under construction must not break the others ...
            print(f"[registry] engine {_m} not loadable: {e!r}")
            # ... but a check that should use it must not quietly run without it
            import re as _re
            _t = open(os.path.join(_dir, _f)).read()
            _s = _re.search(r"^SERVES\s*=\s*\[(.*?)\]", _t, _re.S | _re.M)
            for _p in _re.findall(r"C\d\d", _s.group(1)) if _s else []:
                BROKEN.setdefault(_p, []).append((_m, repr(e)))
            continue
        for _p in getattr(_mod, "SERVES", []):
            ENGINES.setdefault(_p, []).append(_m)
