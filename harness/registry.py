"""Which engines decide which property: every module in harness/engines declares SERVES = [ids]."""
import importlib
import os

_ORDER = {}
ENGINES = {}
_dir = os.path.join(os.path.dirname(os.path.abspath(__file__)), "engines")
for _f in sorted(os.listdir(_dir)):
    if _f.endswith(".py") and not _f.startswith("_"):
        _m = "harness.engines." + _f[:-3]
        try:
            _mod = importlib.import_module(_m)
        except Exception as e:  # an engine under construction must not break the others
            print(f"[registry] engine {_m} not loadable: {e!r}")
            continue
        for _p in getattr(_mod, "SERVES", []):
            ENGINES.setdefault(_p, []).append(_m)
