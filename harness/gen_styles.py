"""Translator tie for the glyph tables of C18 (engine `render`).

Reads `bigtree/utils/constants.py` of the repository under check WITHOUT importing it (Python `ast`), evaluates
the string constants of `ExportConstants` and its two dictionaries PRINT_STYLES / HPRINT_STYLES with a tiny
evaluator (string literals, names of earlier constants, f-strings made of those, tuples, dict literals with
literal keys), checks the field / __iter__ order of the two style dataclasses and the exported style objects, and
emits

  GenStyles.v       the tables as Coq values (code-point lists), regenerated on every run, never stored in coq/theories
  GenStylesCheck.v  a finite check by vm_compute: (a) every generated icon equals the icon in the model's table
                    (Algo/Render.v, Algo/HRender.v, through Corr.RenderCorr.vstyle_of / hstyle_of), (b) the generated
                    styles satisfy the guards the theorems assume (vstyle_ok, vstyle_distinct, hs_branch <> 32,
                    hglyphs_distinct where the text-only decoder is used, box_norm onto the light icons for the four
                    box-drawing styles).

Fail-closed: anything the evaluator does not understand in what it needs is an error, reported as a deviation.
"""
import ast
import os
import re
import shutil
import subprocess
import tempfile

VKEYS = ["ansi", "ascii", "const", "const_bold", "rounded", "double"]          # index = VBuiltin / HBuiltin i
VFIELDS = ["stem", "branch", "stem_final"]
HFIELDS = ["first_child", "subsequent_child", "split_branch", "middle_child", "last_child", "stem", "branch"]
VOBJECTS = {"ANSIPrintStyle": "ansi", "ASCIIPrintStyle": "ascii", "ConstPrintStyle": "const",
            "ConstBoldPrintStyle": "const_bold", "RoundedPrintStyle": "rounded", "DoublePrintStyle": "double"}
HOBJECTS = {"ANSIHPrintStyle": "ansi", "ASCIIHPrintStyle": "ascii", "ConstHPrintStyle": "const",
            "ConstBoldHPrintStyle": "const_bold", "RoundedHPrintStyle": "rounded", "DoubleHPrintStyle": "double"}
BOX = ["const", "const_bold", "rounded", "double"]
HDISTINCT = ["ansi", "const", "const_bold", "rounded", "double"]


class GenError(Exception):
    pass


def _ev(node, env):
    if isinstance(node, ast.Constant) and isinstance(node.value, str):
        return node.value
    if isinstance(node, ast.Name):
        if node.id not in env:
            raise GenError(f"name {node.id} is not a string constant defined earlier in ExportConstants")
        return env[node.id]
    if isinstance(node, ast.JoinedStr):
        out = ""
        for part in node.values:
            if isinstance(part, ast.Constant) and isinstance(part.value, str):
                out += part.value
            elif isinstance(part, ast.FormattedValue) and part.conversion == -1 and part.format_spec is None:
                v = _ev(part.value, env)
                if not isinstance(v, str):
                    raise GenError("f-string part is not a string")
                out += v
            else:
                raise GenError("f-string with a conversion or format specification")
        return out
    if isinstance(node, ast.Tuple):
        return tuple(_ev(e, env) for e in node.elts)
    if isinstance(node, ast.Dict):
        d = {}
        for k, v in zip(node.keys, node.values):
            if not (isinstance(k, ast.Constant) and isinstance(k.value, str)):
                raise GenError("dictionary key is not a string literal")
            if k.value in d:
                raise GenError(f"dictionary key {k.value!r} given twice")
            d[k.value] = _ev(v, env)
        return d
    raise GenError(f"expression of kind {type(node).__name__} at line {getattr(node, 'lineno', '?')} not understood")


def _class(tree, name):
    found = [n for n in tree.body if isinstance(n, ast.ClassDef) and n.name == name]
    if len(found) != 1:
        raise GenError(f"class {name} not found exactly once")
    return found[0]


def _dataclass_order(cls):
    """field order of the dataclass and the order __iter__ yields"""
    fields = [s.target.id for s in cls.body if isinstance(s, ast.AnnAssign) and isinstance(s.target, ast.Name)]
    it = [s for s in cls.body if isinstance(s, ast.FunctionDef) and s.name == "__iter__"]
    if len(it) != 1:
        raise GenError(f"{cls.name}.__iter__ not found")
    rets = [s for s in ast.walk(it[0]) if isinstance(s, ast.Return)]
    if len(rets) != 1:
        raise GenError(f"{cls.name}.__iter__ has not exactly one return")
    call = rets[0].value
    if not (isinstance(call, ast.Call) and isinstance(call.func, ast.Name) and call.func.id == "iter"
            and len(call.args) == 1 and isinstance(call.args[0], ast.Tuple)):
        raise GenError(f"{cls.name}.__iter__ does not return iter((...))")
    order = []
    for e in call.args[0].elts:
        if not (isinstance(e, ast.Attribute) and isinstance(e.value, ast.Name) and e.value.id == "self"):
            raise GenError(f"{cls.name}.__iter__ yields something that is not self.<field>")
        order.append(e.attr)
    return fields, order


def read_tables(repo):
    path = os.path.join(repo, "bigtree", "utils", "constants.py")
    tree = ast.parse(open(path, encoding="utf-8").read(), filename=path)
    env = {}
    tables = {}
    for stmt in _class(tree, "ExportConstants").body:
        if isinstance(stmt, ast.Assign) and len(stmt.targets) == 1 and isinstance(stmt.targets[0], ast.Name):
            name, value = stmt.targets[0].id, stmt.value
        elif isinstance(stmt, ast.AnnAssign) and isinstance(stmt.target, ast.Name) and stmt.value is not None:
            name, value = stmt.target.id, stmt.value
        elif isinstance(stmt, ast.Expr) and isinstance(stmt.value, ast.Constant):
            continue                                     # docstring
        elif isinstance(stmt, ast.Pass):
            continue
        else:
            raise GenError(f"statement of kind {type(stmt).__name__} at line {stmt.lineno} in ExportConstants")
        if name in ("PRINT_STYLES", "HPRINT_STYLES"):
            tables[name] = _ev(value, env)               # must be understood completely
            continue
        try:
            v = _ev(value, env)
        except GenError:
            continue                                     # something else; an error only if a table refers to it
        if isinstance(v, str):
            env[name] = v
    for t, n in (("PRINT_STYLES", 3), ("HPRINT_STYLES", 7)):
        if t not in tables or not isinstance(tables[t], dict):
            raise GenError(f"{t} is not a dictionary literal in ExportConstants")
        if list(tables[t]) != VKEYS:
            raise GenError(f"{t} has the styles {list(tables[t])}, the model has {VKEYS}")
        for k, v in tables[t].items():
            if not (isinstance(v, tuple) and len(v) == n and all(isinstance(x, str) for x in v)):
                raise GenError(f"{t}[{k!r}] is not a tuple of {n} strings")
    # dataclasses: the order in which a style object is unpacked
    devs = []
    for cname, want in (("BasePrintStyle", VFIELDS), ("BaseHPrintStyle", HFIELDS)):
        fields, order = _dataclass_order(_class(tree, cname))
        if fields != want:
            devs.append(f"{cname}: fields are {fields}, the model assumes {want}")
        if order != want:
            devs.append(f"{cname}.__iter__ yields {order}, the model assumes {want}")
    # exported style objects: X = Base[H]PrintStyle(*ExportConstants.[H]PRINT_STYLES["key"])
    seen = {}
    for stmt in tree.body:
        if isinstance(stmt, ast.Assign) and len(stmt.targets) == 1 and isinstance(stmt.targets[0], ast.Name):
            name = stmt.targets[0].id
            if name in VOBJECTS or name in HOBJECTS:
                v = stmt.value
                ok = (isinstance(v, ast.Call) and isinstance(v.func, ast.Name) and len(v.args) == 1 and not v.keywords
                      and isinstance(v.args[0], ast.Starred) and isinstance(v.args[0].value, ast.Subscript))
                if ok:
                    sub = v.args[0].value
                    key = sub.slice if isinstance(sub.slice, ast.Constant) else getattr(sub.slice, "value", None)
                    base = sub.value
                    ok = (isinstance(key, ast.Constant) and isinstance(base, ast.Attribute)
                          and isinstance(base.value, ast.Name) and base.value.id == "ExportConstants")
                if not ok:
                    raise GenError(f"exported style object {name} is not Base..Style(*ExportConstants.TABLE[key])")
                seen[name] = (v.func.id, base.attr, key.value)
    for table, objs, cls, tab in ((VOBJECTS, "vertical", "BasePrintStyle", "PRINT_STYLES"),
                                  (HOBJECTS, "horizontal", "BaseHPrintStyle", "HPRINT_STYLES")):
        for name, key in table.items():
            if name not in seen:
                devs.append(f"exported style object {name} is missing")
            elif seen[name] != (cls, tab, key):
                devs.append(f"exported style object {name} is {seen[name][0]}(*{seen[name][1]}[{seen[name][2]!r}]), "
                            f"the harness and the model take it for {cls}(*{tab}[{key!r}])")
    return tables, devs


def _cs(s):
    return "[" + "; ".join(str(ord(c)) for c in s) + "]%N"


def emit(tables):
    """(GenStyles.v, GenStylesCheck.v, names of the obligations in the order of the check list)"""
    gen = ["(* GENERATED by harness/gen_styles.py from bigtree/utils/constants.py of the repository under check. *)",
           "From BT Require Import Base.Prelude.", ""]
    checks, names = [], []
    for i, key in enumerate(VKEYS):
        for j, f in enumerate(VFIELDS):
            gen.append(f"Definition gv_{key}_{f} : str := {_cs(tables['PRINT_STYLES'][key][j])}.")
            acc = ["vs_stem", "vs_branch", "vs_final"][j]
            checks.append(f"match vstyle_of (VBuiltin {i}) with Some s => str_eqb ({acc} s) gv_{key}_{f} | None => false end")
            names.append(f"PRINT_STYLES[{key!r}].{f} equals the model's icon")
        gen.append(f"Definition gv_{key} : str * str * str := (gv_{key}_stem, gv_{key}_branch, gv_{key}_stem_final).")
        vs = f"(VS gv_{key}_stem gv_{key}_branch gv_{key}_stem_final)"
        checks.append(f"vstyle_ok {vs}")
        names.append(f"PRINT_STYLES[{key!r}]: the three strings have one length (vstyle_ok)")
        checks.append(f"vstyle_distinct {vs}")
        names.append(f"PRINT_STYLES[{key!r}]: connector differs from stem and blank cell (vstyle_distinct)")
        if key in BOX:
            for f, acc in zip(VFIELDS, ["vs_stem", "vs_branch", "vs_final"]):
                checks.append(f"str_eqb (map box_norm gv_{key}_{f}) ({acc} arm_vstyle)")
                names.append(f"PRINT_STYLES[{key!r}].{f}: box_norm gives the light icon with the same arms")
    for i, key in enumerate(VKEYS):
        for j, f in enumerate(HFIELDS):
            gen.append(f"Definition gh_{key}_{f} : str := {_cs(tables['HPRINT_STYLES'][key][j])}.")
        gen.append(f"Definition gh_{key} : list str := [" + "; ".join(f"gh_{key}_{f}" for f in HFIELDS) + "].")
        accs = ["hs_first", "hs_subseq", "hs_split", "hs_middle", "hs_last", "hs_stem", "hs_branch"]
        for f, acc in zip(HFIELDS, accs):
            checks.append(f"match hstyle_of (HBuiltin {i}) with Some s => str_eqb [{acc} s] gh_{key}_{f} | None => false end")
            names.append(f"HPRINT_STYLES[{key!r}].{f} equals the model's icon")
        checks.append(f"match hstyle_of_list gh_{key} with Some s => negb (N.eqb (hs_branch s) 32%N) | None => false end")
        names.append(f"HPRINT_STYLES[{key!r}]: seven one-character icons, branch icon not a blank")
        if key in HDISTINCT:
            checks.append(f"match hstyle_of_list gh_{key} with Some s => hglyphs_distinct (glyphs_of s) | None => false end")
            names.append(f"HPRINT_STYLES[{key!r}]: first/last-child icons recognisable (hglyphs_distinct)")
        if key in BOX:
            arm = ["g_first", "g_subseq", "g_split", "g_middle", "g_last", "g_stem", "g_branch"]
            for f, a in zip(HFIELDS, arm):
                checks.append(f"str_eqb (map box_norm gh_{key}_{f}) [{a} arm_glyphs]")
                names.append(f"HPRINT_STYLES[{key!r}].{f}: box_norm gives the light icon with the same arms")
    chk = ["(* GENERATED by harness/gen_styles.py: finite check (vm_compute) tying the generated tables to the model. *)",
           "From BT Require Import Base.Prelude Base.Str Base.Rose Algo.Render Algo.HRender Spec.PC18 Corr.RenderCorr.",
           "From Gen Require Import GenStyles.", "",
           "Definition tie_checks : list bool :=", "  [ " + ";\n    ".join(checks) + " ].", "",
           "Eval vm_compute in tie_checks.", "",
           f"(* {len(checks)} obligations over the six styles of each table; a finite check by computation *)",
           "Lemma tie_ok : forallb (fun b : bool => b) tie_checks = true.",
           "Proof. vm_compute. reflexivity. Qed."]
    return "\n".join(gen) + "\n", "\n".join(chk) + "\n", names


def run(repo, verif, keep=None):
    """deviations (list of str).  Empty = the model's tables are the source's tables and the guards hold."""
    try:
        tables, devs = read_tables(repo)
    except (GenError, OSError, SyntaxError) as e:
        return [f"translator could not read the style tables of bigtree/utils/constants.py: {e}"]
    gen, chk, names = emit(tables)
    tmp = tempfile.mkdtemp(prefix="c18tie-", dir=os.path.join(verif, "build"))
    try:
        open(os.path.join(tmp, "GenStyles.v"), "w").write(gen)
        open(os.path.join(tmp, "GenStylesCheck.v"), "w").write(chk)
        log = os.path.join(tmp, "coqc.log")
        for f in ("GenStyles.v", "GenStylesCheck.v"):
            with open(log, "a") as out:
                try:
                    p = subprocess.run(["timeout", "120", "coqc", "-Q", os.path.join(verif, "coq", "theories"), "BT",
                                        "-Q", tmp, "Gen", "-w", "-all", os.path.join(tmp, f)],
                                       cwd=tmp, stdout=out, stderr=subprocess.STDOUT, timeout=150)
                    rc = p.returncode
                except subprocess.TimeoutExpired:
                    rc = 124
            text = open(log).read()
            if f == "GenStylesCheck.v":
                m = re.search(r"=\s*\[(.*?)\]\s*:\s*list bool", text, re.S)
                if m:
                    vals = re.findall(r"true|false", m.group(1))
                    if len(vals) != len(names):
                        devs.append("the check list has an unexpected length")
                    devs += [f"glyph tie: {n}: FALSE" for n, v in zip(names, vals) if v == "false"]
                    if rc != 0 and not any(v == "false" for v in vals):
                        devs.append("GenStylesCheck.v does not compile: " + text[-400:])
                else:
                    devs.append("GenStylesCheck.v does not compile (is the Coq development built?): " + text[-400:])
            elif rc != 0:
                devs.append("GenStyles.v does not compile: " + text[-400:])
                break
        if keep:
            shutil.copytree(tmp, keep, dirs_exist_ok=True)
    finally:
        shutil.rmtree(tmp, ignore_errors=True)
    return devs
