"""Engine `render` (C18): yield_tree / print_tree, hyield_tree, tree_to_dot, tree_to_mermaid on ordered
trees (Node) and on binary trees with empty slots (BinaryNode).

case = {"kind": "v"|"h"|"dot"|"mermaid", "binary": bool,
        "tree": [name, [child | None, ...]]      (None = empty BinaryNode slot; a binary leaf has []);
                an optional third entry {"ns": {k: v}, "es": {k: v}} holds the node's dict-valued attributes
                `ns` (node style) and `es` (edge style) used by tree_to_dot(node_attr=..., edge_attr=...),
        "dot": {"node_colour", "node_shape", "edge_colour": str | None,
                "node_attr", "edge_attr": None | "name" | "callable"}      (dot cases only; optional),
        "start": [child index, ...]              (the node the call starts from; raw slot indices),
        "start_mode": "object"|"path"            (call on the node object / on the root with its path),
        "max_depth": int (0 = no limit), "sep": str,
        "style": {"t": "name"|"object"|"list"|"tuple"|"custom_object", "v": name | [icons]},
        "inter": bool (hyield_tree intermediate_node_name), "stratum": str}
obs = v:       {"out": [[pre, fill, name], ...] | None, "printed": [line, ...]}
      h:       {"out": [row, ...] | None}
      dot:     {"nodes": [[id, label], ...], "edges": [[src, dst], ...],   (creation order, read from pydot)
                "vattrs": [[[k, v], ...] per vertex], "eattrs": [[[k, v], ...] per edge]}   (sorted items)
      mermaid: {"lines": [flow line, ...], "flows": [[from_ref, from_label | None, to_ref, to_label], ...]}
"""
import io
import json
import os
import re

from ..core import cbool, clist, copt, cpair, cstr
from ._base import *  # noqa
from ._base import COMMON_TB

SERVES = ["C18"]
COQ_TARGETS = ["theories/Corr/RenderCorr.vo"]
CASES_PER_FILE = 120

VSTYLES = ["ansi", "ascii", "const", "const_bold", "rounded", "double"]
VOBJECTS = ["ANSIPrintStyle", "ASCIIPrintStyle", "ConstPrintStyle", "ConstBoldPrintStyle",
            "RoundedPrintStyle", "DoublePrintStyle"]
HOBJECTS = ["ANSIHPrintStyle", "ASCIIHPrintStyle", "ConstHPrintStyle", "ConstBoldHPrintStyle",
            "RoundedHPrintStyle", "DoubleHPrintStyle"]


def coq_header(prop):
    return ("From BT Require Import Base.Prelude Base.Str Base.Rose Algo.Render Algo.HRender Algo.Dot "
            "Spec.PC18 Corr.RenderCorr.")


def coq_case_type(prop):
    return "rcase"


def coq_check(prop):
    return "check_C18"


# ---------------------------------------------------------------------------------------------
# pure tree helpers


def tnodes(t, pos=()):
    """pre-order list of (position, subtree) over existing nodes"""
    out = [(pos, t)]
    for i, k in enumerate(t[1]):
        if k is not None:
            out.extend(tnodes(k, pos + (i,)))
    return out


def tsize(t):
    return len(tnodes(t))


def subtree(t, pos):
    for i in pos:
        t = t[1][i]
    return t


def path_names(t, sep):
    out = {}

    def go(x, pos, prefix):
        p = prefix + sep + x[0]
        out[pos] = p
        for i, k in enumerate(x[1]):
            if k is not None:
                go(k, pos + (i,), p)
    go(t, (), "")
    return out


def cut(t, max_depth):
    """what get_subtree leaves of t (max_depth >= 1)"""
    if max_depth == 1:
        return [t[0], []] + t[2:]
    return [t[0], [None if k is None else cut(k, max_depth - 1) for k in t[1]]] + t[2:]


# ---------------------------------------------------------------------------------------------
# implementation side


_EQ_CLASSES = {}


def _classes(kind):
    """Node / BinaryNode, or user subclasses with value semantics: equal and hashed by name, so that distinct
    nodes of different branches compare equal (the library has to work on identity)"""
    from bigtree.node.binarynode import BinaryNode
    from bigtree.node.node import Node
    if kind != "eq":
        return Node, BinaryNode
    if not _EQ_CLASSES:
        class EqNode(Node):
            def __eq__(self, other):
                return isinstance(other, Node) and self.node_name == other.node_name

            def __hash__(self):
                return hash(self.node_name)

        class EqBinaryNode(BinaryNode):
            def __eq__(self, other):
                return isinstance(other, Node) and self.node_name == other.node_name

            def __hash__(self):
                return hash(self.node_name)
        _EQ_CLASSES.update(n=EqNode, b=EqBinaryNode)
    return _EQ_CLASSES["n"], _EQ_CLASSES["b"]


def _build(t, binary, sep, root=True, cls="plain"):
    Node, BinaryNode = _classes(cls)

    sty = t[2] if len(t) > 2 else {}
    extra = dict(sty.get("at", {}))
    for k in ("ns", "es"):
        if k in sty:
            extra[k] = dict(sty[k])
    if binary:
        kids = [None if k is None else _build(k, True, sep, False, cls) for k in t[1]]
        while len(kids) < 2:
            kids.append(None)
        n = BinaryNode(t[0], left=kids[0], right=kids[1], **extra)
    else:
        n = Node(t[0], children=[_build(k, False, sep, False, cls) for k in t[1]], **extra)
    if root:
        n.sep = sep
    return n


def _locate(root, pos):
    n = root
    for i in pos:
        n = n.children[i]
    return n


def _vstyle(st):
    from bigtree.utils import constants
    if st["t"] == "name":
        return st["v"]
    if st["t"] == "object":
        return getattr(constants, VOBJECTS[VSTYLES.index(st["v"])])
    if st["t"] == "list":
        return list(st["v"])
    if st["t"] == "tuple":
        return tuple(st["v"])
    return constants.BasePrintStyle(*st["v"])


def _hstyle(st):
    from bigtree.utils import constants
    if st["t"] == "name":
        return st["v"]
    if st["t"] == "object":
        return getattr(constants, HOBJECTS[VSTYLES.index(st["v"])])
    if st["t"] == "list":
        return list(st["v"])
    if st["t"] == "tuple":
        return tuple(st["v"])
    return constants.BaseHPrintStyle(*st["v"])


_REF = r'\d+(?:-\d+)*'
_OPEN, _CLOSE = r'[\(\[\{>/\\]+', r'[\)\]\}/\\]+'
# labels are written unescaped: the source's label is matched lazily, the destination's greedily
_FLOW = re.compile(rf'^({_REF})(?:{_OPEN}"(.*?)"{_CLOSE})?(?::::class[\d-]+)? (\S+?)(?:\|([^|]*)\|)? '
                   rf'({_REF}){_OPEN}"(.*)"{_CLOSE}(?::::class[\d-]+)?$', re.S)


def _snapshot(roots):
    """structure, classes and public attributes of every node reachable from the given roots"""
    out = []
    for r in roots:
        nodes = []

        def walk(n):
            nodes.append(n)
            for c in n.children:
                if c is not None:
                    walk(c)
        walk(r.root)
        idx = {id(n): i for i, n in enumerate(nodes)}
        for n in nodes:
            out.append((type(n).__name__, n.node_name, n.sep, None if n.parent is None else idx[id(n.parent)],
                        [None if c is None else idx[id(c)] for c in n.children],
                        repr(n.describe(exclude_prefix="_"))))
    return out


def _lines_of(text):
    return text[:-1].split("\n") if text.endswith("\n") else text.split("\n")


def cache_orig(case, key):
    if key == "style":
        return case["style"]["v"]
    return (case.get("po") or {}).get(key)


def _observe(case, root, start, more, cache):
    from bigtree.tree import export

    kind = case["kind"]
    kw = {}
    if kind in ("v", "h", "mermaid"):
        if case["start_mode"] == "path":
            # tree_to_mermaid searches its clone, and clone_tree does not carry the separator over
            path = "/" + "/".join(n.node_name for n in start.node_path) if kind == "mermaid" else start.path_name
            target, kw = root, {"node_name_or_path": path}
        else:
            target = start
        if case["max_depth"] or case.get("explicit_defaults"):
            kw["max_depth"] = case["max_depth"]
    if kind == "v":
        style = cache.setdefault("style", _vstyle(case["style"]))
        try:
            out = [[p, f, n.node_name] for p, f, n in export.yield_tree(target, style=style, **kw)]
        except Exception:
            return {"out": None, "printed": None}
        po = dict(case.get("po") or {})
        for key in ("attr_list", "attr_bracket"):
            if key in po:
                po[key] = cache.setdefault(key, list(po[key]))
        buf = io.StringIO()
        try:
            export.print_tree(target, style=style, file=buf, **kw, **po)
        except ValueError:
            return {"out": out, "printed": None}
        printed = _lines_of(buf.getvalue())
        if target is start:
            buf2 = io.StringIO()
            start.show(style=style, file=buf2, **kw, **po)           # Node.show = print_tree(self, ...)
            if buf2.getvalue() != buf.getvalue():
                raise AssertionError("Node.show() and print_tree() print different text")
        return {"out": out, "printed": printed}
    if kind == "h":
        style = cache.setdefault("style", _hstyle(case["style"]))
        hkw = dict(kw)
        if not case["inter"] or case.get("explicit_defaults"):
            hkw["intermediate_node_name"] = case["inter"]
        try:
            out = list(export.hyield_tree(target, style=style, **hkw))
        except Exception:
            return {"out": None}
        buf = io.StringIO()
        export.hprint_tree(target, style=style, file=buf, **hkw)
        if buf.getvalue() != "\n".join(out) + "\n":
            raise AssertionError("hprint_tree() does not print the rows of hyield_tree()")
        if target is start:
            buf2 = io.StringIO()
            start.hshow(style=style, file=buf2, **hkw)
            if buf2.getvalue() != buf.getvalue():
                raise AssertionError("Node.hshow() and hprint_tree() print different text")
        return {"out": out}
    if kind == "dot":
        o = case.get("dot") or {}
        kw = {}
        for key in ("node_colour", "node_shape", "edge_colour", "rankdir", "bg_colour", "directed"):
            if o.get(key) is not None:
                kw[key] = o[key]
        for key, attr in (("node_attr", "ns"), ("edge_attr", "es")):
            if o.get(key) == "name":
                kw[key] = attr
            elif o.get(key) == "callable":
                kw[key] = (lambda a: (lambda nd: dict(nd.get_attr(a) or {})))(attr)
        g = export.tree_to_dot([root] + more if more else start, **kw)
        if g.get_type() != ("graph" if o.get("directed") is False else "digraph"):
            raise AssertionError("graph type does not follow `directed`")
        nodes = sorted(g.get_nodes(), key=lambda x: x.get_sequence())
        edges = sorted(g.get_edges(), key=lambda x: x.get_sequence())

        def items(x):
            return sorted([str(k), str(v)] for k, v in x.get_attributes().items())
        return {"nodes": [[str(x.get_name()), str(x.get("label"))] for x in nodes],
                "edges": [[str(e.get_source()), str(e.get_destination())] for e in edges],
                "vattrs": [items(x) for x in nodes], "eattrs": [items(e) for e in edges]}
    if kind == "mermaid":
        o = case.get("mm") or {}
        mkw = dict(kw)
        for key in ("title", "rankdir", "line_shape", "node_colour", "node_border_colour", "node_border_width",
                    "node_shape", "edge_arrow"):
            if o.get(key) is not None:
                mkw[key] = o[key]
        for key, attr in (("node_shape_attr", "shape"), ("edge_arrow_attr", "arrow"), ("node_attr", "sty")):
            default = {"shape": o.get("node_shape") or "rounded_edge", "arrow": o.get("edge_arrow") or "normal",
                       "sty": ""}[attr]
            if o.get(key) == "name":
                mkw[key] = attr
            elif o.get(key) == "callable":
                mkw[key] = (lambda a, d: (lambda nd: nd.get_attr(a) or d))(attr, default)
        if o.get("edge_label"):
            mkw["edge_label"] = "lbl"
        text = export.tree_to_mermaid(target, **mkw)
        lines = text.split("\n")
        a = lines.index("flowchart " + (o.get("rankdir") or "TB"))
        b = min(i for i, l in enumerate(lines) if i > a and l.startswith("classDef default"))
        flow_lines = [l for l in lines[a + 1:b] if l != ""]
        flows = []
        for l in flow_lines:
            m = _FLOW.match(l)
            if not m:
                raise ValueError("flow line not understood: " + l)
            flows.append([m.group(1), m.group(2), m.group(5), m.group(6), m.group(4)])
        return {"lines": flow_lines, "flows": flows}
    raise ValueError(kind)


def run_impl(prop, case):
    cls = case.get("cls", "plain")
    root = _build(case["tree"], case["binary"], case["sep"], True, cls)
    start = _locate(root, case["start"])
    more = [_build(t, False, case["sep"], True, cls) for t in case.get("more", [])]
    before = _snapshot([root] + more)
    cache = {}
    obs = _observe(case, root, start, more, cache)
    if _snapshot([root] + more) != before:
        raise AssertionError("the call changed its input tree (structure, class or attributes of some node)")
    again = _observe(case, root, start, more, cache)          # same style / option objects as the first call
    for key, val in cache.items():
        if isinstance(val, (list, tuple, dict)) and json.loads(json.dumps(val)) != json.loads(json.dumps(cache_orig(case, key))):
            raise AssertionError("the call changed an argument object owned by the caller: " + key)
    if again != obs:
        raise AssertionError("the same call on the same tree gave a different result the second time")
    if _snapshot([root] + more) != before:
        raise AssertionError("the second call changed its input tree")
    return obs


# ---------------------------------------------------------------------------------------------
# Coq literals


def _cval(v):
    if v is None:
        return "VNone"
    if isinstance(v, bool):
        return f"VBool {cbool(v)}"
    if isinstance(v, int):
        return f"VInt ({v})%Z"
    return f"VStr {cstr(v)}"


def _cpo(po):
    if po is None:
        return "None"
    return ("(Some (PO " + cbool(po.get("all_attrs", False)) + " " + clist(cstr(a) for a in po.get("attr_list", []))
            + " " + cbool(po.get("attr_omit_null", False)) + " "
            + clist(cstr(b) for b in po.get("attr_bracket", ["[", "]"])) + "))")


def _cmopts(o):
    o = o or {}
    return (f"(MO {cstr(o.get('node_shape') or 'rounded_edge')} {cbool(o.get('node_shape_attr'))} "
            f"{cstr(o.get('edge_arrow') or 'normal')} {cbool(o.get('edge_arrow_attr'))} "
            f"{cbool(o.get('edge_label'))} {cbool(o.get('node_attr'))})")


def _ctree(t):
    if t is None:
        return "Hole"
    kids = t[1]
    if all(k is None for k in kids):
        kids = []
    sty = t[2] if len(t) > 2 else {}
    attrs = [f"({cstr('n' + k)}, VStr {cstr(v)})" for k, v in sorted(sty.get("ns", {}).items())] \
        + [f"({cstr('e' + k)}, VStr {cstr(v)})" for k, v in sorted(sty.get("es", {}).items())] \
        + [f"({cstr('a' + k)}, {_cval(v)})" for k, v in sorted(sty.get("at", {}).items())]
    if attrs:
        return f"Na {cstr(t[0])} {clist(attrs)} {clist(_ctree(k) for k in kids)}"
    return f"Nd {cstr(t[0])} {clist(_ctree(k) for k in kids)}"


def _cdotopts(o):
    o = o or {}
    return ("(DO " + " ".join(copt(o.get(k), cstr) for k in ("node_colour", "node_shape", "edge_colour"))
            + f" {cbool(o.get('node_attr'))} {cbool(o.get('edge_attr'))})")


def _cdict(d):
    return clist(cpair(cstr(k), cstr(v)) for k, v in d)


def _ctree_top(t):
    return "(" + _ctree(t) + ")"


def _cvsel(st):
    if st["t"] in ("name", "object"):
        return f"(VBuiltin {VSTYLES.index(st['v'])})"
    a, b, c = st["v"]
    return f"(VCustom {cstr(a)} {cstr(b)} {cstr(c)})"


def _chsel(st):
    if st["t"] in ("name", "object"):
        return f"(HBuiltin {VSTYLES.index(st['v'])})"
    return f"(HCustom {clist(cstr(x) for x in st['v'])})"


def _cpos(p):
    return clist(str(int(i)) for i in p)


def emit(prop, case, obs):
    kind = case["kind"]
    t = _ctree_top(case["tree"])
    if kind == "v":
        out = None if obs["out"] is None else clist(f"({cstr(p)}, {cstr(f)}, {cstr(n)})" for p, f, n in obs["out"])
        printed = None if obs["printed"] is None else clist(cstr(l) for l in obs["printed"])
        return (f"CV {t} {cbool(case['binary'])} {_cpos(case['start'])} {int(case['max_depth'])} "
                f"{_cvsel(case['style'])} {_cpo(case.get('po'))} {copt(out)} {copt(printed)}")
    if kind == "h":
        out = None if obs["out"] is None else clist(cstr(l) for l in obs["out"])
        return (f"CH {t} {_cpos(case['start'])} {int(case['max_depth'])} {cbool(case['inter'])} "
                f"{_chsel(case['style'])} {copt(out)}")
    if kind == "dot":
        return (f"CD {t} {clist(_ctree(m) for m in case.get('more', []))} {cstr(case['sep'])} "
                f"{_cdotopts(case.get('dot'))} "
                f"{clist(cpair(cstr(a), cstr(b)) for a, b in obs['nodes'])} "
                f"{clist(cpair(cstr(a), cstr(b)) for a, b in obs['edges'])} "
                f"{clist(_cdict(d) for d in obs['vattrs'])} {clist(_cdict(d) for d in obs['eattrs'])}")
    if kind == "mermaid":
        fl = clist(f"({cstr(a)}, {copt(b, cstr)}, {cstr(c)}, {cstr(d)}, {copt(e, cstr)})"
                   for a, b, c, d, e in obs["flows"])
        pos = case["start"] if case["start_mode"] == "path" else []      # the object's own position is ignored
        return (f"CM {t} {_cpos(pos)} {int(case['max_depth'])} {_cmopts(case.get('mm'))} "
                f"{clist(cstr(l) for l in obs['lines'])} {fl}")
    raise ValueError(kind)


# ---------------------------------------------------------------------------------------------
# generation

NAME_POOLS = {
    "distinct": ["a", "b", "c", "d", "e", "f", "g", "h", "i", "j", "k", "l", "m", "n"],
    "repeated": ["a", "b", "a", "c", "b", "a", "c", "b", "a", "c", "a", "b"],
    "affix": ["a", "xa", "ab", "b", "bc", "a", "abc", "b", "c", "xa", "abcd", "xab"],
    "lengths": ["a", "bbbb", "cc", "ddddddd", "e", "fff", "gggggg", "hh", "iiiii", "j", "kkkkkkkk", "ll"],
    "special": ["a b", "x.y", "(", "+", "a'", "0", "a1", "a", "10", "-", "|", "│", "└──", "été",
                "名", "+-", "a--b", "1", "a0", "|--", "`--", "[x]", "{z}", "#1", "(y)", "a|b", "<p>", "x;y", "%%", 'a"b', '"q"', "a\\b", "-->", "0-1", "a, b"],
    "digits": ["a", "a1", "a", "a0", "b", "b1", "a", "b", "1", "a", "10", "a"],
}
SEPS = ["/", "\\", "-", ".", "|"]
CUSTOM_V = [["|", "+", "`"], ["| ", "|-", "`-"], ["│  ", "├─ ", "└─ "], [".....", "+----", "\\----"],
            [": ", "> ", "* "], ["", "", ""], ["|", "|", "|"], ["  ", "--", "--"]]
BAD_V = [["|  ", "|-", "`-"], ["|", "|-", "`"], ["| ", "|-", "`--"]]
CUSTOM_H = [["/", "+", "<", "#", "\\", "|", "-"], ["1", "2", "3", "4", "5", "6", "7"],
            ["┌", "├", "┤", "┼", "└", "│", "─"], ["a", "b", "c", "d", "e", "f", "g"],
            ["+", "+", "+", "+", "+", "!", "="], ["/", "|", "+", "+", "\\", "|", "-"]]
BAD_H = [["/", "+", "+", "+", "\\", "|", "--"], ["", "+", "+", "+", "\\", "|", "-"]]


def _shape(rng, kind):
    """ordered tree shape as nested lists of children"""
    if kind == "path":
        t = []
        for _ in range(rng.randint(1, 7)):
            t = [t]
        return t
    if kind == "star":
        return [[] for _ in range(rng.randint(2, 9))]
    if kind == "wide":
        n = rng.randint(5, 14)
        maxfan, maxdepth = 8, 3
    elif kind == "deep":
        n = rng.randint(5, 12)
        maxfan, maxdepth = 3, 8
    else:
        n = rng.randint(2, 12)
        maxfan, maxdepth = 4, 6
    root = []
    nodes = [(root, 1)]
    for _ in range(n - 1):
        cands = [(x, d) for x, d in nodes if len(x) < maxfan and d < maxdepth]
        if kind == "deep" and rng.random() < 0.6:
            dm = max(d for _, d in cands)
            cands = [(x, d) for x, d in cands if d == dm]
        x, d = rng.choice(cands)
        k = []
        x.append(k)
        nodes.append((k, d + 1))
    return root


def _bin_shape(rng):
    n = rng.randint(2, 11)
    root = [None, None]
    slots = [(root, 0, 1), (root, 1, 1)]
    for _ in range(n - 1):
        cands = [s for s in slots if s[2] < 7]
        if not cands:
            break
        s = rng.choice(cands)
        slots.remove(s)
        k = [None, None]
        s[0][s[1]] = k
        slots += [(k, 0, s[2] + 1), (k, 1, s[2] + 1)]
    return root


def _name_tree(rng, shape, pool, binary):
    """assign names: siblings distinct, repeats across branches allowed"""
    def go(x, name):
        kids = []
        used = set()
        for k in x:
            if k is None:
                kids.append(None)
                continue
            for _ in range(50):
                nm = rng.choice(pool)
                if nm not in used:
                    break
            else:
                nm = "z%d" % len(used)
                while nm in used:
                    nm += "z"
            used.add(nm)
            kids.append(go(k, nm))
        if binary and all(k is None for k in kids):
            kids = []
        return [name, kids]
    return go(shape, rng.choice(pool))


def _compositions(s):
    """all ways of cutting the string s into non-empty consecutive pieces"""
    if not s:
        return [[]]
    out = []
    for k in range(1, len(s) + 1):
        for rest in _compositions(s[k:]):
            out.append([s[:k]] + rest)
    return out


CONCAT_WORDS = ["abc", "abcb", "aab", "abab", "abcbc", "1121", "a1a", "bcc", "xab", "a0a0"]


def _concat_tree(rng):
    """Repeated leaf/inner names below affix-related ancestor names: several branches whose ancestor
    names are different cuts of one word (r/ab/c/x, r/a/bc/x, r/abc/x, ...), so that the ancestor names
    concatenate identically although the paths differ; depth 3-5; siblings stay distinct (trie)."""
    word = rng.choice(CONCAT_WORDS)
    comps = [c for c in _compositions(word) if len(c) <= 3]
    rng.shuffle(comps)
    chains = comps[: rng.randint(2, min(4, len(comps)))]
    tails = rng.choice([[["x"]], [["x"], ["y"]], [["x", "x"]], [["x", "y"], ["y"]], [["a"]], [[word[-1]]],
                        [["x"], ["x", "x"]]])
    root = [rng.choice(["r", "a", word[0], "x"]), []]

    def insert(node, names):
        for nm in names:
            for k in node[1]:
                if k[0] == nm:
                    node = k
                    break
            else:
                k = [nm, []]
                node[1].append(k)
                node = k
        return node
    for ch in chains:
        end = insert(root, ch)
        for tl in tails:
            if rng.random() < 0.85:
                insert(end, tl)
    if rng.random() < 0.4:
        insert(root, [rng.choice(["d", "x", "y"])] + rng.choice(tails))
    for k in root[1]:
        rng.random() < 0.3 and rng.shuffle(k[1])
    rng.shuffle(root[1])
    return root


NODE_STY = {"style": ["filled", "dashed", "bold"], "fillcolor": ["gold", "red"], "shape": ["diamond", "box"],
            "color": ["black", "green"]}
EDGE_STY = {"label": ["first", "second", "edge label", "x"], "style": ["bold", "dashed"], "color": ["black", "red"]}


ATTR_VALUES = {"age": [90, 65, 0, -3, 7], "x": ["q", "two words", "", "1"], "tag": [None, None, "t", 5],
               "names": ["nn"], "name_en": ["en", None], "n": [1, 0], "path": ["p/q"], "shift": [2], "y": [3, None]}
SHAPES = ["rounded_edge", "stadium", "subroutine", "cylindrical", "circle", "asymmetric", "rhombus", "hexagon",
          "parallelogram", "parallelogram_alt", "trapezoid", "trapezoid_alt", "double_circle"]
ARROWS = ["normal", "bold", "dotted", "open", "bold_open", "dotted_open", "invisible", "circle", "cross",
          "double_normal", "double_circle", "double_cross"]


def _with_attrs(rng, tree, table, p):
    """give every node, with probability p per key, scalar attributes drawn from table"""
    def go(x):
        at = {k: rng.choice(vs) for k, vs in table.items() if rng.random() < p}
        kids = [None if k is None else go(k) for k in x[1]]
        d = dict(x[2]) if len(x) > 2 else {}
        if at:
            d["at"] = at
        return [x[0], kids, d] if d else [x[0], kids]
    return go(tree)


def _print_options(rng, case):
    """print_tree's attribute options on nodes with differing attribute sets"""
    case["tree"] = _with_attrs(rng, case["tree"], ATTR_VALUES, 0.4)
    r = rng.random()
    po = {}
    if r < 0.3:
        po["all_attrs"] = True
        if rng.random() < 0.3:
            po["attr_list"] = ["age"]             # overridden by all_attrs
    else:
        names = ["age", "x", "tag", "zz", "name", "names", "name_en", "n", "path", "y"]
        rng.shuffle(names)
        po["attr_list"] = names[: rng.randint(1, 5)]
        if rng.random() < 0.5:
            po["attr_omit_null"] = rng.random() < 0.8
    if rng.random() < 0.35:
        po["attr_bracket"] = rng.choice([["(", ")"], ["<<", ">>"], ["", ""], ["{", "}"]])
    elif rng.random() < 0.05:
        po["attr_bracket"] = rng.choice([["["], ["[", "]", "]"]])       # ValueError
    case["po"] = po
    case["stratum"] += "/attrs"


def _mermaid_options(rng, case):
    tbl = {"shape": SHAPES, "arrow": ARROWS, "lbl": ["L", "to x", "", "1"], "sty": ["fill:red", "stroke:blue", ""]}
    case["tree"] = _with_attrs(rng, case["tree"], tbl, 0.45)
    case["mm"] = {
        "node_shape": rng.choice([None, None] + SHAPES), "edge_arrow": rng.choice([None, None] + ARROWS),
        "node_shape_attr": rng.choice([None, "name", "callable"]),
        "edge_arrow_attr": rng.choice([None, "name", "callable"]),
        "edge_label": rng.random() < 0.6, "node_attr": rng.choice([None, "name", "callable"]),
        "title": rng.choice([None, None, "T"]), "rankdir": rng.choice([None, "TB", "BT", "LR", "RL"]),
        "line_shape": rng.choice([None, "basis", "linear", "step"]),
        "node_colour": rng.choice([None, "yellow"]), "node_border_colour": rng.choice([None, "black"]),
        "node_border_width": rng.choice([None, 1, 2]),
    }
    case["stratum"] += "/options"


def _decorate(rng, case):
    """tree_to_dot options and heterogeneous per-node style dictionaries (differing key sets)"""
    o = {"node_colour": rng.choice([None, None, "gold", ""]), "node_shape": rng.choice([None, None, "circle"]),
         "edge_colour": rng.choice([None, None, "blue"]),
         "directed": rng.choice([None, None, True, False]), "rankdir": rng.choice([None, None, "LR", "BT"]),
         "bg_colour": rng.choice([None, None, "white"]),
         "node_attr": rng.choice([None, None, "name", "callable"]),
         "edge_attr": rng.choice([None, "name", "name", "callable"])}
    case["dot"] = o
    case["stratum"] += "/styled"

    def pick(table, p):
        return {k: rng.choice(vs) for k, vs in table.items() if rng.random() < p}

    def go(x):
        d = dict(x[2]) if len(x) > 2 else {}
        r = rng.random()
        if r < 0.5:
            d["es"] = pick(EDGE_STY, 0.45)
        if rng.random() < 0.35:
            d["ns"] = pick(NODE_STY, 0.4)
        kids = [None if k is None else go(k) for k in x[1]]
        return [x[0], kids, d] if d else [x[0], kids]
    case["tree"] = go(case["tree"])


def _sep_tree(rng, sep):
    """Names that contain the separator, arranged so that distinct nodes get one and the same path_name
    (r/[a/b]/x and r/a/b/x), plus other nodes whose names merely contain it."""
    j = lambda *parts: sep.join(parts)
    tails = rng.choice([[["x", []]], [["x", []], ["y", []]], [["x", [["y", []]]]], []])
    copy = lambda t: json.loads(json.dumps(t))
    variants = [
        ["r", [[j("a", "b"), copy(tails)], ["a", [["b", copy(tails)]]]]],
        ["r", [["a", [["b", copy(tails)], [j("b", "c"), []]]], [j("a", "b"), copy(tails) + [["c", []]]]]],
        ["r", [[j("a", "b", "c"), copy(tails)], [j("a", "b"), [["c", copy(tails)]]], ["a", [[j("b", "c"), copy(tails)]]]]],
        [j("r", "s"), [["a", copy(tails)], [j("", "a"), []], [j("a", ""), copy(tails)]]],
        ["r", [[sep, [["a", []]]], ["a", [[sep, []]]], [j("x", "y"), []]]],
    ]
    t = rng.choice(variants)
    if rng.random() < 0.4:
        t[1].append([rng.choice(["d", "x", j("d", "e")]), [["x", []]] if rng.random() < 0.5 else []])
    rng.random() < 0.5 and rng.shuffle(t[1])
    return t


def gen_case(rng, kind=None):
    kind = kind or rng.choices(["v", "h", "dot", "mermaid"], weights=[36, 36, 16, 12])[0]
    binary = rng.random() < 0.2
    sk = "binary" if binary else rng.choice(["wide", "wide", "deep", "mixed", "mixed", "path", "star"])
    pool_name = rng.choice(list(NAME_POOLS))
    pool = list(NAME_POOLS[pool_name])
    if kind == "dot":
        pool = [x for x in pool if ":" not in x]
    if kind in ("dot", "mermaid") and rng.random() < 0.45:
        binary, sk, pool_name = False, "concat", "affix-cuts"
        tree = _concat_tree(rng)
    else:
        shape = _bin_shape(rng) if binary else _shape(rng, sk)
        tree = _name_tree(rng, shape, pool, binary)
    if kind == "mermaid" and tsize(tree) < 2:
        tree = [tree[0], [[("b" if tree[0] != "b" else "c"), []]] + ([None] if binary else [])]
    names = {x[0] for _, x in tnodes(tree)}
    seps = [s for s in SEPS if not any(s in nm for nm in names)] or ["/"]
    sep = rng.choice(seps) if rng.random() < 0.5 else seps[0]
    if rng.random() < (0.2 if kind == "mermaid" else 0.1):
        # names containing the separator: distinct nodes with one path_name (tree_to_mermaid works on a clone
        # whose separator is always "/")
        sep = "/" if (kind == "mermaid" or rng.random() < 0.5) else rng.choice(SEPS)
        binary, sk, pool_name = False, "sepnames", "with-separator"
        tree = _sep_tree(rng, sep)
        names = {x[0] for _, x in tnodes(tree)}
        if kind == "dot" and "K7-C18" not in _FINDINGS() and k7_predicate({"tree": tree, "sep": sep}):
            kind = "mermaid"         # until K7 is a listed finding the colliding dot cases are not generated
    case = {"kind": kind, "binary": binary, "tree": tree, "start": [], "start_mode": "object",
            "max_depth": 0, "sep": sep, "style": {"t": "name", "v": "const"}, "inter": True,
            "stratum": f"{kind}/{sk}/{pool_name}"}
    nodes = tnodes(tree)
    if rng.random() < 0.3 and len(nodes) > 1:
        inner = [p for p, x in nodes if p and any(k is not None for k in x[1])] or [p for p, _ in nodes]
        case["start"] = list(rng.choice(inner))
    if kind in ("v", "h"):
        if rng.random() < 0.25:
            case["max_depth"] = rng.randint(1, 4)
        if rng.random() < 0.4 and not any(sep in nm for nm in names):
            pn = path_names(tree, sep)
            mine = pn[tuple(case["start"])]
            if sum(1 for v in pn.values() if v.endswith(mine)) == 1:
                case["start_mode"] = "path"
    if kind == "dot" and rng.random() < 0.2 and not case["start"]:
        # several trees in one graph; labels kept apart (equal labels in different trees collide: see K6)
        case["more"] = []
        for mark in "\u00b2\u00b3"[: rng.randint(1, 2)]:
            extra = _name_tree(rng, _shape(rng, rng.choice(["mixed", "star", "path"])), pool, False)

            def mark_all(x, m=mark):
                return [x[0] + m, [mark_all(k) for k in x[1]]]
            case["more"].append(mark_all(extra))
        case["stratum"] += "/list"
    if kind == "dot" and rng.random() < 0.6:
        _decorate(rng, case)
        if "more" in case:
            fake = {"tree": ["_", case["more"]], "stratum": ""}
            saved = case["dot"]
            _decorate(rng, fake)
            case["dot"] = saved
            case["more"] = [k for k in fake["tree"][1]]
    if kind == "mermaid":
        if rng.random() < 0.35 and not binary and not any("/" in nm for nm in names):
            pn = path_names(tree, "/")
            mine = pn[tuple(case["start"])]
            sub = subtree(tree, case["start"])
            if sum(1 for v in pn.values() if v.endswith(mine)) == 1 and tsize(sub) >= 2:
                case["start_mode"] = "path"
                if rng.random() < 0.4:
                    md = rng.randint(2, 4)
                    case["max_depth"] = md
        if case["start_mode"] != "path" and rng.random() < 0.15 and tsize(tree) >= 2:
            case["max_depth"] = rng.randint(2, 4)
        if rng.random() < 0.6:
            _mermaid_options(rng, case)
    if rng.random() < 0.25:
        case["cls"] = "eq"                        # user subclasses equal / hashed by name
        case["stratum"] += "/eq"
    if kind in ("v", "h", "mermaid") and rng.random() < 0.3:
        case["explicit_defaults"] = True          # pass max_depth=0 / intermediate_node_name=True explicitly
    if kind == "v" and rng.random() < 0.35:
        _print_options(rng, case)
    if kind == "v":
        r = rng.random()
        if r < 0.55:
            case["style"] = {"t": rng.choice(["name", "name", "object"]), "v": rng.choice(VSTYLES)}
        elif r < 0.95:
            case["style"] = {"t": rng.choice(["list", "tuple", "custom_object"]), "v": rng.choice(CUSTOM_V)}
        else:
            case["style"] = {"t": rng.choice(["list", "tuple"]), "v": rng.choice(BAD_V)}
    elif kind == "h":
        case["inter"] = rng.random() < 0.7
        r = rng.random()
        if r < 0.7:
            case["style"] = {"t": rng.choice(["name", "name", "object"]), "v": rng.choice(VSTYLES)}
        elif r < 0.96:
            case["style"] = {"t": rng.choice(["list", "tuple", "custom_object"]), "v": rng.choice(CUSTOM_H)}
        else:
            case["style"] = {"t": rng.choice(["list", "tuple"]), "v": rng.choice(BAD_H)}
    return case


def _all_shapes(n):
    """all ordered trees with n nodes (nested lists)"""
    if n == 1:
        return [[]]
    out = []

    def forests(m):
        if m == 0:
            return [[]]
        res = []
        for k in range(1, m + 1):
            for first in _all_shapes(k):
                for rest in forests(m - k):
                    res.append([first] + rest)
        return res
    return forests(n - 1)


def generate(prop, rng, tier):
    count = {"quick": 1500, "thorough": 24000, "search": 4500}[tier]
    for _ in range(count):
        c = gen_case(rng)
        yield c["stratum"], c
    # small scope: every ordered tree with <= 6 nodes (thorough: <= 8), vertical + horizontal (both name modes)
    if True:
        for n in range(1, 9 if tier == "thorough" else 7):
            for sh in _all_shapes(n):
                for kind, inter in (("v", True), ("h", True), ("h", False)):
                    pool = NAME_POOLS["lengths"] if kind == "h" else NAME_POOLS["distinct"]
                    tree = _name_tree(rng, sh, pool, False)
                    yield f"exhaustive/{kind}", {
                        "kind": kind, "binary": False, "tree": tree, "start": [], "start_mode": "object",
                        "max_depth": 0, "sep": "/", "style": {"t": "name", "v": rng.choice(VSTYLES)},
                        "inter": inter, "stratum": "exhaustive"}


# ---------------------------------------------------------------------------------------------
# corpus


def _mk(kind, tree, **kw):
    c = {"kind": kind, "binary": False, "tree": tree, "start": [], "start_mode": "object", "max_depth": 0,
         "sep": "/", "style": {"t": "name", "v": "const"}, "inter": True, "stratum": "corpus"}
    c.update(kw)
    return c


def _chain(names):
    t = [names[-1], []]
    for nm in reversed(names[:-1]):
        t = [nm, [t]]
    return t


# K2: a node labelled a1 and eleven nodes labelled a (13 nodes with the root): ids "a1"+"0" and "a"+"10"
K2_WITNESS = ["r", [["a1", []], _chain(["a"] * 11)]]
FIXTURE = ["a", [["b", [["d", []], ["e", [["g", []], ["h", []]]]]], ["c", [["f", []]]]]]
# finished branches above deeper nodes: the stem of depth 1/2 must be closed at depth >= 3
CLOSED = ["r", [["a", [["b", [["c", [["d", []]]], ["e", []]]], ["f", [["g", [["h", []]]]]]]], ["i", [["j", [["k", []]]]]]]]
FAN3 = ["r", [["a", []], ["b", [["x", []], ["y", []], ["z", []]]], ["c", []]]]
TWO_SINGLE = ["r", [["aaa", [["p", []], ["q", []]]], ["b", [["c", [["d", []]]], ["e", []]]]]]
BANDS = ["r", [["aaaaaa", [["b", [["cccc", []]]]]], ["d", [["eeeeeeee", []], ["f", [["g", []]]]]]]]
DEEP4 = ["r", [["a", [["b", [["c", [["d", []], ["e", []]]], ["f", []]]], ["g", []]]], ["h", [["i", [["j", []]]]]]]]
BIN = ["a", [None, ["b", [["c", []], None]]]]
# every glyph role: first / subsequent / last child, a child on its parent's row (middle), a parent between its
# children (split), an only child, two one-row children, a deep last child, uneven subtrees
ROLES = ["r", [["a", []], ["b", []], ["c", []], ["d", []],
               ["e", [["f", []], ["g", [["h", []], ["i", []]]], ["j", [["k", [["l", []]]]]]]]]]
ROLES2 = ["r", [["a", [["b", []], ["c", []], ["d", []]]], ["e", [["f", [["g", []]]]]], ["h", []], ["i", []],
                ["j", [["k", []], ["l", []], ["m", []], ["n", []], ["o", []]]]]]
# equal names in different branches: the earlier bearer has a following sibling, the later one is a last / only
# child with descendants; a node named like its ancestor
EQNAMES = ["r", [["x", [["p", []]]], ["y", [["x", [["p", [["q", []]]]]], ["r", [["x", []], ["y", []]]]]], ["p", []]]]
ATTRS = ["a", [["b", [["d", [], {"at": {"x": ""}}]], {"at": {"age": 65, "tag": None}}], ["c", [], {"at": {"tag": "t", "x": "two words"}}]],
         {"at": {"age": -3}}]
ATTRS_BIN = ["1", [None, ["b", [], {"at": {"age": 0}}]], {"at": {"age": 90, "tag": None}}]
MM = ["a", [["b", [["d", [], {"at": {"lbl": "x"}}], ["e", [["f", []]], {"at": {"shape": "circle", "sty": "fill:blue"}}]],
             {"at": {"lbl": "to b", "arrow": "bold"}}],
            ["c", [], {"at": {"sty": "fill:blue", "shape": "hexagon", "arrow": "cross"}}]],
      {"at": {"shape": "rhombus", "lbl": "L0", "sty": "fill:red"}}]
# only some links carry a label / a style; repeated names; one node with its own node style
STYLED = ["a", [["b", [["d", []], ["e", [["b", []]], {"es": {"label": "second", "style": "dashed"}}]],
                 {"es": {"label": "first"}, "ns": {"shape": "diamond"}}],
                ["c", [["d", [], {"es": {"color": "red"}}], ["f", [], {"ns": {"fillcolor": "red", "style": "filled"}}]]]]]
# repeated names below ancestors whose names concatenate identically (ab+c / a+bc / abc)
CONCAT = ["r", [["ab", [["c", [["x", []]]]]], ["a", [["bc", [["x", []], ["y", []]]], ["b", [["c", [["x", []]]]]]]],
                ["abc", [["x", [["x", []]]]]], ["d", [["x", []]]]]]


# K4: tree_to_mermaid on a one-node tree: no flow line, no vertex
K4_WITNESS = ["x", []]
# K5: a name containing ':' — pydot.Node cuts a "port" off the vertex name: vertices "a", "c0", "a" (collision),
# while the edges run between "a:b0", "c0", "a:c0" (dangling)
K5_WITNESS = ["a:b", [["c", []], ["a:c", []]]]


_FIDS = []


def _FINDINGS():
    if not _FIDS:
        _FIDS.append(_finding_ids())
    return _FIDS[0]


def _finding_ids():
    try:
        path = os.path.join(os.path.dirname(os.path.dirname(os.path.dirname(os.path.abspath(__file__)))),
                            "known_findings.json")
        return {e.get("id") for e in json.load(open(path)).get("entries", []) if e.get("status") == "finding"}
    except Exception:
        return set()


def corpus(prop):
    out = []
    if "K7-C18" in _finding_ids():
        # two nodes labelled x with the same path_name /r/a/b/x: id x0 twice
        out.append(("K7-dot-equal-path-names", _mk("dot", ["r", [["a/b", [["x", []]]], ["a", [["b", [["x", []]]]]]]])))
    if "K6-C18" in _finding_ids():
        # equal labels in two trees of one tree_to_dot([...]) call: a0 twice
        out.append(("K6-dot-list-collision", _mk("dot", ["a", [["b", []]]], more=[["a", [["c", []]]]])))
    out += [("K2-dot-id-collision", _mk("dot", K2_WITNESS)),
           ("K4-mermaid-one-node", _mk("mermaid", K4_WITNESS)),
           ("K5-dot-colon-port", _mk("dot", K5_WITNESS))]
    for nm, t in (("fixture", FIXTURE), ("closed-stems", CLOSED), ("fan3", FAN3), ("two-single", TWO_SINGLE),
                  ("bands", BANDS), ("deep4", DEEP4)):
        for st in ("const", "ansi", "ascii"):
            out.append((nm, _mk("v", t, style={"t": "name", "v": st})))
            out.append((nm, _mk("h", t, style={"t": "name", "v": st})))
            out.append((nm, _mk("h", t, style={"t": "name", "v": st}, inter=False)))
        out.append((nm, _mk("dot", t)))
        out.append((nm, _mk("mermaid", t)))
    for st in VSTYLES:
        for form in ("name", "object"):
            for t in (ROLES, ROLES2):
                out.append(("glyph-roles", _mk("v", t, style={"t": form, "v": st})))
                out.append(("glyph-roles", _mk("h", t, style={"t": form, "v": st})))
                out.append(("glyph-roles", _mk("h", t, style={"t": form, "v": st}, inter=False)))
    for cv in CUSTOM_V[:5]:
        out.append(("glyph-roles", _mk("v", ROLES, style={"t": "list", "v": cv})))
    for ch in CUSTOM_H:
        out.append(("glyph-roles", _mk("h", ROLES, style={"t": "tuple", "v": ch})))
        out.append(("glyph-roles", _mk("h", ROLES2, style={"t": "custom_object", "v": ch})))
    for kind in ("v", "h", "dot", "mermaid"):
        out.append(("equal-names-eq-class", _mk(kind, EQNAMES, cls="eq")))
        out.append(("equal-names-eq-class", _mk(kind, EQNAMES, cls="eq", start=[1], max_depth=3 if kind in "vh" else 0)))
    for kind in ("v", "h", "dot", "mermaid"):
        out.append(("binary", _mk(kind, BIN, binary=True)))
    for sep in ("/", "-", "."):
        out.append(("concat-ancestors", _mk("dot", CONCAT, sep=sep)))
    out.append(("concat-ancestors", _mk("mermaid", CONCAT)))
    for na in (None, "name", "callable"):
        for ea in ("name", "callable"):
            for ec in (None, "blue"):
                out.append(("styled-edges", _mk("dot", STYLED, dot={
                    "node_colour": None, "node_shape": None, "edge_colour": ec, "node_attr": na, "edge_attr": ea})))
    out.append(("dot-list", _mk("dot", FIXTURE, more=[["p", [["q", []], ["b2", []]]], ["z", []]],
                                dot={"directed": False, "rankdir": "LR", "bg_colour": "white", "edge_attr": "name"})))
    for po in ({"all_attrs": True}, {"attr_list": ["age", "tag", "zz"]},
               {"attr_list": ["tag", "age"], "attr_omit_null": True, "attr_bracket": ["<", ">"]},
               {"attr_list": ["x"], "attr_bracket": ["["]}):
        out.append(("print-attrs", _mk("v", ATTRS, po=po)))
        out.append(("print-attrs", _mk("v", ATTRS_BIN, binary=True, po=po)))
    for mm in ({"node_shape_attr": "name", "edge_arrow_attr": "name", "edge_label": True, "node_attr": "name",
                "title": "T", "rankdir": "LR", "node_colour": "yellow", "node_border_colour": "black",
                "node_border_width": 2, "line_shape": "linear"},
               {"node_shape": "hexagon", "edge_arrow": "dotted", "node_shape_attr": "callable",
                "edge_arrow_attr": "callable", "node_attr": "callable", "edge_label": True},
               {"edge_label": True}):
        out.append(("mermaid-options", _mk("mermaid", MM, mm=mm)))
        out.append(("mermaid-options", _mk("mermaid", MM, mm=mm, start=[0], start_mode="path", max_depth=2)))
    out.append(("styled-defaults", _mk("dot", STYLED, dot={
        "node_colour": "gold", "node_shape": "circle", "edge_colour": "blue", "node_attr": "name", "edge_attr": None})))
    out.append(("single", _mk("v", ["a", []])))
    out.append(("single", _mk("h", ["a", []])))
    out.append(("single", _mk("dot", ["a", []])))
    return out


# ---------------------------------------------------------------------------------------------
# known finding K2: tree_to_dot ids collide


def _digits(s):
    return s != "" and all(ch in "0123456789" for ch in s)


def k2_predicate(tree):
    """Input predicate of K2, on the labels only: there are two different labels l1, l2 with
    l2 = l1 + <decimal digits> (so l2 ends in a digit) and indices i < #nodes labelled l1,
    j < #nodes labelled l2 such that l1 + str(i) == l2 + str(j) — i.e. the documented id scheme
    `label + str(index among the equally labelled paths)` itself produces one id for two nodes."""
    counts = {}
    for _, x in tnodes(tree):
        counts[x[0]] = counts.get(x[0], 0) + 1
    for l1, n1 in counts.items():
        for l2, n2 in counts.items():
            if l1 != l2 and l2.startswith(l1) and _digits(l2[len(l1):]):
                ids1 = {l1 + str(i) for i in range(n1)}
                if any(l2 + str(j) in ids1 for j in range(n2)):
                    return True
    return False


def k5_predicate(tree):
    """Input predicate of K5: some label does not start with a double quote and contains a ':' that is
    not its first character — exactly when pydot.Node(name=label+index) splits a port off the name."""
    return any(not x[0].startswith('"') and x[0].find(":") > 0 for _, x in tnodes(tree))


def _drawn(case):
    """the tree a v / h / mermaid call has to draw"""
    t = case["tree"]
    if case["kind"] != "mermaid" or case["start_mode"] == "path":
        t = subtree(t, case["start"])
    if case["max_depth"]:
        t = cut(t, case["max_depth"])
    return t


def k7_predicate(case):
    """Input predicate of K7: a dot case in which two distinct nodes of one tree have the same label AND the same
    path_name (possible only when a name contains the separator, or siblings share a name): tree_to_dot keys its
    ids by (label, path_name), so both get one id."""
    for t in [case["tree"]] + list(case.get("more", [])):
        pn = path_names(t, case["sep"])
        seen = set()
        for pos, x in tnodes(t):
            key = (x[0], pn[pos])
            if key in seen:
                return True
            seen.add(key)
    return False


def k6_predicate(case):
    """Input predicate of K6 (candidate): tree_to_dot is given a LIST of trees and two of them contain an equal
    label at all — name_dict is created anew for every tree, so both get index 0 and hence the same id."""
    trees = [case["tree"]] + list(case.get("more", []))
    seen = set()
    for t in trees:
        labels = {x[0] for _, x in tnodes(t)}
        if labels & seen:
            return True
        seen |= labels
    return False


def matches_finding(prop, entry, case, obs, flags):
    if isinstance(obs, dict) and "_harness_error" in obs:
        return False
    # in every case: the implementation behaves exactly like the model (no disagreement), only the
    # property predicate is false, and the input satisfies the entry's narrow input predicate
    if flags != 2:
        return False
    fid = entry.get("id")
    if fid == "K2-C18":
        return case.get("kind") == "dot" and k2_predicate(case["tree"])
    if fid == "K4-C18":
        return case.get("kind") == "mermaid" and tsize(_drawn(case)) == 1
    if fid == "K7-C18":
        return case.get("kind") == "dot" and k7_predicate(case)
    if fid == "K6-C18":
        return case.get("kind") == "dot" and k6_predicate(case)
    if fid == "K5-C18":
        return case.get("kind") == "dot" and k5_predicate(case["tree"])
    return False


# ---------------------------------------------------------------------------------------------
# shrinking, evidence


def shrink_candidates(prop, case):
    t = case["tree"]

    def variants(x):
        """trees obtained from x by deleting one subtree or hoisting one child"""
        for i, k in enumerate(x[1]):
            if k is None:
                continue
            if case["binary"]:
                rest = list(x[1])
                rest[i] = None
                if all(r is None for r in rest):
                    rest = []
                yield [x[0], rest] + x[2:]
            else:
                yield [x[0], x[1][:i] + x[1][i + 1:]] + x[2:]
            for v in variants(k):
                yield [x[0], x[1][:i] + [v] + x[1][i + 1:]] + x[2:]

    def valid_start(tree, pos):
        try:
            return subtree(tree, pos) is not None
        except (IndexError, TypeError):
            return False

    if case["start"]:
        c = dict(case); c["start"] = []; c["start_mode"] = "object"; yield c
    if case["max_depth"]:
        c = dict(case); c["max_depth"] = 0; yield c
    for opt in ("po", "mm", "explicit_defaults", "cls"):
        if case.get(opt):
            c = dict(case); c.pop(opt); yield c
            if isinstance(case[opt], dict):
                for key, val in case[opt].items():
                    if val not in (None, False):
                        c = dict(case); c[opt] = dict(case[opt]); c[opt].pop(key); yield c
    if case.get("more"):
        c = dict(case); c.pop("more"); yield c
        for i in range(len(case["more"])):
            c = dict(case); c["more"] = case["more"][:i] + case["more"][i + 1:]; yield c
    if case.get("dot"):
        c = dict(case); c.pop("dot"); yield c
        for key, val in case["dot"].items():
            if val is not None:
                c = dict(case); c["dot"] = dict(case["dot"]); c["dot"][key] = None; yield c

        def strip_one(x):
            """trees with one node's style dictionaries (or one entry of them) removed"""
            if len(x) > 2:
                yield [x[0], x[1]]
                for which in ("ns", "es", "at"):
                    for k in sorted(x[2].get(which, {})):
                        d = {w: dict(v) for w, v in x[2].items()}
                        del d[which][k]
                        yield [x[0], x[1], d]
            for i, k in enumerate(x[1]):
                if k is not None:
                    for v in strip_one(k):
                        yield [x[0], x[1][:i] + [v] + x[1][i + 1:]] + x[2:]
        for v in strip_one(t):
            c = dict(case); c["tree"] = v; yield c
    if case["style"] != {"t": "name", "v": "const"} and case["kind"] in ("v", "h"):
        c = dict(case); c["style"] = {"t": "name", "v": "const"}; yield c
    for k in t[1]:
        if k is not None and not case["start"]:
            c = dict(case); c["tree"] = k; c["start_mode"] = "object"; yield c
    for v in variants(t):
        if valid_start(v, case["start"]) and not (case["kind"] == "mermaid" and tsize(v) < 2):
            c = dict(case); c["tree"] = v; c["start_mode"] = "object"; yield c

    def rename(x, old, new):
        return [new if x[0] == old else x[0], [None if k is None else rename(k, old, new) for k in x[1]]] + x[2:]
    for nm in sorted({x[0] for _, x in tnodes(t)}):
        if len(nm) > 1:
            short = nm[0]
            if short not in {x[0] for _, x in tnodes(t)}:
                c = dict(case); c["tree"] = rename(t, nm, short); c["start_mode"] = "object"; yield c


def size(case):
    return 10 * tsize(case["tree"]) + sum(len(x[0]) for _, x in tnodes(case["tree"])) + len(case["start"]) \
        + (1 if case["max_depth"] else 0)


def nontrivial(prop, case, obs):
    if obs.get("out", 1) is None:
        return False
    t = _drawn(case) if case["kind"] in ("v", "h", "mermaid") else case["tree"]
    return tsize(t) >= 3


def sample(prop, case, obs):
    return {"case": {k: case.get(k) for k in ("kind", "binary", "tree", "start", "start_mode", "max_depth", "style",
                                              "inter", "dot", "po", "mm", "more", "explicit_defaults", "cls")},
            "observed": obs}


def rule(prop):
    return ("one call per case, made twice on the same objects (result must repeat, input tree must be unchanged: "
            "structure, classes, public attributes of every node): yield_tree + print_tree (+ Node.show when started "
            "on the node object) / hyield_tree + hprint_tree (+ Node.hshow) / tree_to_dot / tree_to_mermaid on a random "
            "tree (<= 14 nodes; shapes wide/deep/mixed/path/star/binary with empty slots; name pools distinct, repeated "
            "across branches, affix-related, varied lengths, special characters incl. box-drawing glyphs and []{}()#|<>;%, "
            "labels ending in digits; for dot/mermaid 45% trees with repeated names below ancestor names that are "
            "different cuts of one word). Options: all 6 built-in styles as name and as style object, custom icon "
            "lists/tuples/Base*PrintStyle objects, malformed icon lists; start at an inner node as object or as "
            "unambiguous path, max_depth, both together, defaults omitted or passed explicitly; intermediate_node_name; "
            "print_tree all_attrs / attr_list / attr_omit_null / attr_bracket (incl. wrong length) on nodes with "
            "differing str/int/None attributes; dot: node_colour/node_shape/edge_colour (incl. ''), node_attr/edge_attr "
            "as attribute name or callable over dict attributes with differing key sets, directed, rankdir, bg_colour, a "
            "list of 2-3 trees (20%); mermaid: node_shape(+_attr), edge_arrow(+_attr), edge_label, node_attr as name or "
            "callable, title, rankdir, line_shape, colours, node_name_or_path and max_depth through **kwargs. Thorough "
            "tier adds every ordered tree with <= 8 nodes (quick: <= 6). Non-trivial = the drawn tree has >= 3 nodes and "
            "the call returned; distinct by canonical JSON hash. Only as corpus witnesses of known findings: mermaid for a "
            "one-node tree (K4), ':' in names for dot (K5), equal labels in two trees of one dot call (K6, if listed).")


def explain(prop, case, obs, flags):
    from ._base import explain as base
    return base(prop, case, obs, flags)


def static_tie(prop, repo):
    """C18: the glyph tables of the Coq model are re-derived from the current source and compared by coqc."""
    if prop != "C18":
        return None
    from .. import gen_styles
    verif = os.path.dirname(os.path.dirname(os.path.dirname(os.path.abspath(__file__))))
    devs = gen_styles.run(repo, verif)
    return {"deviations": devs,
            "what": ("the style tables of the Coq model (PRINT_STYLES / HPRINT_STYLES of constants.py, the exported "
                     "style objects and the field order of the style dataclasses) are regenerated from the source under "
                     "check and compared with the model by a finite vm_compute check; a deviation means the theorems "
                     "about the built-in styles are no longer about this source's styles"),
            "theorems": ["C18_v_text_decodable", "C18_v_builtin_styles_distinct", "C18_box_norm_hstyles",
                         "C18_box_norm_vstyles", "C18_h_roundtrip_chain_partial", "C18_h_connectors", "C18_v_stems"],
            "obligations_checked": "see harness/gen_styles.py emit()"}


def trusted_base(prop):
    return COMMON_TB + ["pydot Node/Edge accessors (get_name, get('label'), get_source, get_destination, get_sequence) "
                        "and a regular expression over the mermaid flow lines are used to read the graphs back",
                        "harness/gen_styles.py: ast-based translator of bigtree/utils/constants.py (string constants, "
                        "f-strings, tuples, dict literals of ExportConstants; field and __iter__ order of the style "
                        "dataclasses; exported style objects) into GenStyles.v, checked against the model's tables by coqc"]


def partial_clauses(prop):
    return ["horizontal round trip (the text-only decoder h_decode returns the tree from hyield_tree's text): a theorem "
            "only for chains of any length (C18_h_roundtrip_chain_partial, every style with a non-blank branch icon, "
            "names without blanks at the ends); for branching trees the induction through h_scan over a connector "
            "column with several stacked blocks is missing — proved are the geometric facts it would rest on "
            "(C18_h_rows, C18_h_branch_row_inside, C18_h_leaf_order, C18_h_column_bands, C18_h_connectors) and the "
            "decoder is evaluated on every output (guided pass for every style, text-only pass for styles whose "
            "first/last-child icons are recognisable, arm-based pass for the box-drawing styles; the all-'+' ascii "
            "style only guided). The vertical round trip is a theorem for all trees (C18_v_decodable from the "
            "triples, C18_v_text_decodable from the printed text, guard vstyle_ok + vstyle_distinct)",
            "C18_h_leaf_order / C18_h_column_bands / C18_h_connectors are stated on the model's rows (prefix ++ leaf "
            "cell, prefix widths, prefix column); the boolean forms h_leaf_order / h_geometry that first cut the text "
            "into bands are evaluated on outputs only",
            "C18_dot_ids_injective only under the guards 'no label ends in a decimal digit' (K2), 'path names "
            "pairwise different', 'no label contains a colon' (K5); several trees in one tree_to_dot call only with "
            "disjoint label sets (name_dict is per tree: equal labels collide)",
            "C18_mermaid_graph only for trees with >= 2 nodes (K4)",
            "accepted blind spots of the correspondence: print_tree lines with attribute suffixes, mermaid node shapes, "
            "arrows and style classes are compared with the model only (no independent predicate; the text decoder is "
            "skipped when suffixes are printed); the mermaid header (title, line_shape, rankdir beyond the flowchart "
            "line) and classDef lines, dot's rankdir/bgcolor graph attributes and the serialised dot text (pydot's "
            "quoting) are not observed; exceptions only as raised / not raised; not generated: names with a double "
            "quote (mermaid writes labels unescaped), a newline, or blanks at either end, equal sibling names, float / "
            "NaN attribute values, BinaryNode names that are non-canonical integer literals (val), unknown style / "
            "shape / arrow / rankdir names, BaseNode or user subclasses, tree_to_pillow and image output"]
