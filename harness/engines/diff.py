"""Engine `diff`: pairs of trees for get_tree_diff (C15)."""
import copy
import json

from ..core import cbool, clist, cstr
from ._base import *  # noqa
from ._base import exn_code, COMMON_TB

CASES_PER_FILE = 120
SERVES = ["C15"]
COQ_TARGETS = ["theories/Corr/DiffCorr.vo"]


def coq_header(prop):
    return "From BT Require Import Base.Prelude Base.Str Base.Rose Algo.Diff Spec.PC15 Corr.DiffCorr."


def coq_case_type(prop):
    return "dcase"


def coq_check(prop):
    return "check_C15"


# ---------------------------------------------------------------------------------------------
# implementation side
# a tree is [name, {attr: value}, [children]]


_SUB = {}


def _node_class(cls):
    from bigtree.node.binarynode import BinaryNode
    from bigtree.node.node import Node

    if cls == "BinaryNode":
        return BinaryNode
    if cls == "SubNode":
        if "SubNode" not in _SUB:
            class SubNode(Node):
                """a user subclass of Node"""
            _SUB["SubNode"] = SubNode
        return _SUB["SubNode"]
    if cls == "PropNode":
        if "PropNode" not in _SUB:
            class PropNode(Node):
                """a user subclass whose attribute y is a read-only property (kept in _y) and whose attribute z
                has the class-level default PROP_DEFAULT_Z unless the instance overrides it"""
                z = PROP_DEFAULT_Z

                @property
                def y(self):
                    return self.__dict__.get("_y")
            _SUB["PropNode"] = PropNode
        return _SUB["PropNode"]
    return Node


PROP_DEFAULT_Z = 5
LIST_TAG = "\x01"          # a list value [1, 2] is modelled as the string "\x01[1, 2]" (equal lists <-> equal strings)


def _kwargs(cls, attrs):
    if cls == "PropNode":
        return {("_y" if k == "y" else k): v for k, v in attrs.items()}
    return attrs


def _effective(case, t, depth=1):
    """the tree as node.get_attr sees it: instance attributes plus what the class provides for the listed names"""
    at = dict(t[1])
    if case.get("cls") == "PropNode" and "z" not in at:
        at["z"] = PROP_DEFAULT_Z
    if "is_leaf" in case["attrs"]:
        at["is_leaf"] = not t[2]
    if "depth" in case["attrs"]:
        at["depth"] = depth
    return [t[0], at, [_effective(case, k, depth + 1) for k in t[2]]]


def _build(t, sep, cls="Node", slots=0):
    """slots: bit i decides whether the i-th single child of a BinaryNode goes to the right slot"""
    klass = _node_class(cls)
    counter = [0]

    def go(x):
        kids = [go(k) for k in x[2]]
        if cls == "BinaryNode":
            if len(kids) == 1:
                right = (slots >> (counter[0] % 16)) & 1
                counter[0] += 1
                kids = [None, kids[0]] if right else [kids[0], None]
            n = klass(x[0], children=kids, **_kwargs(cls, x[1])) if kids else klass(x[0], **_kwargs(cls, x[1]))
        else:
            n = klass(x[0], **_kwargs(cls, x[1]))
            n.children = kids
        return n

    root = go(t)
    root.sep = sep
    return root


def _snapshot(root):
    """everything the call must leave alone: node objects, names, attributes, child slots (not: sep)"""
    out = []

    def go(n, depth):
        at = sorted((k, repr(v)) for k, v in n.__dict__.items() if k not in ("_sep",) and "__parent" not in k and "__children" not in k)
        out.append((id(n), depth, n.node_name, tuple(at), tuple(None if c is None else id(c) for c in n.children)))
        for c in n.children:
            if c is not None:
                go(c, depth + 1)

    go(root, 0)
    return out


def _canon(v):
    """attribute value of the result -> None | bool | int | str (NaN/NA -> None, integral float -> int, list -> tagged repr)"""
    if v is None:
        return None
    if hasattr(v, "item") and not isinstance(v, (str, bytes)):
        v = v.item()
    if isinstance(v, bool):
        return v
    if isinstance(v, list):
        return LIST_TAG + repr(v)
    if isinstance(v, float):
        if v != v:
            return None
        if v == int(v):
            return int(v)
        raise TypeError("non-integral float in result")
    if isinstance(v, (int, str)):
        return v
    try:
        import pandas as pd
        if pd.isna(v):
            return None
    except (TypeError, ValueError):
        pass
    raise TypeError(f"unexpected value {type(v)}")


def _call(case, a, b):
    from bigtree.tree.helper import get_tree_diff

    style = case.get("call", "kw")
    od, al = case["only_diff"], list(case["attrs"])
    if style == "omit" and od and not al:
        return get_tree_diff(a, b)                       # both defaults
    if style == "omit" and od:
        return get_tree_diff(a, b, attr_list=al)
    if style == "omit" and not al:
        return get_tree_diff(a, b, only_diff=od)
    if style == "pos":
        return get_tree_diff(a, b, od, al)
    return get_tree_diff(tree=a, other_tree=b, only_diff=od, attr_list=al)


def _observe(case, a, b):
    cls = case.get("cls", "Node")
    try:
        r = _call(case, a, b)
    except Exception as e:  # noqa
        return {"err": exn_code(e)}, None
    if r is None:
        return {"none": True}, None
    out = []
    for n in [r] + list(r.descendants):
        at = []
        for k, v in n.describe(exclude_prefix="_", exclude_attributes=["name"]):
            if cls == "BinaryNode" and k == "val":
                continue                                 # BinaryNode's own bookkeeping attribute
            if isinstance(v, tuple) and len(v) == 2:
                at.append([k, _canon(v[0]), _canon(v[1])])
            else:
                at.append([k, "<not a pair>", repr(v)[:40]])
        at.sort(key=lambda e: e[0])
        out.append([n.path_name, at])
    out.sort(key=lambda e: json.dumps(e))
    return {"tree": out}, r


def run_impl(prop, case):
    cls = case.get("cls", "Node")
    a = _build(case["t1"], case["sep"], cls, case.get("slots1", 0))
    b = _build(case["t2"], case.get("sep2", case["sep"]), cls, case.get("slots2", 0))
    sa, sb, sep_a = _snapshot(a), _snapshot(b), a.sep
    obs, r = _observe(case, a, b)
    why = []
    if _snapshot(a) != sa or a.sep != sep_a:
        why.append("tree was modified by the call")
    if _snapshot(b) != sb or b.sep not in (case.get("sep2", case["sep"]), sep_a):
        why.append("other_tree was modified by the call (beyond other_tree.sep = tree.sep)")
    if r is not None:
        if type(r) is not type(a):
            why.append(f"result is a {type(r).__name__}, the inputs are {type(a).__name__}")
        ids = {e[0] for e in sa} | {e[0] for e in sb}
        if any(id(n) in ids for n in [r] + list(r.descendants)):
            why.append("result shares node objects with the inputs")
    obs2, _ = _observe(case, a, b)                       # calling twice on the same objects
    if obs2 != obs:
        why.append("a second call on the same trees returns something else")
    obs["stable"] = not why
    if why:
        obs["why_unstable"] = why
    return obs


# ---------------------------------------------------------------------------------------------
# Coq literals


def _cval(v):
    if v is None:
        return "VNone"
    if isinstance(v, bool):
        return f"(VBool {cbool(v)})"
    if isinstance(v, list):
        return f"(VStr {cstr(LIST_TAG + repr(v))})"
    if isinstance(v, int):
        return f"(VInt ({v})%Z)"
    if isinstance(v, str):
        return f"(VStr {cstr(v)})"
    raise TypeError(type(v))


def _ctree(t):
    at = clist(f"({cstr(k)}, {_cval(v)})" for k, v in t[1].items())
    return f"(T None {cstr(t[0])} {at} {clist(_ctree(k) for k in t[2])})"


def _cobs(obs):
    if "err" in obs:
        return f"(DErr {int(obs['err'])})"
    if "none" in obs:
        return "DNone"
    return "(DTree " + clist(
        f"({cstr(p)}, {clist(f'({cstr(k)}, ({_cval(x)}, {_cval(y)}))' for k, x, y in at)})" for p, at in obs["tree"]
    ) + ")"


def emit(prop, case, obs):
    return (f"DC {cbool(case.get('cls') == 'BinaryNode')} {cbool(obs.get('stable', True))} "
            f"{cstr(case['sep'])} {cstr(case.get('sep2', case['sep']))} {_ctree(_effective(case, case['t1']))} {_ctree(_effective(case, case['t2']))} {cbool(case['only_diff'])} "
            f"{clist(cstr(a) for a in case['attrs'])} {_cobs(obs)}")


# ---------------------------------------------------------------------------------------------
# generation

NAME_POOLS = {
    "distinct": ["a", "b", "c", "d", "e", "f", "g", "h"],
    "repeated": ["a", "b", "a", "c", "b", "a"],
    "affix": ["b", "bc", "a", "xa", "ab", "abc", "c", "cb", "bcd"],
    "special": ["a.b", "axb", "(", "x(", "+", ")", "[", "*", "?", "\\", "a b", " ", "a+", "a.", ".", "b", "b*", "a?b", "[a]", "(a)", "a|b", "$", "^a"],
    "lookalike": ["b", "b (-)", "b (+)", "b (~)", "b (-) (-)", "c", "c (~)", " (-)", "b (-)x", "b(-)", "b (+", "(-)"],
}
ATTR_POOL = ["x", "y", "z"]
VALUES = [0, 1, 2, -1, "s", "t", "1", "", None, 0, 1, "s", None, [1, 2], [1], []]
SHAPES = ["wide", "deep", "mixed", "path", "star"]
SEPS2 = ["-", ".", "|", "\\"]


def _nodes(t):
    out = []

    def go(x, parent, depth):
        out.append((x, parent, depth))
        for k in x[2]:
            go(k, x, depth + 1)

    go(t, None, 1)
    return out


def _rand_attrs(rng, density):
    at = {}
    for a in ATTR_POOL:
        if rng.random() < density:
            at[a] = rng.choice(VALUES)
    return at


def _fresh_name(rng, pool, siblings):
    taken = {k[0] for k in siblings}
    cands = [n for n in pool if n not in taken]
    return rng.choice(cands) if cands else None


def gen_tree(rng, pool, shape, n, density, root="r"):
    t = [root, _rand_attrs(rng, density), []]
    for _ in range(n):
        ns = _nodes(t)
        if shape == "wide":
            cands = [x for x, p, d in ns if d <= 2 and len(x[2]) < 6]
        elif shape == "deep":
            dmax = max(d for _, _, d in ns)
            cands = [x for x, p, d in ns if d >= dmax - 1 and d < 8]
        elif shape == "path":
            dmax = max(d for _, _, d in ns)
            cands = [x for x, p, d in ns if d == dmax and d < 8]
        elif shape == "star":
            cands = [t] if len(t[2]) < 6 else []
        else:
            cands = [x for x, p, d in ns if d < 8 and len(x[2]) < 6]
        if not cands:
            cands = [x for x, p, d in ns if d < 8 and len(x[2]) < 6]
        if not cands:
            break
        par = rng.choice(cands)
        nm = _fresh_name(rng, pool, par[2])
        if nm is None:
            continue
        par[2].append([nm, _rand_attrs(rng, density), []])
    return t


def edit_tree(rng, t, pool, density, nedits):
    t = copy.deepcopy(t)
    for _ in range(nedits):
        ns = _nodes(t)
        x, par, d = rng.choice(ns)
        r = rng.random()
        if r < 0.25 and par is not None:                     # delete the subtree
            par[2].remove(x)
        elif r < 0.50 and d < 8 and len(x[2]) < 6:           # add a subtree of 1-3 nodes
            nm = _fresh_name(rng, pool, x[2])
            if nm is not None:
                new = [nm, _rand_attrs(rng, density), []]
                x[2].insert(rng.randint(0, len(x[2])), new)
                cur = new
                for _ in range(rng.randint(0, 2)):
                    if rng.random() < 0.6 and d < 6:
                        k = [rng.choice(pool), _rand_attrs(rng, density), []]
                        if all(c[0] != k[0] for c in cur[2]):
                            cur[2].append(k)
                            if rng.random() < 0.5:
                                cur = k
        elif r < 0.65 and par is not None:                   # rename: the whole subtree moves to new paths
            nm = _fresh_name(rng, pool, par[2])
            if nm is not None:
                x[0] = nm
        elif r < 0.72 and par is not None:                   # move the subtree below another node
            tgt = [y for y, p, dd in ns if y is not x and dd < 7 and len(y[2]) < 6
                   and all(y is not z for z, _, _ in _nodes(x)) and all(c[0] != x[0] for c in y[2])]
            if tgt:
                y = rng.choice(tgt)
                par[2].remove(x)
                y[2].append(x)
        elif r < 0.80:                                       # reorder children (no difference)
            rng.shuffle(x[2])
        else:                                                # change / drop / add one attribute
            a = rng.choice(ATTR_POOL)
            ch = rng.random()
            if ch < 0.25:
                x[1].pop(a, None)
            else:
                x[1][a] = rng.choice(VALUES)
    return t


def gen_case(rng, pool_name=None, shape=None):
    pool_name = pool_name or rng.choice(["distinct", "repeated", "affix", "affix", "special", "special", "lookalike"])
    pool = NAME_POOLS[pool_name]
    # the second tree's own separator; names of both trees then also contain that character
    sep2 = rng.choice(SEPS2) if rng.random() < 0.45 else "/"
    if sep2 != "/":
        extra = [f"a{sep2}b", f"b{sep2}", f"{sep2}c", sep2, f"v1{sep2}st{sep2}x", "b"]
        pool = extra + pool[: max(2, len(pool) // 2)] if rng.random() < 0.8 else pool + extra[:2]
    shape = shape or rng.choice(SHAPES)
    density = rng.choice([0.0, 0.4, 0.8])
    n = rng.choice([0, 1, 2, 3, 4, 5, 6, 7, 8, 9, 2, 3])
    root = rng.choice(["r", "r", rng.choice(pool)])
    t1 = gen_tree(rng, pool, shape, n, density, root)
    r = rng.random()
    if r < 0.08:
        t2 = copy.deepcopy(t1)                               # identical
    elif r < 0.14:
        t2 = edit_tree(rng, t1, pool, density, 0)
        for x, _, _ in _nodes(t2):                           # only attribute differences everywhere
            if rng.random() < 0.5:
                x[1][rng.choice(ATTR_POOL)] = rng.choice(VALUES)
    else:
        t2 = edit_tree(rng, t1, pool, density, rng.randint(1, 4))
    if density == 0.0 and rng.random() < 0.7:
        al = []
    else:
        k = rng.choice([0, 1, 1, 2, 2, 3])
        al = rng.sample(ATTR_POOL, k)
    if rng.random() < 0.15:
        t1, t2 = t2, t1
    case = {"sep": "/", "sep2": sep2, "t1": t1, "t2": t2, "only_diff": rng.random() < 0.55, "attrs": al,
            "cls": "Node", "call": rng.choice(["kw", "kw", "pos", "omit"]),
            "stratum": f"{pool_name}/{shape}" + ("" if sep2 == "/" else "/sep2")}
    if al and rng.random() < 0.2:
        # built-in derived attributes: resolved through the class, absent from the instance dict
        al.insert(rng.randint(0, len(al)), rng.choice(["is_leaf", "is_leaf", "depth"]))
    elif rng.random() < 0.04:
        al.append("is_leaf")
    r = rng.random()
    if r < 0.06:
        case["cls"] = "SubNode"
    elif r < 0.24:
        case["cls"] = "PropNode"        # y is a property, z has a class-level default
    elif r < 0.45 and _binary_ok(t1, t2):
        # BinaryNode trees: at most two children per parent in the union of the two trees
        # (more raise TreeError: reported, Example C15_binary_overflow_refuted)
        case["cls"] = "BinaryNode"
        case["slots1"] = rng.getrandbits(16)
        case["slots2"] = rng.getrandbits(16)
    if case["cls"] != "Node":
        case["stratum"] += "/" + case["cls"]
    return case


def _union_children(t1, t2):
    kids = {}
    for t in (t1, t2):
        def go(x, path):
            for k in x[2]:
                kids.setdefault(path, set()).add(k[0])
                go(k, path + (k[0],))
        go(t, (t[0],))
    return kids


def _binary_ok(t1, t2):
    return t1[0] == t2[0] and all(len(v) <= 2 for v in _union_children(t1, t2).values())


def _leaf(n, **at):
    return [n, dict(at), []]


def _known():
    import os
    try:
        return json.load(open(os.path.join(os.path.dirname(os.path.dirname(os.path.dirname(os.path.abspath(__file__)))),
                                           "known_findings.json"))).get("entries", [])
    except (OSError, ValueError):
        return []


def corpus(prop):
    out = []

    def add(label, t1, t2, od=True, al=(), sep="/", sep2=None):
        out.append((label, {"sep": sep, "sep2": sep2 or sep, "t1": t1, "t2": t2, "only_diff": od, "attrs": list(al),
                            "stratum": "corpus"}))

    # the second tree uses another separator and names contain that character
    rel = ["releases", {}, [["v1-stable", {}, [_leaf("notes.txt"), _leaf("build-2024-01")]], _leaf("v2")]]
    rel3 = copy.deepcopy(rel)
    rel3[2].append(_leaf("v3"))
    for od in (True, False):
        add("other-sep", rel, copy.deepcopy(rel), od, [], "/", "-")
        add("other-sep", rel, rel3, od, [], "/", "-")
        add("other-sep", rel, rel3, od, [], "/", ".")
        add("other-sep", ["r", {}, [_leaf("a|b", x=1), _leaf("|")]], ["r", {}, [_leaf("a|b", x=2), _leaf("|")]], od, ["x"], "/", "|")

    # the three pre-F6 behaviours
    for od in (True, False):
        add("F6-prefix", ["r", {}, [_leaf("b"), _leaf("bc")]], ["r", {}, [_leaf("bc")]], od)
        add("F6-paren", ["r", {}, [_leaf("x("), _leaf("c")]], ["r", {}, [_leaf("c")]], od)
        add("F6-paren", ["r", {}, [_leaf("c")]], ["r", {}, [_leaf("("), _leaf("c")]], od)
        add("F6-dot", ["r", {}, [_leaf("a.b"), _leaf("axb")]], ["r", {}, [_leaf("axb")]], od)
        add("F6-dot", ["r", {}, [["a.b", {}, [_leaf("c")]], ["axb", {}, [_leaf("c")]]]],
            ["r", {}, [["axb", {}, [_leaf("c")]]]], od)
        add("F6-suffix", ["r", {}, [_leaf("a"), _leaf("xa")]], ["r", {}, [_leaf("xa")]], od)
        add("F6-prefix-added", ["r", {}, [_leaf("bc")]], ["r", {}, [_leaf("bc"), _leaf("b")]], od)
        add("F6-nested", ["r", {}, [["b", {}, [_leaf("b"), _leaf("bc")]], ["bc", {}, [_leaf("b")]]]],
            ["r", {}, [["bc", {}, [_leaf("b")]]]], od)
    # renamed parent: same child names below a removed and an added parent
    add("renamed-parent", ["r", {}, [["b", {}, [_leaf("c"), _leaf("d")]]]], ["r", {}, [["e", {}, [_leaf("c"), _leaf("d")]]]])
    add("renamed-parent", ["r", {}, [["b", {}, [_leaf("c")]]]], ["r", {}, [["b", {}, []], ["e", {}, [_leaf("c")]]]], False)
    # deep difference, only_diff keeps all ancestors
    deep1 = ["r", {}, [["a", {}, [["b", {}, [["c", {}, [["d", {}, [["e", {}, [_leaf("f", x=1)]]]]]]]], _leaf("k")]], _leaf("z")]]
    deep2 = copy.deepcopy(deep1)
    deep2[2][0][2][0][2][0][2][0][2][0][2][0][1]["x"] = 2
    deep2[2][0][2][0][2][0][2][0][2][0][2].append(_leaf("g"))
    add("deep-only-diff", deep1, deep2, True, ["x"])
    add("deep-only-diff", deep1, deep2, False, ["x"])
    add("deep-only-diff", deep2, deep1, True, [])
    # attributes: unlisted attribute differs; identical trees with an attribute list
    add("unlisted-attr", ["r", {}, [_leaf("a", x=1, y=1)]], ["r", {}, [_leaf("a", x=1, y=2)]], True, ["x"])
    add("unlisted-attr", ["r", {}, [_leaf("a", x=1, y=1), _leaf("b", x=0)]], ["r", {}, [_leaf("a", x=1, y=2), _leaf("b", x="0")]], False, ["x"])
    add("identical", ["r", {"x": 1}, [_leaf("a", x=1, y="s")]], ["r", {"x": 1}, [_leaf("a", x=1, y="s")]], True, ["x", "y"])
    add("identical", ["r", {"x": 1}, [_leaf("a", x=1, y="s")]], ["r", {"x": 1}, [_leaf("a", x=1, y="s")]], False, ["x", "y"])
    add("identical", ["r", {}, [_leaf("a")]], ["r", {}, [_leaf("a")]], True, [])
    add("none-vs-missing", ["r", {}, [_leaf("a", x=None)]], ["r", {}, [_leaf("a")]], True, ["x"])
    add("two-attrs", ["r", {"x": 0}, [_leaf("a", x=1, y="s"), _leaf("b", y=1)]], ["r", {"x": "0"}, [_leaf("a", x=2, y="t"), _leaf("b")]], True, ["y", "x"])
    # names that already end in a marker (outside the guard of the predicate, model still compared)
    add("lookalike", ["r", {}, [_leaf("b"), _leaf("b (-)")]], ["r", {}, [_leaf("b (-)")]], False)
    add("lookalike", ["r", {}, [_leaf("b", x=1), _leaf("b (~)", x=1)]], ["r", {}, [_leaf("b", x=2), _leaf("b (~)", x=1)]], False, ["x"])
    # falsy values against None / missing, on either side, at the root and below (only the listed ones count)
    for od in (True, False):
        for v in (0, "", -1):
            add("falsy", ["r", {"x": None}, [_leaf("a", x=v), _leaf("b")]], ["r", {"x": v}, [_leaf("a"), _leaf("b", x=v)]], od, ["x"])
        add("falsy", ["r", {"x": 0}, []], ["r", {}, []], od, ["x"])                      # one-node trees, root differs
        add("falsy", ["r", {"x": 0}, []], ["r", {"x": 0}, []], od, ["x"])                # one-node trees, identical
        add("one-node", ["r", {}, []], ["r", {}, []], od, [])
        add("one-node", ["r", {}, []], ["r", {}, [_leaf("a")]], od, [])
        add("root-attr", ["r", {"x": 1, "y": "s"}, [_leaf("a", x=1)]], ["r", {"x": 2, "y": "s"}, [_leaf("a", x=1)]], od, ["x", "y"])
        # same name at the same depth under different parents, different status
        add("same-name-depth", ["r", {}, [["p", {}, [_leaf("u"), _leaf("m")]], ["q", {}, [_leaf("u"), _leaf("m")]]]],
            ["r", {}, [["p", {}, [_leaf("m")]], ["q", {}, [_leaf("u"), _leaf("m"), _leaf("n")]], ["s", {}, [_leaf("u")]]]], od)
        add("three-attrs", ["r", {}, [_leaf("a", x=1, y=1, z=1), _leaf("b", x=1, y=1, z=1)]],
            ["r", {}, [_leaf("a", x=2, y=1, z=3), _leaf("b", x=1, y=2, z=1)]], od, ["z", "y", "x"])
    for c in out[-8:]:
        c[1]["call"] = "pos"
    # node classes
    bt1 = ["r", {}, [["b", {"x": 1}, [_leaf("c")]], _leaf("d")]]
    bt2 = ["r", {}, [["b", {"x": 2}, [_leaf("e")]]]]
    for cls in ("BinaryNode", "SubNode"):
        for od in (True, False):
            add("class-" + cls, bt1, bt2, od, ["x"])
            out[-1][1].update(cls=cls, slots1=5, slots2=2)
    # attributes that node.get_attr resolves through the class: property y, class-level default z, built-in is_leaf / depth
    pt1 = ["r", {"y": 1}, [_leaf("a", y=1), _leaf("b", z=6), ["c", {}, [_leaf("d")]], _leaf("e", z=None)]]
    pt2 = ["r", {"y": 2}, [_leaf("a", y=2), _leaf("b"), _leaf("c"), _leaf("e")]]
    for od in (True, False):
        for al in (["y"], ["z"], ["is_leaf"], ["z", "is_leaf", "y"], ["depth", "y"]):
            add("class-attrs", pt1, pt2, od, al)
            out[-1][1].update(cls="PropNode")
        add("class-attrs", pt1, copy.deepcopy(pt1), od, ["y", "z", "is_leaf"])
        out[-1][1].update(cls="PropNode")
        add("builtin-attrs", ["r", {}, [["c", {}, [_leaf("d")]], _leaf("e")]], ["r", {}, [_leaf("c"), ["e", {}, [_leaf("f")]]]], od, ["is_leaf"])
        add("list-values", ["r", {}, [_leaf("a", x=[1, 2]), _leaf("b", x=[1]), _leaf("c"), _leaf("d", x=[])]],
            ["r", {}, [_leaf("a", x=[1, 3]), _leaf("b", x=[1]), _leaf("c", x=[]), _leaf("d", x=0)]], od, ["x"])
    # BinaryNode: a third child in the union raises TreeError (reported; in the corpus once it is a recorded finding)
    if any(e.get("id") == "K5-C15" for e in _known()):
        add("K5-binary-overflow", ["r", {}, [_leaf("b"), _leaf("c")]], ["r", {}, [_leaf("d")]], True)
        out[-1][1].update(cls="BinaryNode")
    # known finding K4-C15: the trees' separator is ignored when the result is rebuilt
    add("K4-sep", ["r", {}, [_leaf("b")]], ["r", {}, [_leaf("c")]], True, [], ".")
    add("K4-sep", ["r", {}, [_leaf("b", x=1)]], ["r", {}, [_leaf("b", x=2)]], False, ["x"], "|")
    add("K4-sep", ["r", {}, [_leaf("b")]], ["r", {}, []], True, [], ".")        # one row: a single node named ".r.b (-)"
    add("K4-sep", ["r", {}, [["b", {}, [_leaf("c")]]]], ["r", {}, [["b", {}, [_leaf("d")]]]], False, [], "\\")
    return out


def generate(prop, rng, tier):
    count = {"quick": 1300, "thorough": 24000, "search": 4500}[tier]
    for i in range(count):
        c = gen_case(rng)
        yield c["stratum"], c
    if tier == "thorough":
        # small scope: all pairs of trees over the shapes with <= 4 non-root nodes and names b / bc
        small = _small_trees(["b", "bc"])
        for t1 in small:
            for t2 in small:
                for od in (True, False):
                    yield "exhaustive/b-bc", {"sep": "/", "sep2": "/", "t1": t1, "t2": t2, "only_diff": od, "attrs": [], "stratum": "exhaustive"}


def _small_trees(names):
    """all trees with root r, depth <= 4, at most 4 non-root nodes, sibling names distinct (as ordered by names)"""
    def forests(budget, depth):
        # list of (forest, used)
        if budget == 0 or depth == 0:
            return [([], 0)]
        out = [([], 0)]

        def rec(i, acc, used):
            if i == len(names):
                return
            # skip names[i]
            rec(i + 1, acc, used)
            # use names[i]
            for sub, u in forests(budget - used - 1, depth - 1):
                if used + 1 + u <= budget:
                    acc2 = acc + [[names[i], {}, sub]]
                    out.append((acc2, used + 1 + u))
                    rec(i + 1, acc2, used + 1 + u)

        rec(0, [], 0)
        return out

    seen = {}
    for f, u in forests(4, 3):
        t = ["r", {}, f]
        seen[json.dumps(t)] = t
    return list(seen.values())


# ---------------------------------------------------------------------------------------------
# shrinking, evidence


def _positions(t, prefix=()):
    yield prefix
    for i, k in enumerate(t[2]):
        yield from _positions(k, prefix + (i,))


def _at(t, pos):
    for i in pos:
        t = t[2][i]
    return t


def shrink_candidates(prop, case):
    for key in ("t1", "t2"):
        for pos in _positions(case[key]):
            if not pos:
                continue
            c = copy.deepcopy(case)
            par = _at(c[key], pos[:-1])
            victim = par[2][pos[-1]]
            del par[2][pos[-1]]
            yield c
            # the same path in the other tree as well
            other = "t2" if key == "t1" else "t1"
            names = []
            cur = case[key]
            for i in pos:
                cur = cur[2][i]
                names.append(cur[0])
            c2 = copy.deepcopy(c)
            cur = c2[other]
            ok = True
            for nm in names[:-1]:
                nxt = [k for k in cur[2] if k[0] == nm]
                if not nxt:
                    ok = False
                    break
                cur = nxt[0]
            if ok:
                hit = [k for k in cur[2] if k[0] == victim[0]]
                if hit:
                    cur[2].remove(hit[0])
                    yield c2
    for key in ("t1", "t2"):
        for pos in _positions(case[key]):
            x = _at(case[key], pos)
            for a in list(x[1]):
                c = copy.deepcopy(case)
                del _at(c[key], pos)[1][a]
                yield c
    for i in range(len(case["attrs"])):
        c = copy.deepcopy(case)
        del c["attrs"][i]
        yield c
    if case["only_diff"]:
        c = copy.deepcopy(case)
        c["only_diff"] = False
        yield c


def size(case):
    return 10 * (len(_nodes(case["t1"])) + len(_nodes(case["t2"]))) + len(json.dumps(case))


def nontrivial(prop, case, obs):
    return "tree" in obs and len(obs["tree"]) >= 3 and any(
        p.endswith((" (-)", " (+)", " (~)")) for p, _ in obs["tree"])


def sample(prop, case, obs):
    return {"sep": case["sep"], "other_sep": case.get("sep2", case["sep"]), "tree": case["t1"], "other_tree": case["t2"], "only_diff": case["only_diff"],
            "attr_list": case["attrs"], "observed": obs}


def rule(prop):
    return ("pairs (tree, edited copy): random trees (0-10 nodes incl. one-node trees; shapes wide/deep/mixed/path/star; name pools "
            "distinct / repeated (same name at the same depth under different parents) / prefix-suffix related (b, bc, xa, ab) / "
            "special characters (. ( + ) [ * ? \\ space) / marker look-alikes) edited by deleting, adding, renaming, moving subtrees "
            "and changing attributes at any node incl. the root (ints incl. 0 and -1, strings incl. '', None, lists, attribute missing on one "
            "side); attribute kinds: plain instance attributes, a read-only @property and a class-level default of a user subclass "
            "(PropNode), the built-in derived attributes is_leaf / depth in attr_list; "
            "attr_list of 0-2 of 3 attributes (3 in the corpus, any order), only_diff on/off; arguments by keyword / positionally / "
            "omitted (defaults); tree.sep '/', other_tree.sep '/' or (45%) one of - . | \\ with names of both trees containing that "
            "character; node classes Node / plain Node subclass / PropNode / BinaryNode (single children in either slot; union of children <= 2 per parent). "
            "Observation = multiset of (path_name, attribute pairs) of the returned tree, None, or the exception class, PLUS: both input "
            "trees unchanged (objects, names, attributes, child slots; other_tree.sep may become tree.sep), result of the inputs' class "
            "sharing no node object with them, a second call on the same objects returns the same. "
            "non-trivial = a tree with >= 3 nodes of which at least one is marked")


def matches_finding(prop, entry, case, obs, flags):
    # K4-C15: sep != "/" -> the result is rebuilt with "/" (TreeError, or one node named by the whole path);
    # the model predicts exactly that (no disagreement), only the property predicate is false
    if entry.get("id") == "K4-C15":
        return case["sep"] != "/" and flags == 2 and ("err" in obs or "tree" in obs)
    # K5-C15: BinaryNode inputs whose union has a parent with more than two children -> TreeError, as the model predicts
    if entry.get("id") == "K5-C15":
        return (case.get("cls") == "BinaryNode" and flags == 2 and obs.get("err") == 7
                and not _binary_ok(case["t1"], case["t2"]))
    return False


def explain(prop, case, obs, flags):
    from ._base import explain as base
    if isinstance(obs, dict) and obs.get("why_unstable"):
        return "beside the returned tree the harness observed: " + "; ".join(obs["why_unstable"])
    return base(prop, case, obs, flags)


def trusted_base(prop):
    return COMMON_TB + ["pandas 3 DataFrame.merge(how='outer', indicator=True), Series.map/isnull/isin and elementwise != are "
                        "modelled (many-to-many join, NaN = None), not verified"]


def partial_clauses(prop):
    return ["the clause theorems and the umbrella C15_model_satisfies_prop_partial (prop_C15 holds of the model for all inputs of "
            "the domain) are stated for sep = '/'; for other one-character separators C15_sep_refused_iff proves the boundary of "
            "known finding K4-C15 (None iff no kept row, TreeError iff two different kept rows, a one-node tree otherwise) in terms "
            "of the marked path strings handed to dataframe_to_tree (kept_paths), not yet in terms of the two path sets; "
            "multi-character separators are not covered",
            "all C15 theorems carry the guard lookalike_free: no name already ends in ' (-)', ' (+)' or ' (~)' "
            "(Example C15_lookalike_guard_needed shows the predicate is false without it); the correspondence check "
            "still compares model and implementation on such names but does not evaluate the predicate there",
            "BinaryNode inputs: a parent with more than two children in the union of the two trees makes the call raise TreeError "
            "(Example C15_binary_overflow_refuted, reported); the generator keeps BinaryNode pairs below that bound",
            "accepted blind spots of the correspondence: (1) sibling order of the returned tree and pandas' row order (compared as a "
            "multiset, outside the property); (2) attribute values of the result are folded NaN/NA -> None and integral float -> int "
            "(pandas turns an int column holding a missing value into floats), values are ints, strings, None, lists of ints (modelled by their repr) and the bools of is_leaf - other bool and "
            "non-integral float values and Python's cross-type equality (0 == 0.0 == False) are not exercised; (3) BinaryNode's own "
            "`val` attribute on result nodes is ignored; (4) exceptions are compared by class only; (5) start nodes that are not roots, "
            "multi-character separators, tree.sep != '/' beyond the K4-C15 witnesses, empty or non-string names, names containing '/', "
            "attribute names that collide with other Node members (name, sep, children, parent ...; is_leaf and depth ARE generated), repeated entries or non-list containers in "
            "attr_list, trees with different root names are never generated (outside domain_C15: 0 cases skipped per run); "
            "(6) the value other_tree.sep has after the call is not constrained (old value or tree.sep both accepted)"]


def assumptions(prop):
    return ["both trees have the same root name and the trees' separator is '/'",
            "no node name contains '/' or is empty; sibling names are distinct (enforced by bigtree.Node)",
            "no node name already ends in ' (-)', ' (+)' or ' (~)' (the output format cannot distinguish such a name from a mark)",
            "attr_list has no repeated entry and names plain instance attributes"]
