"""Engine `plot`: Reingold-Tilford coordinates (C19).

case = {"cls": "Node"|"BaseNode"|"Sub", "tree": nested list of children lists, "par": [sibling_separation,
subtree_separation, level_separation, x_offset, y_offset] (Python floats), "stratum": label,
optional "ptype": "float"|"int"|"fraction" (Python type the five parameters are passed as), "call": "kw"|"pos"|"omit"
(keywords / positional / parameters equal to their default omitted), "junk": True (x, y, mod, shift pre-set with junk on
every node before the first call), "start": path of the node the call is made on (a first child; one call only),
optional "steps": [{"edit": None | ["rev", path] | ["add", path, i] | ["del", path, i], "par": [...]}, ...]}.
A fresh tree is built for every case and laid out with "par"; every step then (optionally changes
the structure and) calls reingold_tilford again on the SAME tree object (Algo/Plot.v `run_steps`:
_first_pass reads `shift` back from the nodes, reingold_tilford resets it first since F10, so every
call must give the fresh layout of the current shape); the observation is the coordinates after the
last call.  The floats the implementation wrote are handed to Coq as
exact rationals (float.as_integer_ratio()) and compared with the exact-rational model up to 1e-9.
"""
import itertools
from fractions import Fraction

from ..core import cZ, cbool, clist
from ._base import *  # noqa
from ._base import COMMON_TB, exn_code

SERVES = ["C19"]
COQ_TARGETS = ["theories/Corr/PlotCorr.vo"]
CASES_PER_FILE = 150
TOL = Fraction(1, 10 ** 9)


def coq_header(prop):
    return ("From Coq Require Import QArith.\n"
            "From BT Require Import Base.Prelude Base.Rose Algo.Plot Spec.PC19 Corr.PlotCorr.")


def coq_case_type(prop):
    return "pcase"


def coq_check(prop):
    return "check_C19"


# ---------------------------------------------------------------------------------------------
# implementation side


def _shape(node):
    return [_shape(ch) for ch in node.children]


def _coords(node):
    return [node.get_attr("x"), node.get_attr("y"), [_coords(ch) for ch in node.children]]


def pyval(v, ptype):
    """the Python object a parameter is passed as (the Coq literal is made from the same object)"""
    if ptype == "int":
        return int(v)
    if ptype == "fraction":
        return Fraction(v).limit_denominator(1000)
    return float(v)


def _call(fn, node, par, ptype, style):
    names = ["sibling_separation", "subtree_separation", "level_separation", "x_offset", "y_offset"]
    vals = [pyval(v, ptype) for v in par]
    if style == "pos":
        return fn(node, *vals)
    kw = dict(zip(names, vals))
    if style == "omit":
        kw = {k: v for (k, v), d in zip(kw.items(), [1.0, 1.0, 1.0, 0.0, 0.0]) if v != d}
    return fn(node, **kw)


class _Junk:
    """a value nothing can be computed with"""


def step_edits(step):
    if step.get("edits"):
        return [e for e in step["edits"] if e]
    return [step["edit"]] if step.get("edit") else []


def _at(root, path, skip=None):
    nd = root
    for j in path:
        nd = [ch for ch in nd.children if ch is not skip][j]
    return nd


def _apply_edit_impl(root, ed, fresh):
    """one structural change on the real tree; returns the (possibly new) root"""
    kind = ed[0]
    if kind == "rev":
        nd = _at(root, ed[1])
        nd.children = list(nd.children)[::-1]
    elif kind == "add":
        nd = _at(root, ed[1])
        ch = list(nd.children)
        ch.insert(ed[2], fresh())
        nd.children = ch
    elif kind == "del":
        nd = _at(root, ed[1])
        ch = list(nd.children)
        ch.pop(ed[2])
        nd.children = ch
    elif kind == "move":
        node = _at(root, ed[1])
        target = _at(root, ed[2], skip=node)          # path in the tree without the moved subtree
        rest = [ch for ch in target.children if ch is not node]
        if ed[4] == "parent" and ed[3] == len(rest):
            node.parent = target                      # appended as last child
        else:
            rest.insert(ed[3], node)
            target.children = rest
    elif kind == "cut":
        node = _at(root, ed[1])
        node.parent = None
        return node
    elif kind == "reroot":
        node = _at(root, ed[1])
        node.parent = None
        ch = list(node.children)
        if ed[2] == len(ch) and len(ed) > 3 and ed[3] == "parent":
            root.parent = node
        else:
            ch.insert(ed[2], root)
            node.children = ch
        return node
    else:
        raise ValueError(kind)
    return root


def _identity(root):
    out = []

    def walk(nd):
        out.append((getattr(nd, "node_name", None), nd.get_attr("tag"), id(nd)))
        for ch in nd.children:
            walk(ch)

    walk(root)
    return out


def run_impl(prop, case):
    from bigtree.node.basenode import BaseNode
    from bigtree.node.node import Node
    from bigtree.utils.plot import reingold_tilford

    class Sub(Node):
        """a user subclass with its own attribute and method"""
        colour = "red"

        def describe(self):
            return f"{self.node_name}:{self.colour}"

    class Eq(Node):
        """a user subclass with value semantics: nodes compare (and hash) by name, so distinct nodes of a
        tree can be equal; the library has to work on identity"""

        def __eq__(self, other):
            return isinstance(other, Node) and self.node_name == other.node_name

        def __ne__(self, other):
            return not self.__eq__(other)

        def __hash__(self):
            return hash(self.node_name)

    counter = [0]
    ptype = case.get("ptype", "float")
    style = case.get("call", "kw")
    names = list(case.get("names") or [])

    if case["cls"] == "BinaryNode":
        # known finding K5: "btree" = [left, right] slots (None = empty), a leaf is [None, None]
        from bigtree.node.binarynode import BinaryNode

        def bbuild(bt):
            counter[0] += 1
            name = counter[0]
            left = bbuild(bt[0]) if bt[0] is not None else None
            right = bbuild(bt[1]) if bt[1] is not None else None
            return BinaryNode(name, left=left, right=right)

        def bshape(nd):
            return [bshape(ch) for ch in nd.children if ch is not None]

        def bcoords(nd):
            return [nd.get_attr("x"), nd.get_attr("y"), [bcoords(ch) for ch in nd.children if ch is not None]]

        root = bbuild(case["btree"])
        pre = bshape(root)
        try:
            _call(reingold_tilford, root, case["par"], ptype, style)
        except Exception as e:      # the class is the observation (K5: AttributeError)
            return {"pre": pre, "raised": exn_code(e)}
        return {"pre": pre, "last": pre, "out": bcoords(root)}

    def fresh(parent=None):
        counter[0] += 1
        extra = {}
        if case.get("junk") == "ctor":
            # user attributes given to the constructor whose names collide with what the layout uses / with
            # built-in names
            extra = {"x": "junk", "y": None, "mod": "0", "shift": -1.0e9, "depth": 99, "n": 1, "names": "zz",
                     "name_en": "q", "path": "p"}
        if case["cls"] == "BaseNode":
            nd = BaseNode(parent=parent, **extra)
        else:
            nm = names[counter[0] - 1] if counter[0] <= len(names) else "n%d" % counter[0]
            nd = {"Sub": Sub, "Eq": Eq}.get(case["cls"], Node)(nm, parent=parent, **extra)
        nd.set_attrs({"tag": counter[0]})
        return nd

    def build(t, parent):
        nd = fresh(parent)
        for k in t:
            build(k, nd)
        return nd

    root = build(case["tree"], None)
    if case.get("junk") and case.get("junk") != "ctor":
        junk = ["junk", None, _Junk(), -1.0e9, [1, 2], "0"]
        k = 0
        for nd in [root] + list(root.descendants):
            nd.set_attrs({"x": junk[k % 6], "y": junk[(k + 1) % 6], "mod": junk[(k + 2) % 6], "shift": junk[(k + 3) % 6]})
            k += 1
    pre = _shape(root)
    start = root
    for j in case.get("start", []):
        start = start.children[j]
    before = _identity(root)
    res = _call(reingold_tilford, start, case["par"], ptype, style)
    if res is not None:
        raise AssertionError("reingold_tilford returned a value")
    if _identity(root) != before or _shape(root) != pre:
        raise AssertionError("reingold_tilford changed the structure, the names or a user attribute of the tree")
    def read_all(top):
        # what a user does between two layouts; primes whatever the node classes cache
        for nd in [top] + list(top.descendants):
            nd.depth, nd.get_attr("x"), nd.get_attr("y"), nd.is_leaf
        top.max_depth

    for step in case.get("steps", []):
        if step.get("read"):
            read_all(root)
        for ed in step_edits(step):
            root = _apply_edit_impl(root, ed, fresh)
            if step.get("read"):
                read_all(root)
        start = root
        before = _identity(root)
        shape_before = _shape(root)
        _call(reingold_tilford, start, step["par"], ptype, style)
        if _identity(root) != before or _shape(root) != shape_before:
            raise AssertionError("reingold_tilford changed the structure, the names or a user attribute of the tree")
    return {"pre": pre, "last": _shape(start), "out": _coords(start)}


# ---------------------------------------------------------------------------------------------
# Coq literals


def _cq(x):
    if isinstance(x, bool) or not isinstance(x, (int, float, Fraction)):
        raise TypeError(f"coordinate is not a number: {x!r}")
    if isinstance(x, Fraction):
        num, den = x.numerator, x.denominator
    else:
        num, den = float(x).as_integer_ratio()     # raises for nan / inf
    return f"{cZ(num)} {den}"


def _ctree(t):
    return "n " + clist(f"({_ctree(k)})" for k in t)


def _cout(o):
    x, y, ks = o
    return f"c {_cq(x)} {_cq(y)} " + clist(f"({_cout(k)})" for k in ks)


def _cpar(par, ptype="float"):
    return "PR " + " ".join(f"(q {_cq(pyval(v, ptype))})" for v in par)


def _cpath(path):
    return clist(f"{int(j)}%nat" for j in path)


def _cedit(ed):
    if not ed:
        return "ENone"
    if ed[0] == "rev":
        return f"ERev {_cpath(ed[1])}"
    if ed[0] == "add":
        return f"EAdd {_cpath(ed[1])} {int(ed[2])}%nat"
    if ed[0] == "del":
        return f"EDel {_cpath(ed[1])} {int(ed[2])}%nat"
    if ed[0] == "move":
        return f"EMove {_cpath(ed[1])} {_cpath(ed[2])} {int(ed[3])}%nat"
    if ed[0] == "cut":
        return f"ECut {_cpath(ed[1])}"
    if ed[0] == "reroot":
        return f"EReroot {_cpath(ed[1])} {int(ed[2])}%nat"
    raise ValueError(ed[0])


def emit(prop, case, obs):
    pt = case.get("ptype", "float")
    steps = clist(f"({clist(_cedit(e) for e in step_edits(st))}, {_cpar(st['par'], pt)})"
                  for st in case.get("steps", []))
    out = _cout(obs["out"]) if "out" in obs else "c (0)%Z 1 (0)%Z 1 []"
    raised = "None" if obs.get("raised") is None else f"(Some {int(obs['raised'])}%nat)"
    return (f"PC ({_cpar(case['par'], pt)}) ({_ctree(obs['pre'])}) {_cpath(case.get('start', []))} {steps} "
            f"({out}) {cbool(case['cls'] == 'BinaryNode')} {raised}")


def last_par(case):
    steps = case.get("steps") or []
    return steps[-1]["par"] if steps else case["par"]


def has_edit(case):
    return any(step_edits(st) for st in case.get("steps") or [])


# ---------------------------------------------------------------------------------------------
# the clauses of the property on an observation, in exact arithmetic with the tolerance of the Coq
# check (used only to classify a failing case as the known finding K1; the verdict itself is Coq's)


def _levels(o):
    lv = []

    def walk(nd, d):
        if len(lv) <= d:
            lv.append([])
        lv[d].append(nd)
        for k in nd[2]:
            walk(k, d + 1)

    walk(o, 0)
    return lv


def _nodes(o):
    out = [o]
    for k in o[2]:
        out.extend(_nodes(k))
    return out


def _same_shape(t, o):
    return len(t) == len(o[2]) and all(_same_shape(a, b) for a, b in zip(t, o[2]))


def clauses(case, obs):
    """{clause: bool} for the five clauses + shape, on the implementation's output."""
    ss, sts, ls, xo, yo = [Fraction(pyval(v, case.get("ptype", "float"))) for v in last_par(case)]

    def conv(o):
        return [Fraction(o[0]), Fraction(o[1]), [conv(k) for k in o[2]]]

    o = conv(obs["out"])
    lv = _levels(o)
    res = {"shape": _same_shape(obs.get("last", obs["pre"]), o)}
    ok = True
    for d, row in enumerate(lv):
        ok &= all(abs(nd[1] - row[0][1]) <= TOL for nd in row)
        if d + 1 < len(lv):
            ok &= all(abs(abs(row[0][1] - m[1]) - ls) <= TOL for m in lv[d + 1])
    res["levels"] = ok
    nodes = _nodes(o)
    res["midpoint"] = all(abs(nd[0] - (nd[2][0][0] + nd[2][-1][0]) / 2) <= TOL for nd in nodes if nd[2])
    res["siblings"] = all(a[0] + ss <= b[0] + TOL for nd in nodes for a, b in itertools.combinations(nd[2], 2))
    m = min(ss, sts)
    res["cousins"] = all(a[0] + m <= b[0] + TOL for row in lv for a, b in itertools.combinations(row, 2))
    res["nonneg"] = all(0 <= nd[0] + TOL for nd in nodes)
    return res


def matches_finding(prop, entry, case, obs, flags):
    """K1-C19: the case fails *only* the cousin-separation clause (of the last layout), and the
    implementation's coordinates are the modelled ones (Coq reported no disagreement: flags == F_PROPFAIL).
    Earlier layouts / structural changes do not matter: layouts are history-free since F10.
    K5-C19: the nodes are BinaryNode objects, the call raised AttributeError, and that is what the model
    predicts (flags == F_PROPFAIL: no coordinates, no disagreement)."""
    if flags != 2 or not isinstance(obs, dict):
        return False
    if entry.get("id") == "K5-C19":
        return case.get("cls") == "BinaryNode" and obs.get("raised") == 3 and "out" not in obs
    if entry.get("id") != "K1-C19" or case.get("cls") == "BinaryNode" or "out" not in obs:
        return False
    try:
        cl = clauses(case, obs)
    except Exception:
        return False
    return (not cl["cousins"]) and all(v for k, v in cl.items() if k != "cousins")


# ---------------------------------------------------------------------------------------------
# generation

K1_TREE = [[], [[], [[]]], [[[], []]]]                      # r(a, b(c, d(e)), f(g(h, i)))
# second mechanism of the same finding: the contour walk does not follow cousins
K1B_TREE = [[[[[[], []], [[], []]]], [[]]], [[[[[]]]]]]
DOC_TREE = [[[], [[], []]], [[]]]                           # a(b(d, e(g, h)), c(f)): the docstring example

DYADIC = [0.25, 0.5, 0.75, 1.0, 1.0, 1.5, 2.0, 3.0]
NONDYADIC = [0.1, 0.3, 1.0 / 3.0, 0.7, 1.1, 2.2]
OFFS = [0.0, 0.0, 0.5, 1.0, 2.25]
OFFS_ND = [0.0, 0.1, 1.0 / 3.0, 2.7]


def corpus(prop):
    u = [1.0, 1.0, 1.0, 0.0, 0.0]
    out = [
        ("K1-witness", {"cls": "Node", "tree": K1_TREE, "par": u, "stratum": "corpus"}),
        ("K1-witness-cousin-walk", {"cls": "Node", "tree": K1B_TREE, "par": u, "stratum": "corpus"}),
        ("docstring", {"cls": "Node", "tree": DOC_TREE, "par": u, "stratum": "corpus"}),
        ("single", {"cls": "BaseNode", "tree": [], "par": [1.0, 1.0, 1.0, 0.5, 0.25], "stratum": "corpus"}),
        ("path", {"cls": "Node", "tree": [[[[[]]]]], "par": [1.0, 2.0, 0.5, 0.0, 1.0], "stratum": "corpus"}),
        ("star", {"cls": "Node", "tree": [[], [], [], [], []], "par": [0.5, 1.0, 2.0, 0.0, 0.0], "stratum": "corpus"}),
        # five siblings, wide subtrees at both ends: shift redistribution over >= 3 siblings in between
        ("redistribute", {"cls": "Node", "tree": [[[], [], [], []], [], [], [], [[], [], [], []]],
                          "par": [1.0, 1.0, 1.0, 0.0, 0.0], "stratum": "corpus"}),
        # the most negative preliminary x is not at the left-most leaf
        ("negative-inner", {"cls": "Node", "tree": [[], [[], [], [], [], []]], "par": u, "stratum": "corpus"}),
        ("deep-contour", {"cls": "Node", "tree": [[[[[], []]]], [[[[], []]]]],
                          "par": [1.0, 3.0, 1.0, 0.0, 0.0], "stratum": "corpus"}),
        # r/{A/a/a1..a4, B/b, C/c/c1..c4}: C meets A only two levels down, past the shallow B
        ("sandwich", {"cls": "Node", "tree": [[[[], [], [], []]], [[]], [[[], [], [], []]]],
                      "par": u, "stratum": "corpus"}),
        ("sandwich-nested", {"cls": "Node", "tree": [[], [[[[], [], []]], [], [[]], [[[], [], [], []]]]],
                             "par": [1.0, 2.0, 1.5, 0.0, 0.0], "stratum": "corpus"}),
    ]
    v = [1.0, 2.0, 0.5, 0.5, 0.0]
    out += [
        # the same tree object laid out again with other parameters (stale `shift` is read back)
        ("rerun", {"cls": "Node", "tree": DOC_TREE, "par": u, "steps": [{"edit": None, "par": v}], "stratum": "corpus"}),
        ("rerun-x3", {"cls": "Node", "tree": [[[], [], []], [[], []], [], [[], [], [], []]], "par": v,
                      "steps": [{"edit": None, "par": u}, {"edit": None, "par": [2.0, 0.5, 1.5, 0.0, 1.0]}],
                      "stratum": "corpus"}),
        ("rerun-nonfirst-mod", {"cls": "Node", "tree": [[], [[], []]], "par": u,
                                "steps": [{"edit": None, "par": [2.0, 2.0, 1.0, 0.0, 0.0]}], "stratum": "corpus"}),
        # structural changes between two calls on which the layout stays tidy
        ("rerun-reversed", {"cls": "Node", "tree": [[[], [], []], [[], [], []], []], "par": u,
                            "steps": [{"edit": ["rev", []], "par": u}], "stratum": "corpus"}),
        ("rerun-leaf-in-front", {"cls": "Node", "tree": [[[], []], [[], []]], "par": u,
                                 "steps": [{"edit": ["add", [], 0], "par": u}], "stratum": "corpus"}),
        ("rerun-leaf-below", {"cls": "Node", "tree": [[[], []], [[], []]], "par": u,
                              "steps": [{"edit": ["add", [0], 1], "par": u}], "stratum": "corpus"}),
    ]
    out += [
        # how the call is made: ints, Fractions, positional, defaults omitted, junk attributes, subclass
        ("ints-positional", {"cls": "Node", "tree": DOC_TREE, "par": [2.0, 1.0, 3.0, 1.0, 2.0], "ptype": "int",
                             "call": "pos", "stratum": "corpus"}),
        ("fractions", {"cls": "Node", "tree": K1_TREE, "par": [1.0 / 3.0, 0.5, 2.0, 0.0, 1.0 / 7.0], "ptype": "fraction",
                       "stratum": "corpus"}),
        ("defaults-omitted", {"cls": "Sub", "tree": DOC_TREE, "par": [1.0, 2.0, 1.0, 0.0, 0.0], "call": "omit",
                              "stratum": "corpus"}),
        ("junk-attributes", {"cls": "Node", "tree": [[], [[], []], [[[], []]]], "par": u, "junk": True,
                             "steps": [{"edit": None, "par": v}], "stratum": "corpus"}),
        # x_offset cancels the (negative) preliminary x of an inner node / a mod exactly; y_offset cancels a level
        ("offset-cancels", {"cls": "Node", "tree": [[], [[], [], [], [], []]], "par": [1.0, 1.0, 1.0, 1.0, -1.0],
                            "stratum": "corpus"}),
        ("offset-negative", {"cls": "Node", "tree": DOC_TREE, "par": [1.0, 1.0, 2.0, -1.25, -4.0], "stratum": "corpus"}),
        ("fanout-12", {"cls": "Node", "tree": [[], [[], []], [], [], [], [[]], [], [], [], [[], [], []], [], []],
                       "par": [1.0, 1.5, 1.0, 0.0, 0.0], "stratum": "corpus"}),
        # the call is made on a first child instead of the root
        ("subtree-start", {"cls": "Node", "tree": [[[], [[], []]], [[]], []], "par": [1.0, 1.0, 2.0, 0.5, 0.5],
                           "start": [0], "stratum": "corpus"}),
        ("subtree-start-deep", {"cls": "Node", "tree": [[], [[[], [], []], []]], "par": u, "start": [1, 0],
                                "stratum": "corpus"}),
        # an inner node moved to a parent at another depth between two layouts (depth of its descendants changes)
        ("move-subtree-up", {"cls": "Node", "tree": [[[[], []], []], []], "par": u,
                             "steps": [{"edits": [["move", [0, 0], [], 2, "parent"]], "par": u}], "stratum": "corpus"}),
        ("move-subtree-down", {"cls": "Node", "tree": [[[], []], [[[]]], []], "par": u,
                               "steps": [{"edits": [["move", [0], [0, 0], 0, "children"]], "par": v, "read": True}],
                               "stratum": "corpus"}),
        ("swap-subtrees", {"cls": "Node", "tree": [[[[]], []], [[], [[], []]]], "par": u,
                           "steps": [{"edits": [["move", [0, 0], [0], 1, "children"], ["move", [1, 1], [0], 0, "children"]],
                                      "par": u}], "stratum": "corpus"}),
        ("cut-piece", {"cls": "Node", "tree": [[], [[[], []], [[]]]], "par": u,
                       "steps": [{"edits": [["cut", [1]]], "par": v, "read": True}], "stratum": "corpus"}),
        ("reroot", {"cls": "Node", "tree": [[[], [[]]], [[], []]], "par": u,
                    "steps": [{"edits": [["reroot", [0, 1], 1, "parent"]], "par": u}], "stratum": "corpus"}),
        ("delete-subtree", {"cls": "Node", "tree": [[[[], []]], [[], []], []], "par": u,
                            "steps": [{"edits": [["del", [], 0]], "par": u}], "stratum": "corpus"}),
        # a subclass with value equality (by name) and a descendant named like the root, on a tree that needs the
        # final x adjustment; repeated names along a path and across branches
        ("eq-root-name-below", {"cls": "Eq", "tree": [[], [[], [], [], [], []]], "par": u,
                                "names": ["a", "b", "c", "a", "d", "e", "f", "g"], "stratum": "corpus"}),
        ("eq-names-repeated", {"cls": "Eq", "tree": [[[], [[], [], [], []]], [[], [[]]]], "par": v,
                               "names": ["a", "b", "a", "b", "a", "c", "d", "e", "c", "a", "b", "zz"],
                               "steps": [{"edits": [["rev", [0, 1]], ["add", [1], 0]], "par": u, "read": True}],
                               "stratum": "corpus"}),
        ("ctor-attributes", {"cls": "Sub", "tree": [[], [[], [], [], []], [[]]], "par": u, "junk": "ctor",
                             "names": ["x", "y", "shift", "mod", "depth", "x", "y", "n", "x"], "stratum": "corpus"}),
        # K1 on the refuted family (Props C19_cousins_refuted_family): the witness under a chain of n unary nodes
        ("K1-family-1", {"cls": "Node", "tree": [K1_TREE], "par": u, "stratum": "corpus"}),
        ("K1-family-2", {"cls": "Node", "tree": [[K1_TREE]], "par": u, "stratum": "corpus"}),
        ("K1-family-3", {"cls": "Node", "tree": [[[K1_TREE]]], "par": u, "stratum": "corpus"}),
        # known finding K5: every BinaryNode tree (children holds None slots) makes the call raise AttributeError
        ("K5-binary-single", {"cls": "BinaryNode", "btree": [None, None], "tree": [], "par": u, "stratum": "corpus"}),
        ("K5-binary-left-only", {"cls": "BinaryNode", "btree": [[None, None], None], "tree": [[]], "par": u,
                                 "stratum": "corpus"}),
        ("K5-binary-full", {"cls": "BinaryNode", "btree": [[None, None], [None, None]], "tree": [[], []], "par": v,
                            "stratum": "corpus"}),
        # regression for F10 (stale `shift` read back): a leaf appended next to a sibling that was shifted
        ("F10-append-leaf", {"cls": "Node", "tree": K4_TREE, "par": u,
                             "steps": [{"edit": ["add", [], 2], "par": u}], "stratum": "corpus"}),
        ("F10-append-leaf-coincide", {"cls": "Node", "tree": [[[], []], [[], []]], "par": u,
                                      "steps": [{"edit": ["add", [], 2], "par": u}], "stratum": "corpus"}),
        ("rerun-leaf-removed", {"cls": "Node", "tree": [[[], [], []], [[], []], []], "par": u,
                                "steps": [{"edit": ["del", [0], 2], "par": v}], "stratum": "corpus"}),
    ]
    return out


K4_TREE = [[[], []], [[]]]          # r(a(a1, a2), b(b1)); then r gets a new last child c and is laid out again


def _from_parents(kids, i=0):
    return [_from_parents(kids, ch) for ch in kids[i]]


def gen_tree(rng, shape, nmax):
    n = rng.randint(2, nmax)
    kids = [[] for _ in range(n)]
    depth = [0] * n
    if shape == "path":
        for i in range(1, n):
            kids[i - 1].append(i)
    elif shape == "star":
        for i in range(1, n):
            kids[0].append(i)
    else:
        for i in range(1, n):
            if shape == "wide":
                cands = [p for p in range(i) if len(kids[p]) < 8 and depth[p] < 3]
                p = min(cands, key=lambda q: (depth[q], rng.random())) if rng.random() < 0.5 else rng.choice(cands)
            elif shape == "deep":
                cands = [p for p in range(i) if depth[p] < 7 and len(kids[p]) < 3]
                p = max(cands, key=lambda q: (depth[q], rng.random())) if rng.random() < 0.55 else rng.choice(cands)
            elif shape == "binary":
                cands = [p for p in range(i) if len(kids[p]) < 2]
                p = rng.choice(cands)
            else:  # mixed
                p = rng.randrange(i) if rng.random() < 0.6 else max(0, i - 1 - rng.randrange(min(i, 3)))
            kids[p].append(i)
            depth[i] = depth[p] + 1
    return _from_parents(kids)


def gen_comb(rng):
    """root with 3-6 children, several of which carry two- or three-level subtrees: the shape
    class in which shifts are redistributed and contours are compared over several levels"""
    def sub(d):
        if d == 0 or rng.random() < 0.25:
            return []
        return [sub(d - 1) for _ in range(rng.choice([1, 1, 2, 2, 3]))]
    t = [sub(rng.choice([0, 1, 2, 3])) for _ in range(rng.randint(3, 6))]
    return t


def gen_zigzag(rng):
    """two to four sibling subtrees whose facing contours continue below a *sibling* of the contour
    node (so that the sibling walks of _get_subtree_shift 295-303 decide how deep the comparison
    goes), down to depth 7"""
    def chain(depth, side):
        # one level: 1-3 children; the child that carries the next level is not the contour child
        if depth == 0:
            return []
        k = rng.choice([1, 2, 2, 3])
        kids = [[] for _ in range(k)]
        if k == 1 or rng.random() < 0.25:
            carrier = rng.randrange(k)
        elif side == "L":            # right contour of a left subtree: contour child is the last one
            carrier = rng.randrange(k - 1)
        else:                        # left contour of a right subtree: contour child is the first one
            carrier = rng.randrange(1, k)
        kids[carrier] = chain(depth - 1, side)
        if rng.random() < 0.2:
            other = rng.randrange(k)
            if other != carrier:
                kids[other] = chain(min(depth - 1, 1), side)
        return kids
    n = rng.choice([2, 2, 3, 4])
    sibs = []
    for i in range(n):
        d = rng.randint(2, 5)
        sibs.append(chain(d, "L" if i < n - 1 and rng.random() < 0.7 else "R"))
    if rng.random() < 0.3:
        sibs.insert(rng.randrange(len(sibs) + 1), [])
    return sibs if rng.random() < 0.6 else [sibs]


def gen_verywide(rng):
    """a node with 10-12 children (the root, or a child of the root), a few of which carry small subtrees"""
    f = rng.randint(10, 12)
    kids = [[] for _ in range(f)]
    for _ in range(rng.randint(0, 4)):
        kids[rng.randrange(f)] = rng.choice([[[]], [[], []], [[], [], []], [[[]]], [[], [[], []]]])
    r = rng.random()
    if r < 0.6:
        return kids
    if r < 0.8:
        return [kids, [[], []]]
    return [[[]], kids]


def gen_negwide(rng):
    """a node with 2-7 children one of which (not the first) carries a subtree so wide that its
    left-most leaf, not the left-most leaf of the tree, has the smallest preliminary x"""
    f = rng.randint(2, 7)
    i = rng.randrange(1, f)
    kids = [[[] for _ in range(rng.choice([0, 0, 0, 1, 2]))] for _ in range(f)]
    w = rng.randint(2 * i + 2, 2 * i + 5)
    kids[i] = [[] for _ in range(w)]
    if rng.random() < 0.3:
        kids[i][rng.randrange(w)] = [[] for _ in range(rng.randint(1, 3))]
    r = rng.random()
    if r < 0.5:
        return kids
    if r < 0.75:
        return [kids, []]
    return [[], kids]


def gen_sandwich(rng):
    """3-5 siblings: two (or more) of them carry deep, wide subtrees, the ones in between are
    shallow (leaf, one child, short path), so that the deep subtrees collide only two or more levels
    down and only the comparison with a *farther* left sibling separates them; also nested one
    level down and with extra siblings outside the sandwich"""
    def deep():
        d = rng.choice([1, 1, 2])                  # length of the stem below the sibling
        w = rng.randint(3, 5)                      # width of the fan at the bottom
        fan = [[] for _ in range(w)]
        if rng.random() < 0.25:
            fan[rng.randrange(w)] = [[] for _ in range(rng.randint(1, 2))]
        t = fan
        for _ in range(d):
            t = [t] if rng.random() < 0.7 else ([t, []] if rng.random() < 0.5 else [[], t])
        return t

    def shallow():
        r = rng.random()
        if r < 0.3:
            return []
        if r < 0.7:
            return [[]]
        if r < 0.85:
            return [[], []]
        return [[[]]]

    n = rng.randint(3, 5)
    sibs = [shallow() for _ in range(n)]
    lo = rng.randrange(0, n - 2)
    hi = rng.randrange(lo + 2, n)
    sibs[lo] = deep()
    sibs[hi] = deep()
    if n >= 5 and rng.random() < 0.3:
        sibs[rng.randrange(n)] = deep()
    r = rng.random()
    if r < 0.55:
        return sibs
    if r < 0.7:
        return [sibs]
    if r < 0.85:
        return [sibs, rng.choice([[], [[]]])]
    return [rng.choice([[], [[]]]), sibs]


def tsize(t):
    return 1 + sum(tsize(k) for k in t)


def gen_params(rng, kind):
    if kind == "unit":
        return [1.0, 1.0, 1.0, 0.0, 0.0]
    if kind == "dyadic":
        return [rng.choice(DYADIC), rng.choice(DYADIC), rng.choice(DYADIC), rng.choice(OFFS), rng.choice(OFFS)]
    if kind == "nondyadic":
        return [rng.choice(NONDYADIC), rng.choice(NONDYADIC), rng.choice(NONDYADIC),
                rng.choice(OFFS_ND), rng.choice(OFFS_ND)]
    if kind == "cancel":
        # offsets that cancel preliminary coordinates / accumulated mods exactly (x values of a layout are
        # multiples of half the separations; y values multiples of the level separation): 0-sums in the
        # second and third pass, negative offsets included
        ss, sts, ls = rng.choice([0.5, 1.0, 1.0, 2.0]), rng.choice([0.5, 1.0, 1.0, 1.5]), rng.choice([0.5, 1.0, 2.0])
        xo = -rng.choice([ss, sts, 0.5]) * rng.randint(0, 8) / 2
        yo = -ls * rng.choice([0, 0, 1, 2, 3]) if rng.random() < 0.7 else rng.choice(OFFS)
        return [ss, sts, ls, xo, yo]
    # mixed
    pool = DYADIC + NONDYADIC
    return [rng.choice(pool), rng.choice(pool), rng.choice(pool), rng.choice(OFFS + OFFS_ND), rng.choice(OFFS)]


def all_trees(n):
    """all ordered rooted trees with n nodes, as nested child lists"""
    def forests(m):            # all ordered forests with m nodes in total
        if m == 0:
            yield []
            return
        for first in range(1, m + 1):
            for t in forests(first - 1):
                for rest in forests(m - first):
                    yield [t] + rest
    return list(forests(n - 1))


EXH_PARAMS = [
    [1.0, 1.0, 1.0, 0.0, 0.0],
    [1.0, 2.0, 0.5, 0.5, 0.0],
    [2.0, 0.5, 1.5, 0.0, 1.0],
    [0.5, 1.5, 2.0, 0.25, 0.25],
    [0.3, 1.0 / 3.0, 0.1, 0.0, 0.1],
    [1.0, 0.7, 1.0, 2.7, 0.0],
]


def generate(prop, rng, tier):
    count = {"quick": 2000, "thorough": 24000, "search": 5000}[tier]
    if tier == "thorough":
        for n in range(1, 8):
            for t in all_trees(n):
                for k, par in enumerate(EXH_PARAMS):
                    yield f"exhaustive<=7/p{k}", {"cls": "Node", "tree": t, "par": list(par), "stratum": "exhaustive"}
    elif tier == "quick":
        # a deterministic slice of the small-scope enumeration: every ordered tree with <= 6 nodes once
        k = 0
        for n in range(1, 7):
            for t in all_trees(n):
                yield "exhaustive<=6", {"cls": "Node", "tree": t, "par": list(EXH_PARAMS[k % len(EXH_PARAMS)]),
                                        "stratum": "exhaustive"}
                k += 1
    shapes = ["wide", "deep", "mixed", "mixed", "binary", "comb", "comb", "zigzag", "zigzag", "negwide", "sandwich", "sandwich", "verywide", "path", "star"]
    pkinds = ["unit", "dyadic", "dyadic", "dyadic", "nondyadic", "mixed", "cancel"]
    for i in range(count):
        shape = rng.choice(shapes)
        if shape in ("path", "star") and rng.random() < 0.8:
            shape = "mixed"
        nmax = 16 if rng.random() < 0.15 else 12
        if shape == "comb":
            t = gen_comb(rng)
            while tsize(t) > 16:
                t = gen_comb(rng)
        elif shape == "zigzag":
            t = gen_zigzag(rng)
            while tsize(t) > 20:
                t = gen_zigzag(rng)
        elif shape == "negwide":
            t = gen_negwide(rng)
            while tsize(t) > 22:
                t = gen_negwide(rng)
        elif shape == "sandwich":
            t = gen_sandwich(rng)
            while tsize(t) > 24:
                t = gen_sandwich(rng)
        elif shape == "verywide":
            t = gen_verywide(rng)
        else:
            t = gen_tree(rng, shape, nmax)
        pk = rng.choice(pkinds)
        case = {"cls": rng.choice(["Node"] * 13 + ["BaseNode"] * 4 + ["Sub"] * 3), "tree": t,
                "par": gen_params(rng, pk), "stratum": f"{shape}/{pk}"}
        label = f"{shape}/{pk}"
        # how the parameters are passed: Python type, keywords / positional / defaults omitted
        r = rng.random()
        if r < 0.15:
            case["ptype"] = "int"
            case["par"] = [float(rng.choice([1, 1, 2, 3])), float(rng.choice([1, 1, 2, 3])), float(rng.choice([1, 2, 3])),
                           float(rng.choice([0, 0, 1, 2, -1])), float(rng.choice([0, 0, 1, -2]))]
        elif r < 0.25:
            case["ptype"] = "fraction"
        case["call"] = rng.choice(["kw", "kw", "kw", "pos", "omit"])
        r = rng.random()
        if r < 0.12:
            case["junk"] = True
        elif r < 0.2:
            case["junk"] = "ctor"
        allowed = None
        if rng.random() < 0.16:
            # repeated names (along a path, across branches, the root's name below), half of them on a subclass
            # with value equality; preferably on shapes that need the negative-x adjustment
            if rng.random() < 0.5:
                case["tree"] = t = gen_negwide(rng)
                while tsize(t) > 22:
                    case["tree"] = t = gen_negwide(rng)
            case["names"] = gen_names(rng, t)
            if rng.random() < 0.6:
                case["cls"] = "Eq"
                allowed = ["add", "append", "rev"]
            else:
                if case["cls"] == "BaseNode":
                    case["cls"] = "Node"
                allowed = ["add", "append", "rev", "del", "delsub", "cut"]
            label = case["stratum"] = f"names-{case['cls']}:{shape}/{pk}"
        if rng.random() < 0.3:
            # the same tree object is laid out again (once or twice), with the same or other parameters, and
            # in half of the cases after a structural change (leaf inserted / appended, children reversed,
            # leaf removed)
            cur = t
            steps = []
            edited = False
            for _ in range(rng.choice([1, 1, 2])):
                eds = []
                if rng.random() < 0.6:
                    for _ in range(rng.choice([1, 1, 2])):
                        ed, cur = gen_edit(rng, cur, allowed)
                        if ed is not None:
                            eds.append(ed)
                    edited = edited or bool(eds)
                par = list(case["par"]) if rng.random() < 0.3 else gen_params(rng, rng.choice(pkinds))
                st = {"edits": eds, "par": par}
                if rng.random() < 0.4:
                    st["read"] = True
                steps.append(st)
            if case.get("ptype") == "int":
                for st in steps:
                    st["par"] = [float(round(v)) if round(v) >= 1 or i >= 3 else 1.0 for i, v in enumerate(st["par"])]
            case["steps"] = steps
            case["stratum"] = label = ("relayout-edited:" if edited else "rerun:") + label
        elif rng.random() < 0.1:
            # the call is made on a node that is not the root: a first child (at any depth)
            cands = [q for q, _ in _paths(t) if q and q[-1] == 0]
            if cands:
                case["start"] = rng.choice(cands)
                case["stratum"] = label = "subtree-start:" + label
        yield label, case


def _paths(t, p=()):
    yield list(p), t
    for i, k in enumerate(t):
        yield from _paths(k, p + (i,))


def _replace(t, path, new):
    if not path:
        return new
    return t[:path[0]] + [_replace(t[path[0]], path[1:], new)] + t[path[0] + 1:]


def _sub(t, path):
    for j in path:
        t = t[j]
    return t


def _delnode(t, path):
    par = _sub(t, path[:-1])
    return _replace(t, path[:-1], par[:path[-1]] + par[path[-1] + 1:])


def _depths(t, d=0, out=None):
    out = [] if out is None else out
    out.append(d)
    for k in t:
        _depths(k, d + 1, out)
    return out


def gen_names(rng, t):
    """pre-order names with repeats along a path and across branches, the root's name re-used below; sibling
    names distinct (Node rejects equal sibling names); at least one node of the deepest level is not named
    like the root (see partial_clauses: max_depth of a value-equality subclass)"""
    pool = ["a", "b", "c", "d", "e", "f", "g", "h", "i", "j", "k", "l", "m", "o"]
    out = []

    def walk(sub, anc):
        me = len(out)
        used = set()
        for k in sub:
            r = rng.random()
            cand = anc[0] if r < 0.3 else rng.choice(anc) if r < 0.5 else rng.choice(pool)
            if cand in used:
                # no rejection sampling: a node can have more children than the pool has names
                free = [nm for nm in pool if nm not in used]
                cand = rng.choice(free) if free else "s%d" % len(used)
            used.add(cand)
            out.append(cand)
            walk(k, anc + [cand])
        return me

    out.append("a")
    walk(t, ["a"])
    dep = _depths(t)
    deepest = [i for i, d in enumerate(dep) if d == max(dep)]
    if max(dep) > 0 and all(out[i] == out[0] for i in deepest):
        out[deepest[0]] = "zz"
    return out


def gen_edit(rng, t, allowed=None):
    """(edit, tree after the edit); (None, t) when the chosen kind is not applicable"""
    kind = rng.choice([k for k in ["add", "append", "rev", "del", "delsub", "move", "move", "move", "move", "cut",
                                   "reroot"] if allowed is None or k in allowed])
    nodes = list(_paths(t))
    if kind in ("add", "append"):
        inner = [(p, k) for p, k in nodes if k]
        p, k = rng.choice(inner) if inner and rng.random() < 0.8 else rng.choice(nodes)
        i = len(k) if kind == "append" else rng.randint(0, len(k))
        return ["add", p, i], _replace(t, p, k[:i] + [[]] + k[i:])
    if kind == "rev":
        cands = [(p, k) for p, k in nodes if len(k) >= 2]
        if not cands:
            return None, t
        p, k = rng.choice(cands)
        return ["rev", p], _replace(t, p, k[::-1])
    if kind in ("del", "delsub"):
        cands = [(p, k, i) for p, k in nodes for i, c in enumerate(k) if bool(c) == (kind == "delsub")]
        if not cands:
            return None, t
        p, k, i = rng.choice(cands)
        return ["del", p, i], _replace(t, p, k[:i] + k[i + 1:])
    inner = [p for p, k in nodes if p and k]          # non-root nodes with children
    movable = inner if inner and rng.random() < 0.8 else [p for p, k in nodes if p]
    if not movable:
        return None, t
    src = rng.choice(movable)
    sub = _sub(t, src)
    if kind == "cut":
        return ["cut", src], sub
    rest = _delnode(t, src)
    if kind == "reroot":
        i = rng.randint(0, len(sub))
        ed = ["reroot", src, i] + (["parent"] if i == len(sub) and rng.random() < 0.6 else [])
        return ed, sub[:i] + [rest] + sub[i:]
    # move: to a node of another depth (up / down) or of the same depth (sideways)
    targets = list(_paths(rest))
    want = rng.choice(["up", "down", "same", "any"])
    d0 = len(src) - 1                                  # depth of the current parent
    pick = [(q, k) for q, k in targets
            if want == "any" or (want == "up" and len(q) < d0) or (want == "down" and len(q) > d0)
            or (want == "same" and len(q) == d0)]
    q, k = rng.choice(pick or targets)
    i = len(k) if rng.random() < 0.5 else rng.randint(0, len(k))
    via = "parent" if i == len(k) and rng.random() < 0.7 else "children"
    return ["move", src, q, i, via], _replace(rest, q, k[:i] + [sub] + k[i:])


# ---------------------------------------------------------------------------------------------
# shrinking, evidence


def _drop_variants(t):
    """trees obtained by deleting one subtree, or replacing one node by its children"""
    for i in range(len(t)):
        yield t[:i] + t[i + 1:]
        if t[i]:
            yield t[:i] + t[i] + t[i + 1:]
        for v in _drop_variants(t[i]):
            yield t[:i] + [v] + t[i + 1:]


def shrink_candidates(prop, case):
    steps = case.get("steps") or []
    for k in range(len(steps)):
        c = dict(case)
        c["steps"] = steps[:k] + steps[k + 1:]
        if not c["steps"]:
            del c["steps"]
        yield c
    for k, st in enumerate(steps):
        if st["par"] != [1.0, 1.0, 1.0, 0.0, 0.0]:
            c = dict(case)
            c["steps"] = steps[:k] + [dict(st, par=[1.0, 1.0, 1.0, 0.0, 0.0])] + steps[k + 1:]
            yield c
    for key in ("junk", "ptype", "call"):
        if case.get(key) not in (None, "kw", "float"):
            c = dict(case)
            del c[key]
            yield c
    if has_edit(case) or case.get("start"):
        return          # paths refer to the tree as it is
    for v in _drop_variants(case["tree"]):
        c = dict(case)
        c["tree"] = v
        yield c
    for i, dflt in enumerate([1.0, 1.0, 1.0, 0.0, 0.0]):
        if case["par"][i] != dflt:
            c = dict(case)
            c["par"] = case["par"][:i] + [dflt] + case["par"][i + 1:]
            yield c
    if case["cls"] != "Node":
        c = dict(case)
        c["cls"] = "Node"
        yield c


def size(case):
    n = 10 * tsize(case["tree"]) + sum(1 for v, d in zip(case["par"], [1.0, 1.0, 1.0, 0.0, 0.0]) if v != d)
    for st in case.get("steps") or []:
        n += 5 + sum(1 for v, d in zip(st["par"], [1.0, 1.0, 1.0, 0.0, 0.0]) if v != d)
    return n


def _fanout(t):
    return max([len(t)] + [_fanout(k) for k in t])


def nontrivial(prop, case, obs):
    return tsize(case["tree"]) >= 4 and _fanout(case["tree"]) >= 2 and any(k for k in case["tree"])


def rule(prop):
    return ("fresh Node/BaseNode trees (<= 24 nodes; strata wide / deep / mixed / binary / comb = 3-6 siblings with "
            "multi-level subtrees / zigzag = facing contours that continue below a sibling of the contour node, depth <= 7 / negwide = the smallest preliminary x is at a leaf that is not the left-most one / sandwich = 3-5 siblings, deep wide subtrees separated by shallow ones, also nested / path / star, plus every ordered tree with <= 6 nodes (quick) or <= 7 nodes x 6 "
            "parameter sets (thorough)) x positive separations (unit / dyadic / non-dyadic / mixed) and non-negative "
            "offsets; about 30 % of the generated cases lay the same tree object out again once or twice (same or other "
            "parameters), most of those after one or two structural changes (leaf inserted / appended, leaf or subtree removed, "
            "children reversed, a subtree moved up / down / sideways by node.parent = or target.children =, a piece cut "
            "off and laid out on its own, the tree re-rooted), 40 % with depth / max_depth / x / y / is_leaf read on every "
            "node before and between the changes; ~10 % of the single-call cases make the call on a first child instead of the root; parameters are "
            "passed as floats / ints (15 %) / Fractions (10 %), by keyword / positionally / with defaults omitted; 15 % of the "
            "cases pre-set x, y, mod, shift with junk values and 8 % pass x / y / mod / shift / depth / n / names / name_en / path "
            "as constructor attributes; classes Node / BaseNode / a user subclass / a subclass with value equality by name; "
            "16 % of the cases carry repeated names (along a path, across branches, the root's name below); strata verywide "
            "(fan-out 10-12) and cancel (x_offset / y_offset, also negative, that cancel preliminary coordinates, mods or "
            "levels exactly); the harness also fails a case when the call returns a value or changes structure, names or a "
            "user attribute; about 76 % of the generated trees satisfy cousin_safe (the class of C19_cousins_safe); non-trivial = >= 4 nodes, some fan-out >= 2 and depth >= 3; distinct by canonical JSON hash")


def sample(prop, case, obs):
    return {"tree": case["tree"], "par": case["par"], "steps": case.get("steps", []), "coordinates": obs.get("out") if isinstance(obs, dict) else None}


def explain(prop, case, obs, flags):
    from ._base import explain as base
    if isinstance(obs, dict) and "raised" in obs:
        return ("reingold_tilford raised (exception code %s) instead of writing coordinates" % obs["raised"]
                + ("" if flags & 1 else "; the model predicts exactly this"))
    if isinstance(obs, dict) and "out" in obs and flags & 2:
        try:
            cl = clauses(case, obs)
            bad = [k for k, v in cl.items() if not v]
            return ("the property predicate is false on the implementation's coordinates; failing clause(s): "
                    + ", ".join(bad) + ("" if flags & 1 else " (coordinates equal the model's)"))
        except Exception:
            pass
    return base(prop, case, obs, flags)


def partial_clauses(prop):
    return ["clause 4, cousin separation (any two nodes of one depth >= min(sibling, subtree separation) apart in tree "
            "order): false for the faithful model (Example C19_cousins_refuted, C19_cousins_refuted_binary; known "
            "finding K1) and proved only under the shape guard cousin_guard of Spec/PC19.v (C19_cousins_partial): "
            "every node has at most one child with children, or exactly two children [a; b] such that the walk from a "
            "along right-most children-with-children reaches a's deepest level and the walk from b along left-most "
            "children-with-children reaches b's deepest level; C19_cousins_partial2 additionally allows nodes with any "
            "number of non-leaf children all of whose grandchildren are leaves; C19_cousins_failure_shape is the "
            "contrapositive (every cousin failure happens on a tree outside that guard); C19_cousins_safe is the widest "
            "class proved: at every node any two children with children are both flat (only leaf children) or the left "
            "one is the first child and the facing walks are complete (92 % of the ordered trees with <= 9 nodes, about "
            "76 % of the generated trees); C19_cousins_refuted_family refutes the clause on infinitely many trees (the "
            "witness under n unary nodes, n = 1, 2, 3 replayed in the corpus); the exact boundary (which unsafe trees "
            "really fail) stays open: about 0.5 % of the generated trees fail, about 24 % are outside cousin_safe",
            "NOT EXERCISED / NOT COMPARED (accepted): (0) subclasses whose instances can be falsy (__len__ = number of "
            "children, __bool__): the unchanged library collapses the layout (preorder_iter and `if node.left_sibling` "
            "skip falsy nodes) - reported, not generated; a value-equality subclass whose ONLY deepest nodes are named "
            "like the root gets every y one level too low (max_depth goes through descendants, which drops nodes == "
            "root) - reported, generated names avoid it; (1) BinaryNode trees: reingold_tilford raises AttributeError on every "
            "BinaryNode tree, even a single node (children contain None): known finding K5-C19, three corpus witnesses "
            "(modelled: raises), not generated; (2) a start node that "
            "has a left sibling (reads x / subtrees of nodes outside the subtree, TypeError on a fresh tree, writes shift on "
            "the siblings): outside the model (rt_at = None), not generated; DAGNode is not a tree; (3) the values of the "
            "attributes mod and shift left on the nodes are not compared (only x and y are coordinates); (4) differences "
            "below 1e-9 in x or y are invisible (float tolerance); numpy / Decimal parameters, nan / inf, non-positive "
            "separations (F_SKIP, 0 cases per run) are not generated; (5) trees above 26 nodes / depth 8, removal of a "
            "non-leaf between two layouts, concurrent mutation are not generated; (6) plot_tree is out of scope"]


def trusted_base(prop):
    return COMMON_TB + [
        "IEEE-754 double arithmetic of CPython is not modelled: the model is the exact-rational algorithm, compared "
        "with the implementation's floats (passed as exact rationals) up to 1e-9; justified by continuity of "
        "+ - * / max in the inputs, not proved",
    ]


def assumptions(prop):
    return ["inputs are fresh trees or trees laid out before by reingold_tilford (possibly restructured since); node "
            "attributes x / mod / shift / y are only ever written by reingold_tilford itself",
            "separations > 0, offsets >= 0 in generated cases; reingold_tilford is called on a root node"]
