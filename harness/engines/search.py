"""Engine `search`: the fourteen functions of bigtree/tree/search.py on Node trees (C09).

A case = the whole tree (pre-order list of [depth, name, attrs]) + separator + the pre-order number
of the node the search is called on + one query.  Conditions (callables) are finite tables over the
object numbers.  Observation = object numbers of the returned nodes (None for a Python None) or
the exception code."""
from ..core import cbool, clist, cnat, copt, cpair, cstr, cZ
from ._base import *  # noqa
from ._base import exn_code, COMMON_TB

SERVES = ["C09"]
COQ_TARGETS = ["theories/Corr/SearchCorr.vo"]
CASES_PER_FILE = 160


def coq_header(prop):
    return "From BT Require Import Base.Prelude Base.Str Base.Rose Algo.Search Spec.PC09 Corr.SearchCorr."


def coq_case_type(prop):
    return "scase"


def coq_check(prop):
    return "check_C09"


# ---------------------------------------------------------------------------------------------
# implementation side


def build_tree(case):
    """Objects in pre-order.  cls "node": Node (sibling-name duplicates, outside Node's own invariant,
    are made by renaming after attachment, which is how a user gets them too); "binary": BinaryNode
    with the given left/right slots (an only child in the right slot leaves the left slot None);
    "dag": DAGNode, tree-shaped, some nodes with an extra parent outside the searched part."""
    cls = case.get("cls", "node")
    nodes = []
    stack = []      # nodes on the current root-to-node route
    if cls == "binary":
        from bigtree.node.binarynode import BinaryNode
        for i, (d, name, attrs) in enumerate(case["nodes"]):
            del stack[d:]
            nd = BinaryNode(name, **dict(attrs))
            if stack:
                if case["slots"][i] == 0:
                    stack[-1].left = nd
                else:
                    stack[-1].right = nd
            nodes.append(nd)
            stack.append(nd)
        nodes[0].sep = case["sep"]
        return nodes
    if cls == "dag":
        from bigtree.node.dagnode import DAGNode
        outside = DAGNode("outside")
        for i, (d, name, attrs) in enumerate(case["nodes"]):
            del stack[d:]
            parents = [stack[-1]] if stack else []
            if i % 3 == 2:
                parents = parents + [outside]
            nd = DAGNode(name, parents=parents, **dict(attrs))
            nodes.append(nd)
            stack.append(nd)
        return nodes
    from bigtree.node.node import Node
    if cls == "falsy":
        # instances that are falsy (a user class with __len__): only '.', '..', '*' are asked of them
        class Node(Node):  # noqa
            def __len__(self):
                return 0
    for i, (d, name, attrs) in enumerate(case["nodes"]):
        del stack[d:]
        parent = stack[-1] if stack else None
        kw = dict(attrs)
        if parent is not None and any(c.node_name == name for c in parent.children):
            nd = Node("\x01tmp%d" % i, **kw)
            nd.parent = parent
            nd.name = name
        elif parent is None:
            nd = Node(name, sep=case["sep"], **kw)
        else:
            nd = Node(name, parent=parent, **kw)
        nodes.append(nd)
        stack.append(nd)
    return nodes


_TRUTHY = [True, 1, "x", [0]]
_FALSY = [False, 0, "", None]


def _fresh(v):
    """an equal but not identical object (defeats `is` where `==` is meant)"""
    if isinstance(v, str) and len(v) > 1:
        return "".join(list(v))
    if isinstance(v, float):
        return float(repr(v))
    if isinstance(v, int) and not isinstance(v, bool) and abs(v) > 256:
        return int(str(v))
    return v


def _snapshot(nodes, cls):
    idx = {id(n): i for i, n in enumerate(nodes)}
    out = []
    for n in nodes:
        kids = [None if c is None else idx.get(id(c), -1) for c in n.children]
        if cls == "dag":
            out.append((n.node_name, kids, sorted(idx.get(id(p), -1) for p in n.parents)))
        else:
            p = n.parent
            out.append((n.node_name, kids, None if p is None else idx.get(id(p), -1), n.sep, n.depth))
    return out


def _call(case, nodes, idx):
    from bigtree.tree import search

    start = nodes[case["start"]]
    q = case["q"]
    kind = q[0]
    style = case.get("cstyle", "bool")
    pos = case.get("pos", False)

    def cond(tab):
        def f(n):
            i = idx.get(id(n), len(tab))
            b = bool(tab[i]) if i < len(tab) else False
            if style == "bool":
                return b
            return (_TRUTHY if b else _FALSY)[(i + len(tab)) % 4]   # truthy / falsy, not a bool
        return f

    def num(x):
        if x is None:
            return None
        if id(x) not in idx:
            raise TypeError("result is not a node of the tree: %r" % (x,))
        return idx[id(x)]

    try:
        if kind == "findall":
            r = (search.findall(start, cond(q[1]), q[2], q[3], q[4]) if pos else
                 search.findall(start, cond(q[1]), max_depth=q[2], min_count=q[3], max_count=q[4]))
        elif kind == "find":
            r = search.find(start, cond(q[1]), q[2]) if pos else search.find(start, cond(q[1]), max_depth=q[2])
        elif kind == "find_name":
            r = search.find_name(start, _fresh(q[1]), q[2]) if pos else search.find_name(start, _fresh(q[1]), max_depth=q[2])
        elif kind == "find_names":
            r = search.find_names(start, _fresh(q[1]), q[2]) if pos else search.find_names(start, _fresh(q[1]), max_depth=q[2])
        elif kind == "find_path":
            r = search.find_path(start, q[1])
        elif kind == "find_paths":
            r = search.find_paths(start, q[1])
        elif kind == "find_full_path":
            r = search.find_full_path(start, q[1])
        elif kind == "find_relative_path":
            r = search.find_relative_path(start, q[1])
        elif kind == "find_relative_paths":
            r = (search.find_relative_paths(start, q[1], q[2], q[3]) if pos else
                 search.find_relative_paths(start, q[1], min_count=q[2], max_count=q[3]))
        elif kind == "find_attr":
            r = (search.find_attr(start, q[1], _fresh(q[2]), q[3]) if pos else
                 search.find_attr(start, q[1], _fresh(q[2]), max_depth=q[3]))
        elif kind == "find_attrs":
            r = (search.find_attrs(start, q[1], _fresh(q[2]), q[3]) if pos else
                 search.find_attrs(start, q[1], _fresh(q[2]), max_depth=q[3]))
        elif kind == "find_children":
            r = (search.find_children(start, cond(q[1]), q[2], q[3]) if pos else
                 search.find_children(start, cond(q[1]), min_count=q[2], max_count=q[3]))
        elif kind == "find_child":
            r = search.find_child(start, cond(q[1]))
        elif kind == "find_child_by_name":
            r = search.find_child_by_name(start, _fresh(q[1]))
        else:
            raise ValueError(kind)
    except Exception as e:  # noqa
        return {"k": "err", "v": exn_code(e)}
    if kind in MULTI:
        return {"k": "nodes", "v": [num(x) for x in r]}
    return {"k": "node", "v": num(r)}


# ---- histories: search, edit the tree, search again --------------------------------------------
# An edit refers to nodes by their number in the INITIAL tree:
#   ["move", x, p]   nodes[x].parent = nodes[p]     (x becomes the last child of p; p not below x)
#   ["detach", x]    nodes[x].parent = None
#   ["delkids", x]   del nodes[x].children
#   ["sort", x]      nodes[x].sort(key=node_name)   (stable)
# The tree the final search sees is computed here on plain lists (shadow), independently of bigtree.


def shadow_links(case):
    nodes = case["nodes"]
    n = len(nodes)
    par, kids, stack = [None] * n, [[] for _ in range(n)], []
    for i, (d, _, _) in enumerate(nodes):
        del stack[d:]
        if stack:
            par[i] = stack[-1]
            kids[stack[-1]].append(i)
        stack.append(i)
    for e in case.get("edits", []):
        k = e[0]
        if k in ("move", "detach"):
            x = e[1]
            if par[x] is not None:
                kids[par[x]].remove(x)
            par[x] = e[2] if k == "move" else None
            if k == "move":
                kids[e[2]].append(x)
        elif k == "delkids":
            for c in kids[e[1]]:
                par[c] = None
            kids[e[1]] = []
        elif k == "sort":
            kids[e[1]].sort(key=lambda c: nodes[c][1])
        else:
            raise ValueError(k)
    return par, kids


def final_case(case):
    """the one-tree case (tree that contains the start node after the edits, renumbered in pre-order)
    + the map initial number -> final number"""
    if not case.get("edits"):
        return case, None
    par, kids = shadow_links(case)
    root = case["start"]
    while par[root] is not None:
        root = par[root]
    order, depths = [], []

    def go(x, d):
        order.append(x)
        depths.append(d)
        for c in kids[x]:
            go(c, d + 1)

    go(root, 0)
    new = {x: j for j, x in enumerate(order)}
    q = list(case["q"])
    if q[0] in ("findall", "find", "find_children", "find_child"):
        q[1] = [q[1][x] for x in order]
    fc = dict(case)
    fc["nodes"] = [[depths[j], case["nodes"][x][1], case["nodes"][x][2]] for j, x in enumerate(order)]
    fc["start"] = new[case["start"]]
    fc["q"] = q
    fc["sep"] = case["sep"] if root == 0 else "/"      # Node._sep of a non-root node is the default
    fc.pop("edits")
    return fc, new


def _apply_edit(nodes, e):
    k = e[0]
    if k == "move":
        nodes[e[1]].parent = nodes[e[2]]
    elif k == "detach":
        nodes[e[1]].parent = None
    elif k == "delkids":
        del nodes[e[1]].children
    elif k == "sort":
        nodes[e[1]].sort(key=lambda nd: nd.node_name)
    else:
        raise ValueError(k)


def run_impl(prop, case):
    nodes = build_tree(case)
    cls = case.get("cls", "node")
    idx = {id(n): i for i, n in enumerate(nodes)}
    if case.get("edits"):
        # read everything a search reads (depths, path names, the query itself), then edit, then search
        for e in [None] + list(case["edits"]):
            if e is not None:
                _apply_edit(nodes, e)
            _snapshot(nodes, cls)
            [n.path_name for n in nodes]
            [n.root.max_depth for n in nodes]
            if e is None or case.get("warm_each"):
                _call(case, nodes, idx)
    before = _snapshot(nodes, cls)
    obs = _call(case, nodes, idx)
    if _snapshot(nodes, cls) != before:
        return {"_harness_error": "the search changed the tree it searched", "obs": obs}
    again = _call(case, nodes, idx)              # a search has no memory: same call, same answer
    if again != obs:
        return {"_harness_error": "the same search on the same tree answered differently the second time",
                "obs": obs, "second": again}
    return obs


MULTI = {"findall", "find_names", "find_paths", "find_relative_paths", "find_attrs", "find_children"}
KINDS = ["findall", "find", "find_name", "find_names", "find_path", "find_paths", "find_full_path",
         "find_relative_path", "find_relative_paths", "find_attr", "find_attrs", "find_children",
         "find_child", "find_child_by_name"]

# ---------------------------------------------------------------------------------------------
# Coq literals


def _cval(v):
    if v is None:
        return "VNone"
    if isinstance(v, bool):
        return f"VBool {cbool(v)}"
    if isinstance(v, int):
        return f"VInt {cZ(v)}"
    if isinstance(v, str):
        return f"VStr {cstr(v)}"
    if isinstance(v, float):
        from fractions import Fraction
        fr = Fraction(v)
        return f"VFloat {cZ(fr.numerator)} {cZ(fr.denominator)}"
    raise TypeError(v)


def _ctab(t):
    return clist(cbool(b) for b in t)


def _cquery(q):
    k = q[0]
    if k == "findall":
        return f"QFindall {_ctab(q[1])} {cnat(q[2])} {cnat(q[3])} {cnat(q[4])}"
    if k == "find":
        return f"QFind {_ctab(q[1])} {cnat(q[2])}"
    if k == "find_name":
        return f"QFindName {cstr(q[1])} {cnat(q[2])}"
    if k == "find_names":
        return f"QFindNames {cstr(q[1])} {cnat(q[2])}"
    if k == "find_path":
        return f"QFindPath {cstr(q[1])}"
    if k == "find_paths":
        return f"QFindPaths {cstr(q[1])}"
    if k == "find_full_path":
        return f"QFindFullPath {cstr(q[1])}"
    if k == "find_relative_path":
        return f"QFindRelPath {cstr(q[1])}"
    if k == "find_relative_paths":
        return f"QFindRelPaths {cstr(q[1])} {cnat(q[2])} {cnat(q[3])}"
    if k == "find_attr":
        return f"QFindAttr {cstr(q[1])} ({_cval(q[2])}) {cnat(q[3])}"
    if k == "find_attrs":
        return f"QFindAttrs {cstr(q[1])} ({_cval(q[2])}) {cnat(q[3])}"
    if k == "find_children":
        return f"QFindChildren {_ctab(q[1])} {cnat(q[2])} {cnat(q[3])}"
    if k == "find_child":
        return f"QFindChild {_ctab(q[1])}"
    if k == "find_child_by_name":
        return f"QFindChildByName {cstr(q[1])}"
    raise ValueError(k)


def _cobs(o):
    if o["k"] == "err":
        return f"OErr {cnat(o['v'])}"
    if o["k"] == "node":
        return f"ONode {copt(o['v'], lambda v: cnat(int(v)))}"
    return "ONodes " + clist(copt(v, lambda x: cnat(int(x))) for v in o["v"])


def emit(prop, case, obs):
    case, new = final_case(case)
    if new is not None:
        m = lambda v: None if v is None else new.get(v, 9999)   # a node outside the searched tree: no match possible
        obs = dict(obs)
        obs["v"] = [m(v) for v in obs["v"]] if obs["k"] == "nodes" else m(obs["v"]) if obs["k"] == "node" else obs["v"]
    nodes = clist(
        cpair(cnat(d), cpair(cstr(name), clist(cpair(cstr(k), _cval(v)) for k, v in sorted(attrs.items()))))
        for d, name, attrs in case["nodes"])
    return f"SC {nodes} {cstr(case['sep'])} {cnat(case['start'])} ({_cquery(case['q'])}) ({_cobs(obs)})"


# ---------------------------------------------------------------------------------------------
# generation

NAME_POOLS = {
    "distinct": ["a", "b", "c", "d", "e", "f", "g", "h", "i", "j", "k", "l", "m"],
    "repeated": ["a", "b", "c", "a", "b", "a", "c", "b"],
    "affix": ["a", "xa", "ab", "b", "bc", "abc", "c", "ca", "aa"],
    "special": ["a.b", "(", "+", "a b", "a'", "0", "a1", "10", "a-", "-a", "a|b", "a/b", "x\\y", "é", "..a",
                "a>", ":a", "a/", "=a"],
}
SEPS = ["/", "/", "/", "\\", "-", ".", "|", "+", " ", ":"]
MULTI_SEPS = ["->", "::", "=>", "//", "-|-"]


def name_ok(x, sep, strict=True):
    """strict: no character of the separator occurs in the name (the guard of the _multi theorems);
    otherwise only the separator itself does not occur (K3 territory for multi-character separators)"""
    if "*" in x:
        return False
    return not (set(sep) & set(x)) if strict else sep not in x


SHAPES = ["wide", "deep", "mixed", "path", "star"]
ATTR_VALUES = [1, 2, 3, 1, 2, "x", "y", None, True, 0, False, "", "xy", "xy", 1000, 1000, 1.0, 2.5, 0.0]
MAXN = 11


BINARY_STAR = True    # '*' on BinaryNode trees with empty slots (repaired by fix 09acfdb, F11)


def gen_parents(rng, shape, n, maxfan=6):
    """parent index of every node (creation order; children keep creation order)"""
    par = [None]
    depth = [0]
    fan = [0]
    for i in range(1, n):
        if shape == "path":
            cands = [i - 1]
        elif shape == "star":
            cands = [0] if fan[0] < maxfan else [j for j in range(i) if fan[j] < maxfan]
        elif shape == "deep":
            cands = [i - 1] * 4 + list(range(i))
        elif shape == "wide":
            hubs = list(range(min(i, 2)))
            cands = hubs * 3 + list(range(i))
        else:
            cands = list(range(i))
        cands = [j for j in cands if fan[j] < maxfan and depth[j] < 7] or [j for j in range(i) if fan[j] < maxfan]
        p = rng.choice(cands)
        par.append(p)
        depth.append(depth[p] + 1)
        fan[p] += 1
        fan.append(0)
    return par


def preorder(par):
    n = len(par)
    kids = [[] for _ in range(n)]
    for i in range(1, n):
        kids[par[i]].append(i)
    order, depths, newpar = [], [], []
    pos = {}

    def go(x, d):
        pos[x] = len(order)
        order.append(x)
        depths.append(d)
        newpar.append(None if par[x] is None else pos[par[x]])
        for c in kids[x]:
            go(c, d + 1)

    go(0, 0)
    return depths, newpar


class Shape:
    def __init__(self, depths, par, names):
        if par is None:
            par, stack = [], []
            for i, d in enumerate(depths):
                del stack[d:]
                par.append(stack[-1] if stack else None)
                stack.append(i)
        self.depths, self.par, self.names = depths, par, names
        n = len(depths)
        self.kids = [[] for _ in range(n)]
        for i in range(1, n):
            self.kids[par[i]].append(i)

    def route(self, i):
        out = [i]
        while self.par[out[-1]] is not None:
            out.append(self.par[out[-1]])
        return out[::-1]

    def subtree(self, i):
        out, st = [], [i]
        while st:
            x = st.pop()
            out.append(x)
            st.extend(reversed(self.kids[x]))
        return out


def gen_tree(rng, shape, pool_name, sep, n, dupsib=False, maxfan=6, strict=True):
    par = gen_parents(rng, shape, n, maxfan)
    depths, par = preorder(par)
    pool = [x for x in NAME_POOLS[pool_name] if name_ok(x, sep, strict)]
    names = []
    kids_names = {}
    for i in range(n):
        used = kids_names.setdefault(par[i], [])
        free = [x for x in pool if x not in used]
        if dupsib and used and rng.random() < 0.35:
            nm = rng.choice(used)
        elif free:
            nm = rng.choice(free)
        else:
            nm = "n%d" % i
        used.append(nm)
        names.append(nm)
    return Shape(depths, par, names)


def gen_attrs(rng, n):
    out = []
    mode = rng.random()
    for i in range(n):
        a = {}
        if mode < 0.8 and rng.random() < 0.6:
            a["age"] = rng.choice(ATTR_VALUES)
        if rng.random() < 0.2:
            a["w"] = rng.choice(ATTR_VALUES)
        out.append(a)
    return out


def _table(rng, n):
    p = rng.choice([0.1, 0.3, 0.3, 0.6, 1.0])
    return [rng.random() < p for _ in range(n)]


def _md(rng, sh, start):
    d0 = sh.depths[start] + 1
    return rng.choice([0, 0, d0 - 1, d0, d0 + 1, d0 + 1, d0 + 2, d0 + 3, 1, 2])


def _count(rng):
    return rng.choice([0, 0, 0, 1, 1, 2, 2, 3, 4])


def _a_name(rng, sh, start, pool):
    r = rng.random()
    if r < 0.6:
        return sh.names[rng.choice(sh.subtree(start))]
    if r < 0.8:
        return sh.names[rng.randrange(len(sh.names))]
    if r < 0.95:
        return rng.choice(pool)
    return "zz"


def _path_query(rng, sh, start, sep, pool):
    """a path (suffix) query: component suffixes, character suffixes, infixes, near misses"""
    tgt = rng.choice(sh.subtree(start)) if rng.random() < 0.8 else rng.randrange(len(sh.names))
    names = [sh.names[i] for i in sh.route(tgt)]
    r = rng.random()
    if r < 0.35:
        k = rng.randrange(len(names))
        s = sep.join(names[k:])
        if rng.random() < 0.5:
            s = sep + s
    elif r < 0.50:
        full = sep + sep.join(names)
        s = full[rng.randrange(len(full)):]
    elif r < 0.70 and len(names) >= 2:
        j = rng.randrange(1, len(names))       # an infix that stops before the last component
        i = rng.randrange(0, j)
        s = sep.join(names[i:j])
        if rng.random() < 0.5:
            s = sep + s
    elif r < 0.80:
        s = sep + sep.join(names)
    elif r < 0.90:
        s = sep.join(names[-2:])[:-1] if len(sep.join(names[-2:])) > 1 else rng.choice(pool)
    else:
        s = sep.join(names[:-1] + [rng.choice(pool)])
    if rng.random() < 0.2:
        s = s + sep * rng.randint(1, 2)
    return s


def _full_path_query(rng, sh, sep, pool):
    tgt = rng.randrange(len(sh.names))
    names = [sh.names[i] for i in sh.route(tgt)]
    r = rng.random()
    if r < 0.45:
        pass
    elif r < 0.65:                                   # a prefix / an extension of one component
        k = rng.randrange(len(names))
        nm = names[k]
        names[k] = nm[:-1] if (len(nm) > 1 and rng.random() < 0.6) else nm + rng.choice(["", "b", "c", "a"])
    elif r < 0.75:
        names.append(rng.choice(pool + ["zz"]))
    elif r < 0.85:
        names[rng.randrange(len(names))] = rng.choice(pool)
    elif r < 0.92:
        names = names[1:] or ["zz"]                  # does not start at the root
    else:
        k = rng.randrange(len(names) + 1)
        names.insert(k, "")                         # doubled separator
    s = sep.join(names)
    r = rng.random()
    if r < 0.6:
        s = sep + s
    elif r < 0.7:
        s = sep + sep + s
    if rng.random() < 0.25:
        s = s + sep * rng.randint(1, 2)
    return s


def _relative_query(rng, sh, start, sep, pool, star=True):
    if rng.random() < 0.12:
        s = _full_path_query(rng, sh, sep, pool)
        return s if s.startswith(sep) else sep + s
    cur = start
    comps = []
    for _ in range(rng.choice([0, 1, 1, 2, 2, 3, 3, 4, 5])):
        r = rng.random()
        if r < 0.08:
            comps.append(".")
        elif r < 0.35:
            comps.append("..")
            if sh.par[cur] is not None:
                cur = sh.par[cur]
        elif r < 0.58 and star:
            comps.append("*")
            if sh.kids[cur]:
                cur = rng.choice(sh.kids[cur])
        elif r < 0.90 and sh.kids[cur]:
            cur = rng.choice(sh.kids[cur])
            comps.append(sh.names[cur])
        elif r < 0.96:
            comps.append(rng.choice(pool))
        else:
            comps.append(rng.choice(["zz", "", "...", "a"]))
    s = sep.join(comps)
    if rng.random() < 0.15:
        s = s + sep
    return s


def gen_query(rng, kind, sh, start, sep, pool, attrs, star=True):
    n = len(sh.names)
    if kind in ("find_path", "find_paths", "find_full_path") and rng.random() < 0.04:
        return [kind, rng.choice(["", sep, sep + sep])]
    if kind == "findall":
        return [kind, _table(rng, n), _md(rng, sh, start), _count(rng), _count(rng)]
    if kind == "find":
        t = _table(rng, n)
        if rng.random() < 0.5:                      # few matches: 0..3 nodes of the subtree
            sub = sh.subtree(start)
            hit = set(rng.sample(sub, min(len(sub), rng.choice([0, 1, 1, 2, 3]))))
            t = [i in hit for i in range(n)]
        return [kind, t, _md(rng, sh, start)]
    if kind in ("find_name", "find_names"):
        return [kind, _a_name(rng, sh, start, pool), _md(rng, sh, start)]
    if kind in ("find_path", "find_paths"):
        return [kind, _path_query(rng, sh, start, sep, pool)]
    if kind == "find_full_path":
        return [kind, _full_path_query(rng, sh, sep, pool)]
    if kind == "find_relative_path":
        return [kind, _relative_query(rng, sh, start, sep, pool, star)]
    if kind == "find_relative_paths":
        return [kind, _relative_query(rng, sh, start, sep, pool, star), _count(rng), _count(rng)]
    if kind in ("find_attr", "find_attrs"):
        key = rng.choice(["age", "age", "age", "w", "q"])
        vals = [a[key] for a in attrs if key in a]
        v = rng.choice(vals) if vals and rng.random() < 0.8 else rng.choice(ATTR_VALUES)
        return [kind, key, v, _md(rng, sh, start)]
    if kind == "find_children":
        return [kind, _table(rng, n), _count(rng), _count(rng)]
    if kind == "find_child":
        t = _table(rng, n)
        if sh.kids[start] and rng.random() < 0.5:
            hit = set(rng.sample(sh.kids[start], min(len(sh.kids[start]), rng.choice([0, 1, 1, 2, 3]))))
            t = [i in hit for i in range(n)]
        return [kind, t]
    if kind == "find_child_by_name":
        nm = sh.names[rng.choice(sh.kids[start])] if sh.kids[start] and rng.random() < 0.7 else rng.choice(pool + ["zz"])
        return [kind, nm]
    raise ValueError(kind)


CHILD_KINDS = ("find_children", "find_child", "find_child_by_name")


def gen_case(rng, kind=None):
    shape = rng.choice(SHAPES)
    pool_name = rng.choice(list(NAME_POOLS))
    sep = rng.choice(MULTI_SEPS) if rng.random() < 0.25 else rng.choice(SEPS)
    strict = not (len(sep) > 1 and rng.random() < 0.2)     # 5% of all cases: K3 territory
    n = rng.randint(1, MAXN) if rng.random() < 0.15 else rng.randint(4, MAXN)
    kind = kind or rng.choice(KINDS)
    r = rng.random()
    cls = "binary" if r < 0.15 else "dag" if (r < 0.40 and kind in CHILD_KINDS) else "node"
    if kind in ("find_relative_path", "find_relative_paths") and 0.15 <= r < 0.27:
        cls = "falsy"
    dupsib = rng.random() < (0.3 if cls == "dag" else 0.05)
    if cls == "binary" and shape in ("star", "wide"):
        shape = "mixed"
    sh = gen_tree(rng, shape, pool_name, sep, n, dupsib, maxfan=2 if cls == "binary" else 6, strict=strict)
    attrs = gen_attrs(rng, n)
    if kind in CHILD_KINDS and rng.random() < 0.8:
        inner = [i for i in range(n) if sh.kids[i]]
        start = rng.choice(inner) if inner else 0
    elif rng.random() < 0.35:
        start = 0
    else:
        start = rng.randrange(n)
    pool = [x for x in NAME_POOLS[pool_name] if name_ok(x, sep, strict)]
    q = gen_query(rng, kind, sh, start, sep, pool, attrs, star=(cls != "binary" or BINARY_STAR))
    if cls == "falsy":
        q[1] = sep.join(rng.choice([".", "..", "*", "*", ".."]) for _ in range(rng.randint(1, 4)))
    case = {"sep": sep, "nodes": [[sh.depths[i], sh.names[i], attrs[i]] for i in range(n)],
            "start": start, "q": q, "cls": cls,
            "cstyle": rng.choice(["bool", "bool", "mixed"]), "pos": rng.random() < 0.4}
    if cls == "binary":
        slots = []
        for i in range(n):
            p = sh.par[i]
            if p is None:
                slots.append(0)
            elif len(sh.kids[p]) == 2:
                slots.append(sh.kids[p].index(i))
            else:
                slots.append(rng.choice([0, 1, 1]))
        case["slots"] = slots
    label = (f"{kind}/{shape}/{pool_name}" + ("/dupsib" if dupsib else "") + ("" if cls == "node" else "/" + cls)
             + ("" if len(sep) == 1 else "/multisep" if strict else "/multisep-k3"))
    return label, case


DEPTH_KINDS = ["findall", "find", "find_name", "find_names", "find_attr", "find_attrs"]


def gen_history(rng, kind=None):
    """build, read, apply 1-3 structural edits (a node WITH descendants moves to another level, detach,
    delete children, sort), search again; max_depth at the boundaries of the edited tree"""
    shape = rng.choice(["deep", "mixed", "mixed", "wide", "path"])
    pool_name = rng.choice(["distinct", "distinct", "repeated", "affix"])
    sep = rng.choice(["/", "/", "-", ".", "|", "->"])
    n = rng.randint(4, MAXN)
    sh = gen_tree(rng, shape, pool_name, sep, n)
    names = sh.names
    if len(set(names)) < n and rng.random() < 0.7:      # moves need free names at the destination
        names = sh.names = [nm if names.index(nm) == i else nm + str(i) for i, nm in enumerate(names)]
    attrs = gen_attrs(rng, n)
    case = {"sep": sep, "nodes": [[sh.depths[i], names[i], attrs[i]] for i in range(n)], "start": 0, "q": None,
            "cls": "node", "cstyle": rng.choice(["bool", "bool", "mixed"]), "pos": rng.random() < 0.4,
            "edits": [], "warm_each": rng.random() < 0.5}
    moved = []
    for _ in range(rng.choice([1, 1, 2, 2, 3])):
        par, kids = shadow_links(case)

        def below(x):
            out, st = [], [x]
            while st:
                y = st.pop()
                out.append(y)
                st.extend(kids[y])
            return out

        def depth(x):
            d = 0
            while par[x] is not None:
                x = par[x]
                d += 1
            return d

        r = rng.random()
        inner = [x for x in range(n) if kids[x]]
        if r < 0.65:
            xs = [x for x in (inner if rng.random() < 0.8 and inner else range(n))]
            rng.shuffle(xs)
            done = False
            for x in xs:
                sub = set(below(x))
                ps = [p for p in range(n) if p not in sub and p != par[x] and depth(p) + 1 != depth(x)
                      and all(names[c] != names[x] for c in kids[p])]
                if ps:
                    case["edits"].append(["move", x, rng.choice(ps)])
                    moved.append(x)
                    done = True
                    break
            if not done:
                continue
        elif r < 0.80:
            xs = [x for x in (inner or range(n)) if par[x] is not None]
            if not xs:
                continue
            x = rng.choice(xs)
            case["edits"].append(["detach", x])
            moved.append(x)
        elif r < 0.90 and inner:
            x = rng.choice(inner)
            case["edits"].append(["delkids", x])
            moved.extend(kids[x])
        elif inner:
            case["edits"].append(["sort", rng.choice(inner)])
    if not case["edits"]:
        return None
    # the start node: inside a moved subtree, above it, or anywhere
    par, kids = shadow_links(case)
    r = rng.random()
    if moved and r < 0.45:
        x = rng.choice(moved)
        sub, st = [], [x]
        while st:
            y = st.pop()
            sub.append(y)
            st.extend(kids[y])
        start = rng.choice(sub)
    elif moved and r < 0.8:
        start = rng.choice(moved)
        while par[start] is not None and rng.random() < 0.7:
            start = par[start]
    else:
        start = rng.randrange(n)
    case["start"] = start
    case["q"] = ["find_name", "zz", 0]
    fc, new = final_case(case)
    fsh = Shape([d for d, _, _ in fc["nodes"]], None, [nm for _, nm, _ in fc["nodes"]])
    fsep = fc["sep"]
    pool = [x for x in NAME_POOLS[pool_name] if name_ok(x, fsep) and name_ok(x, sep)]
    kind = kind or (rng.choice(DEPTH_KINDS) if rng.random() < 0.7 else rng.choice(KINDS))
    fattrs = [a for _, _, a in fc["nodes"]]
    q = gen_query(rng, kind, fsh, fc["start"], fsep, pool, fattrs)
    if kind in DEPTH_KINDS:
        # max_depth at every boundary of the edited tree and at the depths the moved nodes had before
        d0 = fsh.depths[fc["start"]] + 1
        sub = fsh.subtree(fc["start"])
        h = max(fsh.depths[i] for i in sub) + 1
        old = [sh.depths[x] + 1 for x in moved]
        nowd = [fsh.depths[new[x]] + 1 for x in moved if x in new]
        md = rng.choice([0, 1, d0, d0 + 1, h - 1, h, h + 1] + old + nowd + [d - 1 for d in old + nowd if d > 1])
        q[{"findall": 2, "find": 2, "find_name": 2, "find_names": 2, "find_attr": 3, "find_attrs": 3}[kind]] = max(md, 0)
    if q[0] in ("findall", "find", "find_children", "find_child"):      # table: final numbering -> initial numbering
        inv = {j: x for x, j in new.items()}
        tab = [rng.random() < 0.5 for _ in range(n)]
        for j, b in enumerate(q[1]):
            tab[inv[j]] = b
        q[1] = tab
    case["q"] = q
    if any(name_ok(nm, "/") is False for nm in names):
        return None                                   # a detached part has the separator "/"
    label = f"history/{kind}/" + "+".join(e[0] for e in case["edits"])
    return label, case


def _exhaustive_shapes(n):
    """all ordered trees with n nodes as depth sequences"""
    out = []

    def go(seq):
        if len(seq) == n:
            out.append(list(seq))
            return
        for d in range(1, seq[-1] + 2):
            go(seq + [d])

    go([0])
    return out


def generate(prop, rng, tier):
    count = {"quick": 2000, "thorough": 34000, "search": 5000}[tier]
    for i in range(count):
        kind = KINDS[i % len(KINDS)]
        yield gen_case(rng, kind)
    hist = {"quick": 600, "thorough": 8000, "search": 1500}[tier]
    made = 0
    while made < hist:
        h = gen_history(rng)
        if h is not None:
            made += 1
            yield h
    if tier == "thorough":
        # small scope: every ordered tree with <= 5 nodes, names from a repeated/affix pool, every start node
        for n in range(1, 6):
            for depths in _exhaustive_shapes(n):
                for start in range(n):
                    for kind in KINDS:
                        pool_name = rng.choice(["repeated", "affix"])
                        sep = rng.choice(MULTI_SEPS) if rng.random() < 0.25 else rng.choice(SEPS)
                        par = []
                        stack = []
                        for i, d in enumerate(depths):
                            del stack[d:]
                            par.append(stack[-1] if stack else None)
                            stack.append(i)
                        pool = [x for x in NAME_POOLS[pool_name] if name_ok(x, sep)]
                        names, used = [], {}
                        for i in range(n):
                            u = used.setdefault(par[i], [])
                            free = [x for x in pool if x not in u] or ["n%d" % i]
                            nm = rng.choice(free)
                            u.append(nm)
                            names.append(nm)
                        sh = Shape(depths, par, names)
                        attrs = gen_attrs(rng, n)
                        q = gen_query(rng, kind, sh, start, sep, pool, attrs)
                        yield f"{kind}/exhaustive{n}/{pool_name}", {
                            "sep": sep, "nodes": [[depths[i], names[i], attrs[i]] for i in range(n)],
                            "start": start, "q": q}


# ---------------------------------------------------------------------------------------------
# fixed cases

def _t(sep, nodes, start, q):
    return {"sep": sep, "nodes": [[d, nm, a] for d, nm, a in nodes], "start": start, "q": q}


# a(b(d, e(g, h)), c(f)) : the fixture of tests/tree/test_search.py
_FIX = [(0, "a", {"age": 90}), (1, "b", {"age": 65}), (2, "d", {"age": 40}), (2, "e", {"age": 35}),
        (3, "g", {"age": 10}), (3, "h", {"age": 6}), (1, "c", {"age": 60}), (2, "f", {"age": 38})]
# r(a(b(a, ab), c), ab(a, b, c), b)
_AFX = [(0, "r", {}), (1, "a", {}), (2, "b", {}), (3, "a", {}), (3, "ab", {}), (2, "c", {}),
        (1, "ab", {}), (2, "a", {}), (2, "b", {}), (2, "c", {}), (1, "b", {})]


def _b(q):
    # r = BinaryNode("a"); r.right = BinaryNode("b")
    c = _t("/", [(0, "a", {}), (1, "b", {})], 0, q)
    c["cls"] = "binary"
    c["slots"] = [0, 1]
    return c


def corpus(prop):
    T8 = [True] * 8
    T11 = [True] * 11
    out = [
        # known finding K3: lstrip/rstrip take a character set; with sep "->" the name "a-" is mangled
        ("K3-witness", _t("->", [(0, "r", {}), (1, "a-", {})], 0, ["find_full_path", "->r->a-"])),
        # the absolute-path branch of find_relative_paths returns (None,) for a path that does not exist
        ("quirk-none-tuple", _t("/", _FIX, 3, ["find_relative_paths", "/a/zz", 0, 0])),
        ("quirk-none-tuple", _t("/", _FIX, 3, ["find_relative_path", "/a/zz"])),
        ("quirk-abs-count", _t("/", _FIX, 3, ["find_relative_paths", "/a/b", 2, 0])),
        # max_depth is absolute also for a start node below the root
        ("maxdepth-nonroot", _t("/", _FIX, 1, ["findall", T8, 3, 0, 0])),
        ("maxdepth-nonroot", _t("/", _FIX, 1, ["findall", T8, 2, 0, 0])),
        ("maxdepth-nonroot", _t("/", _FIX, 3, ["find_names", "g", 3])),
        ("maxdepth-nonroot", _t("/", _FIX, 3, ["find_attrs", "age", 10, 4])),
        ("maxdepth-nonroot", _t("/", _FIX, 3, ["findall", T8, 2, 0, 0])),
        # suffix, not substring
        ("path-suffix", _t("/", _AFX, 0, ["find_paths", "/a/b"])),
        ("path-suffix", _t("/", _AFX, 0, ["find_paths", "a"])),
        ("path-suffix", _t("/", _AFX, 0, ["find_paths", "b/"])),
        ("path-suffix", _t("/", _AFX, 1, ["find_path", "/r/a"])),
        ("path-suffix", _t("/", _AFX, 6, ["find_paths", "b"])),
        # count contract with three matches
        ("count", _t("/", _AFX, 0, ["find", [False, False, True, False, False, False, False, False, True, False, True], 0])),
        ("count", _t("/", _AFX, 0, ["find_name", "c", 0])),
        ("count", _t("/", _AFX, 0, ["find_name", "b", 0])),
        ("count", _t("/", _AFX, 6, ["find_child", T11])),
        ("count", _t("/", _AFX, 0, ["findall", T11, 0, 12, 0])),
        ("count", _t("/", _AFX, 0, ["findall", T11, 0, 0, 10])),
        ("count", _t("/", _AFX, 6, ["find_children", T11, 3, 3])),
        ("count", _t("/", _AFX, 6, ["find_children", T11, 4, 0])),
        # component-wise descent by exact name
        ("full-path", _t("/", _AFX, 4, ["find_full_path", "/r/ab/b"])),
        ("full-path", _t("/", _AFX, 0, ["find_full_path", "r/a/b/ab/"])),
        ("full-path", _t("/", [(0, "r", {}), (1, "ab", {}), (2, "c", {})], 0, ["find_full_path", "/r/a/c"])),
        ("full-path", _t("/", [(0, "r", {}), (1, "ab", {}), (2, "c", {})], 0, ["find_full_path", "/r/a"])),
        ("full-path", _t("/", _AFX, 0, ["find_full_path", "/a/b"])),
        # relative paths
        ("relative", _t("/", _FIX, 4, ["find_relative_paths", "../../*", 0, 0])),
        ("relative", _t("/", _FIX, 4, ["find_relative_path", "../../../.."])),
        ("relative", _t("/", _FIX, 0, ["find_relative_paths", "..", 0, 0])),
        ("relative", _t("/", _FIX, 0, ["find_relative_paths", "../*", 0, 0])),
        ("relative", _t("/", _FIX, 0, ["find_relative_paths", "*/*", 0, 0])),
        ("relative", _t("/", _FIX, 0, ["find_relative_paths", "*/e", 0, 0])),
        ("relative", _t("/", _FIX, 0, ["find_relative_paths", "*/zz", 0, 0])),
        ("relative", _t("/", _FIX, 0, ["find_relative_paths", "b/zz", 0, 0])),
        ("relative", _t("/", _FIX, 1, ["find_relative_paths", "./e/../*/", 0, 0])),
        ("relative", _t("/", _AFX, 6, ["find_relative_paths", "*", 0, 2])),
        ("relative", _t("/", _AFX, 6, ["find_relative_path", "../*/c"])),
        ("relative", _t("/", _FIX, 1, ["find_relative_paths", "", 0, 0])),
        # F11 (fixed 09acfdb): '*' on a BinaryNode with an empty left slot returned (None, b) / raised AttributeError
        ("F11-binary-star", _b(["find_relative_paths", "*", 0, 0])),
        ("F11-binary-star", _b(["find_relative_paths", "b/*", 0, 0])),
        ("F11-binary-star", _b(["find_relative_paths", "*/b", 0, 0])),
        ("F11-binary-star", _b(["find_relative_path", "*"])),
        # duplicate sibling names (made by renaming): the single-result contract inside the descent
        ("dupsib", _t("/", [(0, "r", {}), (1, "a", {}), (2, "b", {}), (1, "a", {})], 0, ["find_full_path", "/r/a/b"])),
        ("dupsib", _t("/", [(0, "r", {}), (1, "a", {}), (2, "b", {}), (1, "a", {})], 0, ["find_relative_paths", "a", 0, 0])),
    ]
    return out


# ---------------------------------------------------------------------------------------------
# evidence, shrinking, findings


def nontrivial(prop, case, obs):
    return len(case["nodes"]) >= 3 and isinstance(obs, dict) and obs.get("k") in ("nodes", "node", "err")


def rule(prop):
    return ("one search call (made twice; the tree is snapshotted before/after: links, names, sep, depth) on a tree of 1-11 "
            "nodes; classes Node (75%; for relative paths over . .. * also a subclass whose instances are falsy), BinaryNode with empty "
            "left/right slots (15%, all functions incl. '*'), DAGNode (children "
            "functions only); shapes wide/deep/mixed/path/star; name pools distinct/repeated/affix/special; separators "
            "/ \\ - . | + space : and, in 25% of the cases, the multi-character -> :: => // -|- (80% of those with no "
            "separator character in any name = the guard of the *_multi theorems, 20% only substring-free = K3 territory) "
            "(children built with a different own _sep than the root); plus histories (a quarter of the cases): build, read "
            "depths/path names/run the query, apply 1-3 structural edits through the public API (move a node with its "
            "descendants under a parent at another level, detach, delete children, sort children), optionally searching "
            "between the edits, then search and compare with the model of the edited tree (computed by the harness on plain "
            "lists); start node inside/above/outside the moved part; max_depth at 0, 1, start depth, height-1/height/height+1 "
            "and the old and new depths of the moved nodes; 5% duplicate sibling names made "
            "by renaming (30% for DAG); every start node; 14 query kinds (condition tables returning bools or truthy/falsy "
            "non-bools, names, path suffixes/infixes/near misses/empty, full paths, relative paths over . .. * names, "
            "attributes None/int/bool/str/''/float/large int passed as equal-but-not-identical objects, counts 0-4, "
            "max_depth around the start depth); arguments positional (40%) or by keyword; non-trivial = tree of >= 3 nodes; "
            "distinct by canonical JSON hash")


def sample(prop, case, obs):
    return {"sep": case["sep"], "nodes": case["nodes"], "start": case["start"], "query": case["q"],
            "edits": case.get("edits", []), "observed": obs}


def size(case):
    return 10 * len(case["nodes"]) + 5 * len(case.get("edits", [])) + sum(len(x) if isinstance(x, (str, list)) else 1 for x in case["q"])


def _drop_node(case, i):
    nodes = case["nodes"]
    n = len(nodes)
    if i == 0 or i == case["start"]:
        return None
    if i + 1 < n and nodes[i + 1][0] > nodes[i][0]:
        return None                       # not a leaf
    c = dict(case)
    c["nodes"] = nodes[:i] + nodes[i + 1:]
    if "slots" in case:
        c["slots"] = case["slots"][:i] + case["slots"][i + 1:]
    c["start"] = case["start"] - (1 if i < case["start"] else 0)
    q = list(case["q"])
    if q[0] in ("findall", "find", "find_children", "find_child"):
        q[1] = q[1][:i] + q[1][i + 1:]
    c["q"] = q
    return c


def shrink_candidates(prop, case):
    if case.get("edits"):
        ed = case["edits"]
        for k in range(len(ed)):
            c = dict(case)
            c["edits"] = ed[:k] + ed[k + 1:]
            try:
                final_case(c)
            except Exception:  # noqa
                continue
            yield c
        if case.get("warm_each"):
            c = dict(case)
            c["warm_each"] = False
            yield c
        return
    for i in range(len(case["nodes"]) - 1, 0, -1):
        c = _drop_node(case, i)
        if c is not None:
            yield c
    if any(a for _, _, a in case["nodes"]) and case["q"][0] not in ("find_attr", "find_attrs"):
        c = dict(case)
        c["nodes"] = [[d, nm, {}] for d, nm, _ in case["nodes"]]
        yield c
    q = case["q"]
    if q[0] in ("findall", "find_children", "find_relative_paths"):
        for k in (-1, -2):
            if q[k] != 0:
                c = dict(case)
                c["q"] = list(q)
                c["q"][k] = 0
                yield c
    if q[0] in ("findall", "find", "find_name", "find_names", "find_attr", "find_attrs"):
        k = {"findall": 2, "find": 2, "find_name": 2, "find_names": 2, "find_attr": 3, "find_attrs": 3}[q[0]]
        if q[k] != 0:
            c = dict(case)
            c["q"] = list(q)
            c["q"][k] = 0
            yield c


def matches_finding(prop, entry, case, obs, flags):
    """K3-C09: lstrip(sep)/rstrip(sep) strip a character set.  Matched only for a multi-character
    separator in use, a node name that begins or ends with one of the separator's characters, and only
    when the model reproduces the implementation's output (flags = property false, no disagreement)."""
    if entry.get("id") != "K3-C09":
        return False
    sep = case["sep"]
    if len(sep) < 2 or flags != 2:
        return False
    chars = set(sep)
    return any(nm and (nm[0] in chars or nm[-1] in chars) for _, nm, _ in case["nodes"])


def trusted_base(prop):
    return COMMON_TB + ["conditions (callables) are represented by finite truth tables over the nodes of the tree",
                        "node attributes are looked up among the user attributes only (no class properties)"]


def partial_clauses(prop):
    return ["find_path(s), find_full_path, find_relative_path(s): proved for every query string when the separator is one "
            "character (theorems *_partial), and for separators of ANY positive length (theorems *_multi) under the guard "
            "that excludes known finding K3: no character of the separator occurs in a name of the tree (names_sfree) and the "
            "query, after removing whole leading/trailing separators, neither starts nor ends with a separator character "
            "(clean / query_clean); both halves are necessary (Examples C09_multichar_sep_refuted, C09_multichar_query_refuted); "
            "relative paths additionally need '*' not in the separator and components that are '*' or contain no '*'",
            "find_full_path 'found iff the full path exists' is proved under sibling-name uniqueness and separator-free, "
            "non-empty names (as designed); an absolute path given to find_relative_paths is not subject to "
            "min_count/max_count and a missing one yields (None,) - prop_C09 accepts any expression of 'no node' there "
            "(the model comparison is exact everywhere, so a change in these branches is still reported, as a broken correspondence)",
            "accepted blind spots of the correspondence (never generated): histories on BinaryNode/DAGNode objects and "
            "edits other than parent assignment / detach / del children / sort; falsy node instances for anything but "
            "'.', '..', '*' (the unchanged tree skips them: `if tree and` in preorder_iter, `if _node and` in find_children, "
            "`if not child_node` in find_full_path); names that are not str (Node(1): find_full_path('/1/2') raises ValueError while "
            "find_paths('2') finds the node); conditions that raise; attribute values that are lists/dicts/NaN; attribute names "
            "that are class properties (name, depth, path_name, ...); negative max_depth/min_count/max_count; the empty separator, "
            "the separator '*'; multi-character separators with a clean-violating query over separator-free names (K3 variant, "
            "Example C09_multichar_query_refuted); names containing the separator or '*'; "
            "DAGNode arguments to anything but find_children/find_child/find_child_by_name; trees beyond 11 nodes / fan-out 6 / "
            "depth 8; exception messages and the container type (tuple/list) of multi-results are not compared"]


def assumptions(prop):
    return ["node names are non-empty (Node enforces it) and do not contain the separator for the full-path clause",
            "max_depth, min_count, max_count are non-negative integers; attribute values are None/int/str/bool"]
