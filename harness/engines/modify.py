"""Engine `modify`: shift_nodes / copy_nodes / shift_and_replace_nodes / copy_nodes_from_tree_to_tree /
copy_and_replace_nodes_from_tree_to_tree on generated trees and (from, to) pair lists (C08)."""
import json
import os

from ..core import cbool, clist, cnat, copt, cpair, cstr, cZ
from ._base import *  # noqa
from ._base import exn_code, COMMON_TB

SERVES = ["C08"]
COQ_TARGETS = ["theories/Corr/ModifyCorr.vo"]
CASES_PER_FILE = 150

OPS = ["shift", "copy", "shift_replace", "tt_copy", "tt_replace"]
_COQ_OP = {"shift": "OpShift", "copy": "OpCopy", "shift_replace": "OpShiftReplace",
           "tt_copy": "OpCopyTT", "tt_replace": "OpReplaceTT"}
FLAG_NAMES = ["skippable", "overriding", "merge_children", "merge_leaves", "delete_children", "with_full_path"]


def coq_header(prop):
    return "From BT Require Import Base.Prelude Base.Str Base.Rose Algo.Modify Spec.PC08 Corr.ModifyCorr."


def coq_case_type(prop):
    return "mcase"


def coq_check(prop):
    return "check_C08"


# ---------------------------------------------------------------------------------------------
# implementation side.  A tree is [name, {attr: int | [int]}, [children]].
#
# Besides the trees themselves the harness looks at things a property-violating change could hide in
# (leniency audit): the return value (must be None), parent/children link agreement of every node it
# walks, the caller's path lists (must not be mutated), aliasing of mutable attribute values between
# copied and original nodes.  An anomaly replaces the exception code by 90..93, which no model outcome
# has, so it surfaces as a disagreement.

A_RETURN, A_LINKS, A_ARGS, A_ALIAS = 90, 91, 92, 93

_CLS = {}


def _node_class(kind):
    from bigtree.node.node import Node
    if kind != "Sub":
        return Node
    if "Sub" not in _CLS:
        class SubNode(Node):          # a user subclass: add_path_to_tree must build intermediates with root.__class__
            kind = "sub"

            def my_label(self):
                return self.node_name
        _CLS["Sub"] = SubNode
    return _CLS["Sub"]


def _build(Node, spec, sep, tags, parent=None):
    name, attrs, kids = spec
    attrs = {k: (list(v) if isinstance(v, list) else v) for k, v in attrs.items()}
    if parent is None:
        n = Node(name, sep=sep, **attrs)
    else:
        n = Node(name, **attrs)
        n.parent = parent
    tags[id(n)] = len(tags["_alive"]) if "_alive" in tags else 0
    tags.setdefault("_alive", []).append(n)      # a collected node's id() could be reused by a node the call creates
    for v in attrs.values():
        if isinstance(v, list):
            tags.setdefault("_mutable", set()).add(id(v))
    for k in kids:
        _build(Node, k, sep, tags, n)
    return n


_PRIVATE = ("name", "_sep", "_BaseNode__parent", "_BaseNode__children")


def _observe(root, tags, anomalies):
    out = []
    mutable = tags.get("_mutable", set())

    def go(n, d, parent):
        if parent is not None and n.parent is not parent:
            anomalies.add(A_LINKS)
        at = []
        for k, v in sorted(vars(n).items()):
            if k in _PRIVATE:
                continue
            if isinstance(v, list):
                if tags.get(id(n)) is None and id(v) in mutable:
                    anomalies.add(A_ALIAS)       # a node created by the call shares a mutable value with an old node
                v = v[0] if len(v) == 1 else -1
            at.append([k, v])
        out.append([d, tags.get(id(n)), n.node_name, at])
        for c in n.children:
            go(c, d + 1, n)

    go(root, 1, None)
    return out


def _paths_arg(kind, which, items):
    """the container handed to the function: list (valid) / tuple / generator (must be refused)"""
    if kind == "tuple" or (kind == "tuple_from" and which == "from") or (kind == "tuple_to" and which == "to"):
        return tuple(items)
    if kind == "gen" and which == "to":
        return (x for x in items)
    return list(items)


def _call(mod, case, src, dst, frm, to):
    fl = dict(zip(FLAG_NAMES, case["flags"]))
    op = case["op"]
    kw = {"sep": case["sep"]}
    if op in ("shift", "copy", "tt_copy"):
        kw.update(fl)
    else:
        kw.update(skippable=fl["skippable"], delete_children=fl["delete_children"], with_full_path=fl["with_full_path"])
    if case.get("omit"):
        # rely on the documented defaults (sep="/", every flag False) instead of passing them
        kw = {k: v for k, v in kw.items() if not (v is False or (k == "sep" and v == "/"))}
    if op == "shift":
        return mod.shift_nodes(src, frm, to, **kw)
    if op == "copy":
        return mod.copy_nodes(src, frm, to, **kw)
    if op == "shift_replace":
        return mod.shift_and_replace_nodes(src, frm, to, **kw)
    if op == "tt_copy":
        return mod.copy_nodes_from_tree_to_tree(src, dst, frm, to, **kw)
    if op == "tt_replace":
        return mod.copy_and_replace_nodes_from_tree_to_tree(src, dst, frm, to, **kw)
    raise ValueError(op)


def _fresh(case):
    Node = _node_class(case.get("cls", "Node"))
    tags = {}
    src = _build(Node, case["tree"], case["tsep"], tags)
    n1 = len(tags["_alive"])
    dst = None
    if case["op"].startswith("tt_"):
        dst = _build(Node, case["tree2"], case["tsep2"], tags)
    # the node object handed to the function as `tree` / `to_tree` (not necessarily the root)
    arg_src = tags["_alive"][case.get("start", 0)] if case.get("start", 0) < n1 else src
    arg_dst = None
    if dst is not None:
        k = n1 + case.get("start2", 0)
        arg_dst = tags["_alive"][k] if k < len(tags["_alive"]) else dst
    return src, dst, tags, arg_src, arg_dst


def _one_call(mod, case, arg_src, arg_dst, frm, to, anomalies):
    a_from = _paths_arg(case.get("ptype", "list"), "from", frm)
    a_to = _paths_arg(case.get("ptype", "list"), "to", to)
    keep_from = list(a_from) if isinstance(a_from, (list, tuple)) else None
    keep_to = list(a_to) if isinstance(a_to, (list, tuple)) else None
    code = 0
    try:
        r = _call(mod, case, arg_src, arg_dst, a_from, a_to)
        if r is not None:
            anomalies.add(A_RETURN)
    except Exception as e:  # noqa
        code = exn_code(e)
    if (keep_from is not None and list(a_from) != keep_from) or (keep_to is not None and list(a_to) != keep_to):
        anomalies.add(A_ARGS)
    return code


def _snapshot(code, src, dst, tags, anomalies):
    s = _observe(src, tags, anomalies)
    d = _observe(dst, tags, anomalies) if dst is not None else []
    return {"code": min(anomalies) if anomalies else code, "src": s, "dst": d}


def run_impl(prop, case):
    import logging
    logging.disable(logging.CRITICAL)
    from bigtree.tree import modify as mod
    src, dst, tags, a_src, a_dst = _fresh(case)
    anomalies = set()
    code = _one_call(mod, case, a_src, a_dst, case["from"], case["to"], anomalies)
    obs = {"multi": _snapshot(code, src, dst, tags, anomalies), "seq": None}
    if len(case["from"]) >= 2 and len(case["from"]) == len(case["to"]) and case.get("ptype", "list") == "list":
        src, dst, tags, a_src, a_dst = _fresh(case)
        anomalies = set()
        code = 0
        for f, t in zip(case["from"], case["to"]):
            code = _one_call(mod, case, a_src, a_dst, [f], [t], anomalies)
            if code:
                break
        obs["seq"] = _snapshot(code, src, dst, tags, anomalies)
    return obs


# ---------------------------------------------------------------------------------------------
# Coq literals


def _cattrs(attrs):
    def val(v):
        return v[0] if isinstance(v, list) else v
    return clist(cpair(cstr(k), f"VInt {cZ(int(val(v)))}") for k, v in attrs)


def _ctree(spec, counter):
    name, attrs, kids = spec
    tag = counter[0]
    counter[0] += 1
    kid_terms = [_ctree(k, counter) for k in kids]
    return f"T (Some {tag}) {cstr(name)} {_cattrs(sorted(attrs.items()))} {clist(kid_terms)}"


def _crows(rows):
    return clist(f"({int(d)}, {copt(g, lambda x: str(int(x)))}, {cstr(n)}, {_cattrs(a)})" for d, g, n, a in rows)


def _cobs(o):
    return f"MO {int(o['code'])} ({_crows(o['src'])}) ({_crows(o['dst'])})"


def emit(prop, case, obs):
    counter = [0]
    src = _ctree(case["tree"], counter)
    if case["op"].startswith("tt_"):
        dst = _ctree(case["tree2"], counter)
        dsep = case["tsep2"]
    else:
        dst = "T None [] [] []"
        dsep = case["tsep"]
    fl = " ".join(cbool(b) for b in case["flags"])
    mi = (f"MI {_COQ_OP[case['op']]} (MF {fl}) ({cstr(case['sep'])}) ({src}) ({cstr(case['tsep'])}) "
          f"({dst}) ({cstr(dsep)}) ({clist(cstr(s) for s in case['from'])}) "
          f"({clist(copt(t, cstr) for t in case['to'])})")
    seq = "None" if obs["seq"] is None else f"(Some ({_cobs(obs['seq'])}))"
    return f"MC ({mi}) ({_cobs(obs['multi'])}) {seq} {cbool(case.get('ptype', 'list') == 'list')}"


# ---------------------------------------------------------------------------------------------
# generation

NAME_POOLS = {
    "distinct": ["b", "c", "d", "e", "f", "g", "h", "i", "j", "k", "l", "m"],
    "repeated": ["b", "c", "b", "d", "c", "b", "d", "c", "b", "d", "c", "b"],
    "affix": ["a", "xa", "ab", "b", "bc", "a", "abc", "b", "c", "xa", "ca", "bb"],
    # names with characters that are separators elsewhere, blanks, digits, non-ASCII (the predicate is lenient when a
    # name contains a separator in play; the model is still compared)
    "special": ["a.b", "c-d", "e f", "g1", "\u00fc", "a", "x|y", "b", "1", "a.b", "c", "d_e"],
    # names that start or end with a character of a multi-character separator without containing the separator:
    # known finding K3 (character-set semantics of rstrip/lstrip) when such a separator is in use
    "edge": ["a-", "-b", "c>", ":d", "e=", "f|", "a", "b", "c", "=g", "h:", "k"],
}
SEPS = ["/", "\\", "-", ".", "|"]
SEPS_MULTI = ["->", "::", "=>", "//", "-|-"]


def _pick_sep(rng, base=None):
    """a separator: the given one, a single character, a multi-character one (30 %), rarely the empty string"""
    r = rng.random()
    if r < 0.012:
        return ""
    if r < 0.31:
        return rng.choice(SEPS_MULTI)
    if base is not None and r < 0.72:
        return base
    return "/" if r < 0.80 else rng.choice(SEPS)
SHAPES = ["wide", "deep", "mixed", "path", "star", "hub"]
NEW_NAMES = ["n", "nn", "p"]


def gen_tree(rng, pool, shape, nmax, root_name="r"):
    """random ordered tree with <= nmax nodes, sibling names distinct"""
    n = rng.randint(3, nmax)
    root = [root_name, {}, []]
    nodes = [(root, 1)]
    tries = 0
    while len(nodes) < n and tries < 60:
        tries += 1
        if shape == "wide":
            cand = [x for x in nodes if len(x[0][2]) < 6 and x[1] <= 2]
        elif shape == "deep":
            cand = sorted(nodes, key=lambda x: -x[1])[:2]
        elif shape == "path":
            cand = [max(nodes, key=lambda x: x[1])]
        elif shape == "star":
            cand = [nodes[0]]
        elif shape == "hub":               # an inner node with many children (some of them with children of their own)
            cand = [nodes[0]] if len(nodes) < 3 else ([nodes[1]] * 6 + [x for x in nodes[2:] if x[1] <= 3])
        else:
            cand = nodes
        if not cand:
            cand = nodes
        par, d = rng.choice(cand)
        nm = rng.choice(pool)
        if any(k[0] == nm for k in par[2]):
            continue
        if d >= 7:
            continue
        attrs = {"v": rng.randint(0, 9)} if rng.random() < 0.4 else {}
        if rng.random() < 0.15:
            attrs["m"] = [rng.randint(0, 9)]          # a mutable value: copies must not share it
        kid = [nm, attrs, []]
        par[2].append(kid)
        nodes.append((kid, d + 1))
    return root


def tree_paths(spec, prefix=()):
    """pre-order list of name paths"""
    p = prefix + (spec[0],)
    out = [p]
    for k in spec[2]:
        out.extend(tree_paths(k, p))
    return out


def _join(sep, comps, rng, lead=0.3, trail=0.06):
    s = sep.join(comps)
    if rng.random() < lead:
        s = sep + s
    if rng.random() < trail:
        s = s + sep
    return s


def _endswith_matches(paths, tsep, comps, lead):
    q = (tsep if lead else "") + tsep.join(comps)
    return sum(1 for p in paths if (tsep + tsep.join(p)).endswith(q))


def gen_pair(rng, op, flags, sep, tsep, paths, paths2, last_to):
    """one (from, to) pair; paths: source tree, paths2: destination tree (the same list unless tree-to-tree).
    Returns (from string, to string or None, path the node should land on or None)."""
    tt = op.startswith("tt_")
    rp = op.endswith("replace")
    cp = op in ("copy", "tt_copy", "tt_replace")
    skip, over, mc, ml, dc, full = flags
    merging = (mc or ml) and not rp
    # ---- the kind of destination, biased by the flags so that most pairs are accepted
    r = rng.random()
    if rp:
        kind = "exists_any" if r < 0.9 else ("missing" if r < 0.97 else "none")
    elif (over or merging):
        kind = ("exists" if r < 0.45 else "new" if r < 0.80 else "same" if r < 0.88 and merging and not tt
                else "nested" if r < 0.91 and not tt else "delete" if r < 0.94 and not cp and not merging else "new")
    else:
        kind = ("new" if r < 0.70 else "exists" if r < 0.77 else "same" if r < 0.80 and not tt
                else "nested" if r < 0.84 and not tt else "delete" if r < 0.97 and not cp else "new")
    # ---- the node to address
    twins = [(a, b) for a in paths[1:] for b in paths2 if a[-1] == b[-1] and (tt or (a != b and b[:len(a)] != a))]
    r = rng.random()
    pt = None
    if last_to is not None and r < 0.25:
        pf = last_to                       # chain: address what the previous pair produced
    elif kind == "exists" and twins:
        pf, pt = rng.choice(twins)
    elif r < 0.36 and (cp or rp):
        pf = paths[0]
    elif r < 0.31:
        pf = paths[0]
    else:
        pf = rng.choice(paths[1:]) if len(paths) > 1 else paths[0]
        busy = [p for p in paths[1:] if sum(1 for c in paths if c[:-1] == p) >= 3]
        if busy and rng.random() < (0.7 if (mc or dc or tt) else 0.3):
            pf = max(busy, key=lambda p: (sum(1 for c in paths if c[:-1] == p), p)) if rng.random() < 0.6 else rng.choice(busy)
    junk = rng.random()
    if junk < 0.03 or (skip and junk < 0.15):
        pf = pf[:-1] + ("zz",)             # a node that does not exist
    # ---- from string
    if full:
        comps = list(pf)
        if junk > 0.98:
            comps = comps[1:] or comps     # does not start with the root
        frm = _join(sep, comps, rng, lead=0.4)
    else:
        lead = rng.random() < 0.25
        k = rng.randint(1, len(pf))
        if rng.random() < 0.45:
            k = 1
        if rng.random() < 0.8:             # mostly a suffix that identifies the node
            while k < len(pf) and _endswith_matches(paths, tsep, list(pf[-k:]), lead) > 1:
                k += 1
        comps = list(pf[-k:])
        if rng.random() < 0.03 and len(comps[0]) > 1:
            comps[0] = comps[0][1:]        # only a suffix of the first name
        frm = sep.join(comps)
        if lead:
            frm = sep + frm
        if rng.random() < 0.05:
            frm = frm + sep
    nf = pf[-1]
    # ---- to string
    if kind == "none":
        return frm, (None if rng.random() < 0.5 else ""), None
    if kind == "delete":
        return frm, (None if rng.random() < 0.6 else ""), None
    if kind == "exists_any":
        cand = [p for p in paths2 if len(p) > 1 and (tt or p[:len(pf)] != pf or rng.random() < 0.1)] or paths2
        pt = rng.choice(cand)
        return frm, _join(sep, list(pt), rng, lead=0.4), pt[:-1] + (nf,)
    if kind == "missing":
        pt = rng.choice(paths2)[:-1] + ("zz",)
        return frm, _join(sep, list(pt), rng, lead=0.4), None
    if kind == "exists" and pt is None:
        same_name = [p for p in paths2 if p[-1] == nf and (tt or p != pf)]
        kind = "new" if not same_name else kind
        pt = rng.choice(same_name) if same_name else None
    if kind == "same":
        pt = pf
    elif kind == "nested":
        below = [p for p in paths if p[:len(pf)] == pf] or [pf]
        pt = rng.choice(below) + (nf,)
    elif kind == "new":
        outside = [p for p in paths2 if tt or cp or p[:len(pf)] != pf] or paths2
        q = rng.choice(outside)
        extra = tuple(rng.choice(NEW_NAMES) for _ in range(rng.choice([0, 0, 0, 1, 1, 2])))
        pt = q + extra + (nf,)
    if rng.random() < 0.02:
        pt = pt[:-1] + ("zz",)                           # last names differ
    if rng.random() < 0.02:
        pt = ("zz",) + pt[1:]                            # wrong root
    return frm, _join(sep, list(pt), rng, lead=0.4), pt


def _indep(a, b):
    """neither path is a prefix of the other"""
    n = min(len(a), len(b))
    return a[:n] != b[:n]


def gen_dependent(rng, op, flags, paths, paths2):
    """3-4 pairs with dependencies between them: a later pair's destination parent is created (or used) by an earlier
    pair and then overridden / deleted / moved / merged away / replaced by a middle pair; the same parent path is
    re-created; a from-node is one that an earlier pair created or moved.  Returns (pairs as component tuples with
    None for a delete, flags) or None when the tree is too small.  One call must equal the single-pair calls."""
    tt = op.startswith("tt_")
    rp = op.endswith("replace")
    cp = op in ("copy", "tt_copy", "tt_replace")
    nodes = paths[1:]
    if len(nodes) < 3:
        return None
    fl = list(flags)
    f1, g, f3 = rng.sample(nodes, 3)
    if rp:
        # replacements that feed each other
        cand = [p for p in paths2 if len(p) > 1]
        if len(cand) < 2:
            return None
        d1 = rng.choice(cand)
        landed1 = d1[:-1] + (f1[-1],)
        d3 = rng.choice(cand)
        kind = rng.choice(["replace_landed", "from_landed", "sibling_of_landed"])
        if kind == "replace_landed" or tt:
            pairs = [(f1, d1), (g, landed1), (f3, d3)]                 # the second replaces what the first put there
        elif kind == "from_landed":
            pairs = [(f1, d1), (landed1, d3), (f3, d3[:-1] + (f1[-1],))]   # the moved node moves again, then is replaced
        else:
            pairs = [(f1, d1), (g, d3), (landed1, d3[:-1] + (g[-1],))]
        fl[1] = fl[2] = fl[3] = False
        return pairs, fl
    # destination parent P = q + [name]: not there yet, created by the first pair
    base = [q for q in paths2 if tt or all(q[:len(x)] != x for x in (f1, g, f3))] or [paths2[0]]
    q = rng.choice(base)
    kinds = ["override", "override_existing"]
    if not cp:
        kinds += ["delete", "move", "merge", "delete_existing", "move_existing"]
    kind = rng.choice(kinds)
    fl[2] = fl[3] = False
    other = rng.choice(paths2)
    if kind == "override":
        # pair 1 creates q/G, pair 2 puts the real G there (overriding), pair 3 files into q/G again
        P = q + (g[-1],)
        pairs = [(f1, P + (f1[-1],)), (g, P), (f3, P + (f3[-1],))]
        fl[1] = True
    elif kind == "override_existing":
        # an existing node D is used as parent, overridden by a same-named node, used again
        twins = [(a, b) for a in nodes for b in paths2[1:] if a[-1] == b[-1] and (tt or _indep(a, b))]
        if not twins:
            P = q + (g[-1],)
            pairs = [(f1, P + (f1[-1],)), (g, P), (f3, P + (f3[-1],))]
        else:
            g2, P = rng.choice(twins)
            rest = [x for x in nodes if x != g2 and (tt or (_indep(x, P) and _indep(x, g2)))]
            if len(rest) < 2:
                return None
            f1, f3 = rng.sample(rest, 2)
            pairs = [(f1, P + (f1[-1],)), (g2, P), (f3, P + (f3[-1],))]
        fl[1] = True
    elif kind == "delete":
        P = q + (rng.choice(NEW_NAMES),)
        pairs = [(f1, P + (f1[-1],)), (P, None), (f3, P + (f3[-1],))]
    elif kind == "move":
        # the created parent (with what was filed into it) moves away, then its path is created again
        P = q + (rng.choice(NEW_NAMES),)
        pairs = [(f1, P + (f1[-1],)), (P, other + ("p2", P[-1])), (f3, P + (f3[-1],))]
        if rng.random() < 0.5:
            pairs.append((other + ("p2", P[-1], f1[-1]), P + (f1[-1],)))      # and a node moved twice
    elif kind == "merge":
        # merge_children on the created parent itself (from == to): it dissolves, its path is created again
        P = q + (rng.choice(NEW_NAMES),)
        pairs = [(f1, P + (f1[-1],)), (P, P), (f3, P + (f3[-1],))]
        fl[2], fl[1] = True, False
    else:
        # an existing node used as parent by pairs 1 and 3 is deleted / moved in between
        cand = [d for d in nodes if all(_indep(d, x) for x in (f1, f3)) and d not in (f1, f3)]
        if not cand:
            return None
        P = rng.choice(cand)
        mid = (P, None) if kind == "delete_existing" else (P, other + ("p2", P[-1]))
        pairs = [(f1, P + (f1[-1],)), mid, (f3, P + (f3[-1],))]
    return pairs, fl


def flag_combo(idx):
    return [bool((idx >> b) & 1) for b in range(6)]


def light_flags(rng):
    """a combination that passes the argument checks, few flags set"""
    m = rng.random()
    return [rng.random() < 0.25, rng.random() < 0.35, m < 0.3, 0.3 <= m < 0.55, rng.random() < 0.25, rng.random() < 0.35]


def gen_case(rng, flags_idx=None, op=None, dependent=False):
    op = op or rng.choice(["shift", "shift", "shift", "copy", "copy", "shift_replace", "tt_copy", "tt_replace"])
    stratum = rng.choice(list(NAME_POOLS))
    pool = NAME_POOLS[stratum]
    shape = rng.choice(SHAPES + ["hub", "hub"])
    tree = gen_tree(rng, pool, shape, 9, root_name=(rng.choice(pool) if rng.random() < 0.1 else "r"))
    tsep = _pick_sep(rng)
    sep = _pick_sep(rng, base=tsep)
    tt = op.startswith("tt_")
    tree2, tsep2 = None, tsep
    if tt:
        tree2 = gen_tree(rng, pool, rng.choice(SHAPES), 7, root_name=rng.choice(["r", "s", tree[0]]))
        tsep2 = tsep if rng.random() < 0.5 else _pick_sep(rng)        # from_tree.sep != to_tree.sep stays frequent
    flags = light_flags(rng) if flags_idx is None else flag_combo(flags_idx)
    paths = tree_paths(tree)
    paths2 = tree_paths(tree2) if tt else paths
    npairs = rng.choice([1, 1, 1, 2, 2, 3, 3, 4])
    frm, to = [], []
    last_to = None
    dep = gen_dependent(rng, op, flags, paths, paths2) if (dependent or rng.random() < 0.16) else None
    if dep is not None:
        # pair lists with dependencies between the pairs (full paths, which are also valid partial paths)
        pairs, flags = dep
        lead = rng.random() < 0.3
        for pf, pt in pairs:
            frm.append((sep if lead else "") + sep.join(pf))
            to.append(None if pt is None else (sep if rng.random() < 0.3 else "") + sep.join(pt))
        shape = "dependent"
    else:
        for _ in range(npairs):
            f, t, landed = gen_pair(rng, op, flags, sep, tsep, paths, paths2, last_to if not tt else None)
            frm.append(f)
            to.append(t)
            last_to = landed
    if rng.random() < 0.015:
        to = to[:-1] if len(to) > 1 else to + [to[0]]     # lengths differ
    if rng.random() < 0.008:
        frm, to = [], []                                  # nothing to do
    case = {"op": op, "flags": flags, "sep": sep, "tree": tree, "tsep": tsep, "tree2": tree2, "tsep2": tsep2,
            "from": frm, "to": to, "stratum": f"{op}/{stratum}/{shape}/{len(frm)}p"}
    # -- how the call is made (leniency audit): defaults relied upon, container types, node class, start node
    case["omit"] = rng.random() < 0.5
    r = rng.random()
    case["ptype"] = "list" if r > 0.03 else rng.choice(["tuple", "tuple_from", "tuple_to", "gen"])
    case["cls"] = "Sub" if rng.random() < 0.3 else "Node"
    case["start"], case["start2"] = 0, 0
    if flags[5] and len(frm) == 1 and rng.random() < 0.5:
        # with_full_path, one pair: every look-up goes through tree.root, so any node of the tree may be handed over
        # (with several pairs an earlier pair may detach the handed-over node, which then is a root of its own)
        case["start"] = rng.randrange(len(paths))
        if tt:
            case["start2"] = rng.randrange(len(paths2))
    if case["ptype"] != "list":
        case["stratum"] = op + "/non-list-argument"
    return case


def _known_ids():
    try:
        path = os.path.join(os.path.dirname(os.path.dirname(os.path.dirname(os.path.abspath(__file__)))),
                            "known_findings.json")
        return {e.get("id") for e in json.load(open(path)).get("entries", []) if e.get("status") == "finding"}
    except Exception:  # noqa
        return set()


def _mk(op, tree, frm, to, flags=(), sep="/", tsep="/", tree2=None, tsep2="/"):
    fl = [n in flags for n in FLAG_NAMES]
    return {"op": op, "flags": fl, "sep": sep, "tree": tree, "tsep": tsep, "tree2": tree2, "tsep2": tsep2,
            "from": list(frm), "to": list(to), "stratum": "corpus"}


def _t(name, *kids, **attrs):
    return [name, dict(attrs), list(kids)]


K3_WITNESS = _mk("shift", _t("a", _t("b-"), _t("c")), ["a->b-"], ["a->c->b-"], sep="->")


def corpus(prop):
    fixture = _t("a", _t("b", _t("d", v=1), _t("e", _t("g"), _t("h"))), _t("c", _t("f")), v=0)
    out = []
    # F5: merge_children + overriding, first pair finds its destination, second pair must still merge
    f5 = _t("r", _t("x", _t("b", _t("b1"), _t("b2")), _t("c", _t("c1"), _t("c2"))),
            _t("y", _t("b", _t("old"))), _t("z"))
    out.append(("F5-merge-children-leak", _mk("shift", f5, ["r/x/b", "r/x/c"], ["r/y/b", "r/z/c"],
                                              flags=("overriding", "merge_children"))))
    out.append(("plain-shift", _mk("shift", fixture, ["a/b/e"], ["a/c/n/e"])))
    out.append(("plain-copy", _mk("copy", fixture, ["e", "d"], ["a/c/e", "a/c/f/d"])))
    out.append(("delete", _mk("shift", fixture, ["a/b/e", "f"], [None, ""])))
    out.append(("override", _mk("shift", _t("r", _t("x", _t("b", _t("k"))), _t("y", _t("b", _t("m")), _t("c"))),
                                ["r/x/b"], ["r/y/b"], flags=("overriding",))))
    out.append(("merge-children-4", _mk("shift", _t("r", _t("x", _t("c1"), _t("c2"), _t("c3"), _t("c4"), _t("c5")), _t("y")),
                                        ["r/x"], ["r/y/x"], flags=("merge_children",))))
    out.append(("merge-leaves", _mk("shift", fixture, ["a/b"], ["a/c/b"], flags=("merge_leaves",))))
    out.append(("delete-children", _mk("shift", fixture, ["a/b"], ["a/c/b"], flags=("delete_children",))))
    out.append(("replace-position", _mk("shift_replace", _t("r", _t("p", _t("q")), _t("b"), _t("c"), _t("d"), _t("e")),
                                        ["r/p/q"], ["r/b"])))
    out.append(("replace-right-sibling", _mk("shift_replace", _t("r", _t("a"), _t("b"), _t("c"), _t("d"), _t("e")),
                                             ["r/d"], ["r/b"])))
    out.append(("tt-copy", _mk("tt_copy", fixture, ["a/b/e", "a/c"], ["s/e", "s/n/c"], tree2=_t("s", _t("u")))))
    out.append(("tt-replace", _mk("tt_replace", fixture, ["a/b/e"], ["s/u"], tree2=_t("s", _t("t"), _t("u"), _t("w")))))
    out.append(("same-node-merge-children-copy", _mk("copy", fixture, ["a/b"], ["a/b"], flags=("merge_children",))))
    if "K3-C08" in _known_ids():
        out.append(("K3-multichar-sep", K3_WITNESS))
    return out


def generate(prop, rng, tier):
    import random as _r
    if tier == "thorough":
        # full product: every scenario seed with each of the 64 flag combinations
        for s in range(400):
            seed = rng.randrange(1 << 30)
            for idx in range(64):
                c = gen_case(_r.Random(seed), flags_idx=idx)
                yield c["op"] + "/full-product", c
        count = 10000
    else:
        count = {"quick": 1900, "search": 5000}[tier]
    # covering array over the six flags: a shuffled round-robin through all 64 combinations for 40 % of the cases
    # (so every combination, hence every t-way interaction, occurs), accepted-by-construction light combinations otherwise
    order = list(range(64))
    rng.shuffle(order)
    k = 0
    for i in range(count):
        if rng.random() < 0.4:
            c = gen_case(rng, flags_idx=order[k % 64])
            k += 1
        else:
            c = gen_case(rng)
        yield c["stratum"], c


# ---------------------------------------------------------------------------------------------
# evidence helpers


def _seps_in_use(case):
    out = [case["sep"], case["tsep"]]
    if case["op"].startswith("tt_"):
        out.append(case["tsep2"] or "/")
    return out


def _names_in_use(case):
    out = set()

    def walk(t):
        if t is not None:
            out.add(t[0])
            for k in t[2]:
                walk(k)
    walk(case["tree"])
    walk(case["tree2"])
    sep = case["sep"]
    for pth in list(case["from"]) + list(case["to"]):
        if pth and sep:
            out.update(x for x in pth.split(sep) if x)
    return out


def matches_finding(prop, entry, case, obs, flags):
    # K3: `rstrip(sep)` / `lstrip(sep)` strip a character *set*.  Narrow matcher: the property predicate is false while
    # the model still agrees with the implementation (flags == 2 exactly), a multi-character separator is in use, and
    # some name in play starts or ends with one of its characters.
    if entry.get("id") == "K3-C08" and flags == 2:
        for sp in _seps_in_use(case):
            if len(sp) > 1 and any(n and (n[0] in sp or n[-1] in sp) for n in _names_in_use(case)):
                return True
    return False


def size(case):
    def n(t):
        return 0 if t is None else 1 + sum(n(k) for k in t[2])
    return 4 * (n(case["tree"]) + n(case["tree2"])) + 6 * len(case["from"]) + sum(case["flags"]) + \
        sum(len(s or "") for s in case["from"] + case["to"])


def _prune(tree):
    """every tree with one leaf removed"""
    name, attrs, kids = tree
    for i, k in enumerate(kids):
        if not k[2]:
            yield [name, attrs, kids[:i] + kids[i + 1:]]
        else:
            for k2 in _prune(k):
                yield [name, attrs, kids[:i] + [k2] + kids[i + 1:]]


def shrink_candidates(prop, case):
    n = len(case["from"])
    if n == len(case["to"]) and n > 1:
        for k in range(n):
            c = dict(case)
            c["from"] = case["from"][:k] + case["from"][k + 1:]
            c["to"] = case["to"][:k] + case["to"][k + 1:]
            yield c
    for i, b in enumerate(case["flags"]):
        if b:
            c = dict(case)
            c["flags"] = case["flags"][:i] + [False] + case["flags"][i + 1:]
            if i == 5:
                c["start"], c["start2"] = 0, 0       # a non-root start node is only meaningful with full paths
            yield c
    for key, dflt in (("start", 0), ("start2", 0), ("omit", False), ("cls", "Node")):
        if case.get(key, dflt) != dflt:
            c = dict(case)
            c[key] = dflt
            yield c
    for t in _prune(case["tree"]):
        c = dict(case)
        c["tree"] = t
        yield c
    if case["tree2"] is not None:
        for t in _prune(case["tree2"]):
            c = dict(case)
            c["tree2"] = t
            yield c

    def strip_attrs(t):
        return [t[0], {}, [strip_attrs(k) for k in t[2]]]
    c = dict(case)
    c["tree"] = strip_attrs(case["tree"])
    if case["tree2"] is not None:
        c["tree2"] = strip_attrs(case["tree2"])
    if c["tree"] != case["tree"] or c["tree2"] != case["tree2"]:
        yield c
    if case["sep"] != "/" or case["tsep"] != "/" or (case["tsep2"] or "/") != "/":
        def resep(s):
            return None if s is None else s.replace(case["sep"], "/")
        c = dict(case)
        c.update(sep="/", tsep="/", tsep2="/", **{"from": [resep(s) for s in case["from"]], "to": [resep(s) for s in case["to"]]})
        yield c


def nontrivial(prop, case, obs):
    # the call changed the destination tree (>= 3 nodes before the call)
    def n(t):
        return 1 + sum(n(k) for k in t[2])

    def pre(t, d=1):
        out = [[d, t[0]]]
        for k in t[2]:
            out.extend(pre(k, d + 1))
        return out
    m = obs["multi"]
    if case["op"].startswith("tt_"):
        before, after = pre(case["tree2"]), [[r[0], r[2]] for r in m["dst"]]
    else:
        before, after = pre(case["tree"]), [[r[0], r[2]] for r in m["src"]]
    return n(case["tree"]) >= 3 and before != after


def sample(prop, case, obs):
    return {"op": case["op"], "flags": dict(zip(FLAG_NAMES, case["flags"])), "sep": case["sep"], "tree_sep": case["tsep"],
            "tree": case["tree"], "to_tree": case["tree2"], "from_paths": case["from"], "to_paths": case["to"],
            "exception_code": obs["multi"]["code"],
            "result": [[r[0], r[1], r[2]] for r in (obs["multi"]["dst"] if case["op"].startswith("tt_") else obs["multi"]["src"])]}


def rule(prop):
    return ("random trees (3-9 nodes; shapes wide/deep/mixed/path/star/hub; names distinct / repeated across branches / "
            "suffix-related a,xa,ab,b,bc / special characters; root name sometimes repeated below; int and mutable list "
            "attributes) x the five public functions x 0-4 (from,to) pairs (about 12 % of the cases are 3-4 pair lists with "
            "dependencies: a destination parent created or used by an earlier pair is overridden / deleted / moved / merged "
            "away / replaced by a middle pair and its path is used again; from-nodes created or moved by earlier pairs) (full and partial from-paths, "
            "new / existing / same / nested / deleted destinations, None and '' to-paths, a few malformed ones) x all 64 "
            "flag combinations (round-robin in quick, full product per scenario in thorough) x separators / \\ - . | and, in about 30 % of the "
            "draws each, -> :: => // -|- (plus a name pool whose names start/end with such characters: K3), rarely the empty "
            "string, for `sep`, tree.sep and to_tree.sep independently (from_tree.sep != to_tree.sep in about half of the tree-to-tree "
            "cases); half of the calls rely on the documented defaults instead of passing sep='/' / False flags; 3 % hand "
            "over a tuple or generator (must be refused with ValueError, nothing changed); 30 % use a Node subclass; with "
            "with_full_path and one pair a non-root node of the tree is handed over as `tree` / `to_tree`; every multi-pair "
            "case is also run one pair per call on an identical tree.  Observed: exception class, pre-order "
            "(depth, object tag, name, attributes) of the tree object(s), plus anomalies = return value not None, "
            "parent/children link disagreement, caller's path lists mutated, a created node sharing a mutable attribute "
            "value with an old node.  Non-trivial = tree with >= 3 nodes and the call changed the destination tree; "
            "distinct by canonical JSON hash")


def partial_clauses(prop):
    return [
        "umbrella `prop_C08 i (model i) = true`: not proved for all inputs.  Proved per family (one shift_nodes / copy_nodes "
        "pair, separators of any positive length, sep != tree.sep and leading separators allowed, names free of separator "
        "characters): refused by an argument check (C08_prop_refused_by_checks: both merge flags, last names differ, from- / "
        "to-path not starting at the root), missing from-path (C08_prop_missing_from_path), from == to without a merge flag "
        "(C08_prop_same_node), accepted with an absent destination for plain / delete_children shift and copy "
        "(C08_whole_call_general; C08_prop_absent_generic turns any proved absent-destination row into the same "
        "statement), accepted with overriding (C08_prop_override), plus C08_model_satisfies_prop_both_merges for all inputs. "
        "Missing: length mismatch and copy-with-empty-to-path as prop statements, partial from-paths, trailing separators, "
        "several pairs, tree-to-tree and replace calls at the string level, merge rows onto existing destinations",
        "merge_children: C08_merge_children (destination absent) and C08_merge_children_existing (destination present, no "
        "overriding); with copy or together with delete_children: no theorem",
        "merge_leaves: C08_merge_leaves_partial holds under the guard 'every child of the source node is a leaf'; deeper "
        "source subtrees, existing destinations, copy: no theorem",
        "replace_position: C08_replace_position_tt (tree-to-tree), _left_sibling, _right_sibling, _unrelated (source neither "
        "below the replaced node's parent nor an ancestor of it; C08_replace_position_unrelated_spec links it to Spec.edit_rp); "
        "a source below the replaced node's parent but not a sibling (inside a sibling's subtree), nested "
        "nodes, delete_children: no theorem",
        "delete_children: C08_delete_children (shift) and C08_delete_children_copy (copy) for an absent destination; with "
        "overriding / merge flags / replace: no theorem",
        "copies: C08_copy_keeps_source, C08_copy_fresh (tags None, same names and attributes), "
        "C08_tree_to_tree_source_untouched; not connected to the heap-id results of Heap/Effects",
        "override / shift with one node inside the other, from == to with a merge flag, copy into the source subtree: "
        "no theorem (prop_C08 is lenient for destinations inside the source subtree)",
        "string layer: C08_whole_call_general covers sep != tree.sep (replace(sep, tree.sep)) and leading separators for "
        "full paths; partial from-paths (find_path suffix addressing, SearchError when ambiguous), trailing separators and "
        "empty separators are modelled and compared by the correspondence, no theorem; "
        "C08_multi_is_sequence and C08_tree_to_tree_source_untouched are whole-call theorems for all inputs",
        "accepted blind spots of the correspondence (leniency audit): (a) F_SKIP domains, where neither model nor "
        "predicate constrain the outcome: merge_leaves without copy into the source subtree (lazy generator), a call that "
        "re-parents the tree object itself (root shifted with delete_children below itself); (b) prop_C08 "
        "is lenient (model still compared exactly) for empty separators, malformed path strings, names containing a separator in play, "
        "partial from-paths matching only a suffix of a name, the root as shift source, destinations inside the source "
        "subtree, sibling-name clashes midway, replacing the root, deletion combined with a merge flag; (c) not observed: "
        "nodes detached by the call (overridden / deleted subtrees) and their links, the class of nodes the call creates, "
        "tree.sep after the call, attribute insertion order, exception messages, logging; (d) never exercised: "
        "BaseNode/BinaryNode trees, the exported helpers copy_or_shift_logic / replace_logic called directly (e.g. "
        "copy=False with to_tree), to_tree being the same object as tree, a non-root start node with partial from-paths "
        "or with several pairs, non-string path entries, positional flag arguments, trees above 9 nodes / depth 7",
        "known finding K3-C08: with a multi-character `sep` the argument normalisation `path.rstrip(sep)` strips a character "
        "set, so a valid pair whose last name ends in a character of sep fails (NotFoundError)",
    ]


def trusted_base(prop):
    return COMMON_TB + ["copy.deepcopy is modelled as retagging the copied tree with fresh (None) tags",
                        "generator laziness of Node.leaves is modelled only when the destination lies outside the source subtree"]


def assumptions(prop):
    return ["C08 theorems are about Algo/Modify.v; string-level path resolution (rstrip/replace/split) is tied to the code "
            "by the correspondence only",
            "Unmodelled (skipped) inputs: empty separators; merge_leaves without copy into the source subtree; "
            "re-parenting the tree object itself"]
