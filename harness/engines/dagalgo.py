"""Engine `dagalgo`: DAG traversal / queries (C16) and DAG exports / constructors (C17).

A case lists the nodes (names, attributes) and the sequence of link insertions that builds the DAG;
the implementation runner performs exactly these insertions on real DAGNode objects, reads the
`parents` / `children` orders back (the model takes them as its input) and records what
dag_iterator / ancestors / descendants / siblings / go_to (C16) or the three exporters and the three
constructors (C17) return."""
import itertools
import math

from ..core import cbool, clist, cnat, copt, cpair, cstr, cZ
from ._base import *  # noqa
from ._base import exn_code, COMMON_TB

SERVES = ["C16", "C17"]
COQ_TARGETS = ["theories/Corr/DagAlgoCorr.vo"]
CASES_PER_FILE = 120


def coq_header(prop):
    return ("From BT Require Import Base.Prelude Base.Str Base.Rose Algo.DagAlgo Algo.DagIO "
            "Spec.PC16 Spec.PC17 Corr.DagAlgoCorr.")


def coq_case_type(prop):
    return {"C16": "(list c16case)", "C17": "iocase"}[prop]


def coq_check(prop):
    return {"C16": "check_C16s", "C17": "check_C17"}[prop]


# ---------------------------------------------------------------------------------------------
# implementation side


_SUB = {}


def _node_class(name):
    """DAGNode itself or a user subclass of it:
       Sub       extra class attribute, extra method, own __init__ passing through
       Falsy     __len__ = number of children (a childless node is falsy)            [C17 only, see partial_clauses]
       ValueEq   __eq__ / __hash__ by name (used with distinct names only)
       Defaults  a class-level default `step = 7` (overridden on the instances that have their own `step`) and a
                 read-only property `label`; get_attr must resolve both"""
    from bigtree.node.dagnode import DAGNode

    if name == "DAGNode":
        return DAGNode
    if not _SUB:
        class SubDAGNode(DAGNode):
            kind = "sub"

            def __init__(self, name="", **kwargs):
                super().__init__(name, **kwargs)

            def shout(self):
                return self.node_name.upper()

        class FalsyDAGNode(DAGNode):
            def __len__(self):
                return len(self.children)

        class ValueEqDAGNode(DAGNode):
            def __eq__(self, other):
                return isinstance(other, DAGNode) and other.node_name == self.node_name

            def __hash__(self):
                return hash(self.node_name)

        class DefaultsDAGNode(DAGNode):
            step = 7

            @property
            def label(self):
                return "L:" + str(self.node_name)

        _SUB.update(Sub=SubDAGNode, Falsy=FalsyDAGNode, ValueEq=ValueEqDAGNode, Defaults=DefaultsDAGNode)
    return _SUB[name]


def _model_attrs(case):
    """the attributes the exporters can see on node i: for an attr_dict export get_attr also resolves what the class
    provides (class-level default, property); describe() (all_attrs) only lists the instance attributes"""
    out = [dict(a) for a in case["attrs"]]
    if case.get("cls") == "Defaults" and case.get("kind") == "export" and case.get("mode") not in ("all", "all+dict"):
        for i, a in enumerate(out):
            a.setdefault("step", 7)
            a["label"] = "L:" + str(case["names"][i])
    return out


def _container(items, cont):
    """the iterable handed to the children setter / the relation list handed to a constructor"""
    if cont == "tuple":
        return tuple(items)
    if cont == "gen":
        return (x for x in items)
    if cont == "map":
        return map(lambda x: x, items)
    if cont == "iter":
        return iter(list(items))
    if cont == "set":
        return set(items)
    if cont == "dictvalues":
        return {i: x for i, x in enumerate(items)}.values()
    return list(items)


class _Builder:
    """Performs the listed link insertions on real DAGNode objects, one step at a time.

    Entry points (chosen per step by the generator):
      ["P",  c, [p..], mut]     nodes[c].parents = lst            (lst = a list object made by the harness)
      ["C",  p, [c..], mut]     nodes[p].children = lst
      ["PS", [c1, c2..], [p..], mut]   the SAME list object assigned as parents of c1, c2, ...
      ["CS", [p1, p2..], [c..], mut]   the SAME list object assigned as children of p1, p2, ...
      ["NP", c, [p..], mut]     DAGNode(name, parents=lst) when node c does not exist yet (else like "P")
      ["NC", p, [c..], mut]     DAGNode(name, children=lst) when node p does not exist yet (else like "C")
      ["FP", c, [p..], mut] / ["FC", p, [c..], mut]   DAGNode.from_dict({"name":.., "parents"/"children": lst}) likewise
      ["R", p, c]  p >> c       ["L", c, p]  c << p       ["D", p]  del p.children
    "C"/"NC"/"FC" take an optional 5th field: the iterable handed over as children (list | tuple | set | dictvalues, or a
    one-shot iterable: gen | map | iter).  The builder keeps the links the steps are MEANT to produce; check_links()
    compares them with what the node objects of the case hold (by object identity).
    mut: what the harness does to ITS list object after the assignment: "none" | "clear" | "rev" | ["append", k]
    (a correct implementation never keeps the caller's list, so this changes nothing)."""

    def __init__(self, case):
        self.cls = _node_class(case.get("cls", "DAGNode"))
        self.case = case
        self.nodes = [None] * case["n"]
        self.want_par = [[] for _ in range(case["n"])]      # the links the listed steps are meant to produce
        self.want_kid = [[] for _ in range(case["n"])]

    def _link(self, p, c):
        if p not in self.want_par[c]:
            self.want_par[c].append(p)
            self.want_kid[p].append(c)

    def intend(self, op):
        k = op[0]
        if k in ("P", "NP", "FP"):
            for p in op[2]:
                self._link(p, op[1])
        elif k in ("C", "NC", "FC"):
            for c in op[2]:
                self._link(op[1], c)
        elif k == "PS":
            for c in op[1]:
                for p in op[2]:
                    self._link(p, c)
        elif k == "CS":
            for p in op[1]:
                for c in op[2]:
                    self._link(p, c)
        elif k == "R":
            self._link(op[1], op[2])
        elif k == "L":
            self._link(op[2], op[1])
        elif k == "D":
            for c in self.want_kid[op[1]]:
                self.want_par[c].remove(op[1])
            self.want_kid[op[1]] = []

    def check_links(self):
        """the node OBJECTS of the case must hold exactly the intended links, in insertion order"""
        got = _links(self.all_nodes())
        want = [[self.want_par[i], self.want_kid[i]] for i in range(self.case["n"])]
        if got != want:
            raise RuntimeError(f"the node objects do not hold the intended links: got {got}, intended {want}")
        return got

    def node(self, i):
        if self.nodes[i] is None:
            self.nodes[i] = self.cls(self.case["names"][i], **self.case["attrs"][i])
        return self.nodes[i]

    def all_nodes(self):
        return [self.node(i) for i in range(self.case["n"])]

    def _mutate(self, lst, mut):
        if mut == "clear":
            lst.clear()
        elif mut == "rev":
            lst.reverse()
        elif isinstance(mut, list) and mut[0] == "append":
            lst.append(self.node(mut[1]))

    def step(self, op):
        self.intend(op)
        k = op[0]
        mut = op[3] if len(op) > 3 else "none"
        if k in ("P", "NP", "FP"):
            lst = [self.node(p) for p in op[2]]
            if k == "NP" and self.nodes[op[1]] is None:
                self.nodes[op[1]] = self.cls(self.case["names"][op[1]], parents=lst, **self.case["attrs"][op[1]])
            elif k == "FP" and self.nodes[op[1]] is None:
                self.nodes[op[1]] = self.cls.from_dict({"name": self.case["names"][op[1]], "parents": lst,
                                                        **self.case["attrs"][op[1]]})
            else:
                self.node(op[1]).parents = lst
            self._mutate(lst, mut)
        elif k in ("C", "NC", "FC"):
            lst = _container([self.node(c) for c in op[2]], op[4] if len(op) > 4 else "list")
            if not isinstance(lst, list):
                mut = "none"
            if k == "NC" and self.nodes[op[1]] is None:
                self.nodes[op[1]] = self.cls(self.case["names"][op[1]], children=lst, **self.case["attrs"][op[1]])
            elif k == "FC" and self.nodes[op[1]] is None:
                self.nodes[op[1]] = self.cls.from_dict({"name": self.case["names"][op[1]], "children": lst,
                                                        **self.case["attrs"][op[1]]})
            else:
                self.node(op[1]).children = lst
            self._mutate(lst, mut)
        elif k == "PS":
            lst = [self.node(p) for p in op[2]]
            for c in op[1]:
                self.node(c).parents = lst
            self._mutate(lst, mut)
        elif k == "CS":
            lst = [self.node(c) for c in op[2]]
            for p_ in op[1]:
                self.node(p_).children = lst
            self._mutate(lst, mut)
        elif k == "R":
            self.node(op[1]) >> self.node(op[2])
        elif k == "L":
            self.node(op[1]) << self.node(op[2])
        elif k == "D":
            del self.node(op[1]).children
        else:
            raise ValueError(k)


def _build(case):
    """Perform all listed link insertions; returns the node objects (which must hold the intended links)."""
    bld = _Builder(case)
    for op in case["ops"]:
        bld.step(op)
    bld.check_links()
    return bld.all_nodes()


def _query16(nodes):
    """Run every query C16 speaks about on every node / ordered pair and hand back the RAW results (the objects
    the library returned, iterators materialised to lists of the yielded tuples)."""
    from bigtree.utils.iterators import dag_iterator

    raw = {"iter": [list(dag_iterator(s)) for s in nodes],
           "anc": [n.ancestors for n in nodes],
           "desc": [n.descendants for n in nodes],
           "sib": [n.siblings for n in nodes],
           "par": [n.parents for n in nodes],
           "kid": [n.children for n in nodes],
           "goto": []}
    for a in nodes:
        row = []
        for b in nodes:       # several targets from the same start node, one after the other
            try:
                row.append([0, a.go_to(b)])
            except Exception as e:
                row.append([exn_code(e), None])
        raw["goto"].append(row)
    return raw


def _canon16(nodes, raw):
    idx = {id(n): i for i, n in enumerate(nodes)}
    return {"iter": [[[idx[id(p)], idx[id(c)]] for p, c in o] for o in raw["iter"]],
            "anc": [[idx[id(a)] for a in o] for o in raw["anc"]],
            "desc": [[idx[id(a)] for a in o] for o in raw["desc"]],
            "sib": [[idx[id(a)] for a in o] for o in raw["sib"]],
            "par": [[idx[id(a)] for a in o] for o in raw["par"]],
            "kid": [[idx[id(a)] for a in o] for o in raw["kid"]],
            "goto": [[[code, [[idx[id(x)] for x in p] for p in ps] if code == 0 else []] for code, ps in row]
                     for row in raw["goto"]]}


def _spoil(raw):
    """what a caller may do with results it owns: empty / extend every list it was handed"""
    for key in ("iter", "anc", "desc", "sib", "par", "kid"):
        for o in raw[key]:
            if isinstance(o, list):
                o.clear()
                o.append(None)
    for row in raw["goto"]:
        for code, ps in row:
            if isinstance(ps, list):
                for p in ps:
                    if isinstance(p, list):
                        p.clear()
                ps.clear()
                ps.append([])


def _observe16(nodes):
    """Everything C16 speaks about, on the DAG as it stands now.  All nodes and all ordered pairs are queried (so
    that any state a query leaves behind is in place when construction continues); ALL results are kept alive and
    read only after the last query of the round, so a result that a later query alters is observed altered; then
    the caller's copies are emptied / extended and every query is repeated: the answers must be the same."""
    from bigtree.utils.iterators import dag_iterator

    idx = {id(n): i for i, n in enumerate(nodes)}
    links = _links(nodes)
    raw = _query16(nodes)
    first = _canon16(nodes, raw)          # read after the whole round
    _spoil(raw)
    raw2 = _query16(nodes)
    second = _canon16(nodes, raw2)
    if second != first:
        bad = [k for k in first if first[k] != second[k]]
        raise RuntimeError("repeating the queries after emptying the earlier results gave different answers: " + ",".join(bad))
    if first["par"] != [l[0] for l in links] or first["kid"] != [l[1] for l in links]:
        raise RuntimeError("the parents / children views changed during the queries")
    it, anc, desc, sib, goto = first["iter"], first["anc"], first["desc"], first["sib"], first["goto"]
    if _links(nodes) != links:
        raise RuntimeError("a query changed the links of the DAG")
    # several iterators advanced in turn must not disturb each other
    gens = [dag_iterator(s) for s in nodes]
    inter = [[] for _ in nodes]
    live = list(range(len(nodes)))
    while live:
        for i in list(live):
            try:
                p, c = next(gens[i])
                inter[i].append([idx[id(p)], idx[id(c)]])
            except StopIteration:
                live.remove(i)
    if inter != it:
        raise RuntimeError("interleaved dag_iterator runs differ from separate runs")
    return {"links": links, "iter": it, "anc": anc, "desc": desc, "sib": sib, "goto": goto}


def _links(nodes):
    idx = {id(n): i for i, n in enumerate(nodes)}

    def ix(x):
        if id(x) not in idx:
            raise RuntimeError(f"a node of the case is linked to an object that is not a node of the case (a look-alike {x!r})")
        return idx[id(x)]

    return [[[ix(p) for p in n.parents], [ix(c) for c in n.children]] for n in nodes]


def _pv(v):
    """a Python / numpy scalar as a JSON-able canonical value (integral floats are read as ints)"""
    if v is None:
        return None
    if hasattr(v, "item") and not isinstance(v, (str, bytes)):
        v = v.item()
    if isinstance(v, bool):
        return v
    if isinstance(v, float):
        if math.isnan(v):
            return None
        if v == int(v):
            return int(v)
        raise ValueError("non-integral float attribute")
    if isinstance(v, (int, str)):
        return v
    raise ValueError(f"unsupported attribute value {type(v)}")


def _observe_dag(root):
    """names, edges (name pairs) and non-null public attributes of everything linked to `root`"""
    seen = {id(root): root}
    order = [root]
    k = 0
    while k < len(order):
        x = order[k]
        k += 1
        for y in list(x.parents) + list(x.children):
            if id(y) not in seen:
                seen[id(y)] = y
                order.append(y)
    names = [_pv(x.node_name) for x in order]       # an integral float name (a frame column with NaN) reads as the int
    edges = [[_pv(x.node_name), _pv(c.node_name)] for x in order for c in x.children]
    attrs = []
    for x in order:
        a = {}
        for key, v in x.__dict__.items():
            if key == "name" or key.startswith("_DAGNode__"):
                continue
            pv = _pv(v)
            if pv is not None:
                a[key] = pv
        attrs.append([_pv(x.node_name), sorted(a.items())])
    return {"code": 0, "names": names, "edges": edges, "attrs": attrs, "_nodes": order}


def _rebuild(fn, *args, node_type=None, **kw):
    try:
        r = fn(*args, **kw) if node_type is None else fn(*args, node_type=node_type, **kw)
    except Exception as e:
        return {"code": exn_code(e), "names": [], "edges": [], "attrs": []}
    o = _observe_dag(r)
    order = o.pop("_nodes")
    o["_root"] = r
    if node_type is not None:
        o["_all_instances"] = all(type(x) is node_type for x in order)
    return o


def _snapshot(x):
    """a deep, comparable picture of a constructor input (list / tuple / dict / DataFrame)"""
    if hasattr(x, "to_dict") and hasattr(x, "columns"):
        return ("frame", [repr(c) for c in x.columns], [repr(i) for i in x.index],
                [[repr(v) for v in row] for row in x.itertuples(index=False, name=None)], [str(t) for t in x.dtypes])
    if isinstance(x, dict):
        return ("dict", [(k, _snapshot(v)) for k, v in x.items()])
    if isinstance(x, (list, tuple)):
        return (type(x).__name__, [_snapshot(v) for v in x])
    return repr(x)


def _graph_key(r):
    return (r["code"], sorted(r["names"], key=repr), sorted(map(tuple, r["edges"]), key=repr),
            sorted(((nm, tuple(a)) for nm, a in r["attrs"]), key=repr))


def run_impl(prop, case):
    kind = case.get("kind", "dag")
    if prop == "C16":
        bld = _Builder(case)
        cps = set(case.get("checkpoints", []))
        snaps = []
        for k, op in enumerate(case["ops"]):
            bld.step(op)
            if k in cps and k != len(case["ops"]) - 1:
                bld.check_links()
                snaps.append(_observe16(bld.all_nodes()))
        bld.check_links()
        snaps.append(_observe16(bld.all_nodes()))
        return {"snaps": snaps}

    from bigtree.dag.construct import dataframe_to_dag, dict_to_dag, list_to_dag
    from bigtree.dag.export import dag_to_dataframe, dag_to_dict, dag_to_list

    cls = _node_class(case.get("cls", "DAGNode"))
    nt = {} if case.get("cls", "DAGNode") == "DAGNode" else {"node_type": cls}

    roots = {}

    def rebuild(fn, *args, **kw):
        """import once, check that the caller's input object is untouched, import the very same object again with the
        other node class: same graph again, input still untouched"""
        before = _snapshot(args)
        r = _rebuild(fn, *args, **kw, **nt)
        if _snapshot(args) != before:
            raise RuntimeError(f"{fn.__name__} changed the object it was given")
        if r["code"] == 0 and nt and not r.pop("_all_instances", True):
            raise RuntimeError("a rebuilt node is not an instance of the requested node_type")
        r.pop("_all_instances", None)
        roots[fn.__name__] = r.pop("_root", None)
        other = {"node_type": _node_class("Falsy")} if case.get("cls") != "Falsy" else {}
        r2 = _rebuild(fn, *args, **kw, **other)
        for k in ("_all_instances", "_root"):
            r2.pop(k, None)
        if _graph_key(r2) != _graph_key(r):
            raise RuntimeError(f"{fn.__name__} on the same input object a second time gave a different result")
        if _snapshot(args) != before:
            raise RuntimeError(f"{fn.__name__} changed the object it was given (second import)")
        return r

    if kind == "export":
        import random as _random

        opt = case.get("opt", {})
        pk = opt.get("parent_key", "parents")
        name_col = opt.get("name_col", "name")
        parent_col = opt.get("parent_col", "parent")
        nodes = _build(case)
        links = _links(nodes)
        attrs_before = [sorted((k, repr(v)) for k, v in n.__dict__.items() if not k.startswith("_")) for n in nodes]
        start = nodes[case["start"]]
        if case["mode"] == "all":
            kw = {"all_attrs": True}
        elif case["mode"] == "all+dict":       # all_attrs wins over a given attr_dict
            kw = {"all_attrs": True, "attr_dict": {"step": "ignored"}}
        else:
            kw = {"attr_dict": {k: v for k, v in case["mode"]}}
        dkw = dict(kw)
        fkw = dict(kw)
        if "parent_key" in opt:
            dkw["parent_key"] = pk
        if "name_col" in opt:
            fkw["name_col"] = name_col
        if "parent_col" in opt:
            fkw["parent_col"] = parent_col

        def canon_dict(od):
            out = []
            for nm, ent in od.items():
                ent = dict(ent)
                ps = ent.pop(pk, None)
                ps = list(ps) if ps is not None else None
                out.append([nm, ps, sorted(((k, _pv(v)) for k, v in ent.items()), key=lambda kv: kv[0])])
            return out

        def canon_df(df):
            cols = list(df.columns)
            if len(cols) == 0:
                return []
            if name_col not in cols or parent_col not in cols:
                raise RuntimeError("the exported frame lacks the requested name / parent column")
            rows = []
            for r in df.to_dict(orient="records"):
                a = {}
                for c in cols:
                    if c in (name_col, parent_col):
                        continue
                    pv = _pv(r[c])
                    if pv is not None:
                        a[c] = pv
                rows.append([_pv(r[name_col]), _pv(r[parent_col]), sorted(a.items())])
            return rows

        ol = dag_to_list(start)
        od = dag_to_dict(start, **dkw)
        odf = dag_to_dataframe(start, **fkw)
        o_list, o_dict, o_df = [list(t) for t in ol], canon_dict(od), canon_df(odf)
        # repeatable
        if [list(t) for t in dag_to_list(start)] != o_list or canon_dict(dag_to_dict(start, **dkw)) != o_dict \
                or canon_df(dag_to_dataframe(start, **fkw)) != o_df:
            raise RuntimeError("exporting twice gave different results")
        # the same graph whichever node of the component the export starts from
        comp = {id(start)}
        todo = [start]
        while todo:
            x = todo.pop()
            for y in list(x.parents) + list(x.children):
                if id(y) not in comp:
                    comp.add(id(y))
                    todo.append(y)
        key = lambda v: repr(v)
        ref = (sorted(o_list, key=key), sorted(([e[0], sorted(e[1] or [], key=key), e[1] is None, e[2]] for e in o_dict), key=key),
               sorted(o_df, key=key))
        for other in nodes:
            if id(other) in comp and other is not start:
                d2 = canon_dict(dag_to_dict(other, **dkw))
                got = (sorted((list(t) for t in dag_to_list(other)), key=key),
                       sorted(([e[0], sorted(e[1] or [], key=key), e[1] is None, e[2]] for e in d2), key=key),
                       sorted(canon_df(dag_to_dataframe(other, **fkw)), key=key))
                if got != ref:
                    raise RuntimeError(f"export started from node {nodes.index(other)} differs from export started from node {case['start']}")
        # rebuild, possibly from a re-ordered copy of the export (the result must not depend on the order)
        prng = _random.Random(case.get("perm", 0))
        l_in, d_in, f_in = list(ol), dict(od), odf
        if case.get("perm"):
            prng.shuffle(l_in)
            items = list(od.items())
            prng.shuffle(items)
            d_in = {}
            for nm, ent in items:
                ent = dict(ent)
                if pk in ent:
                    ent[pk] = list(ent[pk])
                    prng.shuffle(ent[pk])
                d_in[nm] = ent
            if len(odf):
                f_in = odf.sample(frac=1, random_state=case["perm"])
                if opt.get("index") == "dup":
                    f_in.index = [0] * len(f_in)
                elif opt.get("index") != "keep":
                    f_in = f_in.reset_index(drop=True)
        elif opt.get("index") == "dup" and len(odf):
            f_in = odf.copy()
            f_in.index = [7] * len(f_in)
        l_in = _container([_container(t, opt.get("pair", "tuple")) for t in l_in], opt.get("rel", "list"))
        ckw = {}
        if opt.get("explicit_cols") and len(odf):
            ckw = {"child_col": name_col, "parent_col": parent_col,
                   "attribute_cols": [c for c in odf.columns if c not in (name_col, parent_col)]}
        rl = rebuild(list_to_dag, l_in)
        rd = rebuild(dict_to_dag, d_in, **({"parent_key": pk} if "parent_key" in opt else {}))
        rdf = rebuild(dataframe_to_dag, f_in, **ckw)
        # export the rebuilt DAGs again with the same options: the same export (None-valued cells folded)
        def fold(e_list, e_dict, e_df):
            return (sorted(map(tuple, e_list), key=repr) if e_list is not None else None,
                    sorted(((e[0], tuple(sorted(e[1] or [], key=repr)), tuple((k, v) for k, v in e[2] if v is not None))
                            for e in e_dict), key=repr)
                    if e_dict is not None else None,
                    sorted(((r_[0], r_[1], tuple(r_[2])) for r_ in e_df), key=repr) if e_df is not None else None)

        if case["mode"] in ("all", "all+dict"):
            rkw = {"all_attrs": True}
        else:
            rkw = {"attr_dict": {v: v for _, v in case["mode"]}}
        want = fold(o_list, o_dict, o_df)
        if rl["code"] == 0:
            got = fold([list(t) for t in dag_to_list(roots["list_to_dag"])], None, None)
            if got[0] != want[0]:
                raise RuntimeError("dag_to_list of the DAG rebuilt by list_to_dag differs from the first export")
        if rd["code"] == 0:
            got = fold(None, canon_dict(dag_to_dict(roots["dict_to_dag"], **{**dkw, **rkw})), None)
            if got[1] != want[1]:
                raise RuntimeError("dag_to_dict of the DAG rebuilt by dict_to_dag differs from the first export")
        if rdf["code"] == 0 and case.get("cls") != "Defaults":      # a frame drops None cells; the class default would show again
            got = fold(None, None, canon_df(dag_to_dataframe(roots["dataframe_to_dag"], **{**fkw, **rkw})))
            if got[2] != want[2]:
                raise RuntimeError("dag_to_dataframe of the DAG rebuilt by dataframe_to_dag differs from the first export")
        if _links(nodes) != links:
            raise RuntimeError("exporting changed the links of the source DAG")
        if [sorted((k, repr(v)) for k, v in n.__dict__.items() if not k.startswith("_")) for n in nodes] != attrs_before:
            raise RuntimeError("exporting changed the attributes of the source DAG")
        # the results obtained first are read again now, after all later calls: they must still say the same
        o_list, o_dict, o_df = [list(t) for t in ol], canon_dict(od), canon_df(odf)
        # a caller may do what it likes with its results; exporting again must give the same
        ol.clear()
        for ent in od.values():
            for v in ent.values():
                if isinstance(v, list):
                    v.clear()
            ent.clear()
        od.clear()
        if len(odf.columns):
            odf.drop(odf.index, inplace=True)
        if [list(t) for t in dag_to_list(start)] != o_list or canon_dict(dag_to_dict(start, **dkw)) != o_dict \
                or canon_df(dag_to_dataframe(start, **fkw)) != o_df:
            raise RuntimeError("exporting again after emptying the earlier results gave different results")
        return {"links": links, "list": o_list, "dict": o_dict, "df": o_df, "rl": rl, "rd": rd, "rdf": rdf}
    opt = case.get("opt", {})
    if kind == "rawlist":
        rel = _container([_container(t, opt.get("pair", "tuple")) for t in case["rel"]], opt.get("rel", "list"))
        return {"r": rebuild(list_to_dag, rel)}
    if kind == "rawdict":
        pk = opt.get("parent_key", "parents")
        d = {}
        for nm, ps, attrs in case["entries"]:
            ent = {}
            if ps is not None:
                ent[pk] = list(ps)
            ent.update(attrs)
            d[nm] = ent
        return {"r": rebuild(dict_to_dag, d, **({"parent_key": pk} if "parent_key" in opt else {}))}
    if kind == "rawdf":
        import pandas as pd

        name_col = opt.get("name_col", "name")
        parent_col = opt.get("parent_col", "parent")
        cols = [name_col, parent_col] + list(case["cols"])
        data = [[nm, par] + [attrs.get(c) for c in case["cols"]] for nm, par, attrs in case["rows"]]
        df = pd.DataFrame(data, columns=cols)
        ckw = {}
        if opt.get("explicit_cols"):
            # columns in another order, the roles given explicitly
            df = df[list(reversed(cols))]
            ckw = {"child_col": name_col, "parent_col": parent_col}
            if opt.get("explicit_cols") == "attrs":
                ckw["attribute_cols"] = list(case["cols"])
        if opt.get("index") == "dup":
            df.index = [3] * len(df)
        elif opt.get("index") == "labels":
            df.index = [f"r{len(df) - i}" for i in range(len(df))]
        return {"r": rebuild(dataframe_to_dag, df, **ckw)}
    raise ValueError(kind)


# ---------------------------------------------------------------------------------------------
# Coq literals


def cval(v):
    if v is None:
        return "VNone"
    if isinstance(v, bool):
        return f"VBool {cbool(v)}"
    if isinstance(v, int):
        return f"VInt {cZ(v)}"
    if isinstance(v, str):
        return f"VStr {cstr(v)}"
    raise TypeError(type(v))


def cname(v):
    """a node name for the model: a str as its code points, an int as a private marker followed by its decimal digits,
    so that the names 1 and "1" stay different (names are compared by value AND type)"""
    if isinstance(v, bool) or not isinstance(v, (int, str)):
        raise TypeError(f"unsupported node name {v!r}")
    if isinstance(v, int):
        return "[" + "; ".join(["57344"] + [str(ord(ch)) for ch in str(v)]) + "]%N"
    return cstr(v)


def cattrs(items):
    return clist(cpair(cstr(k), cval(v)) for k, v in items)


def cids(l):
    return clist(str(int(x)) for x in l)


def cdag(case, links):
    assert len(links) == case["n"]
    return clist(
        f"DN {cname(case['names'][i])} {cattrs(sorted(_model_attrs(case)[i].items()))} {cids(links[i][0])} {cids(links[i][1])}"
        for i in range(case["n"]))


def cspairs(l):
    return clist(cpair(cname(a), cname(b)) for a, b in l)


def crebuilt(r):
    return (f"(RB {int(r['code'])} {clist(cname(s) for s in r['names'])} {cspairs(r['edges'])} "
            f"{clist(cpair(cname(nm), cattrs(a)) for nm, a in r['attrs'])})")


def cdentries(l):
    return clist(f"DE {cname(nm)} {copt(ps, lambda p: clist(cname(s) for s in p))} {cattrs(a)}" for nm, ps, a in l)


def cdfrows(l):
    return clist(f"DR {cname(nm)} {copt(par, cname)} {cattrs(a)}" for nm, par, a in l)


def _emit_snap(case, obs):
    n = case["n"]
    for key in ("iter", "anc", "desc", "sib", "goto"):
        assert len(obs[key]) == n
    parts = [
        cdag(case, obs["links"]),
        clist(clist(cpair(str(p), str(c)) for p, c in o) for o in obs["iter"]),
        clist(cids(o) for o in obs["anc"]),
        clist(cids(o) for o in obs["desc"]),
        clist(cids(o) for o in obs["sib"]),
        clist(clist(cpair(str(int(code)), clist(cids(p) for p in ps)) for code, ps in row) for row in obs["goto"]),
    ]
    return "C16 " + " ".join(f"({p})" for p in parts)


def emit(prop, case, obs):
    if prop == "C16":
        return clist(_emit_snap(case, o) for o in obs["snaps"])
    kind = case["kind"]
    if kind == "export":
        md = "AllAttrs" if case["mode"] in ("all", "all+dict") else "AttrDict " + clist(cpair(cstr(k), cstr(v)) for k, v in case["mode"])
        parts = [cdag(case, obs["links"]), str(case["start"]), md, cspairs(obs["list"]),
                 cdentries(obs["dict"]), cdfrows(obs["df"])]
        return ("IOExport " + " ".join(f"({p})" for p in parts) + " "
                + crebuilt(obs["rl"]) + " " + crebuilt(obs["rd"]) + " " + crebuilt(obs["rdf"]))
    if kind == "rawlist":
        return f"IORawList ({cspairs(case['rel'])}) {crebuilt(obs['r'])}"
    if kind == "rawdict":
        ents = [[nm, ps, sorted(a.items())] for nm, ps, a in case["entries"]]
        return f"IORawDict ({cdentries(ents)}) {crebuilt(obs['r'])}"
    if kind == "rawdf":
        rows = [[nm, par, sorted((k, v) for k, v in a.items() if v is not None and k in case["cols"])]
                for nm, par, a in case["rows"]]
        return f"IORawDf ({cdfrows(rows)}) {crebuilt(obs['r'])}"
    raise ValueError(kind)


# ---------------------------------------------------------------------------------------------
# generation

NAME_POOLS = {
    "distinct": ["a", "b", "c", "d", "e", "f", "g", "h", "i"],
    "affix": ["a", "xa", "ab", "b", "bc", "abc", "c", "x", "xab"],
    "special": ["a.b", "(", "a b", "0", "a1", "-", "é", "10", ""],
    "repeated": ["a", "b", "a", "c", "b", "a", "c", "d", "b"],
    # names that are not str; an int next to its own decimal string (distinct names: 1 != "1")
    "ints": [1, 2, 3, 10, 0, 7, 12, 5, -1],
    "int_and_str": ["1", 1, "2", 2, "10", 10, "a", 0, "0"],
    "mixed": ["a", 1, "b", 2, "1x", 10, "x1", 0, "c"],
}
ATTR_KEYS = ["step", "tag", "w", "flag"]
# attribute names that are affixes / substrings / superstrings of the built-in fields, one-letter names, non-identifiers
ODD_KEYS = ["n", "a", "m", "e", "na", "am", "me", "nam", "ame", "names", "nam e", "N", "par", "paren", "parentss", "child",
            "childre", "childrens", "pat", "path", "paths", "p", "c", "my attr", "a-b", "1st", "\u00e9", "sep", "node", "id"]


def _is_acyclic(n, edges):
    kids = {i: [] for i in range(n)}
    indeg = [0] * n
    for p, c in edges:
        kids[p].append(c)
        indeg[c] += 1
    st = [i for i in range(n) if indeg[i] == 0]
    seen = 0
    while st:
        x = st.pop()
        seen += 1
        for c in kids[x]:
            indeg[c] -= 1
            if indeg[c] == 0:
                st.append(c)
    return seen == n


MUTS = ["none", "none", "clear", "rev", "append"]


def _mut(rng, n):
    m = rng.choice(MUTS)
    return ["append", rng.randrange(n)] if m == "append" else m


def _ops_from_edges(rng, edges, style=None, n=None, max_checkpoints=0):
    """Turn a set of edges (given in the wished insertion order) into setter calls through all entry points:
    >>, <<, parents= / children= with multi-element lists, constructor arguments, one list object shared by
    several nodes, the harness mutating its own list afterwards.  Returns (ops, checkpoints): checkpoints are
    indices of ops after which all queries are run before construction continues."""
    n = n if n is not None else (max([max(e) for e in edges]) + 1 if edges else 1)
    remaining = list(edges)
    ops, cps = [], []
    created = set()

    def take(pred):
        got = [e for e in remaining if pred(e)]
        for e in got:
            remaining.remove(e)
        return got

    while remaining:
        p, c = remaining[0]
        st = style or rng.choice(["R", "L", "P", "C", "P", "C", "PS", "CS", "NP", "NC", "FP", "FC"])
        if st in ("P", "NP", "PS", "FP"):
            others = [e[0] for e in remaining[1:] if e[1] == c]
            rng.shuffle(others)
            ps = [p] + others[: rng.randint(0, len(others))]
            if style == "P":      # deterministic grouping for the exhaustive families: neighbours only
                ps = [p]
                for e in remaining[1:]:
                    if e[1] == c and e[0] not in ps:
                        ps.append(e[0])
                    else:
                        break
            cs2 = []
            if st == "PS":
                cand = [x for x in range(n) if x != c and all((q, x) in remaining for q in ps)]
                rng.shuffle(cand)
                cs2 = cand[: rng.randint(1, 2)]
            if cs2:
                targets = [c] + cs2
                take(lambda e: e[1] in targets and e[0] in ps)
                ops.append(["PS", targets, ps, _mut(rng, n)])
                created.update(targets + ps)
            else:
                take(lambda e: e[1] == c and e[0] in ps)
                kind = st if (st in ("NP", "FP") and c not in created) else "P"
                ops.append([kind, c, ps, _mut(rng, n) if style is None else "none"])
                created.update([c] + ps)
        elif st in ("C", "NC", "CS", "FC"):
            others = [e[1] for e in remaining[1:] if e[0] == p]
            rng.shuffle(others)
            cs = [c] + others[: rng.randint(0, len(others))]
            if style == "C":
                cs = [c]
                for e in remaining[1:]:
                    if e[0] == p and e[1] not in cs:
                        cs.append(e[1])
                    else:
                        break
            ps2 = []
            if st == "CS":
                cand = [x for x in range(n) if x != p and all((x, q) in remaining for q in cs)]
                rng.shuffle(cand)
                ps2 = cand[: rng.randint(1, 2)]
            if ps2:
                sources = [p] + ps2
                take(lambda e: e[0] in sources and e[1] in cs)
                ops.append(["CS", sources, cs, _mut(rng, n)])
                created.update(sources + cs)
            else:
                take(lambda e: e[0] == p and e[1] in cs)
                kind = st if (st in ("NC", "FC") and p not in created) else "C"
                op = [kind, p, cs, _mut(rng, n) if style is None else "none"]
                if style is None and rng.random() < 0.5:
                    op.append(rng.choice(["tuple", "gen", "map", "iter", "dictvalues"] + (["set"] if len(cs) == 1 else [])))
                ops.append(op)
                created.update([p] + cs)
        elif st == "R":
            remaining.pop(0)
            ops.append(["R", p, c])
            created.update([p, c])
        else:
            remaining.pop(0)
            ops.append(["L", c, p])
            created.update([p, c])
        if len(cps) < max_checkpoints and remaining and rng.random() < 0.35:
            cps.append(len(ops) - 1)
            created = set(range(n))      # a checkpoint creates every node object
    return ops, cps


def _random_edges(rng, n, shape):
    order = list(range(n))
    rng.shuffle(order)
    edges = []
    if shape == "chain":
        edges = [(order[i], order[i + 1]) for i in range(n - 1)]
        for _ in range(rng.randint(0, 2)):
            i, j = sorted(rng.sample(range(n), 2))
            if (order[i], order[j]) not in edges:
                edges.append((order[i], order[j]))
    elif shape == "fanin":      # one node with many parents, each parent only reachable through it
        hub = order[-1]
        edges = [(order[i], hub) for i in range(n - 1)]
        if n >= 4 and rng.random() < 0.5:
            edges.remove((order[0], hub))
            edges.append((order[0], order[1]))
    elif shape == "fanout":
        hub = order[0]
        edges = [(hub, order[i]) for i in range(1, n)]
        if n >= 4 and rng.random() < 0.5:
            edges.append((order[1], order[n - 1]))
    elif shape == "diamond":    # parallel paths between first and last
        for i in range(1, n - 1):
            edges.append((order[0], order[i]))
            edges.append((order[i], order[n - 1]))
        if rng.random() < 0.5 or n == 2:
            edges.append((order[0], order[n - 1]))
        for _ in range(rng.randint(0, 2)):
            if n >= 4:
                i, j = sorted(rng.sample(range(1, n - 1), 2))
                if (order[i], order[j]) not in edges:
                    edges.append((order[i], order[j]))
    elif shape == "hourglass":
        # grandparents -> k parents -> hub -> chain below (or the mirror image): the k-th parent and what lies
        # behind it is reachable only through the hub
        k = min(rng.choice([2, 3, 3, 4]), max(1, (n - 2) // 2))
        hub = order[0]
        ps = order[1:1 + k]
        rest = order[1 + k:]
        edges = [(p, hub) for p in ps]
        below = hub
        for i, q in enumerate(rest):
            if i < k and rng.random() < 0.8:
                edges.append((q, ps[k - 1 - i]))          # an exclusive grandparent, last parent first
            else:
                edges.append((below, q))
                below = q
        if rng.random() < 0.5:
            edges = [(c, p) for p, c in edges]
    else:
        dens = {"sparse": 0.25, "mixed": 0.45, "dense": 0.8}[shape]
        for j in range(1, n):
            back = [i for i in range(j) if rng.random() < dens]
            if not back and rng.random() < 0.85:
                back = [rng.randrange(j)]
            for i in back:
                edges.append((order[i], order[j]))
    rng.shuffle(edges)
    # sometimes keep the insertions of one child / parent adjacent so that list-valued setters appear
    if rng.random() < 0.5:
        key = rng.choice([0, 1])
        edges.sort(key=lambda e: (e[key], rng.random()))
        if rng.random() < 0.5:
            edges.reverse()
    return edges


def _names(rng, n, pool_name):
    pool = NAME_POOLS[pool_name]
    if pool_name == "repeated":
        off = rng.randrange(len(pool))
        return [pool[(off + i) % len(pool)] for i in range(n)]
    return rng.sample(pool, n)


def _attrs(rng, n, style):
    out = []
    for i in range(n):
        a = {}
        if style == "none":
            pass
        elif style == "total":
            a = {"step": rng.randint(0, 3), "tag": rng.choice(["x", "y", "a b", ""])}
        elif style == "partial_str":
            if rng.random() < 0.6:
                a["tag"] = rng.choice(["x", "y", "zz"])
            if rng.random() < 0.5:
                a["w"] = rng.choice(["1", "2"])
        elif style == "names":      # the attribute NAMES are the point here
            for k_ in rng.sample(ODD_KEYS, rng.randint(1, 4)):
                a[k_] = rng.choice([1, 2, "x", "y"]) if k_ != "N" else rng.randint(0, 2)
        elif style == "underscore":      # "private looking" names are ordinary attributes when asked for explicitly
            if rng.random() < 0.85:
                a["_cost"] = rng.randint(0, 3)
            if rng.random() < 0.5:
                a["_x"] = rng.choice(["x", "y"])
            if rng.random() < 0.4:
                a["tag"] = rng.choice(["x", "y"])
        elif style == "falsy":      # 0, "", False, an attribute that exists with the value None, missing attributes
            r = rng.random()
            if r < 0.8:
                a["step"] = rng.choice([0, 0, 1, None])
            if rng.random() < 0.8:
                a["tag"] = rng.choice(["", "", "x", None])
            if rng.random() < 0.7:
                a["flag"] = rng.choice([False, False, True])
        else:  # partial_int: integer columns with holes (pandas turns the column into floats)
            if rng.random() < 0.6:
                a["step"] = rng.randint(-1, 3)
            if rng.random() < 0.7:
                a["tag"] = rng.choice(["x", "y"])
        out.append(a)
    return out


def _pick_cls(rng, distinct, falsy_ok):
    """node class of a case: ValueEq only with distinct names (equal names make distinct nodes compare equal, which is
    outside the properties' 'distinct names'), Falsy only where the unchanged library is well defined for it (C17)"""
    r = rng.random()
    if r < 0.5:
        return "DAGNode"
    pool = ["Sub", "Defaults"] + (["ValueEq"] if distinct else []) + (["Falsy", "Falsy"] if falsy_ok else [])
    return rng.choice(pool)


def gen_dag(rng, nmax=7, nmin=2, pools=("distinct", "distinct", "affix", "special", "repeated", "ints", "int_and_str",
                                         "int_and_str", "mixed"), attr_style="none",
            with_del=True, max_checkpoints=2):
    n = rng.randint(nmin, nmax)
    shape = rng.choice(["sparse", "mixed", "mixed", "dense", "dense", "chain", "fanin", "fanout", "diamond", "diamond",
                        "hourglass", "hourglass"])
    if shape == "hourglass":
        n = rng.randint(max(nmin, 5), nmax + 1)
    pool_name = rng.choice(list(pools))
    edges = _random_edges(rng, n, shape)
    # sometimes hold back a few edges and add them after everything else (extend lower down / higher up later)
    late = []
    if len(edges) >= 3 and rng.random() < 0.4:
        late = [edges.pop() for _ in range(rng.randint(1, 2))]
    ops, cps = _ops_from_edges(rng, edges, n=n, max_checkpoints=max_checkpoints)
    if late:
        if max_checkpoints and ops and rng.random() < 0.8:
            cps = (cps + [len(ops) - 1])[-max(max_checkpoints, 1):]
        more, _ = _ops_from_edges(rng, late, n=n)
        ops += more
    if with_del and edges and rng.random() < 0.12:
        # delete the children of one node and link some of them again (changes the list orders)
        p = rng.choice(edges)[0]
        mine = [e for e in edges + late if e[0] == p]
        rng.shuffle(mine)
        if max_checkpoints and rng.random() < 0.5:
            cps = (cps + [len(ops) - 1])[-max(max_checkpoints, 1):]
        ops.append(["D", p])
        more, _ = _ops_from_edges(rng, mine[: rng.randint(0, len(mine))], n=n)
        ops += more
    cps = sorted(set(k for k in cps if 0 <= k < len(ops) - 1))
    return {"kind": "dag", "n": n, "names": _names(rng, n, pool_name), "attrs": _attrs(rng, n, attr_style),
            "ops": ops, "checkpoints": cps,
            "cls": _pick_cls(rng, distinct=(pool_name != "repeated"), falsy_ok=False),
            "stratum": f"{shape}/{pool_name}"}


def all_small_dags(nmax):
    """every acyclic edge set over <= nmax labelled nodes"""
    for n in range(1, nmax + 1):
        pairs = [(i, j) for i in range(n) for j in range(n) if i != j]
        for mask in range(1 << len(pairs)):
            edges = [pairs[k] for k in range(len(pairs)) if mask >> k & 1]
            if any((c, p) in edges for p, c in edges):
                continue
            if _is_acyclic(n, edges):
                yield n, edges


def _mode(rng, attr_style, attrs=None):
    if attr_style == "underscore":
        if rng.random() < 0.2:
            return "all"          # describe() leaves the underscore names out: only `tag` is listed
        keys = [k for k in ("_cost", "_x", "tag") if rng.random() < 0.8] or ["_cost"]
        rng.shuffle(keys)
        ren = {"_cost": "cost", "_x": "_x2", "tag": "tag"}
        return [[k, (ren[k] if rng.random() < 0.4 else k)] for k in keys]
    if attr_style == "names":
        if rng.random() < 0.6:
            return "all"
        present = sorted({k for a in (attrs or []) for k in a}) or ["n"]
        keys = rng.sample(present, rng.randint(1, min(3, len(present))))
        targets = rng.sample(ODD_KEYS, len(keys))
        out, used = [], set()
        for k, t in zip(keys, targets):
            v = t if rng.random() < 0.5 else k
            if v in used:
                v = k if k not in used else t
            if v in used:
                continue
            used.add(v)
            out.append([k, v])
        return out
    if attr_style == "none":
        return rng.choice(["all", [], [["step", "step"]]])
    r = rng.random()
    if r < 0.35:
        return "all"
    if r < 0.42:
        return "all+dict"
    keys = [k for k in ATTR_KEYS if rng.random() < 0.7] or ["tag"]
    rng.shuffle(keys)
    ren = {"step": "step no", "tag": "tag label", "w": "w", "flag": "is flag?"}
    return [[k, (ren[k] if rng.random() < 0.5 else k)] for k in keys]


def gen_raw(rng):
    kind = rng.choice(["rawlist", "rawlist", "rawdict", "rawdf"])
    pool = rng.choice([["a", "b", "c"], ["a", "b", "c", "d"], ["a", "xa", "ab", "b", "bc"]])
    k = rng.randint(1, 7)
    cyc = rng.random()
    rel = []
    if cyc < 0.35:      # acyclic: edges go forward in a random order of the pool
        order = pool[:]
        rng.shuffle(order)
        for _ in range(k):
            i, j = sorted(rng.sample(range(len(order)), 2))
            rel.append([order[i], order[j]])
        label = "acyclic"
    elif cyc < 0.5:     # an explicit cycle of length 1..len(pool) hidden among forward edges
        order = pool[:]
        rng.shuffle(order)
        L = rng.randint(1, len(order))
        cyc_edges = [[order[i], order[(i + 1) % L]] for i in range(L)]
        extra = []
        for _ in range(rng.randint(0, 3)):
            i, j = sorted(rng.sample(range(len(order)), 2))
            extra.append([order[i], order[j]])
        rel = cyc_edges + extra
        rng.shuffle(rel)
        label = f"cycle{min(L, 4)}"
    else:
        for _ in range(k):
            rel.append([rng.choice(pool), rng.choice(pool)] if rng.random() < 0.1 else rng.sample(pool, 2))
        label = "random"
    if rng.random() < 0.25 and rel:
        rel.insert(rng.randint(0, len(rel)), list(rng.choice(rel)))      # a repeated relation
    table = {nm: {"tag": rng.choice(["x", "y"]), "step": rng.randint(0, 2)} for nm in pool}
    cls = _pick_cls(rng, distinct=True, falsy_ok=True)
    if cls == "Defaults":
        cls = "Falsy"
    if kind == "rawlist":
        return label, {"kind": "rawlist", "rel": rel, "opt": _opt(rng, "rawlist"), "cls": cls, "stratum": "rawlist/" + label}
    if kind == "rawdict":
        names = []
        for p, c in rel:
            for x in (c, p) if rng.random() < 0.7 else (p, c):
                if x not in names:
                    names.append(x)
        if rng.random() < 0.5:
            rng.shuffle(names)
        entries = []
        for nm in names:
            ps = [p for p, c in rel if c == nm]
            ps = list(dict.fromkeys(ps)) if rng.random() < 0.7 else ps
            if not ps and rng.random() < 0.4:
                if rng.random() < 0.5:
                    continue            # a root that only appears as a parent name
                entries.append([nm, None, dict(table[nm]) if rng.random() < 0.7 else {}])
            else:
                entries.append([nm, ps if (ps or rng.random() < 0.5) else None, dict(table[nm]) if rng.random() < 0.7 else {}])
        if not entries:
            entries = [[pool[0], None, {}]]
        return label, {"kind": "rawdict", "entries": entries, "opt": _opt(rng, "rawdict"), "cls": cls,
                       "stratum": "rawdict/" + label}
    cols = rng.choice([[], ["tag"], ["tag", "step"]])
    rows = []
    for p, c in rel:
        rows.append([c, p, {k2: table[c][k2] for k2 in cols}])
    for nm in pool:
        if rng.random() < 0.3:
            rows.insert(rng.randint(0, len(rows)), [nm, None, {k2: table[nm][k2] for k2 in cols}])
    if rng.random() < 0.08 and rows and cols:
        r = rng.choice(rows)
        r[2] = dict(r[2])
        r[2]["tag"] = "other"      # same child, different attributes: refused
    return label, {"kind": "rawdf", "rows": rows, "cols": cols, "opt": _opt(rng, "rawdf"), "cls": cls,
                   "stratum": "rawdf/" + label}


def _raw_from_rel(kind, rel, label):
    """the same relation sequence as input of one of the three constructors (edge order preserved)"""
    rel = [list(e) for e in rel]
    if kind == "rawlist":
        return {"kind": "rawlist", "rel": rel, "stratum": "rawlist/" + label}
    if kind == "rawdict":
        # dict order = first appearance as a child; parents of a child in order of appearance
        names = []
        for p, c in rel:
            if c not in names:
                names.append(c)
        entries = [[nm, [p for p, c in rel if c == nm], {}] for nm in names]
        return {"kind": "rawdict", "entries": entries, "stratum": "rawdict/" + label}
    return {"kind": "rawdf", "rows": [[c, p, {}] for p, c in rel], "cols": [], "stratum": "rawdf/" + label}


_CYC_NAMES = ["a", "b", "c", "x"]


def cyclic_edge_sets(max_edges):
    """every set of <= max_edges directed edges over four names that contains a directed cycle"""
    pairs = [(p, c) for p in _CYC_NAMES for c in _CYC_NAMES if p != c]
    out = []
    for k in range(2, max_edges + 1):
        for es in itertools.combinations(pairs, k):
            idx = {nm: i for i, nm in enumerate(_CYC_NAMES)}
            if not _is_acyclic(4, [(idx[p], idx[c]) for p, c in es]):
                out.append(list(es))
    return out


def gen_cyclic(rng, tier):
    """cyclic relation sets in many edge orders, for each constructor: each must be refused"""
    kinds = ["rawlist", "rawdict", "rawdf"]
    if tier == "thorough":
        for es in cyclic_edge_sets(4):
            for j, perm in enumerate(itertools.permutations(es)):
                yield _raw_from_rel(kinds[0], perm, "cyclic_perm")
                yield _raw_from_rel(kinds[1 + j % 2], perm, "cyclic_perm")
        sets5 = cyclic_edge_sets(5)
        for _ in range(3000):
            es = list(rng.choice(sets5))
            rng.shuffle(es)
            yield _raw_from_rel(rng.choice(kinds), es, "cyclic_perm")
        return
    sets4 = cyclic_edge_sets(4)
    sets5 = [es for es in cyclic_edge_sets(5) if len(es) == 5]
    for i in range({"quick": 700, "search": 1500}[tier]):
        es = list(rng.choice(sets4 if i % 3 else sets5))
        rng.shuffle(es)
        yield _raw_from_rel(kinds[i % 3], es, "cyclic_perm")
    # all 24 orders of a few 4-edge sets whose cycle closes through a tail edge
    # the edge that closes the cycle comes last, everything else in random order
    idx = {nm: i for i, nm in enumerate(_CYC_NAMES)}
    for i in range({"quick": 500, "search": 1500}[tier]):
        es = list(rng.choice(sets4 if i % 2 else sets5))
        closing = [e for e in es if _is_acyclic(4, [(idx[p], idx[c]) for p, c in es if (p, c) != e])]
        if not closing:
            continue
        last = rng.choice(closing)
        rest = [e for e in es if e != last]
        rng.shuffle(rest)
        yield _raw_from_rel(kinds[i % 3], rest + [last], "cyclic_closing_last")
    full = [[("a", "b"), ("b", "c"), ("x", "a"), ("b", "x")], [("a", "b"), ("b", "x"), ("x", "a"), ("x", "c")]]
    four = [es for es in sets4 if len(es) == 4]
    full += [list(rng.choice(four)) for _ in range(10)]
    for q, es in enumerate(full):
        for j, perm in enumerate(itertools.permutations(es)):
            yield _raw_from_rel(kinds[(j + q) % 3], perm, "cyclic_perm")


def _opt(rng, kind):
    """non-default options, argument container types, frame index labels"""
    o = {}
    if kind in ("export", "rawdict") and rng.random() < 0.4:
        o["parent_key"] = rng.choice(["up", "parent nodes", "parents"])
    if kind in ("export", "rawdf"):
        if rng.random() < 0.35:
            o["name_col"] = rng.choice(["node id", "child col", "name"])
        if rng.random() < 0.35:
            o["parent_col"] = rng.choice(["from node", "src", "parent"])
        if rng.random() < 0.4:
            o["explicit_cols"] = rng.choice([True, "attrs"]) if kind == "rawdf" else True
        if rng.random() < 0.4:
            o["index"] = rng.choice(["dup", "dup", "keep" if kind == "export" else "labels"])
    if kind in ("export", "rawlist"):
        if rng.random() < 0.4:
            o["pair"] = "list"
        if rng.random() < 0.3:
            o["rel"] = "tuple"
    return o


def _export_case(rng, dag, attr_style):
    c = dict(dag)
    c["kind"] = "export"
    c["start"] = rng.randrange(c["n"])
    c["cls"] = _pick_cls(rng, distinct=True, falsy_ok=True)
    c["mode"] = _mode(rng, attr_style, c["attrs"])
    if c["cls"] == "Defaults" and rng.random() < 0.8:
        # ask for what the class provides: the class-level default `step` and the property `label`
        c["mode"] = [["step", rng.choice(["step", "step no"])], ["label", rng.choice(["label", "lbl"])]] + \
                    ([m for m in c["mode"] if m[0] not in ("step", "label") and m[1] not in ("step", "step no", "label", "lbl")]
                     if isinstance(c["mode"], list) else [])
    c["opt"] = _opt(rng, "export")
    c["perm"] = rng.randint(1, 10 ** 6) if rng.random() < 0.5 else 0
    return c


CORPUS_DAGS = [
    # the documentation / test-suite DAG: a,b -> c ; a,c -> d ; d -> e (+ f,g,h as in tests/conftest)
    ("doc5", 5, ["a", "b", "c", "d", "e"], [["P", 2, [0, 1]], ["P", 3, [0, 2]], ["P", 4, [3]]]),
    ("suite8", 8, list("abcdefgh"),
     [["P", 2, [0, 1]], ["P", 3, [0, 2]], ["P", 4, [3]], ["P", 5, [2, 3]], ["P", 6, [3]], ["P", 7, [6]]]),
    # a third parent that is only reachable through its child
    ("three_parents", 4, ["a", "b", "c", "d"], [["P", 3, [0, 1, 2]]]),
    ("three_parents_deep", 6, list("abcdef"), [["P", 3, [0, 1, 2]], ["R", 4, 2], ["R", 5, 4]]),
    # grandchildren reached through a second parent
    ("second_parent_grandchild", 5, list("abcde"), [["R", 0, 1], ["R", 0, 2], ["R", 2, 3], ["R", 1, 3], ["R", 3, 4]]),
    # two parallel paths and a direct edge
    ("parallel", 4, list("abcd"), [["R", 0, 1], ["R", 0, 2], ["R", 1, 3], ["R", 2, 3], ["R", 0, 3]]),
    # ancestors behind the third parent of an ancestor / descendants behind the third child of a descendant
    ("third_parent_behind", 6, list("abcdef"), [["P", 1, [2, 3, 4]], ["R", 1, 0], ["R", 5, 4]]),
    ("third_child_behind", 6, list("abcdef"), [["C", 1, [2, 3, 4]], ["R", 0, 1], ["R", 4, 5]]),
    ("single", 1, ["a"], []),
    ("two_components", 4, list("abcd"), [["R", 0, 1], ["R", 2, 3]]),
    # query, extend lower down through the children setter, query again (state kept by a query must not go stale)
    ("query_extend_below", 8, list("abcdefgh"),
     [["R", 0, 1], ["R", 0, 2], ["P", 3, [1, 2]], ["C", 3, [4, 5]], ["R", 6, 5], ["C", 5, [7]]], [2, 3]),
    # query, give an upstream node a new parent, query again
    ("query_extend_above", 4, list("abcx"), [["R", 0, 1], ["R", 1, 2], ["L", 0, 3]], [1]),
    ("query_extend_above_children", 4, list("abcx"), [["R", 0, 1], ["R", 1, 2], ["C", 3, [0]]], [1]),
    # one list object used for the parents of two nodes, one of them gets a further parent later
    ("shared_parent_list", 6, list("abcdex"), [["PS", [2, 3], [0, 1], "none"], ["R", 5, 3], ["P", 4, [2, 3], "clear"]]),
    ("shared_child_list", 5, list("abcde"), [["CS", [0, 1], [2, 3], ["append", 4]], ["R", 4, 2]]),
    ("caller_list_mutated", 4, list("abcd"), [["P", 2, [0, 1], ["append", 3]], ["C", 3, [0], "clear"], ["NP", 1, [3], "rev"]]),
    ("constructor_args", 5, list("abcde"), [["NC", 0, [1, 2], "clear"], ["NP", 3, [1, 2], ["append", 4]], ["NP", 4, [3], "none"]], [1]),
]


def corpus(prop):
    out = []
    for label, n, names, ops, *rest in CORPUS_DAGS:
        base = {"kind": "dag", "n": n, "names": names, "attrs": [{} for _ in range(n)], "ops": ops,
                "checkpoints": rest[0] if rest else [], "stratum": label}
        if prop == "C16":
            out.append((label, base))
        else:
            for start in sorted({0, n - 1}):
                for mode in ("all", [["step", "step no"], ["tag", "tag"]]):
                    c = dict(base)
                    c["attrs"] = [({"step": i % 3, "tag": "t%d" % (i % 2)} if i != 1 else {"tag": "only"}) for i in range(n)]
                    c.update(kind="export", start=start, mode=mode)
                    out.append((label, c))
    if prop == "C17":
        out.append(("cycle3", {"kind": "rawlist", "rel": [["a", "b"], ["b", "c"], ["c", "a"]], "stratum": "corpus"}))
        out.append(("selfloop", {"kind": "rawlist", "rel": [["a", "b"], ["b", "b"]], "stratum": "corpus"}))
        out.append(("dup_child_rows", {"kind": "rawdf", "cols": ["tag"], "stratum": "corpus",
                                       "rows": [["c", "a", {"tag": "x"}], ["c", "b", {"tag": "x"}], ["d", "c", {"tag": "y"}]]}))
        out.append(("dict_cycle", {"kind": "rawdict", "stratum": "corpus",
                                   "entries": [["a", ["b"], {}], ["b", ["c"], {}], ["c", ["a"], {}]]}))
        # a cycle that closes through an edge added upstream of nodes whose ancestors were already asked for
        for kind in ("rawlist", "rawdict", "rawdf"):
            out.append(("cycle_upstream", _raw_from_rel(kind, [["a", "b"], ["b", "c"], ["x", "a"], ["b", "x"]], "corpus")))
            out.append(("cycle_upstream2", _raw_from_rel(kind, [["b", "c"], ["a", "b"], ["c", "d"], ["x", "a"], ["d", "x"]], "corpus")))
    return out


def _exhaustive(prop, rng, nmax, orders):
    for n, edges in all_small_dags(nmax):
        for k in range(orders):
            es = list(edges)
            if k == 1:
                es.reverse()
            elif k >= 2:
                rng.shuffle(es)
            style = [None, "R", "P", "C"][k % 4] if k else "R"
            names = ["a", "b", "c", "d", "e"][:n]
            ops, _ = _ops_from_edges(rng, es, style, n=n)
            base = {"kind": "dag", "n": n, "names": names, "attrs": [{} for _ in range(n)],
                    "ops": ops, "checkpoints": ([len(ops) // 2 - 1] if len(ops) >= 2 and k != 1 else []),
                    "stratum": f"exhaustive{n}"}
            if prop == "C16":
                yield f"exhaustive{n}", base
            else:
                base["attrs"] = [{"step": (i * 7 + len(edges)) % 3} if (i + k) % 3 else {} for i in range(n)]
                c = _export_case(rng, base, "total")
                c["start"] = (k + len(edges)) % n
                yield f"exhaustive{n}", c


def generate(prop, rng, tier):
    if prop == "C16":
        count = {"quick": 900, "thorough": 12000, "search": 2500}[tier]
        if tier == "thorough":
            yield from _exhaustive(prop, rng, 4, 3)
        else:
            yield from _exhaustive(prop, rng, 3, 2)
        for i in range(count):
            c = gen_dag(rng, nmax=7 if i % 3 else 6)
            yield c["stratum"], c
        return
    count = {"quick": 600, "thorough": 9000, "search": 2000}[tier]
    if tier == "thorough":
        yield from _exhaustive(prop, rng, 4, 3)
    else:
        yield from _exhaustive(prop, rng, 3, 2)
    for i in range(count):
        attr_style = rng.choice(["total", "total", "partial_str", "partial_int", "falsy", "falsy", "names", "names", "underscore", "underscore", "none"])
        # (an int next to its own decimal string is left to C16: dataframe_to_dag compares names as strings, see partial_clauses)
        d = gen_dag(rng, nmax=6, pools=("distinct", "distinct", "affix", "special", "ints", "mixed"), attr_style=attr_style)
        c = _export_case(rng, d, attr_style)
        yield "export/" + attr_style + "/" + c["stratum"], c
    for i in range(count - (150 if tier == "quick" else 0)):
        label, c = gen_raw(rng)
        yield c["stratum"], c
    for c in gen_cyclic(rng, tier):
        yield c["stratum"], c


# ---------------------------------------------------------------------------------------------
# shrinking, evidence


def _op_ids(o):
    if o[0] in ("P", "C", "NP", "NC", "FP", "FC"):
        return [o[1]] + list(o[2]) + (list(o[3][1:]) if len(o) > 3 and isinstance(o[3], list) else [])
    if o[0] in ("PS", "CS"):
        return list(o[1]) + list(o[2]) + (list(o[3][1:]) if len(o) > 3 and isinstance(o[3], list) else [])
    if o[0] == "D":
        return [o[1]]
    return [o[1], o[2]]


def _without_op(case, k):
    c = dict(case)
    c["ops"] = case["ops"][:k] + case["ops"][k + 1:]
    cps = []
    for q in case.get("checkpoints", []):
        q2 = q if q < k else q - 1
        if 0 <= q2 < len(c["ops"]) - 1:
            cps.append(q2)
    c["checkpoints"] = sorted(set(cps))
    return c


def _with_op(case, k, op):
    c = dict(case)
    c["ops"] = case["ops"][:k] + [op] + case["ops"][k + 1:]
    return c


def shrink_candidates(prop, case):
    kind = case.get("kind", "dag")
    if case.get("cls", "DAGNode") != "DAGNode":
        c = dict(case)
        c["cls"] = "DAGNode"
        yield c
    if case.get("perm"):
        c = dict(case)
        c["perm"] = 0
        yield c
    for key in list(case.get("opt", {})):
        c = dict(case)
        c["opt"] = {k: v for k, v in case["opt"].items() if k != key}
        yield c
    if kind in ("dag", "export"):
        ops = case["ops"]
        for k in range(len(ops)):
            yield _without_op(case, k)
        for q in case.get("checkpoints", []):
            c = dict(case)
            c["checkpoints"] = [x for x in case["checkpoints"] if x != q]
            yield c
        for k, o in enumerate(ops):
            if o[0] in ("P", "C", "NP", "NC", "FP", "FC", "PS", "CS"):
                mut = o[3] if len(o) > 3 else "none"
                if len(o[2]) > 1:
                    for j in range(len(o[2])):
                        yield _with_op(case, k, [o[0], o[1], o[2][:j] + o[2][j + 1:], mut] + o[4:])
                if mut != "none":
                    yield _with_op(case, k, [o[0], o[1], o[2], "none"] + o[4:])
                if len(o) > 4:
                    yield _with_op(case, k, [o[0], o[1], o[2], mut])
                if o[0] in ("NP", "NC", "FP", "FC"):
                    yield _with_op(case, k, [o[0][1], o[1], o[2], mut] + o[4:])
                if o[0] in ("PS", "CS") and len(o[1]) > 1:
                    for j in range(len(o[1])):
                        yield _with_op(case, k, [o[0], o[1][:j] + o[1][j + 1:], o[2], mut])
        n = case["n"]
        used = set()
        for o in ops:
            used |= set(_op_ids(o))
        if n - 1 not in used and n > 1 and case.get("start", 0) < n - 1:
            c = dict(case)
            c.update(n=n - 1, names=case["names"][:-1], attrs=case["attrs"][:-1])
            yield c
        if any(case["attrs"]):
            c = dict(case)
            c["attrs"] = [{} for _ in range(n)]
            yield c
    elif kind == "rawlist":
        for k in range(len(case["rel"])):
            c = dict(case)
            c["rel"] = case["rel"][:k] + case["rel"][k + 1:]
            yield c
    elif kind == "rawdict":
        for k in range(len(case["entries"])):
            c = dict(case)
            c["entries"] = case["entries"][:k] + case["entries"][k + 1:]
            yield c
    elif kind == "rawdf":
        for k in range(len(case["rows"])):
            c = dict(case)
            c["rows"] = case["rows"][:k] + case["rows"][k + 1:]
            yield c


def size(case):
    kind = case.get("kind", "dag")
    if kind in ("dag", "export"):
        return (10 * case["n"] + sum(1 + len(_op_ids(o)) + (len(o) > 4) for o in case["ops"]) + sum(len(a) for a in case["attrs"])
                + len(case.get("opt", {})) + (case.get("cls", "DAGNode") != "DAGNode") + bool(case.get("perm"))
                + 3 * len(case.get("checkpoints", []))
                + sum(1 for o in case["ops"] if len(o) > 3 and o[3] != "none"))
    extra = len(case.get("opt", {})) + (case.get("cls", "DAGNode") != "DAGNode")
    if kind == "rawlist":
        return 2 * len(case["rel"]) + extra
    if kind == "rawdict":
        return sum(2 + 2 * len(e[1] or []) + len(e[2]) for e in case["entries"]) + extra
    return sum(4 + len(r[2]) for r in case["rows"]) + extra


def nontrivial(prop, case, obs):
    kind = case.get("kind", "dag")
    if kind in ("dag", "export"):
        links = obs["snaps"][-1]["links"] if prop == "C16" else obs["links"]
        nedges = sum(len(l[1]) for l in links)
        return case["n"] >= 3 and nedges >= 2
    if kind == "rawlist":
        return len(case["rel"]) >= 2
    if kind == "rawdict":
        return sum(len(e[1] or []) for e in case["entries"]) >= 2
    return len(case["rows"]) >= 2


def sample(prop, case, obs):
    kind = case.get("kind", "dag")
    if prop == "C16":
        fin = obs["snaps"][-1]
        return {"names": case["names"], "ops": case["ops"], "checkpoints": case.get("checkpoints", []),
                "snapshots": len(obs["snaps"]), "final_links": fin["links"], "dag_iterator_from_0": fin["iter"][0],
                "descendants": fin["desc"]}
    if kind == "export":
        return {"names": case["names"], "ops": case["ops"], "start": case["start"], "mode": case["mode"],
                "dag_to_list": obs["list"], "dag_to_dict": obs["dict"], "rebuilt_from_df": obs["rdf"]}
    return {"case": {k: v for k, v in case.items() if k != "stratum"}, "result": obs["r"]}


def rule(prop):
    if prop == "C16":
        return ("DAGs on 1-8 labelled nodes built on real DAGNode objects step by step through every entry point "
                "(parents=[..] / children=[..] with multi-element lists, >>, <<, constructor arguments, del children, one list "
                "object shared by several nodes, the caller's list mutated afterwards), with all queries run at up to two "
                "intermediate checkpoints and at the end (each snapshot compared with the model on the links of that moment): "
                "every acyclic edge set on <= 3 (quick) / <= 4 (thorough) "
                "nodes in several insertion orders + node names str or int incl. an int next to its own decimal string "
                "(1 and '1' are distinct names; compared by value and type) + random shapes sparse/mixed/dense/chain/fan-in/fan-out/diamond x name pools "
                "distinct/affix/special/repeated; observed from every start node and every ordered pair; "
                "plus DAGNode.from_dict with parents / children lists of existing nodes; node class DAGNode or a user subclass (plain, "
                "class defaults + property, value equality by name); children handed over as list / tuple / set / dict view or a "
                "one-shot iterable (generator, map, iter); the node objects of the case must hold exactly the intended links "
                "(shadow kept by the harness, compared by object identity) at every checkpoint; per snapshot "
                "all results (every start node, every ordered pair) are kept alive and read only after the last query, then the "
                "caller's lists are emptied and every query is repeated and must agree; links must be unchanged by the queries, "
                "iterators advanced in turn must agree with separate runs; "
                "non-trivial = >= 3 nodes and >= 2 edges; distinct by canonical JSON hash")
    return ("export cases: the same DAG families (every entry point; node class / node_type DAGNode, a plain subclass, a subclass "
            "with falsy childless instances, value equality by name, class-level default + property resolved by get_attr) with attribute "
            "assignments total / partial / none / falsy (0, '', False, explicit None) / underscore-prefixed names asked for through "
            "an attr_dict (ordinary attributes there; left out by all_attrs) / odd attribute NAMES (one letter, affixes and "
            "substrings and superstrings of name / parents / children / path, blanks and other non-identifier characters, under "
            "all_attrs and as attr_dict keys and targets), any start node, an attribute selection "
            "(all_attrs, all_attrs together with an attr_dict, or an attr_dict with renamed non-identifier keys), default and "
            "non-default parent_key / name_col / parent_col, exported in the three formats, cross-checked from every start node, "
            "and rebuilt by the matching constructor from the export as is or re-ordered (entries, parents, rows shuffled; frame "
            "index repeated / kept; relations as tuples or lists; child_col / parent_col / attribute_cols explicit or defaulted); raw cases: relation lists / dictionaries / frames over 3-5 names that are acyclic, contain an explicit "
            "cycle of length 1-4, or are random, with repeated relations; every cyclic edge set of <= 4 edges over four names in "
            "all edge orders (thorough) / a sample of <= 5-edge sets in random orders (quick), for all three constructors; non-trivial = >= 3 nodes and >= 2 edges (export) or >= 2 relations (raw)")


def explain(prop, case, obs, flags):
    from ._base import explain as base
    return base(prop, case, obs, flags)


def trusted_base(prop):
    tb = COMMON_TB + ["the DAG handed to the model is the parents/children order read back from the DAGNode objects after the listed insertions"]
    if prop == "C17":
        tb.append("pandas DataFrame construction / drop_duplicates / to_dict are modelled (rows as (name, parent, non-null attributes)); integral floats read back as ints")
    return tb


def partial_clauses(prop):
    if prop == "C16":
        return [
            "not compared (the property does not speak about it): the ORDER of the yielded pairs / ancestors / descendants / "
            "siblings / paths (multisets are compared), the container type returned (tuple vs list), which exception class "
            "go_to refuses with (any exception counts as refusal), go_to with a non-DAGNode argument",
            "user subclasses: a plain subclass, class-level defaults + property, __eq__/__hash__ by name (with distinct names "
            "only) are exercised; a subclass whose instances can be FALSY (__len__ = number of children) is excluded from C16 "
            "because the unchanged library is wrong for it (descendants skips childless nodes through `if tree` in "
            "preorder_iter, go_to then refuses reachable leaf targets) — reported, see the C17 strata for where it is used",
            "not exercised: ASSERTIONS switched off (BIGTREE_CONF_ASSERTIONS), user hooks (_DAGNode__pre/post_assign_*), "
            "copy()/deepcopy of a DAG before querying, __iter__/__getitem__/__delitem__ of DAGNode, more than 9 nodes",
            "queries on link structures that are not consistent acyclic DAGs are reported as failures, not modelled",
        ]
    return [
        "C17_roundtrip_dict / C17_roundtrip_df carry the guard that the exported keys of a node are pairwise distinct "
        "(dict: and not one of parent/parents/children)",
        "canonicalisations: integral floats read back from pandas count as the ints they came from (1.0 == 1); None / NaN cells "
        "of a frame and None-valued attributes of a rebuilt node count as absent; dict entries, parents lists, frame rows and "
        "attribute key order are compared as multisets; column dtypes, the frame index and the column order are not compared; "
        "which node a constructor returns and the parents/children ORDER of the rebuilt DAG are not compared (names, edge set, "
        "attributes, node class are); a refusal is any exception",
        "node names are str or int (compared by value and type; an integral float read back from a frame counts as the int); "
        "an int next to its own decimal string (1 and '1') is exercised under C16 only: on the unchanged library "
        "dataframe_to_dag refuses such a frame when the two nodes carry different attributes (its duplicate check compares "
        "names as strings) — reported",
        "export cases use distinct node names (the name-keyed code cannot reproduce a DAG with repeated names; such DAGs are "
        "exercised under C16 only); the single-node DAG (no edge) exports to nothing, as documented, and is outside the theorems",
        "not exercised: ASSERTIONS switched off (the cycle refusal lives in the guarded setter checks), attribute values other "
        "than int / str / bool / None (floats, containers), attribute_cols naming a strict subset of the columns, an attribute "
        "exported under the very key used for the name / parent column or the parent key (or literally 'name', 'parent', "
        "'parents', 'children'), dag_to_dot, polars frames, exports of DAGs with more than 7 nodes",
        "checked inside the harness rather than in Coq: exports started from every node of the component equal the export from "
        "the case's start node (as multisets), exporting twice gives the same result, the source DAG (links and attributes) is "
        "unchanged, rebuilt nodes are instances of the requested node_type, every constructor leaves the object it was given "
        "unchanged (deep snapshot before / after), importing the very same object a second time (with the other node class) "
        "gives the same graph, re-exporting a rebuilt DAG with the same options gives the first export again",
    ]


def assumptions(prop):
    if prop == "C16":
        return ["distinct node names and weak connectivity for C16_iter_complete; acyclic + mutually consistent parents/children lists for the queries"]
    return ["weakly connected acyclic DAG with distinct names and at least one edge for the export / round-trip theorems"]
