"""Engine `dag`: operation histories on DAGNode objects (C10, DAGNode share of C02 and C20)."""
import itertools
from collections import deque

from ..core import cbool, clist, copt, cpair, cstr
from ._base import *  # noqa
from ._base import exn_code, COMMON_TB

CASES_PER_FILE = 120
SERVES = ["C10", "C02", "C20"]
COQ_TARGETS = ["theories/Corr/DagCorr.vo"]
MOD = "harness.engines.dag"


def coq_header(prop):
    return "From BT Require Import Base.Prelude Heap.Dag Corr.DagCorr."


def coq_case_type(prop):
    return "dcase"


def coq_check(prop):
    return {"C10": "check_C10", "C02": "check_C02_dag", "C20": "check_C20_dag"}[prop]


# ---------------------------------------------------------------------------------------------
# implementation side


class HookFault(Exception):
    pass


_CLASSES = {}


def _classes():
    if _CLASSES:
        return _CLASSES
    from bigtree.node.dagnode import DAGNode

    class Faults:
        queue = []      # one entry per setter call: None | "pre" | "post"
        pending = False
        registry = None  # every object whose constructor was entered, in creation order
        opno = 0         # number of the running op: decides (reproducibly) whether a passing hook reads

        @classmethod
        def read(cls, me):
            """what a user hook typically does: look at the nodes through the public read-only API and
            keep a note on the node.  Reading must never change what later reads return."""
            first = cls.registry[0]
            for i, n in enumerate(cls.registry):
                if (i + cls.opno) % 2 == 0 or n is me:       # a varying part of the nodes, never all of them
                    n.parents, n.children, n.is_root, n.is_leaf, n.siblings, n.node_name, (first in n), list(n)
            me.set_attrs({"hook_seen": cls.opno})

        @classmethod
        def pre(cls, me):
            cur = cls.queue.pop(0) if cls.queue else None
            cls.pending = cur == "post"
            if cur == "pre" or cls.opno % 3 != 1:
                cls.read(me)
            if cur == "pre":
                raise HookFault("pre")

        @classmethod
        def post(cls, me):
            if cls.pending or cls.opno % 3 != 2:
                cls.read(me)
            if cls.pending:
                cls.pending = False
                raise HookFault("post")

    class FDag(DAGNode):
        """DAGNode subclass with the four documented extension points overridden"""

        def __init__(self, name="", parents=None, children=None, **kwargs):
            Faults.registry.append(self)     # also when the constructor raises half-way
            super().__init__(name, parents, children, **kwargs)

        def _DAGNode__pre_assign_parents(self, new_parents):
            Faults.pre(self)

        def _DAGNode__post_assign_parents(self, new_parents):
            Faults.post(self)

        def _DAGNode__pre_assign_children(self, new_children):
            Faults.pre(self)

        def _DAGNode__post_assign_children(self, new_children):
            Faults.post(self)

    class PDag(DAGNode):
        """as plain as possible: DAGNode's own (empty) hooks; only remembers the objects"""

        def __init__(self, name="", parents=None, children=None, **kwargs):
            Faults.registry.append(self)
            super().__init__(name, parents, children, **kwargs)

    class VDag(FDag):
        """user subclass with value semantics: distinct nodes with the same name compare equal"""

        def __eq__(self, other):
            return isinstance(other, VDag) and self.name == other.name

        def __hash__(self):
            return hash(self.name)

    class LDag(FDag):
        """user subclass whose instances can be falsy: a node without children is"""

        def __len__(self):
            return len(self.children)

    _CLASSES.update(Faults=Faults, FDag=FDag, PDag=PDag, VDag=VDag, LDag=LDag)
    return _CLASSES


class Junk:
    """a Python object that is neither a DAGNode nor iterable"""


def _arg(nodes, a, salt=0):
    if a[0] == "N":
        return nodes[a[1]]
    if a[0] == "None":
        return None
    if salt % 5 == 1:
        from bigtree.node.node import Node
        return Node("junk")              # a tree node is no DAGNode either
    return [Junk(), None, 0, "", False][salt % 5] if salt % 5 != 1 else None


def _container(kind, items):
    if kind == "list":
        return list(items)
    if kind == "tuple":
        return tuple(items)
    if kind == "set":
        return set(items)
    if kind == "view":
        return {i: x for i, x in enumerate(items)}.values()   # iterable, re-iterable, no list/tuple/set
    if kind == "gen":
        return (x for x in list(items))                       # one-shot iterator
    return Junk()


def _fq(f):
    return {"none": None, "pre": "pre", "post": "post"}[f]


UNKNOWN = 999      # how a list member that is none of the created DAGNode objects is shown (None, junk, a stray copy)


def _links(nodes, mismatch=None):
    """what the objects hold, through the public getters.  Never raises on odd content: a member that is
    not one of the created nodes is reported as UNKNOWN and judged by Coq like everything else."""
    idx = {id(n): i for i, n in enumerate(nodes)}

    def ids(seq):
        return [idx.get(id(x), UNKNOWN) for x in seq]

    out = []
    for n in nodes:
        ps = ids(n.parents)
        cs = ids(n.children)
        if mismatch is not None:
            for attr, seen in (("_DAGNode__parents", ps), ("_DAGNode__children", cs)):
                raw = getattr(n, attr, None)
                if raw is not None and ids(raw) != seen:
                    mismatch.append(attr)
            if ids(n.parents) != ps or ids(n.children) != cs:
                mismatch.append("getter not repeatable")
            if bool(n.is_root) != (not ps) or bool(n.is_leaf) != (not cs):
                mismatch.append("is_root/is_leaf")
        out.append([ps, cs])
    return out


def is_reuse(op):
    """harness-only marker (ignored by the model): pass the very list object of the previous op again"""
    return op[-1] == "reuse" and ((op[0] in ("SetParents", "SetKids") and len(op) == 6) or (op[0] == "New" and len(op) == 7))


def _mk(ctx, nodes, kind, args, reuse):
    """the argument object of an assignment.  The caller's *list* objects are remembered: the model
    has no aliasing, so (a) the same list object may be handed to two consecutive assignments,
    (b) the caller may change its list after the call without any effect on the nodes, and (c) the
    call must leave the caller's list as it was."""
    items = [_arg(nodes, a, ctx["k"] + j) for j, a in enumerate(args)]
    if kind != "list":
        return _container(kind, items)
    key = repr(args)
    obj = ctx["last"].get(key) if reuse else None
    if obj is None:
        obj = list(items)
    ctx["used"].append((key, obj, [id(x) for x in obj]))
    return obj


def apply_op(cl, nodes, op, ctx=None):
    F = cl["Faults"]
    F.queue = []
    F.pending = False
    ctx = ctx if ctx is not None else {"last": {}, "used": [], "k": 0, "cls": cl["FDag"]}
    reuse = is_reuse(op)
    k = op[0]
    if k == "SetParents":
        F.queue = [_fq(op[4])]
        nodes[op[1]].parents = _mk(ctx, nodes, op[2], op[3], reuse)
    elif k == "SetKids":
        F.queue = [_fq(op[4])]
        nodes[op[1]].children = _mk(ctx, nodes, op[2], op[3], reuse)
    elif k == "DelKids":
        del nodes[op[1]].children
    elif k == "DelKid":
        del nodes[op[1]][op[2]]
    elif k == "RShift":
        F.queue = [_fq(op[3])]
        nodes[op[1]] >> nodes[op[2]]
    elif k == "LShift":
        F.queue = [_fq(op[3])]
        nodes[op[1]] << nodes[op[2]]
    elif k == "New":
        F.queue = [_fq(op[4]), _fq(op[5])]
        kw = {}
        if op[2] is not None:
            kw["parents"] = _mk(ctx, nodes, op[2][0], op[2][1], reuse)
        if op[3] is not None:
            kw["children"] = _mk(ctx, nodes, op[3][0], op[3][1], reuse)
        ctx["cls"](op[1], age=len(nodes), **kw)
    else:
        raise ValueError(k)


def _after_call(ctx, nodes, k, keep, mismatch):
    """what the caller does with its own list objects after op number k: keep them untouched when the
    next op is going to pass them again, otherwise change them (append some node / clear)"""
    used, ctx["used"] = ctx["used"], []
    for _, lst, snap in used:
        if [id(x) for x in lst] != snap:
            mismatch.append("the call changed the caller's list")
    idx = {id(n): i for i, n in enumerate(nodes)}
    caller = [[idx.get(id(x), -1) for x in lst] for _, lst, _ in used]     # what the caller sees after the call
    if keep:
        ctx["last"] = {key: lst for key, lst, _ in used}
        return caller
    ctx["last"] = {}
    for j, (_, lst, _s) in enumerate(used):
        if (k + j) % 3 == 2:
            lst.clear()
        else:
            lst.append(nodes[(7 * k + 3 + j) % len(nodes)])
    return caller


def _upward(links, x):
    seen, st = [], list(links[x][0])
    while st:
        y = st.pop()
        if y not in seen:
            seen.append(y)
            if y < len(links):
                st.extend(links[y][0])
    return sorted(seen)


def _swap_in_copy(nodes, x, kept):
    """node.copy() (deepcopy) of object x; the history continues on the copies of x's whole connected
    component.  The model needs no operation for this: the copy has to be an exact structural twin."""
    orig = nodes[x]
    cp = orig.copy()
    pairs = {id(orig): (orig, cp)}
    stack = [(orig, cp)]
    while stack:
        o, c = stack.pop()
        if not hasattr(o, "parents") and type(o) is type(c):
            continue                                   # a non-node member (only possible outside the modelled domain)
        if type(o) is not type(c) or o.node_name != c.node_name:
            raise RuntimeError("copy() changed class or name")
        for ol, cl_ in ((o.parents, c.parents), (o.children, c.children)):
            if len(ol) != len(cl_):
                raise RuntimeError("copy() changed the number of links")
            for oo, cc in zip(ol, cl_):
                if id(oo) in pairs:
                    if pairs[id(oo)][1] is not cc:
                        raise RuntimeError("copy() is not one-to-one")
                else:
                    pairs[id(oo)] = (oo, cc)
                    stack.append((oo, cc))
    for i, n in enumerate(nodes):
        if id(n) in pairs:
            if pairs[id(n)][1] is n:
                raise RuntimeError("copy() shares a node with the original")
            kept.append((n, [id(p) for p in n.parents], [id(c) for c in n.children]))
            nodes[i] = pairs[id(n)][1]


def _guard(f):
    try:
        return f()
    except RecursionError:
        return ["exn", "recursion"]
    except Exception as e:  # noqa
        return ["exn", exn_code(e)]


def _battery(nodes):
    """read-only library calls on the final DAG (C20: compared between the two interpreters)"""
    import json
    from bigtree.dag.export import dag_to_dataframe, dag_to_dict, dag_to_list
    from bigtree.utils.iterators import dag_iterator
    idx = {id(n): i for i, n in enumerate(nodes)}

    def ids(seq):
        return [idx.get(id(x), -1) for x in seq]

    out = []
    for i, n in enumerate(nodes[:10]):
        others = [nodes[(i + d) % len(nodes)] for d in (1, 2, 3)]
        item = [
            _guard(lambda: ids(n.ancestors)), _guard(lambda: ids(n.descendants)), _guard(lambda: ids(n.siblings)),
            _guard(lambda: [bool(n.is_root), bool(n.is_leaf), n.node_name]),
            _guard(lambda: [[k, v] for k, v in n.describe(exclude_prefix="_")]),
            _guard(lambda: [n.get_attr("age"), n.get_attr("nope", 7)]),
            _guard(lambda: [ids(p) for p in n.go_to(n)]),
            [_guard(lambda m=m: [ids(p) for p in n.go_to(m)]) for m in others],
            _guard(lambda: [ids(pr) for pr in dag_iterator(n)]),
            _guard(lambda: [list(pr) for pr in dag_to_list(n)]),
            _guard(lambda: dag_to_dict(n, all_attrs=True)),
            _guard(lambda: sorted([a.node_name, b.node_name] for a, b in dag_iterator(n.copy()))),
            _guard(lambda: [[c.node_name for c in n], [m in n for m in others]]),
        ]
        if i < 2:
            item.append(_guard(lambda: dag_to_dataframe(n, all_attrs=True).to_dict("records")))
        out.append(item)
    return json.loads(json.dumps(out, default=str))


def _dag_iterator():
    from bigtree.utils.iterators import dag_iterator
    return dag_iterator


def run_history(case, battery=False):
    """Runs in the harness worker (checks on) and, for C20, in the no-assertion child as well."""
    cl = _classes()
    F = cl["Faults"]
    F.queue, F.pending, F.opno = [], False, 0
    nodes = F.registry = []
    ops = case["ops"]
    faulty = any(f in ("pre", "post") for o in ops for f in o[3:] if isinstance(f, str))
    cls = cl["PDag"] if (not faulty and len(ops) % 2 == 0) else cl["FDag"]
    cls = {"valeq": cl["VDag"], "falsy": cl["LDag"]}.get(case.get("cls", "auto"), cls)
    for i in range(case["n"]):
        if i % 2:
            cls.from_dict({"name": case["names"][i], "age": i})
        else:
            cls(case["names"][i], age=i)
    trace, queries, digests = [], [], []
    mismatch = []      # the public getters are what is observed; anything else that is off is recorded here
    kept = []          # originals that were replaced by their copies, with their links at that moment
    ctx = {"last": {}, "used": [], "k": 0, "cls": cls}
    copy_at = {int(k): int(x) for k, x in case.get("copy_at", [])}
    for k, op in enumerate(ops):
        code = 0
        F.opno = ctx["k"] = k
        if k in copy_at and copy_at[k] < len(nodes):
            _swap_in_copy(nodes, copy_at[k], kept)
            ctx["last"] = {}        # the caller's remembered list holds the originals: no reuse across a copy
        try:
            apply_op(cl, nodes, op, ctx)
        except HookFault:
            code = 12
        except Exception as e:
            code = exn_code(e)
        F.queue, F.pending = [], False
        caller = _after_call(ctx, nodes, k, (k + 1 < len(ops) and is_reuse(ops[k + 1])), mismatch)
        links = _links(nodes, mismatch)
        trace.append([links, code])
        # query - (no) mutate - query on a varying FEW of the objects (querying all of them after every op
        # would prime every cache everywhere and hide state that is only primed by some reads)
        idx = {id(n): i for i, n in enumerate(nodes)}
        sample = [i for i in range(len(nodes)) if (7 * i + 3 * k + len(ops)) % 3 == 0]
        q, derived = [], [caller]
        for i in sample:
            n = nodes[i]
            a = _guard(lambda: [idx.get(id(x), -1) for x in n.ancestors])
            q.append([i, sorted(x if x >= 0 else UNKNOWN for x in a) if a[:1] != ["exn"] else _upward(links, i)])
            if battery:
                m = nodes[(i + 1 + k) % len(nodes)]
                derived.append([i, a, _guard(lambda: [idx.get(id(x), -1) for x in n.descendants]),
                                _guard(lambda: [idx.get(id(x), -1) for x in n.siblings]),
                                _guard(lambda: [[idx.get(id(x), -1) for x in pth] for pth in n.go_to(m)]),
                                _guard(lambda: [[idx.get(id(x), -1) for x in pr] for pr in _dag_iterator()(n)])])
            else:
                _guard(lambda: (n.descendants, n.siblings, n.describe()))
        queries.append(q)
        digests.append(derived)
        if _links(nodes) != links:
            mismatch.append("a read-only query changed the links")
    idx = {id(n): i for i, n in enumerate(nodes)}
    links = _links(nodes)
    anc = []
    for i, n in enumerate(nodes):
        a = _guard(lambda: [idx.get(id(x), UNKNOWN) for x in n.ancestors])
        # `ancestors` does not terminate on a cyclic structure (or trips over a non-node member): report the
        # upward closure of the observed links instead
        anc.append(sorted(a) if a[:1] != ["exn"] else _upward(links, i))
    for n, ps, cs in kept:
        if [id(p) for p in n.parents] != ps or [id(c) for c in n.children] != cs:
            mismatch.append("an original changed after the history continued on its copy")
    for i, n in enumerate(nodes):
        ok_age = (i,) if i < case["n"] else (i, None)     # a constructor that raised never stored its kwargs
        if n.node_name != (case["names"][i] if i < case["n"] else n.node_name) or n.get_attr("age") not in ok_age:
            mismatch.append("name / attribute changed")
    if mismatch:
        # something outside the observed links is off: the getter view is still evaluated against the
        # property; the extra entry makes the correspondence (agree_anc: length) fail as well
        anc.append([])
    obs = {"trace": trace, "anc": anc, "q": queries, "harness_notes": sorted(set(mismatch))}
    if battery:
        obs["bat"] = _battery(nodes)
        obs["dig"] = digests
    return obs


def run_impl(prop, case):
    import bigtree.globals as g
    if not g.ASSERTIONS:
        raise RuntimeError("the harness interpreter has to run with the assertion checks on")
    obs = run_history(case, prop == "C20")
    if prop == "C20":
        from .. import noassert
        if noassert.call(MOD, "__assertions__"):
            raise RuntimeError("the child interpreter did not switch the assertion checks off")
        off = noassert.call(MOD, "run_history", case, True)
        obs["off"] = off["trace"]
        obs["bat_off"] = off["bat"]
        obs["dig_off"] = off["dig"]
        if off["harness_notes"]:
            obs["anc"] = obs["anc"] + [[]]
            obs["harness_notes"] = sorted(set(obs["harness_notes"]) | {"checks off: " + x for x in off["harness_notes"]})
    return obs


# ---------------------------------------------------------------------------------------------
# Coq literals

_FT = {"none": "DNoFault", "pre": "DPreFail", "post": "DPostFail"}
_CT = {"list": "DList", "tuple": "DTuple", "set": "DSet", "view": "DView", "gen": "DGen", "noniter": "DNonIter"}


def _carg(a):
    return {"N": lambda: f"DNode {int(a[1])}", "None": lambda: "DNone", "Junk": lambda: "DJunk"}[a[0]]()


def _cargs(l):
    return clist(_carg(a) for a in l)


def _ccarg(v):
    return "None" if v is None else f"(Some ({_CT[v[0]]}, {_cargs(v[1])}))"


def _cop(op):
    k = op[0]
    if k in ("SetParents", "SetKids"):
        return f"{k} {op[1]} {_CT[op[2]]} {_cargs(op[3])} {_FT[op[4]]}"
    if k == "DelKids":
        return f"DelKids {op[1]}"
    if k == "DelKid":
        return f"DelKid {op[1]} {cstr(op[2])}"
    if k == "RShift":
        return f"DRShift {op[1]} {op[2]} {_FT[op[3]]}"
    if k == "LShift":
        return f"DLShift {op[1]} {op[2]} {_FT[op[3]]}"
    if k == "New":
        return f"DNew {cstr(op[1])} {_ccarg(op[2])} {_ccarg(op[3])} {_FT[op[4]]} {_FT[op[5]]}"
    raise ValueError(k)


def _ids(l):
    return clist(str(int(x)) for x in l)


def _clinks(l):
    return clist(cpair(_ids(ps), _ids(cs)) for ps, cs in l)


def _decode(deltas):
    prev, out = [], []
    for n, delta, code in deltas:
        d = {i: [ps, cs] for i, ps, cs in delta}
        prev = [d[x] if x in d else (prev[x] if x < len(prev) else [[], []]) for x in range(n)]
        out.append([prev, code])
    return out


def _ctrace(tr):
    """delta encoding of the observed trace (decoded again by Corr/DagCorr.v decode_obs)"""
    prev, deltas = [], []
    for l, code in tr:
        delta = [(i, ps, cs) for i, (ps, cs) in enumerate(l)
                 if [ps, cs] != (prev[i] if i < len(prev) else [[], []])]
        deltas.append((len(l), delta, int(code)))
        prev = l
    assert _decode(deltas) == [[[[list(ps), list(cs)] for ps, cs in l], int(code)] for l, code in tr], "delta encoding"
    return clist(f"({n}, {clist(f'({i}, ({_ids(ps)}, {_ids(cs)}))' for i, ps, cs in d)}, {code})" for n, d, code in deltas)


def _cdigests(bat):
    import hashlib
    import json
    return clist(_ids(hashlib.sha1(json.dumps(item, sort_keys=True).encode()).digest()[:5]) for item in bat)


def emit(prop, case, obs):
    n = case["n"]
    for tr in (obs["trace"], obs.get("off", [])):
        k = n
        for (l, code), op in zip(tr, case["ops"]):
            k += 1 if op[0] == "New" else 0
            assert len(l) == k, "number of observed objects"
    assert len(obs["trace"]) == len(case["ops"])
    parts = [
        cbool(case.get("assert", True)), str(n), clist(cstr(s) for s in case["names"]),
        clist(_cop(o) for o in case["ops"]), _ctrace(obs["trace"]),
        clist(_ids(a) for a in obs["anc"]), _ctrace(obs.get("off", [])),
        _cdigests(obs.get("bat", [])), _cdigests(obs.get("bat_off", [])),
        clist(clist(f"({int(i)}, {_ids(a)})" for i, a in q) for q in obs["q"]),
        _cdigests(obs.get("dig", [])), _cdigests(obs.get("dig_off", [])),
    ]
    return "DC " + " ".join(f"({p})" for p in parts)


# ---------------------------------------------------------------------------------------------
# shadow of the link structure (used only to steer generation: which ops are valid, where the
# interesting invalid ones are, which states the enumeration has reached)


class Shadow:
    def __init__(self, n=0, par=None, kid=None):
        self.par = [list(l) for l in par] if par is not None else [[] for _ in range(n)]
        self.kid = [list(l) for l in kid] if kid is not None else [[] for _ in range(n)]

    @property
    def n(self):
        return len(self.par)

    def key(self):
        return (tuple(map(tuple, self.par)), tuple(map(tuple, self.kid)))

    def anc(self, x):
        out, st = set(), list(self.par[x])
        while st:
            y = st.pop()
            if y not in out:
                out.add(y)
                st.extend(self.par[y])
        return out

    def desc(self, x):
        out, st = set(), list(self.kid[x])
        while st:
            y = st.pop()
            if y not in out:
                out.add(y)
                st.extend(self.kid[y])
        return out

    def depth_below(self, x):
        return 0 if not self.kid[x] else 1 + max(self.depth_below(c) for c in self.kid[x])

    def _members_ok(self, args):
        ids = [a[1] for a in args if a[0] == "N"]
        return len(ids) == len(args) and len(set(ids)) == len(ids)

    def parents_valid(self, c, cont, args):
        if cont != "list" or not self._members_ok(args):
            return False
        bad = self.desc(c) | {c}
        return all(a[1] not in bad for a in args)

    def children_valid(self, p, cont, args):
        if cont == "noniter" or not self._members_ok(args):
            return False
        bad = self.anc(p) | {p}
        return all(a[1] not in bad for a in args)

    def _add(self, p, c):
        if p not in self.par[c]:
            self.par[c].append(p)
            self.kid[p].append(c)

    def apply(self, op):
        """mirror of the documented behaviour; returns True when the op is accepted"""
        k = op[0]
        if k == "SetParents":
            if not self.parents_valid(op[1], op[2], op[3]) or op[4] != "none":
                return False
            for a in op[3]:
                self._add(a[1], op[1])
            return True
        if k == "SetKids":
            if not self.children_valid(op[1], op[2], op[3]) or op[4] != "none":
                return False
            for a in op[3]:
                self._add(op[1], a[1])
            return True
        if k == "DelKids":
            for c in list(self.kid[op[1]]):
                self.par[c].remove(op[1])
            self.kid[op[1]] = []
            return True
        if k == "RShift" or k == "LShift":
            p, c = (op[1], op[2]) if k == "RShift" else (op[2], op[1])
            return self.apply(["SetParents", c, "list", [["N", p]], op[3]])
        raise ValueError(k)

    def del_kid(self, p, names, nm):
        hit = [c for c in self.kid[p] if names[c] == nm]
        if len(hit) > 1:
            return False
        for c in hit:
            self.kid[p].remove(c)
            self.par[c].remove(p)
        return True

    def new(self, op):
        x = self.n
        self.par.append([])
        self.kid.append([])
        pa = op[2] or ["list", []]
        ca = op[3] or ["list", []]
        if not self.apply(["SetParents", x, pa[0], pa[1], op[4]]):
            return False
        return self.apply(["SetKids", x, ca[0], ca[1], op[5]])


def shadow_apply(sh, names, op):
    if op[0] == "DelKid":
        return sh.del_kid(op[1], names, op[2])
    if op[0] == "New":
        names.append(op[1])
        return sh.new(op)
    return sh.apply(op)


# ---------------------------------------------------------------------------------------------
# random histories

NAME_POOLS = {
    "distinct": ["a", "b", "c", "d", "e", "f", "g", "h", "i", "j", "k", "l"],
    "repeated": ["a", "b", "a", "c", "b", "a", "c", "b", "a", "c", "b", "a"],
    "allsame": ["a"] * 12,
    "falsy": ["", "0", "", "a", "0", "", "b", "", "0", "a", "", "0"],
}
SHAPES = ["deep", "upward", "diamond", "wide", "mixed"]


def eq_safe(before, after, names, faulty):
    """value-equality stratum: the unchanged library compares nodes with == in `in`, list.remove and
    dict.fromkeys; it is well-defined (and the identity-based model applies) as long as no node ever has
    two distinct ancestors that compare equal, and -- when a rollback runs -- the touched child lists hold
    no two distinct equal members either"""
    for v in range(after.n):
        an = [names[a] for a in after.anc(v)]
        if len(set(an)) != len(an):
            return False
    if faulty:
        for v in range(after.n):
            if v >= before.n or after.kid[v] != before.kid[v]:
                kn = [names[c] for c in after.kid[v]]
                if len(set(kn)) != len(kn):
                    return False
    return True


def _N(ids):
    return [["N", int(i)] for i in ids]


def gen_case(rng, prop, fault_rate=0.08, invalid_rate=0.2, nmax=8, maxops=16, minops=3, tail_invalid=0.0):
    shape = rng.choice(SHAPES)
    n = rng.randint(4, nmax) if shape in ("deep", "upward", "diamond") else rng.randint(2, nmax)
    kind = rng.choice(["auto"] * 4 + ["valeq", "falsy"])       # which DAGNode subclass the objects are
    pool_name = rng.choice(["distinct", "distinct", "repeated", "repeated", "allsame", "falsy"])
    if kind == "valeq":
        pool_name = rng.choice(["repeated", "repeated", "falsy", "distinct"])
    pool = NAME_POOLS[pool_name]
    off = rng.randrange(len(pool))
    names = [pool[(off + i) % len(pool)] for i in range(n)]
    n0 = n
    sh = Shadow(n)
    ops = []

    def fault():
        r = rng.random()
        return "post" if r < fault_rate * 0.6 else "pre" if r < fault_rate else "none"

    def push(op):
        if kind == "falsy" and op[0] == "DelKid":
            return False        # find_children / __delitem__ test `if node`: a falsy (leaf) child is never found
        if kind == "valeq":
            probe, nm = Shadow(par=sh.par, kid=sh.kid), list(names)
            st = _strip(op)
            shadow_apply(probe, nm, st)
            if not eq_safe(sh, probe, nm, st != list(op)):
                return False
        ops.append(op)
        shadow_apply(sh, names, op)
        return True

    # warm-up so that long paths / several parents exist early in the history
    order = list(range(n))
    rng.shuffle(order)
    if shape in ("deep", "upward"):
        pairs = list(zip(order, order[1:rng.randint(4, n)]))
        for a, b in (pairs if shape == "deep" else pairs[::-1]):      # top-down, or each new parent above the old root
            push(rng.choice([["RShift", a, b, "none"], ["LShift", b, a, "none"],
                             ["SetKids", a, "list", _N([b]), "none"], ["SetParents", b, "list", _N([a]), "none"]]))
    elif shape == "diamond":
        top, mids, bot = order[0], order[1:rng.randint(3, n - 1)], order[-1]
        push(["SetKids", top, rng.choice(["list", "tuple"]), _N(mids), "none"])
        push(["SetParents", bot, "list", _N(mids), "none"])
    elif shape == "wide" and n >= 3:
        push(["SetKids", order[0], "list", _N(order[1:rng.randint(2, min(n, 7))]), "none"])
    nops = len(ops) + rng.randint(minops, maxops - len(ops)) if maxops - len(ops) >= minops else maxops
    guard = 0
    while len(ops) < nops and guard < 400:
        guard += 1
        n = sh.n
        r = rng.random()
        invalid = rng.random() < invalid_rate
        tops = [x for x in range(n) if not sh.par[x] and sh.kid[x]]
        if tops and not invalid and rng.random() < 0.12:   # grow upwards / sideways: a new parent above an existing root
            r0 = rng.choice(tops)
            bad = sh.desc(r0) | {r0}
            cands = [x for x in range(n) if x not in bad]
            lone = [x for x in cands if not sh.par[x]] or cands
            if lone:
                p = rng.choice(lone)
                push(rng.choice([["RShift", p, r0, fault()], ["LShift", r0, p, fault()],
                                 ["SetParents", r0, "list", _N([p] + [x for x in lone if x != p][:1]), fault()],
                                 ["SetKids", p, rng.choice(["list", "gen"]), _N([r0]), fault()],
                                 ["New", pool[(off + n) % len(pool)], None, ["list", _N([r0])], fault(), fault()]]))
                continue
        if r < 0.27:                                       # c.parents = [...]
            c = rng.randrange(n)
            bad = sh.desc(c) | {c}
            cands = [x for x in range(n) if x not in bad]
            rng.shuffle(cands)
            args = _N(cands[: rng.randint(0, min(4, len(cands)))])
            cont = "list"
            if invalid:
                ch = rng.random()
                if ch < 0.12:
                    args.insert(rng.randint(0, len(args)), rng.choice([["Junk"], ["None"]]))
                elif ch < 0.27:
                    args.insert(rng.randint(0, len(args)), ["N", c])
                elif ch < 0.60 and sh.desc(c):
                    far = sorted(sh.desc(c) - set(sh.kid[c])) or sorted(sh.desc(c))
                    args.insert(rng.randint(0, len(args)), ["N", rng.choice(far)])
                elif ch < 0.90 and args:
                    dup = rng.choice(args)
                    args.insert(len(args) if rng.random() < 0.5 else rng.randint(0, len(args)), dup)
                else:
                    cont = rng.choice(["tuple", "view", "noniter", "set", "gen"])
                    if cont in ("set", "noniter"):
                        args = args[:1] if cont == "set" else []
            push(["SetParents", c, cont, args, fault()])
            if cont == "list" and args and rng.random() < 0.25:       # the same list object once more
                t2 = rng.choice([x for x in range(n) if x != c] or [c])
                k2 = rng.choice(["SetParents"] * 4 + ["SetKids"])
                if invalid_rate > 0 or (sh.parents_valid if k2 == "SetParents" else sh.children_valid)(t2, "list", args):
                    push([k2, t2, "list", args, fault(), "reuse"])
        elif r < 0.54:                                     # p.children = ...
            p = rng.randrange(n)
            bad = sh.anc(p) | {p}
            cands = [x for x in range(n) if x not in bad]
            rng.shuffle(cands)
            args = _N(cands[: rng.randint(0, min(4, len(cands)))])
            cont = rng.choice(["list", "list", "tuple", "view", "gen"])
            if len(args) <= 1 and rng.random() < 0.15:
                cont = "set"
            if invalid:
                if cont == "set":
                    cont = "list"
                ch = rng.random()
                if ch < 0.12:
                    args.insert(rng.randint(0, len(args)), rng.choice([["Junk"], ["None"]]))
                elif ch < 0.27:
                    args.insert(rng.randint(0, len(args)), ["N", p])
                elif ch < 0.60 and sh.anc(p):
                    far = sorted(sh.anc(p) - set(sh.par[p])) or sorted(sh.anc(p))
                    args.insert(rng.randint(0, len(args)), ["N", rng.choice(far)])
                elif ch < 0.92 and args:
                    dup = rng.choice(args)
                    args.insert(len(args) if rng.random() < 0.5 else rng.randint(0, len(args)), dup)
                else:
                    cont, args = "noniter", []
            push(["SetKids", p, cont, args, fault()])
            if cont == "list" and args and rng.random() < 0.25:       # the same list object once more
                t2 = rng.choice([x for x in range(n) if x != p] or [p])
                k2 = rng.choice(["SetKids"] * 4 + ["SetParents"])
                if invalid_rate > 0 or (sh.parents_valid if k2 == "SetParents" else sh.children_valid)(t2, "list", args):
                    push([k2, t2, "list", args, fault(), "reuse"])
        elif r < 0.68:                                     # p >> c, c << p
            c = rng.randrange(n)
            bad = sh.desc(c) | {c}
            cands = [x for x in range(n) if (x in bad) == invalid]
            if not cands:
                continue
            p = rng.choice(cands)
            push(["RShift", p, c, fault()] if rng.random() < 0.5 else ["LShift", c, p, fault()])
        elif r < 0.75:                                     # del p.children
            withkids = [x for x in range(n) if sh.kid[x]]
            push(["DelKids", rng.choice(withkids) if withkids and rng.random() < 0.8 else rng.randrange(n)])
        elif r < 0.86:                                     # del p[name]
            withkids = [x for x in range(n) if sh.kid[x]]
            p = rng.choice(withkids) if withkids and rng.random() < 0.85 else rng.randrange(n)
            nm = names[rng.choice(sh.kid[p])] if sh.kid[p] and rng.random() < 0.85 else rng.choice(pool)
            push(["DelKid", p, nm])
        elif n < nmax + 2:                                 # DAGNode(name, parents=..., children=...)
            ps = rng.sample(range(n), rng.randint(0, min(3, n)))
            banned = set(ps)
            for q in ps:
                banned |= sh.anc(q)
            cs_pool = [x for x in range(n) if x not in banned]
            cs = rng.sample(cs_pool, rng.randint(0, min(3, len(cs_pool))))
            pa = None if (not ps and rng.random() < 0.5) else ["list", _N(ps)]
            ca = None if (not cs and rng.random() < 0.5) else [rng.choice(["list", "tuple", "gen"]), _N(cs)]
            if invalid and ps:
                ch = rng.random()
                if ch < 0.5:
                    ca = ["list", (ca[1] if ca else []) + [["N", rng.choice(sorted(banned))]]]
                elif ch < 0.7:
                    pa = ["list", pa[1] + [pa[1][0]]]
                elif ch < 0.85:
                    pa = ["tuple", pa[1]]
                else:
                    ca = ["list", (ca[1] if ca else []) + [["Junk"]]]
            push(["New", pool[(off + n) % len(pool)], pa, ca, fault(), fault()])
            if pa and pa[0] == "list" and pa[1] and rng.random() < 0.3 and sh.n < nmax + 2:
                push(["New", pool[(off + n + 1) % len(pool)], pa, None, fault(), fault(), "reuse"])
    if rng.random() < tail_invalid:
        # C20: an assignment with a None / non-node / falsy member as the last op.  The unchanged checks refuse it
        # (then the comparison ends there); if the checks-on interpreter accepts it, checks-off has to as well.
        n = sh.n
        t = rng.randrange(n)
        setter = rng.choice(["SetParents", "SetKids"])
        bad = (sh.desc(t) if setter == "SetParents" else sh.anc(t)) | {t}
        cands = [x for x in range(n) if x not in bad]
        rng.shuffle(cands)
        args = _N(cands[: rng.randint(0, min(3, len(cands)))])
        clean = [setter, t, "list", list(args), "none"]
        args.insert(rng.randint(0, len(args)), rng.choice([["None"], ["None"], ["Junk"]]))
        probe, nm = Shadow(par=sh.par, kid=sh.kid), list(names)
        shadow_apply(probe, nm, clean)
        # (value equality: with the checks off the members are linked before the junk member is reached, and
        # the rollback runs -- the attempted links have to stay inside the well-defined domain as well)
        if kind != "valeq" or eq_safe(sh, probe, nm, True):
            push([setter, t, "list", args, "none"])
    case = {"assert": True, "n": n0, "names": names[:n0], "ops": ops, "stratum": f"{shape}/{pool_name}"}
    if kind != "auto":
        case["cls"] = kind
        case["stratum"] += "/" + kind
    if len(ops) >= 2 and rng.random() < 0.2:
        # harness-only: before op k, object x (and its whole component) is replaced by node.copy()
        case["copy_at"] = [[rng.randint(1, len(ops) - 1), rng.randrange(n0)]]
    return case


# ---------------------------------------------------------------------------------------------
# small-scope exhaustive tier: every DAG state reachable on <= 4 objects (up to renaming of the
# objects) x every operation of a finite universe, covered by walks through the transition graph

BFS_NAMES = ["a", "b", "c", "d"]
WALK_LEN = 28


def _relabel_state(key, pi):
    par, kid = key
    n = len(par)
    inv = [0] * n
    for i, j in enumerate(pi):
        inv[j] = i
    return (tuple(tuple(pi[p] for p in par[inv[x]]) for x in range(n)),
            tuple(tuple(pi[c] for c in kid[inv[x]]) for x in range(n)))


_CANON = {}


def canonize(key):
    """(canonical labelled state, pi) with key = relabel(canon, pi)"""
    r = _CANON.get(key)
    if r is None:
        n = len(key[0])
        best = None
        for sigma in itertools.permutations(range(n)):
            k2 = _relabel_state(key, sigma)
            if best is None or k2 < best[0]:
                best = (k2, sigma)
        sigma = best[1]
        pi = [0] * n
        for i, j in enumerate(sigma):
            pi[j] = i
        r = _CANON[key] = (best[0], tuple(pi))
    return r


def _relabel_op(op, pi, names=None):
    names = names or BFS_NAMES
    def ra(args):
        return [["N", pi[a[1]]] if a[0] == "N" else a for a in args]
    k = op[0]
    if k in ("SetParents", "SetKids"):
        return [k, pi[op[1]], op[2], ra(op[3]), op[4]]
    if k == "DelKids":
        return [k, pi[op[1]]]
    if k == "DelKidOf":                       # abstract: delete by the name of object op[2]
        return ["DelKid", pi[op[1]], names[pi[op[2]]]]
    if k in ("RShift", "LShift"):
        return [k, pi[op[1]], pi[op[2]], op[3]]
    if k == "New":
        return [k, op[1], None if op[2] is None else [op[2][0], ra(op[2][1])],
                None if op[3] is None else [op[3][0], ra(op[3][1])], op[4], op[5]]
    raise ValueError(k)


def op_universe(key, n, valid_only=False, names=None, slim=False):
    """every operation tried from the (canonical) state `key` on n objects (slim: member sequences of
    length <= 2 and no failing hooks -- used for the second pass in which all objects carry one name)"""
    names = names or BFS_NAMES
    valid_only_or_slim = slim      # failing hooks are part of the C20 universe too (they are no check)
    sh = Shadow(par=key[0], kid=key[1])
    seqs = [list(s) for k in range(0, 3 if slim else 4) for s in itertools.product(range(n), repeat=k)]
    out = []
    for t in range(n):
        for kind, ok in (("SetParents", sh.parents_valid), ("SetKids", sh.children_valid)):
            for s in seqs:
                v = ok(t, "list", _N(s))
                if v or not valid_only:
                    out.append([kind, t, "list", _N(s), "none"])
                if v and not valid_only_or_slim:
                    out.append([kind, t, "list", _N(s), "pre"])
                    out.append([kind, t, "list", _N(s), "post"])
            others = [x for x in range(n) if x != t]
            if kind == "SetKids":
                for cont in ("tuple", "view", "gen"):
                    for s in ([], others[:1], others[:2], others[:3][::-1]):
                        if ok(t, cont, _N(s)) or not valid_only:
                            out.append([kind, t, cont, _N(s), "none"])
            if not valid_only:
                out.append([kind, t, "tuple", _N(others[:1]), "none"])
                out.append([kind, t, "gen", _N(others[:2]), "none"])
                if kind == "SetKids":
                    out.append([kind, t, "gen", _N(others[:2]), "post"])
                    out.append([kind, t, "gen", _N(others[:2] + others[:1]), "none"])
                out.append([kind, t, "noniter", [], "none"])
                out.append([kind, t, "list", _N(others[:1]) + [["Junk"]], "none"])
                out.append([kind, t, "list", [["None"]] + _N(others[:1]), "none"])
    for p in range(n):
        out.append(["DelKids", p])
        for k in range(n):
            out.append(["DelKidOf", p, k])
        for c in range(n):
            v = sh.parents_valid(c, "list", _N([p]))
            for kind in ("RShift", "LShift"):
                a, b = (p, c) if kind == "RShift" else (c, p)
                if v or not valid_only:
                    out.append([kind, a, b, "none"])
                if v and not valid_only_or_slim:
                    out.append([kind, a, b, "pre"])
                    out.append([kind, a, b, "post"])
    if n < 4:
        short = [None] + [["list", _N(s)] for s in seqs if len(s) <= 2]
        for pa in short:
            for ca in short:
                probe = Shadow(par=key[0], kid=key[1])
                okp = probe.new(["New", "d", pa, None, "none", "none"])
                probe2 = Shadow(par=key[0], kid=key[1])
                okall = probe2.new(["New", "d", pa, ca, "none", "none"])
                if okall or not valid_only:
                    out.append(["New", (names + BFS_NAMES)[n], pa, ca, "none", "none"])
                if valid_only_or_slim:
                    continue
                if okp:
                    out.append(["New", (names + BFS_NAMES)[n], pa, ca, "pre", "none"])
                    out.append(["New", (names + BFS_NAMES)[n], pa, ca, "post", "none"])
                if okall:
                    out.append(["New", (names + BFS_NAMES)[n], pa, ca, "none", "pre"])
                    out.append(["New", (names + BFS_NAMES)[n], pa, ca, "none", "post"])
    return out


def _expand(key, n, names=None):
    names = names or BFS_NAMES
    """accepted structural moves used to discover the reachable states (labelled)"""
    sh0 = Shadow(par=key[0], kid=key[1])
    for t in range(n):
        for kind, ok in (("SetParents", sh0.parents_valid), ("SetKids", sh0.children_valid)):
            for k in range(1, n):
                for s in itertools.permutations([x for x in range(n) if x != t], k):
                    if ok(t, "list", _N(s)):
                        yield [kind, t, "list", _N(s), "none"]
        if sh0.kid[t]:
            yield ["DelKids", t]
            for c in sh0.kid[t]:
                yield ["DelKid", t, names[c]]


def enumerate_cases(n, valid_only=False, same_names=False):
    names = (["a"] * n) if same_names else BFS_NAMES[:n]
    init = Shadow(n).key()
    pred = {init: None}
    order = [init]
    q = deque([init])
    while q:
        s = q.popleft()
        for op in _expand(s, n, names):
            sh = Shadow(par=s[0], kid=s[1])
            shadow_apply(sh, list(names), op)
            t = sh.key()
            if t not in pred:
                pred[t] = (s, op)
                order.append(t)
                q.append(t)

    def history(key):
        h = []
        while pred[key] is not None:
            key, op = pred[key][0], pred[key][1]
            h.append(op)
        return h[::-1]

    classes = []
    todo = {}
    for s in order:
        c = canonize(s)[0]
        if c not in todo:
            todo[c] = deque(op_universe(c, n, valid_only, names, slim=same_names))
            classes.append(c)
    for c in classes:
        while todo[c]:
            ops = history(c)
            cur = Shadow(par=c[0], kid=c[1])
            nm = list(names)
            while len(ops) < WALK_LEN and cur.n == n:
                cc, pi = canonize(cur.key())
                if not todo.get(cc):
                    break
                op = _relabel_op(todo[cc].popleft(), pi, names)
                ops.append(op)
                shadow_apply(cur, nm, op)
            yield {"assert": True, "n": n, "names": list(names), "ops": ops,
                   "stratum": f"bfs{n}" + ("-samenames" if same_names else "")}


# ---------------------------------------------------------------------------------------------


def _strip(op):
    """the same call with hooks that do not raise"""
    o = list(op)
    if o[0] in ("SetParents", "SetKids"):
        o[4] = "none"
    elif o[0] in ("RShift", "LShift"):
        o[3] = "none"
    elif o[0] == "New":
        o[4] = o[5] = "none"
    return o


def corpus(prop):
    N = _N
    faulty = prop != "C20"
    out = [
        ("cycle-len3-children", {"n": 4, "names": ["a", "b", "c", "d"], "ops": [
            ["RShift", 0, 1, "none"], ["RShift", 1, 2, "none"], ["RShift", 2, 3, "none"],
            ["SetKids", 3, "list", N([0]), "none"]]}),
        ("cycle-len3-parents", {"n": 4, "names": ["a", "b", "c", "d"], "ops": [
            ["SetKids", 0, "list", N([1]), "none"], ["SetKids", 1, "tuple", N([2]), "none"], ["LShift", 3, 2, "none"],
            ["SetParents", 0, "list", N([3]), "none"]]}),
        ("dup-last", {"n": 4, "names": ["a", "b", "c", "d"], "ops": [
            ["SetParents", 3, "list", N([0, 1, 0]), "none"], ["SetParents", 3, "list", N([0, 1, 1]), "none"],
            ["SetKids", 0, "list", N([1, 2, 2]), "none"], ["SetKids", 0, "list", N([1, 2, 1]), "none"]]}),
        ("rollback-many", {"n": 5, "names": ["a", "b", "c", "d", "e"], "ops": [
            ["SetParents", 4, "list", N([1]), "none"], ["SetParents", 4, "list", N([0, 1, 2, 3]), "post"],
            ["SetKids", 0, "list", N([2]), "none"], ["SetKids", 0, "list", N([1, 2, 3, 4]), "post"],
            ["SetKids", 0, "list", N([1, 2, 3, 4]), "pre"]]}),
        ("delete", {"n": 4, "names": ["a", "b", "a", "c"], "ops": [
            ["SetKids", 3, "list", N([0, 1, 2]), "none"], ["RShift", 1, 2, "none"], ["DelKid", 3, "a"],
            ["DelKid", 3, "b"], ["DelKid", 3, "zz"], ["DelKids", 1], ["DelKids", 3]]}),
        # F8 (fixed 0f7c8ab): a one-shot iterator was consumed by the loop check -- accepted with the checks on
        # but no child added; with the checks off the children were added
        ("F8-generator-children", {"n": 4, "names": ["a", "b", "c", "d"], "ops": [
            ["SetKids", 0, "gen", N([1, 2]), "none"], ["SetKids", 1, "gen", N([3]), "none"],
            ["New", "e", None, ["gen", N([0, 3])], "none", "none"], ["SetKids", 3, "gen", N([]), "none"]]}),
        ("generator-rollback", {"n": 4, "names": ["a", "b", "c", "d"], "ops": [
            ["SetKids", 0, "list", N([1]), "none"], ["SetKids", 0, "gen", N([1, 2, 3]), "post"],
            ["SetKids", 0, "gen", N([2, 0]), "none"], ["SetParents", 3, "gen", N([0]), "none"],
            ["SetKids", 0, "noniter", [], "none"]]}),
        # seeded C10/patch4: the parents setter adopted the caller's list object (missing copy)
        ("shared-list-parents", {"n": 5, "names": ["a", "b", "c", "d", "e"], "ops": [
            ["SetParents", 2, "list", N([0, 1]), "none"], ["SetParents", 3, "list", N([0, 1]), "none", "reuse"],
            ["RShift", 4, 2, "none"], ["New", "x", ["list", N([0])], None, "none", "none"],
            ["New", "y", ["list", N([0])], None, "none", "none", "reuse"], ["LShift", 5, 1, "none"]]}),
        ("shared-list-children", {"n": 5, "names": ["a", "b", "c", "d", "e"], "ops": [
            ["SetKids", 0, "list", N([2, 3]), "none"], ["SetKids", 1, "list", N([2, 3]), "none", "reuse"],
            ["RShift", 0, 4, "none"], ["SetParents", 4, "list", N([2, 3]), "none"], ["SetKids", 1, "list", N([4]), "none"]]}),
        ("copy-and-continue", {"n": 5, "names": ["a", "b", "a", "c", "b"], "copy_at": [[2, 1], [4, 0]], "ops": [
            ["SetKids", 0, "list", N([1, 2]), "none"], ["SetParents", 3, "list", N([1, 2]), "none"],
            ["RShift", 3, 4, "none"], ["SetKids", 4, "list", N([0]), "none"], ["DelKid", 0, "a"],
            ["SetParents", 4, "list", N([0, 1]), "post"], ["DelKids", 0]]}),
        # wave 5: user subclass with value equality -- two distinct but equal children of one parent
        ("valeq-equal-children", {"n": 6, "names": ["a", "c", "c", "d", "e", "e"], "cls": "valeq", "ops": [
            ["SetKids", 0, "list", N([1, 3, 2]), "none"], ["SetKids", 3, "list", N([4]), "none"],
            ["SetKids", 3, "list", N([5]), "none"], ["New", "g", None, ["list", N([4, 5])], "none", "none"],
            ["DelKids", 0], ["SetKids", 0, "tuple", N([2, 1]), "none"]]}),
        ("falsy-subclass", {"n": 5, "names": ["a", "b", "c", "d", "e"], "cls": "falsy", "ops": [
            ["SetKids", 0, "list", N([1, 2]), "none"], ["SetParents", 3, "list", N([1, 2]), "none"],
            ["RShift", 3, 4, "none"], ["SetKids", 4, "list", N([0]), "none"], ["SetParents", 4, "list", N([0]), "post"],
            ["DelKids", 1]]}),
        # wave 5: ancestors memoised while the checks read them, new parent put above the old root afterwards
        ("upward-growth", {"n": 6, "names": ["a", "b", "c", "d", "e", "f"], "ops": [
            ["RShift", 0, 1, "none"], ["RShift", 1, 2, "none"], ["SetKids", 2, "list", N([3]), "none"],
            ["RShift", 4, 0, "none"], ["SetKids", 3, "list", N([5]), "none"], ["SetParents", 0, "list", N([5]), "none"],
            ["SetKids", 5, "gen", N([4]), "none"]]}),
        # wave 5: a check that normalises its argument (None entries dropped from the caller's list)
        ("none-member-last", {"n": 5, "names": ["a", "b", "c", "d", "e"], "keep_last": True, "ops": [
            ["SetParents", 1, "list", N([0]), "none"], ["SetParents", 3, "list", [["N", 0], ["None"], ["N", 2]], "none"]]}),
        ("constructor", {"n": 3, "names": ["a", "b", "c"], "ops": [
            ["RShift", 0, 1, "none"], ["New", "d", ["list", N([1])], ["list", N([2])], "none", "none"],
            ["New", "e", ["list", N([3])], ["list", N([0])], "none", "none"],
            ["New", "f", ["list", N([2])], None, "post", "none"],
            ["New", "g", ["list", N([2])], ["tuple", N([0])], "none", "post"], ["New", "h", None, None, "none", "none"]]}),
    ]
    res = []
    for label, c in out:
        if not faulty:      # C20: keep failing hooks, drop what the checks refuse
            sh, nm, ops = Shadow(c["n"]), list(c["names"]), []
            for j, o in enumerate(c["ops"]):
                probe = Shadow(par=sh.par, kid=sh.kid)
                if shadow_apply(probe, list(nm), _strip(o)) or (j == len(c["ops"]) - 1 and c.get("keep_last")):
                    ops.append(o)
                    shadow_apply(sh, nm, o)
            c = dict(c, ops=ops)
        c = dict(c)
        c["assert"] = True
        c["stratum"] = "corpus"
        res.append((label, c))
    return res


def generate(prop, rng, tier):
    count = {"quick": 1500, "thorough": 15000, "search": 4500}[tier]
    if prop == "C20":          # two traces and two interpreters per case
        count = count * 2 // 5
    fr = {"C10": 0.08, "C02": 0.4, "C20": 0.15}[prop]     # C20: failing user hooks yes, check-refused ops no
    ir = {"C10": 0.22, "C02": 0.25, "C20": 0.0}[prop]
    if tier == "thorough":
        for n in (1, 2, 3, 4):
            for c in enumerate_cases(n, valid_only=(prop == "C20")):
                yield c["stratum"], c
        for n in (2, 3, 4):            # once more with all objects carrying the same name
            for c in enumerate_cases(n, valid_only=(prop == "C20"), same_names=True):
                yield c["stratum"], c
        for i in range(1500):          # long histories
            c = gen_case(rng, prop, fault_rate=fr, invalid_rate=ir, maxops=60, minops=30)
            c["stratum"] = "long/" + c["stratum"]
            yield c["stratum"], c
    for i in range(count):
        c = gen_case(rng, prop, fault_rate=fr, invalid_rate=ir, tail_invalid=(0.25 if prop == "C20" else 0.0))
        if prop == "C20" and c["ops"] and c["ops"][-1][-1] != "reuse" and rng.random() < 0.15:
            # refused in both modes (checks on: __check_children_type, checks off: list() itself), nothing changes
            c["ops"].append(["SetKids", rng.randrange(c["n"]), "noniter", [], "none"])
        yield c["stratum"], c


def shrink_candidates(prop, case):
    ops = case["ops"]

    def with_ops(new):
        c = dict(case)
        c["ops"] = new
        return c

    for k in range(len(ops) - 1, 0, -1):
        yield with_ops(ops[:k])
    for k in range(len(ops)):
        if ops[k][0] != "New":
            yield with_ops(ops[:k] + ops[k + 1:])
    for k, o in enumerate(ops):
        if o[0] in ("RShift", "LShift") and o[3] != "none":
            yield with_ops(ops[:k] + [o[:3] + ["none"]] + ops[k + 1:])
        if o[0] in ("SetParents", "SetKids"):
            if o[4] != "none":
                yield with_ops(ops[:k] + [o[:4] + ["none"]] + ops[k + 1:])
            for j in range(len(o[3])):
                yield with_ops(ops[:k] + [[o[0], o[1], o[2], o[3][:j] + o[3][j + 1:], o[4]]] + ops[k + 1:])


def size(case):
    def sz(o):
        if o[0] in ("SetParents", "SetKids"):
            return 1 + len(o[3])
        if o[0] == "New":
            return 1 + sum(len(a[1]) for a in (o[2], o[3]) if a)
        return 1
    return sum(sz(o) for o in case["ops"])


def nontrivial(prop, case, obs):
    tr = obs["trace"]
    acc = sum(1 for l, code in tr if code == 0)
    rej = len(tr) - acc
    edges = max((sum(len(ps) for ps, cs in l) for l, code in tr), default=0)
    if prop == "C02":
        return acc >= 1 and rej >= 1 and edges >= 2
    if prop == "C20":
        return acc >= 2 and edges >= 2 and len(obs.get("off", [])) == len(tr)
    return acc >= 2 and edges >= 2


def sample(prop, case, obs):
    return {"n": case["n"], "names": case["names"], "ops": case["ops"],
            "outcomes": [code for _, code in obs["trace"]],
            "final_links": obs["trace"][-1][0] if obs["trace"] else [], "ancestors": obs["anc"]}


def rule(prop):
    extra = {"C10": "", "C02": " (C02: additionally >= 1 rejected/failing op; ~40 % of the assignments carry a failing hook)",
             "C20": " (C20: no op that the checks refuse, ~15 % of the assignments with a failing pre/post hook; every history is run in-process with the checks on and in a child "
                    "interpreter started with BIGTREE_CONF_ASSERTIONS=\"\"; besides the per-step links a battery of read-only "
                    "calls on the final DAG -- ancestors, descendants, siblings, is_root/is_leaf, attributes, go_to incl. n.go_to(n), "
                    "dag_iterator, dag_to_list/dict/dataframe, copy(), iteration/containment -- is compared between the two "
                    "interpreters by digest)"}[prop]
    return ("random operation histories (<= 16 ops, thorough also 30-60 ops; 2-10 DAGNode objects created by the constructor or from_dict, "
            "with an attribute: parents/children setters with list/tuple/set/view/generator/non-iterable arguments, members incl. None, "
            "a non-node object and a bigtree Node; >>, <<, del children, del node[name] incl. ambiguous and empty names, constructor with "
            "parents=/children= incl. a failing second phase) on a DAGNode subclass with fault-injecting hooks that read "
            "parents/children/siblings/is_root/is_leaf of every node and set an attribute before raising (and in ~2/3 of the passing hook "
            "calls), or on a hook-free subclass when no fault is injected; every list argument is checked to be left unchanged by the call, "
            "then changed by the caller (append/clear), ~25 % of the list assignments are followed by a second one passing the very same "
            "list object; in ~20 % of the histories one object's component is replaced by node.copy() half-way and the history continues "
            "on the copies (originals must stay unchanged); after every op the links are read twice through the public getters and the "
            "private lists, then ancestors/descendants/siblings/describe of every node are queried and the links read again; "
            "after every op ancestors of a varying few objects are compared with the model (and, C20, their derived queries and the caller's "
            "argument lists across the two interpreters); strata: shape (deep/upward/diamond/wide/mixed, plus ops that put a new parent above "
            "an existing root) x name pool (distinct/repeated/all equal/falsy names) x node class (plain / hooks / value-equality subclass / "
            "subclass with falsy instances); thorough tier adds every DAG state "
            "reachable on <= 4 objects (up to renaming) x every op of a finite universe, a second such pass with all names equal; "
            "non-trivial = >= 2 accepted ops and >= 2 edges at some point" + extra + "; distinct by canonical JSON hash")


def explain(prop, case, obs, flags):
    from ._base import explain as base
    text = base(prop, case, obs, flags)
    if not isinstance(obs, dict) or "trace" not in obs:
        return text
    # hint only (the verdict comes from Coq): first step that deviates from the documented behaviour
    sh, names = Shadow(case["n"]), list(case["names"])
    for k, (op, (links, code)) in enumerate(zip(case["ops"], obs["trace"])):
        before = [[list(ps), list(cs)] for ps, cs in zip(sh.par, sh.kid)]
        ok = shadow_apply(sh, names, op)
        want = [[list(ps), list(cs)] for ps, cs in zip(sh.par, sh.kid)]
        if ok != (code == 0) or want != links:
            return (text + f"; first deviating step: #{k} {op}: expected {'accepted' if ok else 'refused'} with links {want}, "
                    f"observed code {code} with links {links} (links before: {before})")
    if "off" in obs:
        for k, ((l1, c1), (l2, c2)) in enumerate(zip(obs["trace"], obs["off"])):
            if c1 == 0 and (c2 != 0 or l1 != l2):
                return text + f"; step #{k} {case['ops'][k]}: checks on -> {l1}, checks off -> code {c2}, {l2}"
    return text


def trusted_base(prop):
    tb = COMMON_TB + ["fault injection through the documented _DAGNode__pre/post_assign_parents/_children extension points"]
    if prop == "C20":
        tb.append("the checks are switched off through BIGTREE_CONF_ASSERTIONS=\"\" in a child interpreter (harness/noassert.py)")
    return tb


def partial_clauses(prop):
    """deliberately accepted blind spots of this correspondence (the theorems themselves have no open clause)"""
    out = [
        "exceptions are compared as accepted/refused only (the class - TypeError/LoopError/TreeError/SearchError/raw hook error - is not)",
        "with the checks off, arguments the checks would refuse (non-node / repeated members, loops, non-list parents) are outside the "
        "modelled domain (Unmodelled -> case skipped; none are generated: 0 skipped cases per run); a one-shot iterator passed to the "
        "PARENTS setter with the checks off is consumed by the assignment loop, so a failing post hook rolls nothing back (not valid with the checks on)",
        "node.ancestors is compared with the model as a set and only at the end of the history (its order is C16's); descendants/siblings/go_to "
        "results are exercised after every op but compared only across the two interpreters (C20), not against a model",
        "not generated: Python sets with > 1 member (hash order), a DAGNode used as the iterable (`p.children = q`), the `parent=` keyword of the "
        "constructor, hooks that change links or their list argument, node names that are not str",
        "value-equality subclass (__eq__/__hash__ by name): only histories in which no node ever gets two distinct ancestors that compare equal "
        "and, when a rollback runs, the touched child lists hold no two distinct equal members -- outside that domain the unchanged library "
        "(`in`, list.remove, dict.fromkeys on nodes) accepts a cycle, drops an edge silently or leaves a failed assignment in place",
        "subclass with falsy instances (__len__): `del node[name]` is not generated -- find_children/__delitem__ test `if node` and never find a "
        "falsy (leaf) child",
    ]
    if prop == "C20":
        out.append("the C20 battery runs on the final DAG only and is compared by digest between the interpreters; workflows/plot calls are not in it")
    return out


def assumptions(prop):
    return ["objects are compared by identity (DAGNode defines neither __eq__ nor __hash__); arguments are lists, tuples, "
            "sets with <= 1 element, dict views, generators or non-iterables",
            "a constructor call that raises in its children assignment leaves the accepted parents assignment in place "
            "(two assignments; modelled and checked assignment by assignment)"]
